/-
C13 — small-scope exhaustive tie for the extraction functions: `NV.Gen.C13.xTable` records what the REAL cmd_in_buf,
first_cmd_in_buf and next_cmd_in_buf (src/comm.c, harness command `xprobe`) do on every buffer over {NUL, 'a'} of
length ≤ 5, every `text_start ≤ text_end ≤ L` (stale bytes behind text_end included), in line mode and SINGLE_CHAR
(2046 configurations).  `x_table_tie`: the model's `cmdInBuf` / `firstCmd` / `cstrAt` / `nextCmd` give the same flag,
returned offset, indices, buffer content and command for every row; `x_table_complete`: the rows are exactly that
enumeration.  A changed comparison, loop bound or statement order in these functions changes a row.
(The cut branch of first_cmd_in_buf needs a full 2 KiB buffer and is outside this scope: `cutMargin` + correspondence.)
-/
import NV.C13.Model

namespace NV.C13

open NV.Gen.C13

def xDigit : Nat → Byte
  | 0 => 0
  | 1 => 97
  | 2 => 0xA5
  | _ => 0xFF

def xDecode (code : Nat) : Nat → List Byte
  | 0 => []
  | n + 1 => xDigit (code % 4) :: xDecode (code / 4) n

def xCode (b : Byte) : Nat := if b = 0 then 0 else if b = 97 then 1 else if b = 0xA5 then 2 else 3

/-- the probe's buffer: L bytes from `bits`, one NUL, 0xA5 behind (16 bytes are enough: nothing further is touched) -/
def xText (L bits : Nat) : List Byte :=
  (List.range L).map (fun i => if bits.testBit i then 97 else 0) ++ [0] ++ List.replicate (15 - L) 0xA5

def xState (single L bits st en : Nat) : S :=
  { port := .telnet, text := xText L bits, tstart := st, tend := en,
    dec := { Dec.init with fl := { single := single != 0 } } }

/-- the bit fields of a row -/
def xFields (code : Nat) : List Nat :=
  let rec go (c : Nat) : List Nat → List Nat
    | [] => []
    | w :: ws => c % 2 ^ w :: go (c / 2 ^ w) ws
  go code [1, 3, 5, 3, 3, 1, 3, 3, 3, 16, 3, 3, 3, 16]

def xRowOk (code : Nat) : Bool :=
  match xFields code with
  | [single, L, bits, st, en, cib, ret1, s1, e1, t1, n, s2, e2, t2] =>
    let s := xState single L bits st en
    (match cmdInBuf s with
     | .ok c => c == (cib != 0)
     | .error _ => false) &&
    (match firstCmd s with
     | .error _ => false
     | .ok (a, r) =>
       a.tstart == s1 && a.tend == e1 && (a.text.take 8).map xCode == (xDecode t1 8).map xCode &&
       (match r with
        | none => ret1 == 0
        | some i =>
          ret1 == i + 1 &&
          (match cstrAt a.text i with
           | .ok c => c == List.replicate n 97
           | .error _ => false) &&
          (match nextCmd a with
           | .ok b => b.tstart == s2 && b.tend == e2 && (b.text.take 8).map xCode == (xDecode t2 8).map xCode
           | .error _ => false)))
  | _ => false

/-- the enumeration of the probe -/
def xConfigs : List (List Nat) :=
  [0, 1].flatMap fun single => (List.range 6).flatMap fun L => (List.range (2 ^ L)).flatMap fun bits =>
    (List.range (L + 1)).flatMap fun en => (List.range (en + 1)).map fun st => [single, L, bits, st, en]

/-- the model's cmd_in_buf / first_cmd_in_buf / next_cmd_in_buf agree with the real ones on every small buffer -/
theorem x_table_tie : xTable.all xRowOk = true := by decide +kernel

/-- and the table is the complete enumeration (every content, every index pair, both modes) -/
theorem x_table_complete : xTable.map (fun c => (xFields c).take 5) = xConfigs := by decide +kernel

end NV.C13
