/-
C13 — the transition table of copy_chars as a tie between the source and the model.

`NV.Gen.C13.ccTable` is regenerated on every run by executing the REAL `copy_chars` (src/comm.c, included textually in
harness/c13/c13.c, command `ccprobe`) on every byte value 0..255 in every decoder configuration of
`props/c13.py: cc_configs` (all 16 values of `state & TS_STATE_MASK` × TS_CR_SEEN × SINGLE_CHAR; the sub-negotiation
states also at `sb_pos = SB_SIZE-1` and `SB_SIZE`; TS_SB_IAC also with every kind of payload the `IAC SE` handler
distinguishes).  Rows are (byte range → state, sb_pos, iflags, lm mode, stored bytes, reply bytes, sb_buf changes,
callbacks).

`cc_table_tie` evaluates the model's `ccByte` on the same configuration for every byte of every row and compares all
eight components; `cc_table_total` says the rows of every configuration partition 0..255.  A changed `case`, constant,
comparison or assignment inside copy_chars changes a row and breaks the obligation (the check then searches for a
failing input through the correspondence as usual - the model itself does not depend on the table).
-/
import NV.C13.Model

namespace NV.C13

open NV.Gen.C13

/-- the decoder state the probe sets up -/
def cfgDec (c : CcCfg) : Dec :=
  let pre := (c.sbPre.map u8 ++ List.replicate (c.sbPos - c.sbPre.length) (u8 c.sbFill)).take c.sbPos
  { ts := c.ts, cr := c.cr != 0, fl := { single := c.single != 0 }, sbPos := c.sbPos,
    sbBuf := pre ++ List.replicate (sbBufSize - pre.length) 0, lmMode := u8 modeACK }

/-- 256 stands for the input byte -/
def symB (b : Byte) (x : Nat) : Byte := if x = 256 then b else u8 x

def applyDiffs (b : Byte) : List Byte → List (Nat × Nat) → List Byte
  | buf, [] => buf
  | buf, (i, v) :: r => applyDiffs b (buf.set i (symB b v)) r

def cbOf : Nat × List Nat → Ev
  | (0, a) => .cbTtype (a.map u8)
  | (1, a) => .cbSubopt (a.map u8)
  | (_, a) => .cbNaws (a.getD 0 0) (a.getD 1 0)

/-- the model's step on byte `b` in configuration `c` is what row `r` says -/
def rowOkAt (c : CcCfg) (r : CcRow) (b : Byte) : Bool :=
  match ccByte (cfgDec c) b with
  | .error _ => false
  | .ok res =>
    res.d.stateNat == r.st && res.d.sbPos == r.sbPos && res.d.fl.toNat == r.fl && res.d.lmMode.toNat == r.lm &&
    res.out == r.out.map (symB b) && res.tx == r.tx.map (symB b) &&
    res.d.sbBuf == applyDiffs b (cfgDec c).sbBuf r.sbd && res.cbs == r.cbs.map cbOf

def rowOk (c : CcCfg) (r : CcRow) : Bool :=
  (List.range (r.hi + 1 - r.lo)).all (fun i => rowOkAt c r (u8 (r.lo + i)))

/-- the rows are consecutive byte ranges starting at `next` and ending at 255 -/
def rowsCover : Nat → List CcRow → Bool
  | next, [] => next == 256
  | next, r :: rest => r.lo == next && r.lo ≤ r.hi && rowsCover (r.hi + 1) rest

def cfgOk (c : CcCfg) : Bool := rowsCover 0 c.rows && c.rows.all (rowOk c)

def tableOk (t : List CcCfg) : Bool := t.all cfgOk

/-- every value of `state & TS_STATE_MASK`, with and without TS_CR_SEEN / SINGLE_CHAR, is in the table -/
def tableStates (t : List CcCfg) : Bool :=
  (List.range (tsStateMask + 1)).all (fun ts => [0, 1].all (fun cr => [0, 1].all (fun sg =>
    t.any (fun c => c.ts == ts && c.cr == cr && c.single == sg))))

/-! ### rowsCover gives a partition -/
theorem rowsCover_find : ∀ (rows : List CcRow) (next n : Nat), rowsCover next rows = true → next ≤ n → n < 256 →
    ∃ r ∈ rows, r.lo ≤ n ∧ n ≤ r.hi := by
  intro rows
  induction rows with
  | nil =>
    intro next n h h1 h2
    simp [rowsCover] at h
    omega
  | cons r rest ih =>
    intro next n h h1 h2
    simp only [rowsCover, Bool.and_eq_true, beq_iff_eq, decide_eq_true_eq] at h
    obtain ⟨⟨hlo, hle⟩, hrest⟩ := h
    by_cases hn : n ≤ r.hi
    · exact ⟨r, List.mem_cons_self, by omega, hn⟩
    · obtain ⟨r', hr', h3⟩ := ih (r.hi + 1) n hrest (by omega) h2
      exact ⟨r', List.mem_cons_of_mem _ hr', h3⟩

theorem rowOk_at (c : CcCfg) (r : CcRow) (h : rowOk c r = true) (b : Byte) (h1 : r.lo ≤ b.toNat) (h2 : b.toNat ≤ r.hi) :
    rowOkAt c r b = true := by
  unfold rowOk at h
  rw [List.all_eq_true] at h
  have := h (b.toNat - r.lo) (by simp [List.mem_range]; omega)
  have e : r.lo + (b.toNat - r.lo) = b.toNat := by omega
  rw [e] at this
  have e2 : u8 b.toNat = b := by
    unfold u8
    exact UInt8.ofNat_toNat
  rw [e2] at this
  exact this

/-! ### the table is checked in chunks (separate files, built in parallel) -/
def ccChunk : Nat := 20
def ccChunks : Nat := 6

def chunkOk (k : Nat) : Bool := ((ccTable.drop (k * ccChunk)).take ccChunk).all cfgOk

theorem all_of_chunks {α : Type} (l : List α) (p : α → Bool) (q n : Nat) (hq : 0 < q)
    (h : ∀ k, k < n → ((l.drop (k * q)).take q).all p = true) (hl : l.length ≤ n * q) : l.all p = true := by
  rw [List.all_eq_true]
  intro x hx
  obtain ⟨i, hi, rfl⟩ := List.getElem_of_mem hx
  have hdm : i / q * q + i % q = i := by rw [Nat.mul_comm]; exact Nat.div_add_mod i q
  have hml := Nat.mod_lt i hq
  have hk : i / q < n := by
    apply Nat.div_lt_of_lt_mul
    rw [Nat.mul_comm]; omega
  have h1 := h (i / q) hk
  rw [List.all_eq_true] at h1
  apply h1
  rw [List.mem_iff_getElem]
  generalize i / q * q = a at hdm
  refine ⟨i % q, ?_, ?_⟩
  · simp only [List.length_take, List.length_drop]; omega
  · simp only [List.getElem_take, List.getElem_drop]
    congr 1

end NV.C13
