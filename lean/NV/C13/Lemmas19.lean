/-
C13 — the safety clauses of the oracle on model traces: every event the model run emits is harmless for the
judge's `crash`, `index`, `ask` and `line longer than the buffer` clauses.
-/
import NV.C13.Lemmas16

namespace NV.C13

open NV.Gen.C13

/-- the tests `judgeStep` applies to single events (Spec.lean): no crash line; `st` indices in range; the length
    asked from recv() fits the local buffer; a delivered line fits the command buffer -/
def evOK : Ev → Bool
  | .crash _ => false
  | .st s en _ _ _ => decide (s ≤ en ∧ en + 1 ≤ MAXT)
  | .ask n => decide (n + 1 ≤ MAXT)
  | .cmd l => decide (l.length + 1 ≤ MAXT)
  | _ => true

theorem sbEnd_evok {d : Dec} {r : CC} (h : sbEnd d = .ok r) : r.cbs.all evOK = true := by
  unfold sbEnd at h
  split at h
  · cases h
  · dsimp only at h
    repeat' split at h
    all_goals first | (cases h; done) | (injection h with h2; subst h2; rfl)

theorem ccByte_evok {d : Dec} {b : Byte} {r : CC} (h : ccByte d b = .ok r) : r.cbs.all evOK = true := by
  unfold ccByte at h
  repeat' split at h
  · unfold ccData at h; (try dsimp only at h); repeat' split at h
    all_goals first | (cases h; done) | (injection h with h2; subst h2; rfl)
  · unfold ccSbIac at h; (try dsimp only at h); repeat' split at h
    all_goals first | (cases h; done) | (injection h with h2; subst h2; rfl) | exact sbEnd_evok h
  · unfold ccIac at h; (try dsimp only at h); repeat' split at h
    all_goals first | (cases h; done) | (injection h with h2; subst h2; rfl)
  · unfold ccDo at h; (try dsimp only at h); repeat' split at h
    all_goals first | (cases h; done) | (injection h with h2; subst h2; rfl)
  · unfold ccWill at h; (try dsimp only at h); repeat' split at h
    all_goals first | (cases h; done) | (injection h with h2; subst h2; rfl)
  · unfold ccDont at h; (try dsimp only at h); repeat' split at h
    all_goals first | (cases h; done) | (injection h with h2; subst h2; rfl)
  · unfold ccWont at h; (try dsimp only at h); repeat' split at h
    all_goals first | (cases h; done) | (injection h with h2; subst h2; rfl)
  · unfold ccSb at h; (try dsimp only at h); repeat' split at h
    all_goals first | (cases h; done) | (injection h with h2; subst h2; rfl)
  · injection h with h2; subst h2; rfl

theorem copyCharsO_evok {o : Oracle} {d : Dec} {n : Nat} {c : List Byte} {r : CC} {n' : Nat} {dead : Bool}
    (h : copyCharsO o d n c = .ok (r, n', dead)) : r.cbs.all evOK = true := by
  induction c generalizing d n r n' dead with
  | nil =>
    simp only [copyCharsO] at h
    injection h with h; injection h with h _; subst h; rfl
  | cons b rest ih =>
    simp only [copyCharsO] at h
    cases h1 : ccByte d b with
    | error e => rw [h1] at h; cases h
    | ok r1 =>
      rw [h1] at h; dsimp only at h
      have hb := ccByte_evok h1
      split at h
      · cases h2 : copyCharsO o r1.d n rest with
        | error e => rw [h2] at h; cases h
        | ok res =>
          obtain ⟨r2, n2, d2⟩ := res
          rw [h2] at h
          injection h with h; injection h with h _; subst h
          exact ih (r := r2) h2
      · cases ho : o n with
        | dest =>
          rw [ho] at h
          injection h with h; injection h with h _; subst h
          exact hb
        | ok =>
          rw [ho] at h; dsimp only at h
          cases h2 : copyCharsO o r1.d (n + 1) rest with
          | error e => rw [h2] at h; cases h
          | ok res =>
            obtain ⟨r2, n2, d2⟩ := res
            rw [h2] at h
            injection h with h; injection h with h _; subst h
            show (r1.cbs ++ _ ++ r2.cbs).all evOK = true
            rw [List.all_append, List.all_append, hb, ih (r := r2) h2]; rfl
        | err =>
          rw [ho] at h; dsimp only at h
          cases h2 : copyCharsO o r1.d (n + 1) rest with
          | error e => rw [h2] at h; cases h
          | ok res =>
            obtain ⟨r2, n2, d2⟩ := res
            rw [h2] at h
            injection h with h; injection h with h _; subst h
            show (r1.cbs ++ _ ++ r2.cbs).all evOK = true
            rw [List.all_append, List.all_append, hb, ih (r := r2) h2]; rfl

theorem asciiLoop_evok (o : Oracle) (fuel : Nat) : ∀ (s : S) (evs : List Ev) {s' : S} {evs' : List Ev} {e : LoopEnd},
    asciiLoop o fuel s evs = .ok (s', evs', e) → evs.all evOK = true → evs'.all evOK = true := by
  induction fuel with
  | zero =>
    intro s evs s' evs' e h he
    simp only [asciiLoop] at h
    injection h with h; injection h with _ h; injection h with h _; subst h; exact he
  | succ n ih =>
    intro s evs s' evs' e h he
    unfold asciiLoop at h
    split at h
    · cases h
    · dsimp only at h
      split at h
      · injection h with h; injection h with _ h; injection h with h _; subst h; exact he
      · split at h
        · cases h
        · (try dsimp only at h)
          have he2 : (evs ++ [Ev.input (List.take ‹Nat› (slice s.text s.tstart s.tend))]).all evOK = true := by
            rw [List.all_append, he]; rfl
          split at h
          · injection h with h; injection h with _ h; injection h with h _; subst h
            rw [List.all_append, he2]; rfl
          · injection h with h; injection h with _ h; injection h with h _; subst h; exact he2
          · split at h
            · injection h with h; injection h with _ h; injection h with h _; subst h; exact he2
            · exact ih _ _ h he2

theorem txe_evok (tx : List Byte) : (if tx.isEmpty then ([] : List Ev) else [Ev.tx tx]).all evOK = true := by
  split <;> rfl

/-- every event of one get_user_data: `ask n` with `n < MAX_TEXT`; otherwise only rx / wouldblock / callbacks / tx /
    input / err lines -/
theorem getUserData_evok (o : Oracle) {s s' : S} {evs : List Ev} (hi : Inv s) (h : getUserData o s = .ok (s', evs)) :
    evs.all evOK = true := by
  unfold getUserData at h
  split at h
  · injection h with h; injection h with _ h; subst h; rfl
  · obtain ⟨s1, sp, hcs, ok⟩ := computeSpace_ok hi
    rw [hcs] at h
    dsimp only at h
    have hsp : decide (sp + 1 ≤ MAXT) = true := by
      have := ok.roomA
      simp only [decide_eq_true_eq]; omega
    split at h
    · injection h with h; injection h with _ h; subst h
      simp only [List.all_append, List.all_cons, List.all_nil, evOK, hsp, Bool.and_self, Bool.and_true, Bool.true_and]
    · split at h
      · injection h with h; injection h with _ h; subst h
        simp only [List.all_append, List.all_cons, List.all_nil, evOK, hsp, Bool.and_self, Bool.and_true, Bool.true_and]
      · split at h
        · cases h
        · split at h
          · -- telnet
            split at h
            · cases h
            · rename_i r n' dead hcc
              have hcb := copyCharsO_evok hcc
              (try dsimp only at h)
              repeat' split at h
              all_goals first
                | (cases h; done)
                | (injection h with h; injection h with _ h; subst h
                   simp only [List.all_append, List.all_cons, List.all_nil, evOK, hsp, Bool.and_self, hcb, txe_evok,
                     Bool.and_true, Bool.true_and])
          · -- ascii
            split at h
            · cases h
            · split at h
              · cases h
              all_goals
                rename_i hal
                have hev := asciiLoop_evok o _ _ _ hal rfl
                (try dsimp only at h)
                repeat' split at h
                all_goals first
                  | (cases h; done)
                  | (injection h with h; injection h with _ h; subst h
                     simp only [List.all_append, List.all_cons, List.all_nil, evOK, hsp, Bool.and_self, hev,
                       Bool.and_true, Bool.true_and])
          · -- binary
            (try dsimp only at h)
            repeat' split at h
            all_goals
              (injection h with h; injection h with _ h; subst h
               simp only [List.all_append, List.all_cons, List.all_nil, evOK, hsp, Bool.and_self, Bool.and_true, Bool.true_and])
          · injection h with h; injection h with _ h; subst h
            simp only [List.all_append, List.all_cons, List.all_nil, evOK, hsp, Bool.and_self, Bool.and_true, Bool.true_and]

/-! ### the run of the case language -/

theorem add_evok {r : Run} {s : S} {evs : List Ev} (hr : r.evs.all evOK = true) (h : Inv s) (he : evs.all evOK = true) :
    (r.add s evs).evs.all evOK = true := by
  unfold Run.add
  dsimp only
  rw [List.all_append, List.all_append, hr, he]
  rcases afterStep_ok h with h1 | h1 <;> rw [h1]
  · rfl
  · have := h.se; have := h.eMax
    simp only [stEv, List.all_cons, List.all_nil, evOK, Bool.and_true, Bool.true_and, decide_eq_true_eq]
    omega

structure RInvE (p : Port) (r : Run) : Prop where
  k : RInv p r
  ev : r.evs.all evOK = true

theorem filter_evok (l : List Ev) (f : Ev → Bool) (h : l.all evOK = true) : (l.filter f).all evOK = true := by
  rw [List.all_eq_true] at *
  intro x hx
  exact h x (List.mem_filter.mp hx).1

theorem readTail_ev (o : Oracle) {r : Run} {s : S} {evs : List Ev} (hr : r.evs.all evOK = true) (h : Inv s)
    (he : evs.all evOK = true) : (readTail o r s evs).evs.all evOK = true := by
  unfold readTail
  have hi : Inv { s with cbCount := s.cbCount + 1 } := ⟨h.textLen, h.se, h.eMax, h.dec⟩
  have hi2 : Inv { s with cbCount := s.cbCount + 1, closed := true } := ⟨h.textLen, h.se, h.eMax, h.dec⟩
  split
  · split
    · exact add_evok hr h he
    · split
      · exact add_evok hr h he
      · dsimp only
        split
        · refine add_evok hr hi ?_
          rw [List.all_append, List.all_append, filter_evok _ _ he, filter_evok _ _ he]; rfl
        · refine add_evok hr hi ?_
          rw [List.all_append, List.all_append, List.all_append, filter_evok _ _ he, filter_evok _ _ he]; rfl
        · refine add_evok hr hi2 ?_
          rw [List.all_append, List.all_append, filter_evok _ _ he, filter_evok _ _ he]; rfl
  · exact add_evok hr h he

theorem doRead_ev (o : Oracle) {p : Port} {r : Run} (k : RInvE p r) : RInvE p (doRead o r) := by
  refine ⟨doRead_rinv o k.k, ?_⟩
  unfold doRead
  split
  · exact k.ev
  · rcases getUserDataH_cases o k.k.inv with ⟨hh, _, _⟩ | ⟨hh, _⟩
    · rw [hh]
      exact readTail_ev o k.ev ⟨k.k.inv.textLen, k.k.inv.se, k.k.inv.eMax, decInv_fl k.k.inv.dec _⟩ rfl
    rw [hh]
    obtain ⟨s', evs, h1, h2, _⟩ := getUserData_ok' o k.k.inv
    rw [h1]
    exact readTail_ev o k.ev h2 (getUserData_evok o k.k.inv h1)

theorem txEv_evok (tx : List Byte) : (txEv tx).all evOK = true := by
  unfold txEv; split <;> rfl

theorem doExtract_ev {p : Port} {r : Run} (k : RInvE p r) : RInvE p (doExtract r).1 := by
  refine ⟨doExtract_rinv k.k, ?_⟩
  unfold doExtract
  split
  · exact k.ev
  · rcases portInv_cases p with hp | hp
    · obtain ⟨s', rr, h1, h2, _, _, _, h6⟩ := getUserCommand_N k.k.inv (k.k.pinv.nul (by rw [k.k.port]; exact hp))
      rw [h1]
      cases rr with
      | none => exact add_evok k.ev h2 rfl
      | some l =>
        have hl := h6 l rfl
        refine add_evok (r := { r with noEcho := false }) k.ev h2 ?_
        rw [List.all_append, txEv_evok]
        simp only [List.all_cons, List.all_nil, evOK, Bool.and_true, decide_eq_true_eq]
        exact hl
    · have : getUserCommand r.s = .ok (r.s, none) := by
        unfold getUserCommand; rw [k.k.pinv.noflag (by rw [k.k.port]; exact hp)]; rfl
      rw [this]
      exact add_evok k.ev k.k.inv rfl

theorem drainLoop_ev {p : Port} (fuel : Nat) {r : Run} (k : RInvE p r) : RInvE p (drainLoop fuel r) := by
  induction fuel generalizing r with
  | zero => exact k
  | succ n ih =>
    unfold drainLoop
    have := doExtract_ev k
    cases hd : doExtract r with
    | mk r' got =>
      rw [hd] at this
      dsimp only
      split
      · exact ih this
      · exact this

theorem finishLoop_ev (o : Oracle) {p : Port} (fuel : Nat) {r : Run} (k : RInvE p r) : RInvE p (finishLoop o fuel r) := by
  induction fuel generalizing r with
  | zero => exact k
  | succ n ih =>
    unfold finishLoop
    split
    · exact k
    · exact ih (drainLoop_ev 5000 (doRead_ev o k))

theorem doServe_ev {p : Port} {r : Run} (k : RInvE p r) (hp : p = .telnet) : RInvE p (doServe r) := by
  refine ⟨doServe_rinv k.k hp, ?_⟩
  unfold doServe
  split
  · exact k.ev
  · obtain ⟨s', rr, h1, h2, h3, _, _, h6⟩ := getUserCommand_N k.k.inv (k.k.pinv.nul (by rw [k.k.port]; exact Or.inl hp))
    rw [h1]
    cases rr with
    | none => exact add_evok k.ev h2 rfl
    | some l =>
      have hl := h6 l rfl
      have hc : ∀ tx, ([Ev.cmd l] ++ txEv tx).all evOK = true := fun tx => by
        rw [List.all_append, txEv_evok]
        simp only [List.all_cons, List.all_nil, evOK, Bool.and_true, decide_eq_true_eq]
        exact hl
      dsimp only
      split
      · obtain ⟨s2, tx, e1, i2, _⟩ := endInput_N h2 h3
        rw [e1]
        exact add_evok (r := { r with noEcho := false, inputTo := false }) k.ev i2 (hc _)
      · exact add_evok (r := { r with noEcho := false }) k.ev h2 (hc _)

theorem doSetCall_ev {p : Port} {r : Run} (k : RInvE p r) (hp : p = .telnet) (single noecho : Bool) :
    RInvE p (doSetCall r single noecho) := by
  refine ⟨doSetCall_rinv k.k hp single noecho, ?_⟩
  unfold doSetCall
  split
  · exact k.ev
  · split
    · exact add_evok k.ev k.k.inv rfl
    · obtain ⟨s', tx, e1, i1, _⟩ := setCall_N k.k.inv (k.k.pinv.nul (by rw [k.k.port]; exact Or.inl hp)) single noecho
      rw [e1]
      refine add_evok (r := { r with inputTo := true, noEcho := r.noEcho || noecho }) k.ev i1 ?_
      rw [List.all_append, txEv_evok]; rfl

theorem doLine_ev {p : Port} {r : Run} (k : RInvE p r) (hp : p = .console) (b : List Byte) : RInvE p (doLine r b) := by
  refine ⟨doLine_rinv k.k hp b, ?_⟩
  unfold doLine
  split
  · exact k.ev
  · obtain ⟨s', h1, h2, _⟩ := addConsoleLine_N k.k.inv (k.k.pinv.nul (Or.inr (k.k.port.trans hp))) b
    rw [h1]
    exact add_evok k.ev h2 rfl

theorem doWpipe_ev {p : Port} {r : Run} (k : RInvE p r) (hp : p = .console) (data : List Byte) : RInvE p (doWpipe r data) := by
  unfold doWpipe
  have hl := workerChunks_len (data.length + 1) data
  generalize workerChunks (data.length + 1) data = cs at hl
  induction cs generalizing r with
  | nil => exact k
  | cons c rest ih =>
    simp only [List.foldl_cons]
    refine ih ?_ (fun x hx => hl x (List.mem_cons_of_mem _ hx))
    have hc := hl c List.mem_cons_self
    have h1 : 1 ≤ consoleReadReserve := by decide
    have h2 : consoleReadReserve ≤ consoleMaxLine := by decide
    have e : doLineW r c = doLine r c := by
      unfold doLineW
      rw [if_neg (by rw [k.k.alive]; simp), if_neg (by omega)]
    rw [e]
    exact doLine_ev k hp c

theorem stepOp_ev (o : Oracle) {p : Port} {r : Run} (k : RInvE p r) (op : Op)
    (hw : ((∃ b, op = .line b) ∨ (∃ b, op = .wpipe b)) → p = .console)
    (hw2 : (op = .serve ∨ (∃ ne, op = .getchar ne) ∨ (∃ ne, op = .inputto ne)) → p = .telnet) :
    RInvE p (stepOp o r op) := by
  refine ⟨stepOp_rinv o k.k op hw hw2, ?_⟩
  unfold stepOp
  rw [if_neg (by rw [k.k.alive]; simp)]
  cases op with
  | send b => exact k.ev
  | iflagSingle =>
    dsimp only
    split
    · exact k.ev
    · exact add_evok k.ev ⟨k.k.inv.textLen, k.k.inv.se, k.k.inv.eMax, decInv_fl k.k.inv.dec _⟩ rfl
  | iflagLine =>
    dsimp only
    split
    · exact k.ev
    · exact add_evok k.ev ⟨k.k.inv.textLen, k.k.inv.se, k.k.inv.eMax, decInv_fl k.k.inv.dec _⟩ rfl
  | read => exact (doRead_ev o k).ev
  | chunk b =>
    exact (doRead_ev o (r := { r with s := { r.s with sock := r.s.sock ++ b } })
      ⟨⟨k.k.alive, k.k.port, ⟨k.k.inv.textLen, k.k.inv.se, k.k.inv.eMax, k.k.inv.dec⟩, ⟨k.k.pinv.nul, k.k.pinv.noflag⟩⟩, k.ev⟩).ev
  | extract => exact (doExtract_ev k).ev
  | drain => exact (drainLoop_ev 5000 k).ev
  | finish => exact (finishLoop_ev o 20000 k).ev
  | line b => exact (doLine_ev k (hw (Or.inl ⟨b, rfl⟩)) b).ev
  | wpipe b => exact (doWpipe_ev k (hw (Or.inr ⟨b, rfl⟩)) b).ev
  | snoopOn =>
    dsimp only
    split
    · exact k.ev
    · exact add_evok (r := { r with snoop := true }) k.ev k.k.inv rfl
  | getchar ne => exact (doSetCall_ev k (hw2 (Or.inr (Or.inl ⟨ne, rfl⟩))) true ne).ev
  | inputto ne => exact (doSetCall_ev k (hw2 (Or.inr (Or.inr ⟨ne, rfl⟩))) false ne).ev
  | serve => exact (doServe_ev k (hw2 (Or.inl rfl))).ev

theorem run_ev (p : Port) (o : Oracle) (ops : List Op) (hw : WellFormed p ops) : RInvE p (run p o ops) := by
  unfold run
  have h0 : RInvE p { s := S.init p, evs := afterStep (S.init p) } := by
    refine ⟨⟨rfl, rfl, init_inv p, ⟨fun _ => nulAfter_init p, fun _ => rfl⟩⟩, ?_⟩
    rcases afterStep_ok (init_inv p) with h1 | h1 <;> rw [h1]
    · rfl
    · have := (init_inv p).se; have := (init_inv p).eMax
      simp only [stEv, List.all_cons, List.all_nil, evOK, Bool.and_true, decide_eq_true_eq]
      omega
  suffices H : ∀ (r : Run), RInvE p r → WellFormed p ops → RInvE p (ops.foldl (stepOp o) r) from H _ h0 hw
  induction ops with
  | nil => intro r k _; exact k
  | cons op ops ih =>
    intro r k hw'
    simp only [List.foldl_cons]
    have hwt : WellFormed p ops :=
      ⟨fun x hx hh => hw'.1 x (List.mem_cons_of_mem _ hx) hh, fun x hx hh => hw'.2 x (List.mem_cons_of_mem _ hx) hh⟩
    exact ih hwt _ (stepOp_ev o k op (fun hh => hw'.1 op List.mem_cons_self hh)
      (fun hh => hw'.2 op List.mem_cons_self hh)) hwt

/-- **the safety clauses of the oracle hold on every model trace**: in the event list of `run` (any port, oracle,
    schedule incl. get_char / input_to switches) there is no `crash` event, every `st` line has
    `text_start ≤ text_end ≤ MAX_TEXT-1`, every `ask n` has `n < MAX_TEXT` and every delivered `cmd` line fits the
    command buffer - the events on which `judgeStep` raises "crash", "index", "ask .. exceeds the input buffer" and
    "line longer than the buffer" do not occur -/
theorem run_events_safe (p : Port) (o : Oracle) (ops : List Op) (hw : WellFormed p ops) :
    ∀ e ∈ (run p o ops).evs, evOK e = true := by
  have := (run_ev p o ops hw).ev
  rw [List.all_eq_true] at this
  exact this

end NV.C13
