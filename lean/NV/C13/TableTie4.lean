/- C13 — chunk 4 of the transition-table tie (see Table.lean / TableTie.lean); evaluation by the kernel only -/
import NV.C13.Table

namespace NV.C13

theorem cc_chunk_4 : chunkOk 4 = true := by decide +kernel

end NV.C13
