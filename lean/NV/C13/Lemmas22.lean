/-
C13 — PORT_BINARY: for every schedule of sends / reads / extractions and every callback oracle the buffers handed to
process_input, concatenated, are exactly the bytes received, in order - whatever the segmentation.
-/
import NV.C13.Lemmas11

namespace NV.C13

open NV.Gen.C13

/-- one read event on a binary port whose buffer indices are 0 (they never move there) -/
theorem binary_read_exact (o : Oracle) {s : S} (hp : s.port = .binary) (h0 : s.tstart = 0) (h1 : s.tend = 0) :
    ∃ s' evs n, getUserDataH o s = .ok (s', evs) ∧ s'.port = .binary ∧ s'.tstart = 0 ∧ s'.tend = 0 ∧
      s'.text = s.text ∧ s'.dec = s.dec ∧ s'.sock = s.sock.drop n ∧
      inputsOf evs = (if (s.sock.take n).isEmpty then [] else [s.sock.take n]) := by
  rw [getUserDataH_other o (by rw [hp]; decide)]
  have hr : asciiReserve = 1 := rfl
  have hm : MAXT = 2048 := rfl
  unfold getUserData
  rw [if_neg (by rw [hp]; decide)]
  have hcs : computeSpace s = .ok ({ s with text := s.text, tend := s.tend - s.tstart, tstart := 0 }, MAXT - asciiReserve) := by
    unfold computeSpace
    rw [hp]
    (try dsimp only)
    unfold computeSpaceOther
    rw [if_neg (by omega), if_neg (by omega)]
    dsimp only
    rw [if_neg (by omega), h1, h0]
    (try dsimp only)
    (try rw [if_neg (by omega)])
    (try simp only [hp, Nat.sub_self, Nat.sub_zero])
  rw [hcs]
  dsimp only
  by_cases he : s.sock.isEmpty = true
  · rw [if_pos he]
    refine ⟨_, _, 0, rfl, hp, rfl, by dsimp only; omega, rfl, rfl, by simp, ?_⟩
    simp [inputsOf]
  · rw [if_neg he]
    have hne : (s.sock.take (MAXT - asciiReserve)).isEmpty = false := by
      cases hs : s.sock with
      | nil => rw [hs] at he; simp at he
      | cons a r => rw [hr, hm]; rfl
    rw [if_neg (by rw [hne]; simp)]
    have hlen : (s.sock.take (MAXT - asciiReserve)).length ≤ MAXT - asciiReserve := by
      rw [List.length_take]; exact Nat.min_le_left _ _
    rw [if_neg (by omega), hp]
    dsimp only
    cases ho : o s.cbCount with
    | ok => exact ⟨_, _, MAXT - asciiReserve, rfl, rfl, rfl, by dsimp only; omega, rfl, rfl, rfl, by simp [inputsOf, hne]⟩
    | err => exact ⟨_, _, MAXT - asciiReserve, rfl, rfl, rfl, by dsimp only; omega, rfl, rfl, rfl, by simp [inputsOf, hne]⟩
    | dest => exact ⟨_, _, MAXT - asciiReserve, rfl, rfl, rfl, by dsimp only; omega, rfl, rfl, rfl, by simp [inputsOf, hne]⟩

structure BinK (f : F) : Prop where
  port : f.s.port = .binary
  s0 : f.s.tstart = 0
  e0 : f.s.tend = 0
  noflag : f.s.dec.fl.cmdInBuf = false
  bytes : f.delivered.flatten = f.received
  sentEq : f.received ++ f.s.sock = f.sent

theorem binK_step (o : Oracle) {f f' : F} (op : FOp) (k : BinK f) (h : fStep o f op = .ok f') : BinK f' := by
  cases op with
  | send b =>
    simp only [fStep] at h
    injection h with h; subst h
    exact ⟨k.port, k.s0, k.e0, k.noflag, k.bytes,
      by show f.received ++ (f.s.sock ++ b) = f.sent ++ b; rw [← List.append_assoc, k.sentEq]⟩
  | read =>
    simp only [fStep] at h
    obtain ⟨s', evs, n, hg, p2, a2, b2, _, d2, hs', hin⟩ := binary_read_exact o k.port k.s0 k.e0
    rw [hg] at h
    injection h with h; subst h
    have hrec : f.s.sock.take (f.s.sock.length - s'.sock.length) = f.s.sock.take n := by
      rw [hs']; exact take_len_sub_drop _ _
    refine ⟨p2, a2, b2, by rw [d2]; exact k.noflag, ?_, ?_⟩
    · show (f.delivered ++ inputsOf evs).flatten = f.received ++ _
      rw [hrec, hin, List.flatten_append, k.bytes]
      split
      · rename_i he
        have : f.s.sock.take n = [] := by simpa using he
        rw [this]; simp
      · simp
    · show (f.received ++ _) ++ s'.sock = f.sent
      rw [hrec, hs', List.append_assoc, List.take_append_drop]; exact k.sentEq
  | extract =>
    simp only [fStep] at h
    have : getUserCommand f.s = .ok (f.s, none) := by
      unfold getUserCommand; rw [k.noflag]; rfl
    rw [this] at h
    injection h with h; subst h
    exact ⟨k.port, k.s0, k.e0, k.noflag, by show (f.delivered ++ []).flatten = _; rw [List.append_nil]; exact k.bytes, k.sentEq⟩

/-- **PORT_BINARY framing**: for every schedule (any chunking of the sends, any interleaving of read events and
    extractions) and every behaviour of process_input (return, error, destruct), the buffers delivered to
    process_input concatenate to exactly the bytes received so far, and received ++ unread = sent -/
theorem binary_bytes_delivered (o : Oracle) (ops : List FOp) (f : F)
    (h : fRun o { s := S.init .binary } ops = .ok f) :
    f.delivered.flatten = f.received ∧ f.received ++ f.s.sock = f.sent := by
  suffices H : ∀ (g : F), BinK g → fRun o g ops = .ok f → BinK f from
    let k := H _ ⟨rfl, rfl, rfl, rfl, rfl, rfl⟩ h
    ⟨k.bytes, k.sentEq⟩
  clear h
  induction ops with
  | nil => intro g k hg; simp only [fRun] at hg; injection hg with hg; subst hg; exact k
  | cons op ops ih =>
    intro g k hg
    simp only [fRun] at hg
    cases hs : fStep o g op with
    | error e => rw [hs] at hg; cases hg
    | ok g1 =>
      rw [hs] at hg
      exact ih g1 (binK_step o op k hs) hg

end NV.C13
