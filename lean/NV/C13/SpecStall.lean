/-
C13 — oracle clause for the hold test of get_user_data (fix 57d7cb1): holding a read back is only a delay.
A case that ends with a `finish` loop (read + drain until the socket is empty) must have read every byte the client
sent, unless the connection was closed or the run crashed; otherwise input is stalled for good ("bounded buffering -
over-long lines are cut or discarded", not kept in the socket for ever).
-/
import NV.C13.Spec

namespace NV.C13

def rxTotal : List Ev → Nat
  | [] => 0
  | .rx b :: r => b.length + rxTotal r
  | _ :: r => rxTotal r

def endedEarly (evs : List Ev) : Bool :=
  evs.any (fun e => match e with | .closed => true | .crash _ => true | _ => false)

/-- `sent`: bytes of all send / chunk steps of the case; `finished`: no send / chunk step follows the last `finish` -/
def judgeStall (sent : Nat) (finished : Bool) (evs : List Ev) : List String :=
  if finished && !endedEarly evs && decide (rxTotal evs < sent) then
    [s!"stalled: {sent - rxTotal evs} byte(s) sent by the client were never read although the case ends with a finish loop"]
  else []

/-- bytes sent by the client in a case, and whether its last socket step is a `finish` -/
def sentOf (ops : List Op) : Nat :=
  ops.foldl (fun n op => match op with | .send b => n + b.length | .chunk b => n + b.length | _ => n) 0

def finishedOf (ops : List Op) : Bool :=
  (ops.foldl (fun st op => match op with
    | .send _ => some false
    | .chunk _ => some false
    | .finish => some true
    | _ => st) (none : Option Bool)) == some true

end NV.C13
