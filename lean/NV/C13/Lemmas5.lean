/-
C13 — helper lemmas: feeding a stream chunk by chunk; editing; negotiations carry no text.
-/
import NV.C13.Lemmas4

namespace NV.C13

open NV.Gen.C13

/-- copy_chars applied to the chunks of a segmentation one after the other (state carried in `ip`) -/
def feed (d : Dec) : List (List Byte) → Except String CC
  | [] => .ok { d := d }
  | c :: cs =>
    match copyChars d c with
    | .error e => .error e
    | .ok r1 =>
      match feed r1.d cs with
      | .error e => .error e
      | .ok r2 => .ok { d := r2.d, out := r1.out ++ r2.out, tx := r1.tx ++ r2.tx, cbs := r1.cbs ++ r2.cbs }

theorem feed_eq_copyChars (d : Dec) (chunks : List (List Byte)) : feed d chunks = copyChars d chunks.flatten := by
  induction chunks generalizing d with
  | nil => rfl
  | cons c cs ih =>
    simp only [feed, List.flatten_cons, copyChars_append]
    cases copyChars d c with
    | error e => rfl
    | ok r1 => simp only [ih]; rfl

/-! ### editing -/
theorem telnetNegAux_eq (acc l : List Byte) :
    telnetNegAux acc l = l.foldl (fun a c => if c = bBS ∨ c = bDEL then a.dropLast else a ++ [c]) acc := by
  induction l generalizing acc with
  | nil => rfl
  | cons c r ih =>
    unfold telnetNegAux
    simp only [List.foldl_cons]
    split
    · split
      · rename_i he
        have : acc = [] := by simpa using he
        subst this
        simpa using ih []
      · exact ih _
    · exact ih _

theorem telnetNeg_eq_edit (l : List Byte) : telnetNeg l = edit l := telnetNegAux_eq [] l

theorem edit_append (a b : List Byte) :
    edit (a ++ b) = b.foldl (fun acc c => if c = bBS ∨ c = bDEL then acc.dropLast else acc ++ [c]) (edit a) := by
  simp [edit, List.foldl_append]

theorem edit_plain (l : List Byte) (h : ∀ c ∈ l, c ≠ bBS ∧ c ≠ bDEL) : edit l = l := by
  have : ∀ acc, l.foldl (fun a c => if c = bBS ∨ c = bDEL then a.dropLast else a ++ [c]) acc = acc ++ l := by
    induction l with
    | nil => intro acc; simp
    | cons c r ih =>
      intro acc
      have hc := h c (by simp)
      simp only [List.foldl_cons]
      rw [if_neg (by simp [hc.1, hc.2])]
      rw [ih (fun x hx => h x (by simp [hx]))]
      simp
  simpa [edit] using this []

/-- the `' ' '\b'` pair that copy_chars stores in front of the terminator disappears under editing -/
theorem edit_sp_bs (l : List Byte) : edit (l ++ [bSP, bBS]) = edit l := by
  rw [edit_append]
  have e1 : ¬ (bSP = bBS ∨ bSP = bDEL) := by decide
  have e2 : (bBS = bBS ∨ bBS = bDEL) := Or.inl rfl
  simp [List.foldl_cons, e1, e2]

/-! ### negotiations carry no text -/
/-- a complete option negotiation read in data position yields no text and returns to data position -/
theorem toks_negotiation (c o : Byte) (hc : c = bWILL ∨ c = bWONT ∨ c = bDO ∨ c = bDONT) (rest : List Byte) :
    toks .data (bIAC :: c :: o :: rest) = toks .data rest := by
  have h1 : c ≠ bIAC := by rcases hc with rfl | rfl | rfl | rfl <;> decide
  simp [toks, stepTok, h1, hc]

/-- inside a sub-negotiation nothing is text as long as no IAC occurs -/
theorem toks_sb_body (body rest : List Byte) (hb : ∀ x ∈ body, x ≠ bIAC) :
    toks .sb (body ++ rest) = toks .sb rest := by
  induction body with
  | nil => rfl
  | cons x r ih =>
    have hx := hb x (by simp)
    simp only [List.cons_append, toks, stepTok, if_neg hx, List.nil_append]
    exact ih (fun y hy => hb y (by simp [hy]))

/-- a complete sub-negotiation `IAC SB body IAC SE` read in data position yields no text -/
theorem toks_subnegotiation (body rest : List Byte) (hb : ∀ x ∈ body, x ≠ bIAC) :
    toks .data (bIAC :: bSB :: (body ++ bIAC :: bSE :: rest)) = toks .data rest := by
  have e1 : bSB ≠ bIAC := by decide
  have e2 : ¬ (bSB = bWILL ∨ bSB = bWONT ∨ bSB = bDO ∨ bSB = bDONT) := by decide
  have e3 : bSE ≠ bIAC := by decide
  simp only [toks, stepTok, if_true, if_neg e1, if_neg e2, List.nil_append]
  rw [toks_sb_body body _ hb]
  simp [toks, stepTok, e3]

/-- a two-byte command `IAC x` read in data position yields no text -/
theorem toks_command (x : Byte) (h1 : x ≠ bIAC) (h2 : ¬ (x = bWILL ∨ x = bWONT ∨ x = bDO ∨ x = bDONT)) (h3 : x ≠ bSB)
    (rest : List Byte) : toks .data (bIAC :: x :: rest) = toks .data rest := by
  simp [toks, stepTok, h1, h2, h3]

/-- text tokens are only ever: a byte of the stream, or 255 for a doubled IAC -/
theorem toks_bytes_from_stream (m : Mode) (stream : List Byte) :
    ∀ t ∈ toks m stream, t = .nl ∨ ∃ b, t = .ch b ∧ b ∈ stream := by
  induction stream generalizing m with
  | nil => intro t ht; simp [toks] at ht
  | cons x r ih =>
    intro t ht
    simp only [toks, List.mem_append] at ht
    rcases ht with ht | ht
    · have : t = .nl ∨ t = .ch x := by
        cases m <;> simp only [stepTok] at ht <;> (repeat' split at ht) <;> simp_all
      rcases this with h | h
      · exact Or.inl h
      · exact Or.inr ⟨x, h, by simp⟩
    · rcases ih _ t ht with h | ⟨b, hb, hm⟩
      · exact Or.inl h
      · exact Or.inr ⟨b, hb, by simp [hm]⟩

end NV.C13
