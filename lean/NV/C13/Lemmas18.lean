/-
C13 — what reframe_single_char_input computes: for raw text buffered in single-character mode (IAC-free, every CR
followed by LF or CR or at the very end) the reframed text is exactly the rendering of the stream's text tokens under the
telnet framing grammar - i.e. (by `stored_text_is_stream_text`) the bytes copy_chars would have stored had the same
bytes arrived in line mode.  A line typed ahead of a get_char() prompt is framed like any other line.
-/
import NV.C13.Lemmas17

namespace NV.C13

open NV.Gen.C13

/-- every CR is followed by LF or CR, or is the last byte (a CR followed by NUL or by an ordinary byte is where
    reframe_single_char_input and the line-mode decoder differ: the decoder ends the line at CR NUL and drops the byte
    after a lone CR, the reframing keeps both) -/
def crClean : List Byte → Bool
  | [] => true
  | [_] => true
  | a :: b :: r => (a != bCR || b == bLF || b == bCR) && crClean (b :: r)

theorem tmpPush_some {acc x y : List Byte} (h : tmpPush acc x = .ok y) : y = acc ++ x := by
  unfold tmpPush at h
  split at h
  · injection h with h; exact h.symm
  · cases h

theorem toks_cons (m : Mode) (b : Byte) (r : List Byte) : toks m (b :: r) = (stepTok m b).2 ++ toks (stepTok m b).1 r := rfl

theorem step_data_cr : stepTok .data bCR = (.cr, []) := by decide
theorem step_cr_lf : stepTok .cr bLF = (.data, [.nl]) := by decide
theorem step_cr_cr : stepTok .cr bCR = (.cr, []) := by decide
theorem step_data_ch {c : Byte} (h1 : c ≠ bIAC) (h2 : c ≠ bCR) : stepTok .data c = (.data, [.ch c]) := by
  show (if c = bIAC then (Mode.iac, []) else if c = bCR then (Mode.cr, []) else (Mode.data, [Tok.ch c])) = _
  rw [if_neg h1, if_neg h2]

theorem reframe_is_line_framing_aux : ∀ (n : Nat) (raw : List Byte), raw.length ≤ n → (∀ b ∈ raw, b ≠ bIAC) →
    crClean raw = true → ∀ acc x, reframeLoop raw false acc = .ok (some x) → x = acc ++ renderToks (toks .data raw) := by
  intro n
  induction n with
  | zero =>
    intro raw hl _ _ acc x h
    have : raw = [] := List.eq_nil_of_length_eq_zero (Nat.le_zero.mp hl)
    subst this
    simp only [reframeLoop] at h
    injection h with h; injection h with h
    simp [toks, renderToks, h.symm]
  | succ n ih =>
    intro raw hl hi hc acc x h
    cases raw with
    | nil =>
      simp only [reframeLoop] at h
      injection h with h; injection h with h
      simp [toks, renderToks, h.symm]
    | cons c rest =>
      have hrl : rest.length ≤ n := by simp only [List.length_cons] at hl; omega
      have hci : c ≠ bIAC := hi c List.mem_cons_self
      have hri : ∀ b ∈ rest, b ≠ bIAC := fun b hb => hi b (List.mem_cons_of_mem _ hb)
      simp only [reframeLoop] at h
      split at h
      · cases h
      · by_cases hcr : c = bCR
        · rw [if_pos hcr] at h
          subst hcr
          have ht : toks .data (bCR :: rest) = toks .cr rest := by
            rw [toks_cons, step_data_cr]; rfl
          rw [ht]
          cases rest with
          | nil =>
            rw [if_neg (by simp)] at h
            simp only [reframeLoop] at h
            injection h with h; injection h with h
            simp [toks, renderToks, h.symm]
          | cons b r' =>
            have hbi : b ≠ bIAC := hri b List.mem_cons_self
            by_cases hb : b = bLF
            · subst hb
              have hh : (bLF :: r').head? = some bLF := rfl
              rw [if_pos hh] at h
              cases hp : tmpPush acc [bSP, bBS, bNUL] with
              | error e => rw [hp] at h; cases h
              | ok acc' =>
                rw [hp] at h
                dsimp only at h
                simp only [reframeLoop] at h
                have e := tmpPush_some hp
                subst e
                have hr'c : crClean r' = true := by
                  cases r' with
                  | nil => rfl
                  | cons z zs =>
                    have hc1 : ((bCR != bCR || bLF == bLF || bLF == bCR) &&
                      ((bLF != bCR || z == bLF || z == bCR) && crClean (z :: zs))) = true := hc
                    simp only [Bool.and_eq_true] at hc1
                    exact hc1.2.2
                have := ih r' (by simp only [List.length_cons] at hrl; omega)
                  (fun y hy => hri y (List.mem_cons_of_mem _ hy)) hr'c _ x h
                rw [this]
                have ht2 : toks .cr (bLF :: r') = [Tok.nl] ++ toks .data r' := by
                  rw [toks_cons, step_cr_lf]
                rw [ht2]
                simp [renderToks, renderTok, List.append_assoc]
            · rw [if_neg (by simpa using hb)] at h
              -- crClean: the byte after this CR is LF or CR
              have hc1 : ((bCR != bCR || b == bLF || b == bCR) && crClean (b :: r')) = true := hc
              simp only [Bool.and_eq_true, Bool.or_eq_true, beq_iff_eq] at hc1
              have hbc : b = bCR := by
                rcases hc1.1 with (h1 | h1) | h1
                · exact absurd h1 (by decide)
                · exact absurd h1 hb
                · exact h1
              have hrc0 := hc1.2
              subst hbc
              have hrc : crClean (bCR :: r') = true := hrc0
              have := ih (bCR :: r') hrl hri hrc acc x h
              rw [this]
              have ht2 : toks .cr (bCR :: r') = toks .data (bCR :: r') := by
                rw [toks_cons, step_cr_cr, toks_cons, step_data_cr]
              rw [ht2]
        · rw [if_neg hcr] at h
          cases hp : tmpPush acc [c] with
          | error e => rw [hp] at h; cases h
          | ok acc' =>
            rw [hp] at h
            dsimp only at h
            have e := tmpPush_some hp
            subst e
            have hrc : crClean rest = true := by
              cases rest with
              | nil => rfl
              | cons z zs =>
                have hc1 : ((c != bCR || z == bLF || z == bCR) && crClean (z :: zs)) = true := hc
                simp only [Bool.and_eq_true] at hc1
                exact hc1.2
            have := ih rest hrl hri hrc _ x h
            rw [this]
            have ht : toks .data (c :: rest) = [Tok.ch c] ++ toks .data rest := by
              rw [toks_cons, step_data_ch hci hcr]
            rw [ht]
            simp [renderToks, renderTok, List.append_assoc]

/-- **typed-ahead lines are framed like any other line**: if reframe_single_char_input rewrites the raw text `raw`
    (IAC-free, `crClean`), the result is `renderToks (toks .data raw)` - the bytes the line-mode decoder stores for the
    same stream (`stored_text_is_stream_text`), so the commands extracted afterwards are `lines raw` -/
theorem reframe_is_line_framing (raw : List Byte) (hi : ∀ b ∈ raw, b ≠ bIAC) (hc : crClean raw = true) (x : List Byte)
    (h : reframeLoop raw false [] = .ok (some x)) : x = renderToks (toks .data raw) := by
  have := reframe_is_line_framing_aux raw.length raw (Nat.le_refl _) hi hc [] x h
  simpa using this

/-- non-vacuity / example: "go" CR LF "n" CR typed ahead -/
example : (reframeLoop [103, 111, 13, 10, 110, 13] false []).toOption = some (some [103, 111, 32, 8, 0, 110]) ∧
    crClean [103, 111, 13, 10, 110, 13] = true ∧
    renderToks (toks .data [103, 111, 13, 10, 110, 13]) = [103, 111, 32, 8, 0, 110] := by decide

/-- where the two framings differ (recorded, outside the hypothesis): CR NUL and CR + ordinary byte -/
example : (reframeLoop [97, 13, 0, 98, 13, 99] false []).toOption = some (some [97, 0, 98, 99]) ∧
    renderToks (toks .data [97, 13, 0, 98, 13, 99]) = [97, 32, 8, 0, 98] := by decide

end NV.C13
