/-
C13 — the end of single-character mode, end to end on the buffer: after reframe_single_char_input the pending text is
the line-mode rendering of the raw text that was typed ahead, so the commands that get_user_command extracts afterwards
are `lines raw` - what the same bytes would have produced had they arrived in line mode.
-/
import NV.C13.Lemmas18

namespace NV.C13

open NV.Gen.C13

/-- text without IAC and CR is its own rendering -/
theorem renderToks_plain : ∀ (l : List Byte), (∀ b ∈ l, b ≠ bIAC ∧ b ≠ bCR) → renderToks (toks .data l) = l := by
  intro l
  induction l with
  | nil => intro _; rfl
  | cons c rest ih =>
    intro h
    have hc := h c List.mem_cons_self
    rw [toks_cons, step_data_ch hc.1 hc.2]
    show renderToks ([Tok.ch c] ++ toks .data rest) = c :: rest
    have : renderToks ([Tok.ch c] ++ toks .data rest) = [c] ++ renderToks (toks .data rest) := by
      simp [renderToks, renderTok]
    rw [this, ih (fun b hb => h b (List.mem_cons_of_mem _ hb))]
    rfl

/-- exact effect of reframe_single_char_input when it rewrites the buffer -/
theorem reframe_exact {s : S} (h : Inv s) (tmp : List Byte) (hc : (pend s).contains bCR = true)
    (hl : reframeLoop (pend s) false [] = .ok (some tmp)) :
    ∃ s', reframe s = .ok s' ∧ pend s' = tmp ∧ s'.tstart = 0 ∧ s'.tend = tmp.length ∧ Inv s' := by
  have hlen := h.textLen; have hse := h.se; have hem := h.eMax
  have h2 : tmp.length + 2 ≤ MAXT := by
    rcases reframeLoop_len (pend s) false [] (by decide) with h1 | ⟨t', h1, h2⟩
    · rw [h1] at hl; injection hl with hl; cases hl
    · rw [h1] at hl; injection hl with hl; injection hl with hl; subst hl; exact h2
  have hp : pend s = slice s.text s.tstart s.tend := rfl
  unfold reframe
  rw [if_neg (by omega)]
  dsimp only
  rw [← hp, hc]
  simp only [Bool.not_true, Bool.false_eq_true, if_false]
  rw [hl]
  dsimp only
  have hw1 : 0 + tmp.length ≤ s.text.length := by omega
  have e1 := writeAt_ok hw1
  have hl2 := writeAt_length e1
  have hw2 : tmp.length + ([0] : List Byte).length ≤
      (List.take 0 s.text ++ tmp ++ List.drop (0 + tmp.length) s.text).length := by
    rw [hl2]; simp only [List.length_cons, List.length_nil]; omega
  have e2 := writeAt_ok hw2
  have hl3 := writeAt_length e2
  rw [e1]; dsimp only
  rw [e2]; dsimp only
  obtain ⟨f, hf, hfs⟩ := setCmdFlag_ok
    { s with text := List.take tmp.length (List.take 0 s.text ++ tmp ++ List.drop (0 + tmp.length) s.text) ++ [0] ++
                List.drop (tmp.length + ([0] : List Byte).length) (List.take 0 s.text ++ tmp ++ List.drop (0 + tmp.length) s.text),
             tstart := 0, tend := tmp.length } (by dsimp only; rw [hl3, hl2]; omega)
  rw [hf]
  refine ⟨_, rfl, ?_, rfl, rfl, ⟨?_, ?_, ?_, decInv_fl h.dec _⟩⟩
  · show slice _ 0 tmp.length = tmp
    rw [slice_write_outside (Nat.le_refl _) (by rw [hl2]; omega)]
    have := slice_write_append (t := s.text) (x := tmp) (i := 0) (a := 0) (Nat.le_refl _) hw1
    rw [Nat.zero_add] at this
    rw [Nat.zero_add, this, slice_nil_of_ge _ (Nat.le_refl _)]
    rfl
  · dsimp only; rw [hl3, hl2]; exact hlen
  · dsimp only; omega
  · dsimp only; omega

/-- **typed-ahead input after the mode end**: raw text buffered in single-character mode (IAC-free; every CR followed
    by LF or CR or last) for which reframe_single_char_input has room: afterwards the commands in the buffer are
    `lines raw` - the specification's reading of the same bytes, independent of how they had been split into reads -/
theorem typeahead_lines_after_mode_end {s : S} (h : Inv s) (hi : ∀ b ∈ pend s, b ≠ bIAC) (hcl : crClean (pend s) = true)
    (hroom : reframeLoop (pend s) false [] ≠ .ok none) :
    ∃ s', reframe s = .ok s' ∧ Inv s' ∧ cmdsOf [] (pend s') = lines (pend s) := by
  rw [lines_eq_cmdsOf]
  by_cases hc : (pend s).contains bCR = true
  · rcases reframeLoop_len (pend s) false [] (by decide) with h1 | ⟨tmp, h1, _⟩
    · exact absurd h1 hroom
    · obtain ⟨s', e1, e2, _, _, i1⟩ := reframe_exact h tmp hc h1
      refine ⟨s', e1, i1, ?_⟩
      rw [e2, reframe_is_line_framing (pend s) hi hcl tmp h1]
  · have hp : pend s = slice s.text s.tstart s.tend := rfl
    have hr : reframe s = .ok s := by
      have hlen := h.textLen; have hse := h.se; have hem := h.eMax
      unfold reframe
      rw [if_neg (by omega)]
      dsimp only
      rw [← hp]
      have : (pend s).contains bCR = false := by simpa using hc
      rw [this]; rfl
    refine ⟨s, hr, h, ?_⟩
    have hnc : ∀ b ∈ pend s, b ≠ bIAC ∧ b ≠ bCR := by
      intro b hb
      refine ⟨hi b hb, ?_⟩
      intro hbc
      apply hc
      rw [List.contains_iff_mem]
      rw [← hbc]; exact hb
    rw [renderToks_plain _ hnc]

end NV.C13
