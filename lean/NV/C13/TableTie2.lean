/- C13 — chunk 2 of the transition-table tie (see Table.lean / TableTie.lean); evaluation by the kernel only -/
import NV.C13.Table

namespace NV.C13

theorem cc_chunk_2 : chunkOk 2 = true := by decide +kernel

end NV.C13
