/-
C13 — executable model of the input framing code of src/comm.c (after the `fix:` commits of branch c13).

Mirrors, function by function:
  copy_chars          -> `ccByte` / `copyChars`   telnet decoder, one byte at a time, state carried in `Dec`
  get_user_data       -> `getUserData`            space rule, compaction, discard, recv, PORT_TELNET / PORT_ASCII /
                                                  PORT_BINARY handling
  first_cmd_in_buf    -> `firstCmd`
  cmd_in_buf          -> `cmdInBuf`
  next_cmd_in_buf     -> `nextCmd`
  telnet_neg          -> `telnetNeg`              backspace / delete editing
  get_user_command    -> `getUserCommand`         (one user, command turn granted)
  add_console_line    -> `addConsoleLine`

Conventions
* every array access is bounds-checked explicitly: `text[MAX_TEXT]`, `sb_buf[..]`, the local `buf[MAX_TEXT]` of
  get_user_data and the static `buf[MAX_TEXT]` of get_user_command.  An access outside yields `Except.error why`
  (a *crash*); "never crashes" is a theorem (Props.lean), not a convention.
* `ip->state` is kept as (`ts` = state & TS_STATE_MASK, `cr` = state & TS_CR_SEEN); the code only ever stores
  TS_* constants (< 16) and sets/clears the single bit 0x10, so the two components are independent
  (`Props.ts_layout` checks the numeric layout on the regenerated constants).
* of `ip->iflags` the bits that the framing code reads or writes are kept as booleans.
* unsigned size_t arithmetic that would wrap (`MAX_TEXT - text_end - 1` with text_end > MAX_TEXT-1,
  `text_end - text_start` with start > end) is a crash, not a wrap-around.
* callbacks into the user object (process_input, terminal_type, window_size, telnet_suboption) are events.
All numbers come from the regenerated `NV.Gen.C13`.
-/
import NV.Gen.C13

namespace NV.C13

open NV.Gen.C13

abbrev Byte := UInt8

@[inline] def u8 (n : Nat) : Byte := UInt8.ofNat n

/-! ### constants as bytes -/
def bIAC : Byte := u8 cIAC
def bDONT : Byte := u8 cDONT
def bDO : Byte := u8 cDO
def bWONT : Byte := u8 cWONT
def bWILL : Byte := u8 cWILL
def bSB : Byte := u8 cSB
def bSE : Byte := u8 cSE
def bBREAK : Byte := u8 cBREAK
def bIP : Byte := u8 cIP
def bAYT : Byte := u8 cAYT
def bAO : Byte := u8 cAO
def bDM : Byte := u8 cDM
def bCR : Byte := 13
def bLF : Byte := 10
def bNUL : Byte := 0
def bSP : Byte := 32
def bBS : Byte := 8
def bDEL : Byte := 127

/-- size of `interactive_t.text` -/
abbrev MAXT : Nat := maxText

/-! ### events (the canonical trace; `render` is in Drive.lean) -/
inductive Ev where
  | ask (n : Nat)                       -- length passed to recv()
  | rx (bytes : List Byte)              -- bytes handed over by recv()
  | wouldblock
  | st (s e state sbpos fl : Nat)       -- text_start text_end ip->state sb_pos iflags&mask after a step
  | cmd (bytes : List Byte)             -- get_user_command() returned this line
  | nocmd
  | input (bytes : List Byte)           -- apply(process_input) argument (ascii: string, binary: buffer)
  | cbTtype (bytes : List Byte)
  | cbSubopt (bytes : List Byte)
  | cbNaws (w h : Nat)
  | tx (bytes : List Byte)              -- bytes written to the client during the step
  | cl (bytes : List Byte)              -- console: blob handed to add_console_line
  | errmsg (k : Nat)                    -- the error handler's message for the error raised in callback k
  | cberr                               -- get_user_data was left through an LPC error (longjmp to the backend)
  | closed
  | crash (why : String)
  | setcall (ok : Bool)                 -- get_char() / input_to() returned this
  | snoop (bytes : List Byte)           -- receive_snoop() in the snooper: the read as a C string
  deriving Repr, BEq, DecidableEq

/-! ### interactive flags and decoder state -/
structure IFlags where
  single : Bool := false          -- SINGLE_CHAR
  cmdInBuf : Bool := false        -- CMD_IN_BUF
  usingTelnet : Bool := false     -- USING_TELNET
  usingLinemode : Bool := false   -- USING_LINEMODE
  deriving Repr, BEq, DecidableEq

def IFlags.toNat (f : IFlags) : Nat :=
  (if f.single then iSingleChar else 0) + (if f.cmdInBuf then iCmdInBuf else 0) +
  (if f.usingTelnet then iUsingTelnet else 0) + (if f.usingLinemode then iUsingLinemode else 0)

structure Dec where
  ts : Nat := tsDATA              -- ip->state & TS_STATE_MASK
  cr : Bool := false              -- ip->state & TS_CR_SEEN
  fl : IFlags := {}
  sbPos : Nat := 0
  sbBuf : List Byte               -- `BYTE sb_buf[sizeof]`
  lmMode : Byte                   -- telnet_sb_lm_mode[4] (a global of comm.c)
  deriving Repr, BEq, DecidableEq

def Dec.init : Dec := { sbBuf := List.replicate sbBufSize 0, lmMode := u8 modeACK }

def Dec.stateNat (d : Dec) : Nat := d.ts + (if d.cr then tsCrSeen else 0)

/-! ### add_message: C-string semantics and LF -> CR LF -/
def cstrOf : List Byte → List Byte
  | [] => []
  | b :: r => if b = 0 then [] else b :: cstrOf r

def addMsg (data : List Byte) : List Byte :=
  (cstrOf data).flatMap (fun b => if b = bLF then [bCR, bLF] else [b])

/-- result of processing bytes in copy_chars -/
structure CC where
  d : Dec
  out : List Byte := []     -- bytes stored through `*to++`
  tx : List Byte := []      -- add_message output
  cbs : List Ev := []       -- applies on the user object
  deriving Repr

/-! ### sb_buf access with bounds checks -/
def sbSet (d : Dec) (i : Nat) (v : Byte) : Except String Dec :=
  if i < d.sbBuf.length then .ok { d with sbBuf := d.sbBuf.set i v } else .error s!"sb_buf write index {i}"

/-- C string starting at `sb_buf + i` (reads until a NUL; running off the array is a crash) -/
def sbCstr (d : Dec) (i : Nat) : Except String (List Byte) :=
  let tail := d.sbBuf.drop i
  if tail.contains 0 then .ok (cstrOf tail) else .error s!"sb_buf string read from {i} runs off the array"

/-- the LM_SLC answer loop: `for (j = 2; j < ip->sb_pos - 3; j += 3)` -/
def slcLoop (buf : List Byte) (sbPos : Nat) : Nat → Nat → List Byte
  | 0, _ => []
  | fuel + 1, j =>
    if j + 3 < sbPos then
      let func := buf.getD j 0
      let flags := buf.getD (j + 1) 0
      let value := buf.getD (j + 2) 0
      if func = 0 ∧ value = 0 then []                                     -- break
      else if flags.toNat &&& slcACK ≠ 0 then slcLoop buf sbPos fuel (j + 3)   -- continue
      else if func.toNat < 128 ∧ func.toNat > nSLC then                   -- (signed char) > NSLC
        addMsg [func, u8 slcNOSUPPORT, value, 0] ++ slcLoop buf sbPos fuel (j + 3)
      else
        let lvl := flags.toNat &&& slcLEVELBITS
        if lvl = slcDEFAULT then
          addMsg [func, flags, 0, 0] ++ slcLoop buf sbPos fuel (j + 3)
        else if lvl = slcVARIABLE ∨ lvl = slcCANTCHANGE then
          if value.toNat ≥ 32 ∧ value.toNat ≠ 127 then
            addMsg [func, u8 slcNOSUPPORT, value, 0] ++ slcLoop buf sbPos fuel (j + 3)
          else
            addMsg [func, u8 (flags.toNat ||| slcACK), value, 0] ++ slcLoop buf sbPos fuel (j + 3)
        else slcLoop buf sbPos fuel (j + 3)                                 -- SLC_NOSUPPORT: continue
    else []

def telnetSbLmMode (d : Dec) : List Byte := [bIAC, bSB, u8 optLINEMODE, u8 lmMODE, d.lmMode, bIAC, bSE, 0]

/-- `case TS_SB_IAC:` with `from[i] == SE`: terminate the buffer and hand it to the user object.
    The handlers read `sb_buf[0..4]` at fixed offsets whatever `sb_pos` is (one explicit check for all five). -/
def sbEnd (d0 : Dec) : Except String CC :=
  match sbSet d0 d0.sbPos 0 with                              -- ip->sb_buf[ip->sb_pos] = 0
  | .error e => .error e
  | .ok d =>
    if d.sbBuf.length < 5 then .error "sb_buf[0..4] read outside the array" else
    let g : Nat → Byte := fun i => d.sbBuf.getD i 0
    let done : Dec := { d with ts := tsDATA, cr := false }
    if g 0 = u8 optTTYPE then
      if g 1 ≠ u8 telqualIS then .ok { d := done }
      else
        match sbCstr d 2 with
        | .error e => .error e
        | .ok s => .ok { d := done, cbs := [.cbTtype s] }
    else if g 0 = u8 optNAWS then
      .ok { d := done, cbs := [.cbNaws ((g 1).toNat * 256 + (g 2).toNat) ((g 3).toNat * 256 + (g 4).toNat)] }
    else if g 0 = u8 optLINEMODE then
      if g 1 = u8 lmMODE then
        if (g 2).toNat &&& modeACK ≠ 0 then .ok { d := done }
        else .ok { d := done, tx := addMsg (telnetSbLmMode d) }
      else if g 1 = u8 lmSLC then
        .ok { d := done,
              tx := addMsg [bIAC, bSB, u8 optLINEMODE, u8 lmSLC, 0] ++ slcLoop d.sbBuf d.sbPos d.sbPos 2 ++
                    addMsg [bIAC, bSE, 0] }
      else .ok { d := done }
    else
      match sbCstr d 0 with
      | .error e => .error e
      | .ok s => .ok { d := done, cbs := [.cbSubopt s] }

/-! one iteration of the `for` loop of copy_chars: one function per `case` of the switch -/

/-- `case TS_DATA:` -/
def ccData (d : Dec) (b : Byte) : Except String CC :=
  if b = bIAC then .ok { d := { d with ts := tsIAC, cr := false } }
  else if b = bCR then
    .ok { d := { d with cr := true }, out := if d.fl.single then [b] else [] }
  else
    let d' := { d with cr := false }
    if !d.cr || d.fl.single then .ok { d := d', out := [b] }
    else if b = bLF ∨ b = bNUL then
      .ok { d := d', out := [bSP, bBS, bNUL], tx := addMsg [bCR, bLF, 0] }
    else .ok { d := d' }                                  -- the byte after a lone CR is dropped

/-- `case TS_SB_IAC:` -/
def ccSbIac (d : Dec) (b : Byte) : Except String CC :=
  if b = bIAC then
    let d1 : Dec := { d with ts := tsSB, cr := false }
    if d.sbPos < sbSize then
      match sbSet d1 d.sbPos bIAC with
      | .ok d2 => .ok { d := { d2 with sbPos := d.sbPos + 1 } }
      | .error e => .error e
    else .ok { d := d1 }
  else if b = bSE then sbEnd d
  else .ok { d := d }

/-- `case TS_IAC:` -/
def ccIac (d : Dec) (b : Byte) : Except String CC :=
  let toData : Dec := { d with ts := tsDATA, cr := false }
  if b = bIAC then .ok { d := toData, out := [bIAC] }
  else if b = bDO then .ok { d := { d with ts := tsDO, cr := false } }
  else if b = bDONT then .ok { d := { d with ts := tsDONT, cr := false } }
  else if b = bWILL then .ok { d := { d with ts := tsWILL, cr := false } }
  else if b = bWONT then .ok { d := { d with ts := tsWONT, cr := false } }
  else if b = bBREAK then .ok { d := toData, tx := addMsg [28, bIAC, bWILL, u8 optTM, 0] }
  else if b = bIP then .ok { d := toData, tx := addMsg [127, bIAC, bWILL, u8 optTM, 0] }
  else if b = bAYT then .ok { d := toData, tx := addMsg (aytBanner.map u8 ++ [0]) }
  else if b = bAO then .ok { d := toData, tx := addMsg [bIAC, bDM, 0] }
  else if b = bSB then
    .ok { d := { d with ts := tsSB, cr := false, sbPos := 0, sbBuf := List.replicate d.sbBuf.length 0 } }
  else .ok { d := toData }

/-- `case TS_DO:` -/
def ccDo (d : Dec) (b : Byte) : Except String CC :=
  let toData : Dec := { d with ts := tsDATA, cr := false }
  if b = u8 optSGA then .ok { d := toData, tx := addMsg [bIAC, bWILL, u8 optSGA, 0] }
  else if b = u8 optTM then .ok { d := toData, tx := addMsg [bIAC, bWILL, u8 optTM, 0] }
  else .ok { d := toData }

/-- `case TS_WILL:` -/
def ccWill (d : Dec) (b : Byte) : Except String CC :=
  let fl := { d.fl with usingTelnet := true }
  if b = u8 optTTYPE then
    .ok { d := { d with ts := tsDATA, cr := false, fl := fl },
          tx := addMsg [bIAC, bSB, u8 optTTYPE, u8 telqualSEND, bIAC, bSE, 0] }
  else if b = u8 optLINEMODE then
    let fl := { fl with usingLinemode := true }
    if !d.fl.single then
      let d' : Dec := { d with ts := tsDATA, cr := false, fl := fl, lmMode := u8 (modeEDIT ||| modeTRAPSIG) }
      .ok { d := d', tx := addMsg (telnetSbLmMode d') }
    else .ok { d := { d with ts := tsDATA, cr := false, fl := fl } }
  else if b = u8 optSGA then
    .ok { d := { d with ts := tsDATA, cr := false, fl := fl }, tx := addMsg [bIAC, bDO, u8 optSGA, 0] }
  else .ok { d := { d with ts := tsDATA, cr := false, fl := fl } }

/-- `case TS_DONT:` -/
def ccDont (d : Dec) (b : Byte) : Except String CC :=
  let fl := { d.fl with usingTelnet := true }
  if b = u8 optSGA then
    .ok { d := { d with ts := tsDATA, cr := false, fl := fl }, tx := addMsg [bIAC, bWONT, u8 optSGA, 0] }
  else .ok { d := { d with ts := tsDATA, cr := false, fl := fl } }

/-- `case TS_WONT:` -/
def ccWont (d : Dec) (b : Byte) : Except String CC :=
  let fl := { d.fl with usingTelnet := true }
  if b = u8 optLINEMODE then
    .ok { d := { d with ts := tsDATA, cr := false, fl := { fl with usingLinemode := false } } }
  else .ok { d := { d with ts := tsDATA, cr := false, fl := fl } }

/-- `case TS_SB:` -/
def ccSb (d : Dec) (b : Byte) : Except String CC :=
  if b = bIAC then .ok { d := { d with ts := tsSBIAC, cr := false } }
  else if d.sbPos < sbSize then
    match sbSet d d.sbPos b with
    | .ok d2 => .ok { d := { d2 with sbPos := d.sbPos + 1 } }
    | .error e => .error e
  else .ok { d := d }

/-- `switch (ip->state & TS_STATE_MASK)` -/
def ccByte (d : Dec) (b : Byte) : Except String CC :=
  if d.ts = tsDATA then ccData d b
  else if d.ts = tsSBIAC then ccSbIac d b
  else if d.ts = tsIAC then ccIac d b
  else if d.ts = tsDO then ccDo d b
  else if d.ts = tsWILL then ccWill d b
  else if d.ts = tsDONT then ccDont d b
  else if d.ts = tsWONT then ccWont d b
  else if d.ts = tsSB then ccSb d b
  else .ok { d := d }                                       -- no `case` matches

/-- copy_chars over a chunk: the decoder state is carried in `ip`, output is appended -/
def copyChars (d : Dec) : List Byte → Except String CC
  | [] => .ok { d := d }
  | b :: rest =>
    match ccByte d b with
    | .error e => .error e
    | .ok r1 =>
      match copyChars r1.d rest with
      | .error e => .error e
      | .ok r2 => .ok { d := r2.d, out := r1.out ++ r2.out, tx := r1.tx ++ r2.tx, cbs := r1.cbs ++ r2.cbs }

/-! ### callbacks into the user object are an oracle
The k-th callback of a connection (process_input on the ascii/binary port; terminal_type, window_size,
telnet_suboption from a telnet sub-negotiation) returns normally, raises an LPC error, or destructs / disconnects
the user object. -/
inductive Outcome where
  | ok | err | dest
  deriving Repr, BEq, DecidableEq

abbrev Oracle := Nat → Outcome

/-- copy_chars with the callbacks answered by the oracle; `n` is the ordinal of the next callback.
    The telnet callbacks are made through safe_apply(): an error is reported (`errmsg`) and copy_chars goes on.
    If the callback destructs the user, copy_chars stops at once (`ip` is gone): result flag `true`. -/
def copyCharsO (o : Oracle) (d : Dec) (n : Nat) : List Byte → Except String (CC × Nat × Bool)
  | [] => .ok ({ d := d }, n, false)
  | b :: rest =>
    match ccByte d b with
    | .error e => .error e
    | .ok r1 =>
      if r1.cbs.isEmpty then
        match copyCharsO o r1.d n rest with
        | .error e => .error e
        | .ok (r2, n2, dead) =>
          .ok ({ d := r2.d, out := r1.out ++ r2.out, tx := r1.tx ++ r2.tx, cbs := r2.cbs }, n2, dead)
      else
        match o n with
        | .dest => .ok ({ d := r1.d, out := r1.out, tx := r1.tx, cbs := r1.cbs }, n + 1, true)
        | oc =>
          match copyCharsO o r1.d (n + 1) rest with
          | .error e => .error e
          | .ok (r2, n2, dead) =>
            .ok ({ d := r2.d, out := r1.out ++ r2.out, tx := r1.tx ++ r2.tx,
                   cbs := r1.cbs ++ (if oc = .err then [.errmsg n] else []) ++ r2.cbs }, n2, dead)

/-! ### the connection -/
inductive Port where
  | telnet | ascii | binary | console
  deriving Repr, BEq, DecidableEq

structure S where
  port : Port
  text : List Byte            -- `char text[MAX_TEXT]`
  tstart : Nat := 0
  tend : Nat := 0
  dec : Dec := Dec.init
  sock : List Byte := []      -- bytes sent by the client and not yet read
  closed : Bool := false
  cbCount : Nat := 0          -- callbacks into the user object made so far (ordinal of the next one)
  deriving Repr

def S.init (p : Port) : S := { port := p, text := List.replicate textArraySize 0 }

/-- bytes `text[a .. b)` -/
def slice (t : List Byte) (a b : Nat) : List Byte := (t.drop a).take (b - a)

/-- store `bytes` at `text[i ..]`; every index must be inside the array -/
def writeAt (t : List Byte) (i : Nat) (bytes : List Byte) : Except String (List Byte) :=
  if i + bytes.length ≤ t.length then .ok (t.take i ++ bytes ++ t.drop (i + bytes.length))
  else .error s!"text write [{i},{i + bytes.length}) outside text[{t.length}]"

def countZ : List Byte → Nat
  | [] => 0
  | b :: r => if b = 0 then countZ r + 1 else 0

def countNZ : List Byte → Nat
  | [] => 0
  | b :: r => if b = 0 then 0 else countNZ r + 1

/-- cmd_in_buf -/
def cmdInBuf (s : S) : Except String Bool :=
  if s.tend > s.text.length then .error "cmd_in_buf reads behind text[]" else
  if s.tstart > s.tend then .ok false else
  let pend := slice s.text s.tstart s.tend
  let z := countZ pend
  if s.tstart + z ≥ s.tend then .ok false
  else if s.dec.fl.single then .ok true
  else
    let p1 := pend.drop z
    .ok (countNZ p1 < p1.length)

/-- first_cmd_in_buf: returns the index of the command start, or none -/
def firstCmd (s : S) : Except String (S × Option Nat) :=
  if s.tend > s.text.length then .error "first_cmd_in_buf reads behind text[]" else
  if s.tstart > s.tend then
    -- `p < text + text_end` is false at once; text_start >= text_end: reset
    match writeAt s.text 0 [0] with
    | .error e => .error e
    | .ok t => .ok ({ s with tstart := 0, tend := 0, text := t }, none)
  else
  let pend := slice s.text s.tstart s.tend
  let z := countZ pend
  let st := s.tstart + z
  if st ≥ s.tend then
    match writeAt s.text 0 [0] with
    | .error e => .error e
    | .ok t => .ok ({ s with tstart := 0, tend := 0, text := t }, none)
  else if s.dec.fl.single then .ok ({ s with tstart := st }, some st)
  else
    let p1 := pend.drop z
    if countNZ p1 < p1.length then .ok ({ s with tstart := st }, some st)
    else
      -- partial command at the end of the buffer: move it to the start
      match writeAt s.text 0 p1 with
      | .error e => .error e
      | .ok t =>
        let e' := s.tend - st
        if e' + cutMargin > MAXT then
          -- buffer full: truncate and return it as a command
          if e' < 2 then .error "first_cmd_in_buf: text[text_end-2] below the array" else
          match writeAt t (e' - 2) [0, 0] with
          | .error e => .error e
          | .ok t2 => .ok ({ s with text := t2, tstart := 0, tend := e' - 1 }, some 0)
        else .ok ({ s with text := t, tstart := 0, tend := e' }, none)

/-- next_cmd_in_buf -/
def nextCmd (s : S) : Except String S :=
  -- `while (*p && p < end)` reads `*p` at p = text_end at most
  if s.tend ≥ s.text.length then .error "next_cmd_in_buf reads text[text_end] behind text[]" else
  if s.tstart > s.tend then .error "next_cmd_in_buf: text_start behind text_end (unbounded scan)" else
  let pend := slice s.text s.tstart s.tend
  let n := countNZ pend
  let z := countZ (pend.drop n)
  let p := s.tstart + n + z
  if p < s.tend then .ok { s with tstart := p }
  else
    match writeAt s.text 0 [0] with
    | .error e => .error e
    | .ok t => .ok { s with tstart := 0, tend := 0, text := t }

/-- telnet_neg: `to` never moves below `first`; the terminator is copied too -/
def telnetNegAux : List Byte → List Byte → List Byte
  | acc, [] => acc
  | acc, ch :: rest =>
    if ch = bBS ∨ ch = bDEL then
      (if acc.isEmpty then telnetNegAux acc rest          -- `if (to <= first) continue;`
       else telnetNegAux acc.dropLast rest)               -- `to -= 1;`
    else telnetNegAux (acc ++ [ch]) rest

def telnetNeg (cmd : List Byte) : List Byte := telnetNegAux [] cmd

/-- the C string at `text + i` -/
def cstrAt (t : List Byte) (i : Nat) : Except String (List Byte) :=
  let tail := t.drop i
  if tail.contains 0 then .ok (cstrOf tail) else .error s!"string read from text+{i} runs off text[]"

/-- get_user_command for this user with the command turn granted -/
def getUserCommand (s : S) : Except String (S × Option (List Byte)) :=
  if !s.dec.fl.cmdInBuf then .ok (s, none) else
  match firstCmd s with
  | .error e => .error e
  | .ok (s1, none) => .ok ({ s1 with dec := { s1.dec with fl := { s1.dec.fl with cmdInBuf := false } } }, none)
  | .ok (s1, some i) =>
    match cstrAt s1.text i with
    | .error e => .error e
    | .ok raw =>
      let line := telnetNeg raw
      -- static char buf[MAX_TEXT]: line bytes + terminator
      if line.length + 1 > MAXT then .error "telnet_neg writes behind buf[MAX_TEXT]" else
      match nextCmd s1 with
      | .error e => .error e
      | .ok s2 =>
        match cmdInBuf s2 with
        | .error e => .error e
        | .ok c =>
          let s3 := if c then s2 else { s2 with dec := { s2.dec with fl := { s2.dec.fl with cmdInBuf := false } } }
          .ok (s3, some line)

/-- memchr (p, '\n', n) -/
def findLF : List Byte → Option Nat
  | [] => none
  | b :: r => if b = bLF then some 0 else (findLF r).map (· + 1)

/-- the statement order this model implements for the PORT_ASCII loop, add_console_line's checks and the telnet store
    (compared with the order read from the source text: `Props.statement_order_tie`) -/
def asciiLoopOrderModel : List String :=
  ["commitStart", "storeNul", "callback", "revalidate", "resetTest", "advance", "moveRest"]
def consoleCheckOrderModel : List String := ["emptyTest", "makeRoomTest", "discard", "fitTest"]
def telnetStoreOrderModel : List String := ["copyChars", "deadTest", "advanceEnd", "terminator", "cmdFlag", "snoop"]

inductive LoopEnd where
  | done        -- no further LF
  | aborted     -- process_input raised an error: get_user_data is left with what has been committed so far
  | dead        -- process_input destructed the user
  deriving Repr, BEq, DecidableEq

/-- the PORT_ASCII line loop: `while ((nl = memchr (p, '\n', text_end - text_start)))`.
    Statement order: `text_start` is advanced past the line and the LF overwritten by NUL *before* process_input
    runs; the reset / `p = nl + 1` come after it. -/
def asciiLoop (o : Oracle) : Nat → S → List Ev → Except String (S × List Ev × LoopEnd)
  | 0, s, evs => .ok (s, evs, .done)
  | fuel + 1, s, evs =>
    if s.tstart > s.tend ∨ s.tend > s.text.length then .error "PORT_ASCII: memchr outside text[]" else
    let pend := slice s.text s.tstart s.tend
    match findLF pend with
    | none => .ok (s, evs, .done)
    | some k =>
      let nl := s.tstart + k
      match writeAt s.text nl [0] with                          -- ip->text_start = nl + 1; *nl = 0
      | .error e => .error e
      | .ok t =>
        let evs := evs ++ [.input (pend.take k)]                -- apply (process_input)
        let n := s.cbCount
        let s := { s with text := t, tstart := nl + 1, cbCount := n + 1 }
        match o n with
        | .err => .ok (s, evs ++ [.errmsg n, .cberr], .aborted)
        | .dest => .ok ({ s with closed := true }, evs, .dead)
        | .ok =>
          if s.tstart = s.tend then .ok ({ s with tstart := 0, tend := 0 }, evs, .done)
          else asciiLoop o fuel s evs

def setCmdFlag (s : S) : Except String S :=
  match cmdInBuf s with
  | .error e => .error e
  | .ok c => .ok (if c then { s with dec := { s.dec with fl := { s.dec.fl with cmdInBuf := true } } } else s)

/-- PORT_ASCII / PORT_BINARY: lines already handed over but still in front of the buffer (an error in
    process_input) are released first; no protocol overhead; a full buffer without LF is discarded -/
def computeSpaceOther (s : S) : Except String (S × Nat) :=
  if s.tstart > s.tend then .error "get_user_data: text_end - text_start wraps" else
  match (if s.tstart > 0 then writeAt s.text 0 (slice s.text s.tstart s.tend) else .ok s.text) with
  | .error e => .error e
  | .ok t =>
    let s := { s with text := t, tend := s.tend - s.tstart, tstart := 0 }
    if s.tend + asciiReserve > MAXT then .error "get_user_data: MAX_TEXT - text_end - 1 wraps" else
    let space := MAXT - s.tend - asciiReserve
    if space = 0 then .ok ({ s with tstart := 0, tend := 0 }, MAXT - 1)        -- over-long line discarded
    else .ok (s, space)

/-- the length get_user_data passes to recv(), after compaction / discard -/
def computeSpace (s : S) : Except String (S × Nat) :=
  match s.port with
  | .telnet =>
    if s.tend + 1 > MAXT then .error "get_user_data: MAX_TEXT - text_end - 1 wraps" else
    let space := (MAXT - s.tend - 1) / spaceDiv
    if space < MAXT / compactDiv then
      if s.tstart > s.tend then .error "get_user_data: text_end - text_start wraps" else
      let len := s.tend - s.tstart
      -- memmove (ip->text, ip->text + ip->text_start, len + 1)
      if s.tstart + len + 1 > s.text.length then .error "get_user_data: memmove reads behind text[]" else
      match writeAt s.text 0 (slice s.text s.tstart (s.tend + 1)) with
      | .error e => .error e
      | .ok t =>
        let s := { s with text := t, tstart := 0, tend := len }
        if s.tend + 1 > MAXT then .error "get_user_data: MAX_TEXT - text_end - 1 wraps" else
        let space := (MAXT - s.tend - 1) / spaceDiv2
        if space < MAXT / compactDiv then
          .ok ({ s with tstart := 0, tend := 0 }, MAXT / discardSpaceDiv)       -- discard
        else .ok (s, space)
    else .ok (s, space)
  | _ => computeSpaceOther s

/-- get_user_data (readiness path, `evt == NULL`) -/
def getUserData (o : Oracle) (s : S) : Except String (S × List Ev) :=
  if s.port == .console then .ok (s, []) else
  match computeSpace s with
  | .error e => .error e
  | .ok (s, space) =>
    let pre : List Ev := [.ask space]
    if s.sock.isEmpty then .ok (s, pre ++ [.wouldblock]) else
    let chunk := s.sock.take space
    let s := { s with sock := s.sock.drop space }
    let pre := pre ++ [.rx chunk]
    if chunk.isEmpty then .ok ({ s with closed := true }, pre)        -- recv() returned 0: connection closed
    else
    -- `char buf[MAX_TEXT]; ... buf[num_bytes] = '\0'`
    if chunk.length ≥ MAXT then .error "get_user_data: buf[num_bytes] behind buf[MAX_TEXT]" else
    match s.port with
    | .telnet =>
      match copyCharsO o s.dec s.cbCount chunk with
      | .error e => .error e
      | .ok (r, n', dead) =>
        let txe : List Ev := if r.tx.isEmpty then [] else [.tx r.tx]
        if dead then .ok ({ s with closed := true, cbCount := n' }, pre ++ r.cbs ++ txe) else
        match writeAt s.text s.tend r.out with
        | .error e => .error e
        | .ok t =>
          let e' := s.tend + r.out.length
          match writeAt t e' [0] with                              -- ip->text[ip->text_end] = '\0'
          | .error e => .error e
          | .ok t2 =>
            match setCmdFlag { s with text := t2, tend := e', dec := r.d, cbCount := n' } with
            | .error e => .error e
            | .ok s2 => .ok (s2, pre ++ r.cbs ++ txe)
    | .ascii =>
      match writeAt s.text s.tend chunk with                       -- memcpy (ip->text + ip->text_end, buf, n)
      | .error e => .error e
      | .ok t =>
        match asciiLoop o (s.tend - s.tstart + chunk.length + 1) { s with text := t, tend := s.tend + chunk.length } [] with
        | .error e => .error e
        | .ok (s2, evs, .aborted) => .ok (s2, pre ++ evs)          -- longjmp: nothing after the apply is executed
        | .ok (s2, evs, .dead) => .ok (s2, pre ++ evs)
        | .ok (s2, evs, .done) =>
          if s2.tstart > 0 then
            if s2.tstart > s2.tend then .error "PORT_ASCII: text_end - text_start wraps" else
            match writeAt s2.text 0 (slice s2.text s2.tstart s2.tend) with
            | .error e => .error e
            | .ok t3 => .ok ({ s2 with text := t3, tend := s2.tend - s2.tstart, tstart := 0 }, pre ++ evs)
          else .ok (s2, pre ++ evs)
    | .binary =>
      let n := s.cbCount
      let s := { s with cbCount := n + 1 }
      match o n with
      | .ok => .ok (s, pre ++ [.input chunk])
      | .err => .ok (s, pre ++ [.input chunk, .errmsg n, .cberr])
      | .dest => .ok ({ s with closed := true }, pre ++ [.input chunk])
    | .console => .ok (s, pre)

/-- add_console_line, first part: if the blob does not fit and no complete command is pending, the unfinished
    over-long line is discarded -/
def consoleMakeRoom (s : S) (len : Nat) : Except String S :=
  if s.tend + len ≥ MAXT then
    match cmdInBuf s with
    | .error e => .error e
    | .ok c => .ok (if c then s else { s with tstart := 0, tend := 0 })
  else .ok s

/-- add_console_line (`line_length` = bytes + 1): a blob that does not fit is dropped as a whole -/
def addConsoleLine (s : S) (bytes : List Byte) : Except String S :=
  let len := bytes.length
  if len = 0 then .ok s else
  match consoleMakeRoom s len with
  | .error e => .error e
  | .ok s1 =>
    if s1.tend + len ≥ MAXT then .ok s1 else
    let conv := bytes.map (fun b => if b = bLF ∨ b = bCR then bNUL else b)
    match writeAt s1.text s1.tend conv with
    | .error e => .error e
    | .ok t =>
      match writeAt t (s1.tend + len) [0] with
      | .error e => .error e
      | .ok t2 => setCmdFlag { s1 with text := t2, tend := s1.tend + len }

/-! ### get_char() / input_to(): mode switches made by the user object (telnet port) -/

def telnetWillSga : List Byte := [bIAC, bWILL, u8 optSGA, 0]
def telnetWontSga : List Byte := [bIAC, bWONT, u8 optSGA, 0]
def telnetYesEcho : List Byte := [bIAC, bWILL, u8 optECHO, 0]
def telnetNoEcho : List Byte := [bIAC, bWONT, u8 optECHO, 0]

/-- set_telnet_single_char (network user): nothing unless the client speaks telnet; LINEMODE clients get the LM_MODE
    sub-negotiation (the global `telnet_sb_lm_mode[4]` is overwritten), others WILL / WONT SGA -/
def setTelnetSingleChar (d : Dec) (single : Bool) : Dec × List Byte :=
  if !d.fl.usingTelnet then (d, [])
  else if d.fl.usingLinemode then
    let d' : Dec := { d with lmMode := u8 (if single then modeTRAPSIG else modeTRAPSIG ||| modeEDIT) }
    (d', addMsg (telnetSbLmMode d'))
  else (d, addMsg (if single then telnetWillSga else telnetWontSga))

/-- set_call(ob, sent, flags) as reached from get_char() (`single`) / input_to(), no other input_to pending:
    NOECHO -> IAC WILL ECHO; SINGLE_CHAR -> set_telnet_single_char(1) and typed-ahead characters are flagged -/
def setCall (s : S) (single noecho : Bool) : Except String (S × List Byte) :=
  let tx1 := if noecho then addMsg telnetYesEcho else []
  if single then
    let d1 : Dec := { s.dec with fl := { s.dec.fl with single := true } }
    match setCmdFlag { s with dec := (setTelnetSingleChar d1 true).1 } with
    | .error e => .error e
    | .ok s' => .ok (s', tx1 ++ (setTelnetSingleChar d1 true).2)
  else .ok (s, tx1)

/-- `char tmp[MAX_TEXT]` of reframe_single_char_input: `tmp[to++] = ..` -/
def tmpPush (acc x : List Byte) : Except String (List Byte) :=
  if acc.length + x.length ≤ MAXT then .ok (acc ++ x) else .error "reframe_single_char_input: write behind tmp[MAX_TEXT]"

/-- the second loop of reframe_single_char_input over `text[text_start .. text_end)`; `skip` = the LF consumed by the
    `from++` of the CR LF branch.  `none` = "no room: leave the buffer as it is" -/
def reframeLoop : List Byte → Bool → List Byte → Except String (Option (List Byte))
  | [], _, acc => .ok (some acc)
  | _ :: rest, true, acc => reframeLoop rest false acc
  | c :: rest, false, acc =>
    if acc.length + reframeNeed ≥ MAXT - reframeReserve then .ok none
    else if c = bCR then
      if rest.head? = some bLF then
        match tmpPush acc [bSP, bBS, bNUL] with
        | .error e => .error e
        | .ok acc' => reframeLoop rest true acc'
      else reframeLoop rest false acc
    else
      match tmpPush acc [c] with
      | .error e => .error e
      | .ok acc' => reframeLoop rest false acc'

/-- reframe_single_char_input: text that arrived raw in single-char mode gets the line-mode framing -/
def reframe (s : S) : Except String S :=
  if s.tstart > s.tend ∨ s.tend > s.text.length then .error "reframe_single_char_input reads outside text[]" else
  let pend := slice s.text s.tstart s.tend
  if !pend.contains bCR then .ok s else
  match reframeLoop pend false [] with
  | .error e => .error e
  | .ok none => .ok s
  | .ok (some tmp) =>
    match writeAt s.text 0 tmp with                               -- memcpy (ip->text, tmp, to)
    | .error e => .error e
    | .ok t =>
      match writeAt t tmp.length [0] with                         -- ip->text[to] = '\0'
      | .error e => .error e
      | .ok t2 => setCmdFlag { s with text := t2, tstart := 0, tend := tmp.length }

/-- call_function_interactive with an input_to pending, the part that concerns the input buffer: if single-char mode
    was on it ends (telnet option message) and the buffered raw text is reframed -/
def endInput (s : S) : Except String (S × List Byte) :=
  if s.dec.fl.single then
    let d1 : Dec := { s.dec with fl := { s.dec.fl with single := false } }
    match reframe { s with dec := (setTelnetSingleChar d1 false).1 } with
    | .error e => .error e
    | .ok s' => .ok (s', (setTelnetSingleChar d1 false).2)
  else .ok (s, [])

/-- the NOECHO branch at the end of get_user_command: IAC WONT ECHO on the telnet port (the flag is cleared) -/
def noEchoTx (noEcho : Bool) (s : S) : List Byte :=
  if noEcho && s.port == .telnet then addMsg telnetNoEcho else []

def txEv (tx : List Byte) : List Ev := if tx.isEmpty then [] else [.tx tx]

/-! ### scripted runs (the case language of the harness) -/
inductive Op where
  | iflagSingle
  | iflagLine
  | send (bytes : List Byte)
  | read
  | chunk (bytes : List Byte)
  | extract
  | drain
  | finish
  | line (bytes : List Byte)
  | getchar (noecho : Bool)
  | inputto (noecho : Bool)
  | serve
  | wpipe (bytes : List Byte)
  | snoopOn
  deriving Repr, BEq

def stEv (s : S) : Ev := .st s.tstart s.tend s.dec.stateNat s.dec.sbPos s.dec.fl.toNat

/-- what the harness does after each step: explicit index check, then the `st` line -/
def afterStep (s : S) : List Ev :=
  if s.closed then [.closed]
  else if s.tstart > s.tend ∨ s.tend + 1 > MAXT then [.crash s!"text-index {s.tstart} {s.tend}"]
  else [stEv s]

structure Run where
  s : S
  evs : List Ev := []       -- in order
  dead : Bool := false      -- crashed: nothing more is executed
  inputTo : Bool := false   -- `ip->input_to != 0`: an input_to() / get_char() is pending
  noEcho : Bool := false    -- NOECHO
  snoop : Bool := false     -- `ip->snoop_by != 0`

def Run.add (r : Run) (s : S) (evs : List Ev) : Run :=
  let tail := afterStep s
  { r with s := s, evs := r.evs ++ evs ++ tail,
           dead := r.dead || tail.any (fun e => match e with | .crash _ => true | _ => false) }

def Run.crash (r : Run) (why : String) : Run := { r with evs := r.evs ++ [.crash why], dead := true }

/-- get_user_data, PORT_TELNET, before anything is moved: when neither the space behind `text_end` nor the space
    after compaction reaches `MAX_TEXT / 16` and a complete command is pending, nothing is read - the new data stays
    in the socket until commands have been processed (fix 57d7cb1; readiness path `evt == NULL`) -/
def holdRead (s : S) : Except String Bool :=
  if s.port != .telnet then .ok false else
  if s.tend + 1 > MAXT then .error "get_user_data: MAX_TEXT - text_end - 1 wraps" else
  if (MAXT - s.tend - 1) / spaceDiv < MAXT / compactDiv then
    if s.tstart > s.tend then .error "get_user_data: text_end - text_start wraps" else
    if (MAXT - (s.tend - s.tstart) - 1) / holdDiv < MAXT / holdCmpDiv then cmdInBuf s else .ok false
  else .ok false

/-- get_user_data with the hold test in front -/
def getUserDataH (o : Oracle) (s : S) : Except String (S × List Ev) :=
  match holdRead s with
  | .error e => .error e
  | .ok true => .ok ({ s with dec := { s.dec with fl := { s.dec.fl with cmdInBuf := true } } }, [])
  | .ok false => getUserData o s

/-- the data chunk of a read, if it got one -/
def rxOf : List Ev → Option (List Byte)
  | [] => none
  | .rx b :: _ => some b
  | _ :: r => rxOf r

def isTx : Ev → Bool
  | .tx _ => true
  | _ => false

/-- the end of get_user_data's PORT_TELNET branch: after the text is stored and CMD_IN_BUF updated, the read is
    forwarded to a snooper (`receive_snoop (buf, ..)`, unless NOECHO) - a callback like the others: it may raise an
    error (receive_snoop() runs under safe_apply since 4a7340a: the error is reported and get_user_data goes on, like
    for the telnet callbacks) or destruct the snooped user.  It is the last thing done with `ip` (fixes eca4aec /
    4a7340a), so it is modelled behind `getUserData`.  Replies are flushed after the step. -/
def readTail (o : Oracle) (r : Run) (s : S) (evs : List Ev) : Run :=
  if r.snoop && s.port == .telnet && !s.closed && !r.noEcho then
    match rxOf evs with
    | none => r.add s evs
    | some chunk =>
      if chunk.isEmpty then r.add s evs else
      let n := s.cbCount
      let pre := evs.filter (fun e => !isTx e) ++ [Ev.snoop (cstrOf chunk)]
      match o n with
      | .ok => r.add { s with cbCount := n + 1 } (pre ++ evs.filter isTx)
      | .err =>
        r.add { s with cbCount := n + 1 }
          (pre ++ (if snoopSafeApply then [Ev.errmsg n] else [Ev.errmsg n, Ev.cberr]) ++ evs.filter isTx)
      | .dest => r.add { s with cbCount := n + 1, closed := true } (pre ++ evs.filter isTx)
  else r.add s evs

def doRead (o : Oracle) (r : Run) : Run :=
  if r.dead || r.s.closed then r else
  match getUserDataH o r.s with
  | .error e => r.crash e
  | .ok (s, evs) => readTail o r s evs

/-- one extract; returns whether a command was returned -/
def doExtract (r : Run) : Run × Bool :=
  if r.dead || r.s.closed then (r, false) else
  match getUserCommand r.s with
  | .error e => (r.crash e, false)
  | .ok (s, none) => (r.add s [.nocmd], false)
  | .ok (s, some l) => ({ r with noEcho := false }.add s ([Ev.cmd l] ++ txEv (noEchoTx r.noEcho s)), true)

/-- `serve`: get_user_command, then - if a line came back and an input_to / get_char is pending -
    call_function_interactive (what process_user_command does with a line that does not start with `!`) -/
def doServe (r : Run) : Run :=
  if r.dead || r.s.closed then r else
  match getUserCommand r.s with
  | .error e => r.crash e
  | .ok (s, none) => r.add s [.nocmd]
  | .ok (s, some l) =>
    if r.inputTo then
      match endInput s with
      | .error e => r.crash e
      | .ok (s', tx) => { r with noEcho := false, inputTo := false }.add s' ([Ev.cmd l] ++ txEv (noEchoTx r.noEcho s ++ tx))
    else { r with noEcho := false }.add s ([Ev.cmd l] ++ txEv (noEchoTx r.noEcho s))

/-- get_char() / input_to() called by the user object: refused (0) while another one is pending -/
def doSetCall (r : Run) (single noecho : Bool) : Run :=
  if r.s.closed then r else
  if r.inputTo then r.add r.s [.setcall false] else
  match setCall r.s single noecho with
  | .error e => r.crash e
  | .ok (s, tx) => { r with inputTo := true, noEcho := r.noEcho || noecho }.add s ([Ev.setcall true] ++ txEv tx)

def drainLoop : Nat → Run → Run
  | 0, r => r
  | fuel + 1, r =>
    let (r, got) := doExtract r
    if got then drainLoop fuel r else r

def finishLoop (o : Oracle) : Nat → Run → Run
  | 0, r => r
  | fuel + 1, r =>
    if r.s.sock.isEmpty || r.dead || r.s.closed then r
    else finishLoop o fuel (drainLoop 5000 (doRead o r))

/-- `line`: one blob handed to add_console_line -/
def doLine (r : Run) (b : List Byte) : Run :=
  if r.s.closed then r else
  match addConsoleLine r.s b with
  | .error e => r.crash e
  | .ok s => r.add s [.cl b]

/-- lib/async/console_worker.c: the worker thread reads at most `CONSOLE_MAX_LINE - consoleReadReserve` bytes per
    `read (STDIN_FILENO, line_buffer, ..)`; each read is one blob -/
def workerChunks : Nat → List Byte → List (List Byte)
  | 0, _ => []
  | fuel + 1, data =>
    if data.isEmpty ∨ consoleMaxLine - consoleReadReserve = 0 then []
    else data.take (consoleMaxLine - consoleReadReserve) :: workerChunks fuel (data.drop (consoleMaxLine - consoleReadReserve))

/-- one blob through the worker and the console branch of process_io: `char line_buffer[CONSOLE_MAX_LINE]` on both
    sides, `line_buffer[bytes_read] = '\0'`, enqueue / dequeue of `bytes_read + 1` bytes, add_console_line -/
def doLineW (r : Run) (c : List Byte) : Run :=
  if r.dead then r
  else if c.length + 1 > consoleMaxLine then r.crash "console worker: line_buffer[bytes_read] behind line_buffer[CONSOLE_MAX_LINE]"
  else doLine r c

/-- `wpipe`: bytes arriving on the console's stdin pipe -/
def doWpipe (r : Run) (data : List Byte) : Run :=
  (workerChunks (data.length + 1) data).foldl doLineW r

def stepOp (o : Oracle) (r : Run) (op : Op) : Run :=
  if r.dead then r else
  match op with
  | .send b => { r with s := { r.s with sock := r.s.sock ++ b } }
  | .iflagSingle =>
    if r.s.closed then r
    else r.add { r.s with dec := { r.s.dec with fl := { r.s.dec.fl with single := true } } } []
  | .iflagLine =>
    if r.s.closed then r
    else r.add { r.s with dec := { r.s.dec with fl := { r.s.dec.fl with single := false } } } []
  | .read => doRead o r
  | .chunk b => doRead o { r with s := { r.s with sock := r.s.sock ++ b } }
  | .extract => (doExtract r).1
  | .drain => drainLoop 5000 r
  | .finish => finishLoop o 20000 r
  | .line b => doLine r b
  | .wpipe b => doWpipe r b
  | .snoopOn => if r.s.closed then r else { r with snoop := true }.add r.s []
  | .getchar ne => doSetCall r true ne
  | .inputto ne => doSetCall r false ne
  | .serve => doServe r

def run (p : Port) (o : Oracle) (ops : List Op) : Run :=
  let s0 := S.init p
  ops.foldl (stepOp o) { s := s0, evs := afterStep s0 }

end NV.C13
