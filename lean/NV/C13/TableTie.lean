/-
C13 — bridging lemmas between the regenerated transition table of copy_chars (`NV.Gen.C13.ccTable`, produced by
running the real function on every byte in every decoder configuration) and the model's `ccByte`.
Evaluation only (`decide +kernel`: kernel reduction, no axioms beyond the accepted ones), in six chunks
(TableTie0..5, built in parallel).
-/
import NV.C13.TableTie0
import NV.C13.TableTie1
import NV.C13.TableTie2
import NV.C13.TableTie3
import NV.C13.TableTie4
import NV.C13.TableTie5

namespace NV.C13

open NV.Gen.C13

/-- for every configuration and every byte the model's step agrees with the real copy_chars in all components:
    next `ip->state` (TS_* code and TS_CR_SEEN), `sb_pos`, iflags, `telnet_sb_lm_mode[4]`, bytes stored through `*to++`,
    bytes sent to the client, every cell of `sb_buf`, callbacks with their arguments -/
theorem cc_table_tie : tableOk ccTable = true := by
  unfold tableOk
  apply all_of_chunks ccTable cfgOk ccChunk ccChunks (by decide) _ (by decide)
  intro k hk
  match k, hk with
  | 0, _ => exact cc_chunk_0
  | 1, _ => exact cc_chunk_1
  | 2, _ => exact cc_chunk_2
  | 3, _ => exact cc_chunk_3
  | 4, _ => exact cc_chunk_4
  | 5, _ => exact cc_chunk_5
  | k + 6, h => exact absurd h (by unfold ccChunks; omega)

/-- all 16 values of `state & TS_STATE_MASK` × TS_CR_SEEN × SINGLE_CHAR occur as configurations -/
theorem cc_table_states : tableStates ccTable = true := by decide +kernel

/-- the table is total and the model follows it: in every probed configuration, for EVERY byte there is exactly the
    row of its range and the model's `ccByte` produces that row's state / actions (no crash) -/
theorem cc_table_total : ∀ c ∈ ccTable, ∀ b : Byte,
    ∃ r ∈ c.rows, r.lo ≤ b.toNat ∧ b.toNat ≤ r.hi ∧ rowOkAt c r b = true := by
  intro c hc b
  have h := cc_table_tie
  unfold tableOk at h
  rw [List.all_eq_true] at h
  have hcfg := h c hc
  unfold cfgOk at hcfg
  rw [Bool.and_eq_true] at hcfg
  obtain ⟨hcov, hrows⟩ := hcfg
  obtain ⟨r, hr, h1, h2⟩ := rowsCover_find c.rows 0 b.toNat hcov (Nat.zero_le _) (UInt8.toNat_lt b)
  rw [List.all_eq_true] at hrows
  exact ⟨r, hr, h1, h2, rowOk_at c r (hrows r hr) b h1 h2⟩

/-- in particular the model's step never crashes from a probed configuration (the real one did not either: the probe
    ran under ASan/UBSan with exact-size `from` / `to` buffers and the exact-size interactive_t) -/
theorem cc_table_no_crash : ∀ c ∈ ccTable, ∀ b : Byte, ∃ res, ccByte (cfgDec c) b = .ok res := by
  intro c hc b
  obtain ⟨r, _, _, _, h⟩ := cc_table_total c hc b
  unfold rowOkAt at h
  split at h
  · simp at h
  · exact ⟨_, by assumption⟩

/-- **editing / terminator bytes**: the model's `telnetNeg` erases the previous character for exactly the bytes the real
    telnet_neg does (`tnEditBytes`, read off the real function for all 255 non-NUL byte values: in the middle of a line
    and at its start) and copies every other byte; `addConsoleLine`'s conversion turns exactly `consoleNulBytes` into the
    command terminator -/
theorem edit_bytes_tie :
    (List.range 256).all (fun n => n == 0 ||
      (telnetNeg [97, 98, u8 n, 99] == (if tnEditBytes.contains n then [97, 99] else [97, 98, u8 n, 99]) &&
       telnetNeg [u8 n, 99] == (if tnEditBytes.contains n then [99] else [u8 n, 99]) &&
       (match addConsoleLine (S.init .console) [97, u8 n, 99] with
        | .ok s' => s'.text.take 3 == [97, if consoleNulBytes.contains n then 0 else u8 n, 99]
        | .error _ => false))) = true := by decide +kernel

end NV.C13
