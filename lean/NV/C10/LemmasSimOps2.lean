/-
C10 — simulation, efun by efun: call_out, remove/find by handle.
-/
import NV.C10.LemmasSimOps

namespace NV.C10

theorem toPend_coCall (w : World) (o f : Nat) (tag : String) (delay : Int) (fp : Bool) :
    toPend (coCall w o f tag delay fp) =
      { owner := o, fn := f, tag := tag, due := vnow w + (if delay < 1 then 1 else delay),
        handle := ((coSlot w delay + N * (w.unique + 1) : Nat) : Int), fp := fp,
        giver := liveGiver w w.giver } := by
  unfold toPend coCall coDue coD vnow
  simp only [Pend.mk.injEq, true_and, and_true]
  omega

theorem coCot_ge (w : World) : w.cot ≤ coCot w := by
  unfold coCot; split <;> omega

theorem sim_co {tick : Bool} {w : World} {j : JState} (_hw : WheelInv w) (h : SimJ tick w j)
    (self fn : Nat) (delay : Int) (tag : String) (fp : Bool) (halive : isDead w self = false) :
    SimJ tick { (newCallOut w self fn tag delay fp).1 with
                hmap := ((self, tag), (newCallOut w self fn tag delay fp).2) :: (newCallOut w self fn tag delay fp).1.hmap }
      (judgeStep j (.co (vnow w) self fn delay tag ((newCallOut w self fn tag delay fp).2 : Int) fp (liveGiver w w.giver))) := by
  rw [newCallOut_snd]
  have key : ∀ c, InWheel (newCallOut w self fn tag delay fp).1 c ↔ (c = coCall w self fn tag delay fp ∨ InWheel w c) :=
    inWheel_newCallOut self fn tag delay fp
  rw [newCallOut_fst] at key ⊢
  have hslot : coSlot w delay < N := slotOf_lt _
  have hh0 : (((coSlot w delay + N * (w.unique + 1) : Nat) : Int) == 0) = false := by
    have := N_pos
    have : 0 < N * (w.unique + 1) := Nat.mul_pos this (by omega)
    simp only [beq_eq_false_iff_ne, ne_eq]; omega
  have hfresh : j.allHandles.contains ((coSlot w delay + N * (w.unique + 1) : Nat) : Int) = false := by
    cases hc : j.allHandles.contains ((coSlot w delay + N * (w.unique + 1) : Nat) : Int) with
    | false => rfl
    | true =>
      have := h.allLt _ (List.contains_iff_mem.1 hc)
      omega
  have hj : judgeStep j (.co (vnow w) self fn delay tag ((coSlot w delay + N * (w.unique + 1) : Nat) : Int) fp
      (liveGiver w w.giver)) =
      { j with pend := toPend (coCall w self fn tag delay fp) :: j.pend,
               handles := ((self, tag), ((coSlot w delay + N * (w.unique + 1) : Nat) : Int)) :: j.handles,
               allHandles := ((coSlot w delay + N * (w.unique + 1) : Nat) : Int) :: j.allHandles } := by
    rw [toPend_coCall]
    simp only [judgeStep, isDeadJ_eq h, halive, hh0, hfresh, Bool.false_eq_true, if_false]
  rw [hj]
  have hlt2 : ((N * (w.unique + 1) : Nat) : Int) ≤ ((coSlot w delay + N * (w.unique + 1) : Nat) : Int) := by omega
  have hlt3 : ((coSlot w delay + N * (w.unique + 1) : Nat) : Int) < ((N * (w.unique + 1 + 1) : Nat) : Int) := by
    have : N * (w.unique + 1 + 1) = N * (w.unique + 1) + N := Nat.mul_succ _ _
    omega
  refine ⟨h.bad, h.dead, ?_, h.inTick, ?_, ?_, ?_, ?_, ?_⟩
  · show _ = List.map _ (_ :: w.hmap)
    simp only [List.map_cons, h.handles]
  · intro x hx
    show x < ((N * (w.unique + 1 + 1) : Nat) : Int)
    simp only [List.mem_cons] at hx
    rcases hx with rfl | hx
    · exact hlt3
    · have := h.allLt x hx; omega
  · intro p hp
    show p.handle < ((N * (w.unique + 1 + 1) : Nat) : Int)
    simp only [List.mem_cons] at hp
    rcases hp with rfl | hp
    · exact hlt3
    · have := h.pendLt p hp; omega
  · refine List.pairwise_cons.2 ⟨?_, h.pendSorted⟩
    intro p hp
    have := h.pendLt p hp
    show p.handle < ((coSlot w delay + N * (w.unique + 1) : Nat) : Int)
    omega
  · intro c hc
    rcases (key c).1 (hc.congr rfl) with rfl | hc'
    · exact List.mem_cons_self
    · exact List.mem_cons_of_mem _ (h.wheelPend c hc')
  · intro p hp
    simp only [List.mem_cons] at hp
    rcases hp with rfl | hp
    · left
      exact ⟨_, ((key _).2 (Or.inl rfl)).congr rfl, rfl⟩
    · rcases h.pendWheel p hp with ⟨c, hc1, hc2⟩ | hx
      · left
        exact ⟨c, ((key c).2 (Or.inr hc1)).congr rfl, hc2⟩
      · right
        refine ⟨hx.1, ?_⟩
        show p.due ≤ ((coCot w : Nat) : Int) - (T0 : Int)
        have := coCot_ge w
        omega

/-- no wheel call has handle `hd` when the slot `slotOf hd` has none -/
theorem no_wheel_handle {w : World} (hw : WheelInv w) {hd : Nat}
    (hnone : ∀ y ∈ cum 0 (w.slots (slotOf hd)), (y.2.handle == hd) = false) (c : Call) (hc : InWheel w c) :
    c.handle ≠ hd := by
  intro heq
  obtain ⟨D, hm⟩ := inWheel_handle_slot hw hc
  rw [heq] at hm
  have := hnone _ hm
  simp [heq] at this

theorem sim_rmh {tick : Bool} {w : World} {j : JState} (hw : WheelInv w) (h : SimJ tick w j)
    (self : Nat) (tag : String) :
    SimJ tick (removeByHandle w (lookupHandle w self tag)).1
      (judgeStep j (.rmh (vnow w) self tag (removeByHandle w (lookupHandle w self tag)).2)) := by
  generalize hhd : lookupHandle w self tag = hd
  have hho : handleOf j self tag = (hd : Int) := by rw [handleOf_eq h, hhd]
  unfold removeByHandle
  simp only [tie_handleSlot]
  cases hr : removeFirst (fun c => c.handle == hd) (w.slots (slotOf hd)) 0 with
  | some r =>
    simp only []
    obtain ⟨x, A, B, e1, e2, e3, e4, e5⟩ := removeFirst_sublist hr
    have hx : x ∈ cum 0 (w.slots (slotOf hd)) := by rw [e1]; simp
    have hxh : x.2.handle = hd := by simpa using e4
    have hxw : InWheel w x.2 := ⟨_, x.1, hx⟩
    have hmem := h.wheelPend _ hxw
    obtain ⟨e, rest, hro⟩ := removeOne_isSome_of_mem (q := fun e => e.handle == (hd : Int)) hmem
      (by simp [toPend, hxh])
    obtain ⟨r1, r2, _⟩ := removeOne_some hro h.pendSorted
    have hee : e = toPend x.2 := by
      refine hdesc_handle_inj h.pendSorted r1 hmem ?_
      have : e.handle = (hd : Int) := by simpa using r2
      rw [this]; simp [toPend, hxh]
    subst hee
    have hval : Gen.C10.efunResult (timeLeft w (slotOf hd) r.1) = toCInt ((toPend x.2).due - vnow w) := by
      rw [← e3]; exact efun_pend hw hx
    have hj : judgeStep j (.rmh (vnow w) self tag (Gen.C10.efunResult (timeLeft w (slotOf hd) r.1))) =
        { j with pend := rest } := by
      simp only [judgeStep, hho, hro, hval, answerOk, beq_self_eq_true, Bool.true_or, if_true]
    rw [hj]
    exact SimJ.remove_pair hw h e1 e2 hro
  | none =>
    simp only []
    have hnone := removeFirst_none hr
    have hnw := no_wheel_handle hw hnone
    cases hro : removeOne (fun e => e.handle == (hd : Int)) j.pend with
    | none =>
      have hj : judgeStep j (.rmh (vnow w) self tag (-1)) = j := by
        simp only [judgeStep, hho, hro, beq_self_eq_true, if_true]
      rw [hj]; exact h
    | some er =>
      obtain ⟨r1, r2, _⟩ := removeOne_some (e := er.1) (rest := er.2) hro h.pendSorted
      have heh : er.1.handle = (hd : Int) := by simpa using r2
      have hne : ∀ c, InWheel w c → toPend c ≠ er.1 := by
        intro c hc heq
        have := hnw c hc
        rw [← heq] at heh
        simp only [toPend] at heh
        omega
      rcases h.pendWheel _ r1 with ⟨c, hc1, hc2⟩ | hx
      · exact absurd hc2 (hne c hc1)
      · have hdead : isDeadJ j er.1.owner = true := by rw [isDeadJ_eq h]; exact hx.1
        have hle : er.1.due ≤ vnow w := extra_due_le hw hx.2
        have hans : answerOk j er.1 (vnow w) (-1) = true := by
          simp only [answerOk, hdead, hle, decide_true, beq_self_eq_true, Bool.and_self, Bool.or_true]
        by_cases hm1 : (-1 : Int) = toCInt (er.1.due - vnow w)
        · have hj : judgeStep j (.rmh (vnow w) self tag (-1)) = { j with pend := er.2 } := by
            simp only [judgeStep, hho, hro, hans, if_true]
            rw [if_pos (by simpa using hm1)]
          rw [hj]
          exact SimJ.drop_extra h hro hne
        · have hj : judgeStep j (.rmh (vnow w) self tag (-1)) = j := by
            simp only [judgeStep, hho, hro, hans, if_true]
            rw [if_neg (by simpa using hm1)]
          rw [hj]; exact h

theorem sim_fh {tick : Bool} {w : World} {j : JState} (hw : WheelInv w) (h : SimJ tick w j)
    (self : Nat) (tag : String) :
    SimJ tick w (judgeStep j (.fh (vnow w) self tag (findByHandle w (lookupHandle w self tag)))) := by
  generalize hhd : lookupHandle w self tag = hd
  have hho : handleOf j self tag = (hd : Int) := by rw [handleOf_eq h, hhd]
  unfold findByHandle
  simp only [tie_handleSlot]
  rw [findFirst_eq]
  cases hf : List.find? (fun x => x.2.handle == hd) (cum 0 (w.slots (slotOf hd))) with
  | some x =>
    simp only [Option.map_some]
    have hx : x ∈ cum 0 (w.slots (slotOf hd)) := List.mem_of_find?_eq_some hf
    have hxh : x.2.handle = hd := by simpa using List.find?_some hf
    have hxw : InWheel w x.2 := ⟨_, x.1, hx⟩
    have hmem := h.wheelPend _ hxw
    cases hfo : List.find? (fun e => e.handle == (hd : Int)) j.pend with
    | none =>
      have := List.find?_eq_none.1 hfo _ hmem
      simp [toPend, hxh] at this
    | some e =>
      have r1 : e ∈ j.pend := List.mem_of_find?_eq_some hfo
      have r2 : e.handle = (hd : Int) := by simpa using List.find?_some hfo
      have hee : e = toPend x.2 := by
        refine hdesc_handle_inj h.pendSorted r1 hmem ?_
        rw [r2]; simp [toPend, hxh]
      subst hee
      have hval : Gen.C10.efunResult (timeLeft w (slotOf hd) x.1) = toCInt ((toPend x.2).due - vnow w) :=
        efun_pend hw hx
      have hj : judgeStep j (.fh (vnow w) self tag (Gen.C10.efunResult (timeLeft w (slotOf hd) x.1))) = j := by
        simp only [judgeStep, hho, hfo, hval, answerOk, beq_self_eq_true, Bool.true_or, if_true]
      rw [hj]; exact h
  | none =>
    simp only [Option.map_none]
    have hnone : ∀ y ∈ cum 0 (w.slots (slotOf hd)), (y.2.handle == hd) = false := by
      intro y hy
      have := List.find?_eq_none.1 hf y hy
      simpa using this
    have hnw := no_wheel_handle hw hnone
    cases hfo : List.find? (fun e => e.handle == (hd : Int)) j.pend with
    | none =>
      have hj : judgeStep j (.fh (vnow w) self tag (-1)) = j := by
        simp only [judgeStep, hho, hfo, beq_self_eq_true, if_true]
      rw [hj]; exact h
    | some e =>
      have r1 : e ∈ j.pend := List.mem_of_find?_eq_some hfo
      have heh : e.handle = (hd : Int) := by simpa using List.find?_some hfo
      rcases h.pendWheel _ r1 with ⟨c, hc1, hc2⟩ | hx
      · exfalso
        have := hnw c hc1
        rw [← hc2] at heh
        simp only [toPend] at heh
        omega
      · have hdead : isDeadJ j e.owner = true := by rw [isDeadJ_eq h]; exact hx.1
        have hle : e.due ≤ vnow w := extra_due_le hw hx.2
        have hans : answerOk j e (vnow w) (-1) = true := by
          simp only [answerOk, hdead, hle, decide_true, beq_self_eq_true, Bool.and_self, Bool.or_true]
        have hj : judgeStep j (.fh (vnow w) self tag (-1)) = j := by
          simp only [judgeStep, hho, hfo, hans, if_true]
        rw [hj]; exact h

end NV.C10
