/-
C10 driver: parses the case lines that the harness executes against the real driver and runs the model
(`model` mode) or the specification oracle on an implementation trace (`judge` mode).

Case lines (shared with harness/c10):
  clone o<k> /c10/obj
  vapply o<k> set_script co:<tag> <op>;<op>;...
  vapply o<k> do_op <op>
  gop o<g> o<k> <op>            the same apply with command_giver = o<g> (if it is not destructed)
  adv <dt>
  sweep
  setuniq <n>                   verif hook: handle serial := max serial n
op syntax (comma separated): co,<fn>,<delay>,<tag> | cofp,<fn>,<delay>,<tag> | coa,.. | coafp,.. (extra arguments) | rmh,<tag> | rmn,<fn> | fh,<tag> | fn,<fn> | rmall |
  dest,o<k> | err | info | reload | usage
-/
import NV.Common.Proto
import NV.C10.Model
import NV.C10.Spec

namespace NV.C10

open NV.Proto

def parseOid (s : String) : Option Nat :=
  if s.startsWith "o" then (s.drop 1).toString.toNat? else none

def parseOp (s : String) : Option Op :=
  match s.splitOn "," with
  | ["co", f, d, t] => do some (.co (← f.toNat?) (← d.toInt?) t false)
  | ["cofp", f, d, t] => do some (.co (← f.toNat?) (← d.toInt?) t true)
  -- `coa`/`coafp`: the same call_out with three more arguments; the LPC callback checks them itself and prints an
  -- `argmismatch` line (an `unexpected-line` verdict) when they arrive wrong; the model does not see them
  | ["coa", f, d, t] => do some (.co (← f.toNat?) (← d.toInt?) t false)
  | ["coafp", f, d, t] => do some (.co (← f.toNat?) (← d.toInt?) t true)
  -- `cofpb`: function pointer with a bound first argument `(: fired, f :)`; for the model a function-pointer call_out
  | ["cofpb", f, d, t] => do some (.co (← f.toNat?) (← d.toInt?) t true)
  | ["rmh", t] => some (.rmh t)
  | ["rmn", f] => do some (.rmn (← f.toNat?))
  | ["fh", t] => some (.fh t)
  | ["fn", f] => do some (.fnm (← f.toNat?))
  | ["rmall"] => some .rmall
  | ["dest", o] => do some (.dest (← parseOid o))
  -- `destco,o<k>` (k = the object itself): destruct(this_object()) followed by a call_out that f_call_out must refuse;
  -- the LPC side prints a line only if it was not refused; for the model this is `dest`
  | ["destco", o] => do some (.dest (← parseOid o))
  | ["err"] => some .err
  | ["reload"] => some .reload
  | ["usage"] => some .usage
  | ["info"] => some .info
  | _ => none

structure Parsed where
  scripts : List ((Nat × String) × List Op) := []
  cmds : List Cmd := []
  bad : List String := []

def parseLine (p : Parsed) (line : String) : Parsed :=
  match toks line with
  | [] => p
  | "clone" :: _ => p
  | ["vapply", o, "set_script", key, ops] =>
    match parseOid o, key.startsWith "co:" with
    | some k, true =>
      let tag := (key.drop 3).toString
      let parsed := (ops.splitOn ";").map parseOp
      if parsed.all Option.isSome then
        { p with scripts := ((k, tag), parsed.filterMap id) :: p.scripts, cmds := Cmd.setScript k :: p.cmds }
      else { p with bad := line :: p.bad }
    | _, _ => { p with bad := line :: p.bad }
  | ["vapply", o, "do_op", op] =>
    match parseOid o, parseOp op with
    | some k, some op => { p with cmds := Cmd.op k op :: p.cmds }
    | _, _ => { p with bad := line :: p.bad }
  | ["gop", g, o, op] =>
    match parseOid g, parseOid o, parseOp op with
    | some g, some k, some op => { p with cmds := Cmd.gop g k op :: p.cmds }
    | _, _, _ => { p with bad := line :: p.bad }
  | ["adv", dt] =>
    match dt.toNat? with
    | some d => { p with cmds := Cmd.adv d :: p.cmds }
    | none => { p with bad := line :: p.bad }
  | ["sweep"] => { p with cmds := Cmd.sweep :: p.cmds }
  | ["setuniq", n] =>
    match n.toNat? with
    | some k => { p with cmds := Cmd.setUnique k :: p.cmds }
    | none => { p with bad := line :: p.bad }
  | _ => if line.startsWith "#" then p else { p with bad := line :: p.bad }

def parseCase (lines : List String) : Parsed :=
  let p := lines.foldl parseLine {}
  { p with cmds := p.cmds.reverse }

def scriptsOf (p : Parsed) : Scripts := fun o tag =>
  match p.scripts.find? (fun e => e.1 == (o, tag)) with
  | some e => e.2
  | none => []

def oid (o : Nat) : String := s!"o{o}"

def renderTp : Option Nat → String
  | some g => s!"o{g}"
  | none => "-"

def parseTp (s : String) : Option (Option Nat) :=
  if s == "-" then some none else (parseOid s).map some

def renderRow (r : Nat × Nat × Int) : String :=
  if r.2.1 = 0 then s!"o{r.1}/<function>/{r.2.2}" else s!"o{r.1}/co{r.2.1 - 1}/{r.2.2}"

/-- canonical text of an event (exactly what the harness prints) -/
def render : Ev → String
  | .tickbegin t => s!"{t} tickbegin"
  | .tickend t => s!"{t} tickend"
  | .co t o f d tag h fp g => s!"{t} r {if fp then "cofp" else "co"} o{o} {f} {d} {tag} {h} {renderTp g}"
  | .fire t o f tag tp => s!"{t} fire o{o} {f} {tag} {renderTp tp}"
  | .rmh t o tag r => s!"{t} r rmh o{o} {tag} {r}"
  | .fh t o tag r => s!"{t} r fh o{o} {tag} {r}"
  | .rmn t o f r => s!"{t} r rmn o{o} {f} {r}"
  | .fnm t o f r => s!"{t} r fn o{o} {f} {r}"
  | .rmall t o => s!"{t} r rmall o{o}"
  | .dest t o x => s!"{t} r dest o{o} o{x}"
  | .reload t o => s!"{t} r reload o{o}"
  | .usage t n l => s!"{t} r usage {n} {l}"
  | .info t rows => s!"{t} r info{String.join (rows.map fun r => " " ++ renderRow r)}"
  | .err o => s!"err *boom o{o}"
  | .errFpDead => "err *fp-owner-destructed"
  | .opErr o => s!"r o{o} do_op !err"
  | .opDestructed o => s!"r o{o} do_op !destructed"
  | .setScriptDestructed o => s!"r o{o} set_script !destructed"
  | .note l => l
  | .crash l => l
  | .sanitizer l => l
  | .malformed l => l
  | .unexpected l => l

def parseRow (s : String) : Option (Nat × Nat × Int) :=
  match s.splitOn "/" with
  | [o, f, d] =>
    if f == "<function>" then do some (← parseOid o, 0, ← d.toInt?)
    else if f.startsWith "co" then do some (← parseOid o, (← (f.drop 2).toString.toNat?) + 1, ← d.toInt?) else none
  | _ => none

/-- one canonical output line -> event (lines that are recognised but whose numbers do not parse become
    `.malformed`, unknown lines `.unexpected`) -/
def parseEv (line : String) : Ev :=
  let orBad (e : Option Ev) : Ev := e.getD (.malformed line)
  match toks line with
  | [t, "tickbegin"] => orBad do some (.tickbegin (← t.toInt?))
  | [t, "tickend"] => orBad do some (.tickend (← t.toInt?))
  | [t, "r", "co", o, f, d, tag, h, g] =>
    orBad do some (.co (← t.toInt?) (← parseOid o) (← f.toNat?) (← d.toInt?) tag (← h.toInt?) false (← parseTp g))
  | [t, "r", "cofp", o, f, d, tag, h, g] =>
    orBad do some (.co (← t.toInt?) (← parseOid o) (← f.toNat?) (← d.toInt?) tag (← h.toInt?) true (← parseTp g))
  | [t, "fire", o, f, tag, tp] => orBad do some (.fire (← t.toInt?) (← parseOid o) (← f.toNat?) tag (← parseTp tp))
  | [t, "r", "rmh", o, tag, r] => orBad do some (.rmh (← t.toInt?) (← parseOid o) tag (← r.toInt?))
  | [t, "r", "fh", o, tag, r] => orBad do some (.fh (← t.toInt?) (← parseOid o) tag (← r.toInt?))
  | [t, "r", "rmn", o, f, r] => orBad do some (.rmn (← t.toInt?) (← parseOid o) (← f.toNat?) (← r.toInt?))
  | [t, "r", "fn", o, f, r] => orBad do some (.fnm (← t.toInt?) (← parseOid o) (← f.toNat?) (← r.toInt?))
  | [t, "r", "rmall", o] => orBad do some (.rmall (← t.toInt?) (← parseOid o))
  | [t, "r", "reload", o] => orBad do some (.reload (← t.toInt?) (← parseOid o))
  | [t, "r", "usage", n, l] => orBad do some (.usage (← t.toInt?) (← n.toNat?) (← l.toNat?))
  | [t, "r", "dest", o, x] => orBad do some (.dest (← t.toInt?) (← parseOid o) (← parseOid x))
  | t :: "r" :: "info" :: rows =>
    let rs := rows.map parseRow
    if rs.all Option.isSome then orBad do some (.info (← t.toInt?) (rs.filterMap id)) else .malformed line
  -- the only LPC errors a history can contain: error("boom ...") of a script and the function-pointer owner error;
  -- any other error text (e.g. an efun returning a malformed value to the LPC side) is an unexpected line
  | "err" :: "*boom" :: _ => .note line
  | ["err", "*fp-owner-destructed"] => .note line
  | ["r", _, "do_op", "!err"] => .note line
  | ["r", _, "do_op", "!destructed"] => .note line
  | ["r", _, "set_script", "!destructed"] => .note line
  -- the case names an object it never cloned (only shrunk cases do): says nothing about the driver
  | ["r", _, _, "!noobj"] => .note line
  | "crash" :: _ => .crash line
  | "sanitizer" :: _ => .sanitizer line
  | [] => .note line
  | _ => .unexpected line

/-- text of a verdict (unchanged from the string-level judge this oracle replaced) -/
def Violation.render : Violation → String
  | .nestedTick e => s!"nested-tick {NV.C10.render e}"
  | .malformed l => s!"malformed {l}"
  | .notFired o tag due t => s!"not-fired owner=o{o} tag={tag} due={due} tick={t} late={t - due}"
  | .scheduledByDestructed e => s!"scheduled-by-destructed {NV.C10.render e}"
  | .callOutRefused e => s!"call_out-refused {NV.C10.render e}"
  | .handleReused e => s!"handle-reused {NV.C10.render e}"
  | .fireOutsideTick e => s!"fire-outside-tick {NV.C10.render e}"
  | .fireUnscheduled o f tag t => s!"fire-unscheduled-removed-or-repeated owner=o{o} fn={f} tag={tag} at={t}"
  | .fireEarly o tag due t => s!"fire-early owner=o{o} tag={tag} due={due} at={t} early={due - t}"
  | .fireDestructedOwner o tag => s!"fire-destructed-owner owner=o{o} tag={tag}"
  | .fireWrongPlayer o tag got want => s!"fire-wrong-this_player owner=o{o} tag={tag} got={renderTp got} want={renderTp want}"
  | .removeHandleAnswer o tag got want => s!"remove-handle-answer owner=o{o} tag={tag} got={got} want={want}"
  | .removeHandleNothingPending o tag got => s!"remove-handle-nothing-pending owner=o{o} tag={tag} got={got}"
  | .findHandleAnswer o tag got want => s!"find-handle-answer owner=o{o} tag={tag} got={got} want={want}"
  | .findHandleNothingPending o tag got => s!"find-handle-nothing-pending owner=o{o} tag={tag} got={got}"
  | .removeNameNothingPending o f got => s!"remove-name-nothing-pending owner=o{o} fn={f} got={got}"
  | .removeNameAnswer o f got pending => s!"remove-name-answer owner=o{o} fn={f} got={got} pending={pending}"
  | .findNameNothingPending o f got => s!"find-name-nothing-pending owner=o{o} fn={f} got={got}"
  | .findNameAnswer o f got pending => s!"find-name-answer owner=o{o} fn={f} got={got} pending={pending}"
  | .infoMismatch missing extra => s!"info-mismatch missing={missing.map renderRow} extra={extra.map renderRow}"
  | .usageLength len lo hi => s!"usage-length got={len} want={lo}..{hi}"
  | .usageAllocated n len hwm => s!"usage-allocated num_call={n} length={len} most-ever-in-use={hwm}"
  | .crash l => s!"crash {l}"
  | .memoryError l => s!"memory-error {l}"
  | .unexpectedLine l => s!"unexpected-line {l}"

/-- the string-level judge used on implementation traces: parse, then the same `judgeEv` the theorems are about -/
def judge (trace : List String) : List String :=
  (judgeEv (trace.map parseEv)).map Violation.render

def runModel (lines : List String) : List String :=
  let p := parseCase lines
  if !p.bad.isEmpty then p.bad.map (fun l => s!"bad-line {l}")
  else (eventsC (runCmds (scriptsOf p) World.init p.cmds)).map render

def runJudge (body : List String) : List String :=
  let (_input, impl) := splitJudge body
  match judge impl with
  | [] => ["ok"]
  | vs => vs.map (fun v => s!"bad {v}")

def main (mode : String) : IO Unit :=
  match mode with
  | "model" => serve runModel
  | "judge" => serve runJudge
  | _ => IO.eprintln s!"C10: unknown mode {mode}"

end NV.C10
