/-
C10 driver: parses the case lines that the harness executes against the real driver and runs the model
(`model` mode) or the specification oracle on an implementation trace (`judge` mode).

Case lines (shared with harness/c10):
  clone o<k> /c10/obj
  vapply o<k> set_script co:<tag> <op>;<op>;...
  vapply o<k> do_op <op>
  adv <dt>
  sweep
op syntax (comma separated): co,<fn>,<delay>,<tag> | rmh,<tag> | rmn,<fn> | fh,<tag> | fn,<fn> | rmall |
  dest,o<k> | err | info
-/
import NV.Common.Proto
import NV.C10.Model
import NV.C10.Spec

namespace NV.C10

open NV.Proto

def parseOid (s : String) : Option Nat :=
  if s.startsWith "o" then (s.drop 1).toString.toNat? else none

def parseOp (s : String) : Option Op :=
  match s.splitOn "," with
  | ["co", f, d, t] => do some (.co (← f.toNat?) (← d.toInt?) t)
  | ["rmh", t] => some (.rmh t)
  | ["rmn", f] => do some (.rmn (← f.toNat?))
  | ["fh", t] => some (.fh t)
  | ["fn", f] => do some (.fnm (← f.toNat?))
  | ["rmall"] => some .rmall
  | ["dest", o] => do some (.dest (← parseOid o))
  | ["err"] => some .err
  | ["info"] => some .info
  | _ => none

structure Parsed where
  scripts : List ((Nat × String) × List Op) := []
  cmds : List Cmd := []
  bad : List String := []

def parseLine (p : Parsed) (line : String) : Parsed :=
  match toks line with
  | [] => p
  | "clone" :: _ => p
  | ["vapply", o, "set_script", key, ops] =>
    match parseOid o, key.startsWith "co:" with
    | some k, true =>
      let tag := (key.drop 3).toString
      let parsed := (ops.splitOn ";").map parseOp
      if parsed.all Option.isSome then
        { p with scripts := ((k, tag), parsed.filterMap id) :: p.scripts, cmds := Cmd.setScript k :: p.cmds }
      else { p with bad := line :: p.bad }
    | _, _ => { p with bad := line :: p.bad }
  | ["vapply", o, "do_op", op] =>
    match parseOid o, parseOp op with
    | some k, some op => { p with cmds := Cmd.op k op :: p.cmds }
    | _, _ => { p with bad := line :: p.bad }
  | ["adv", dt] =>
    match dt.toNat? with
    | some d => { p with cmds := Cmd.adv d :: p.cmds }
    | none => { p with bad := line :: p.bad }
  | ["sweep"] => { p with cmds := Cmd.sweep :: p.cmds }
  | _ => if line.startsWith "#" then p else { p with bad := line :: p.bad }

def parseCase (lines : List String) : Parsed :=
  let p := lines.foldl parseLine {}
  { p with cmds := p.cmds.reverse }

def scriptsOf (p : Parsed) : Scripts := fun o tag =>
  match p.scripts.find? (fun e => e.1 == (o, tag)) with
  | some e => e.2
  | none => []

def runModel (lines : List String) : List String :=
  let p := parseCase lines
  if !p.bad.isEmpty then p.bad.map (fun l => s!"bad-line {l}")
  else (runCmds (scriptsOf p) World.init p.cmds).out.reverse

def runJudge (body : List String) : List String :=
  let (_input, impl) := splitJudge body
  match judge impl with
  | [] => ["ok"]
  | vs => vs.map (fun v => s!"bad {v}")

def main (mode : String) : IO Unit :=
  match mode with
  | "model" => serve runModel
  | "judge" => serve runJudge
  | _ => IO.eprintln s!"C10: unknown mode {mode}"

end NV.C10
