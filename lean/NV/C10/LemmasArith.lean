/-
C10 — arithmetic core of the timing wheel (clause 2a): `dueOf`, the placement computed by `new_call_out`,
and `time_left`.
-/
import NV.C10.Model

namespace NV.C10

/-- the wheel size regenerated from the source is a power of two, so `t & (N-1)` is `t % N` -/
theorem N_pow2 : 2 ^ Nat.log2 N = N := by decide

theorem slotOf_eq_mod (t : Nat) : slotOf t = t % N := by
  unfold slotOf
  rw [← N_pow2]
  exact Nat.and_two_pow_sub_one_eq_mod t (Nat.log2 N)

theorem N_pos : 0 < N := by decide

theorem slotOf_lt (t : Nat) : slotOf t < N := by
  rw [slotOf_eq_mod]; exact Nat.mod_lt _ N_pos

/-- the second at which slot `slot` gets its `D`-th visit after second `cot` (`call_out()` visits slot
    `t & (N-1)` in second `t`; `D = 1` is the first visit strictly after `cot`, `D = 0` the last one at or
    before `cot`) -/
def dueOf (slot cot : Nat) (D : Int) : Int :=
  (cot : Int) + 1 + ((slot : Int) - (cot : Int) - 1) % (N : Int) + (D - 1) * (N : Int)

/-- unfold the generated wheel size to its literal so that `omega` can reason about `/ N`, `% N`, `* N` -/
macro "wheel_omega" : tactic =>
  `(tactic| (simp only [N, NV.Gen.C10.calloutCycleSize, slotOf_eq_mod] at *; omega))

/-- `dueOf` is characterised by: right residue, and in the `D`-th window of `N` seconds after `cot` -/
theorem dueOf_spec (s cot : Nat) (D u : Int) (hs : s < N) :
    u = dueOf s cot D ↔ (u % (N : Int) = s ∧ (cot : Int) + D * N - N < u ∧ u ≤ cot + D * N) := by
  unfold dueOf
  wheel_omega

theorem dueOf_mod (s cot : Nat) (D : Int) (hs : s < N) : dueOf s cot D % (N : Int) = s := by
  unfold dueOf
  wheel_omega

theorem dueOf_lt_iff (s cot : Nat) (D₁ D₂ : Int) : dueOf s cot D₁ < dueOf s cot D₂ ↔ D₁ < D₂ := by
  unfold dueOf
  wheel_omega

theorem dueOf_inj (s cot : Nat) (D₁ D₂ : Int) : dueOf s cot D₁ = dueOf s cot D₂ ↔ D₁ = D₂ := by
  unfold dueOf
  wheel_omega

/-- `D ≥ 1` visits are in the future of `cot`, `D ≤ 0` are not -/
theorem dueOf_gt_iff (s cot : Nat) (D : Int) : (cot : Int) < dueOf s cot D ↔ 1 ≤ D := by
  unfold dueOf
  wheel_omega

/-- the visit number 0 of the slot being swept is the current second -/
theorem dueOf_zero_cur (cot : Nat) : dueOf (slotOf cot) cot 0 = cot := by
  unfold dueOf
  wheel_omega

theorem dueOf_zero_le (s cot : Nat) : dueOf s cot 0 ≤ cot := by
  unfold dueOf
  wheel_omega

/-- advancing `call_out_time` by one second: every slot but the one now visited keeps its visit numbers -/
theorem dueOf_succ_other (s cot : Nat) (D : Int) (hs : s < N) (h : s ≠ slotOf (cot + 1)) :
    dueOf s (cot + 1) D = dueOf s cot D := by
  unfold dueOf
  wheel_omega

/-- ... and in the slot now visited all visit numbers drop by one (`--call_list[tm]->delta`) -/
theorem dueOf_succ_cur (cot : Nat) (D : Int) :
    dueOf (slotOf (cot + 1)) (cot + 1) (D - 1) = dueOf (slotOf (cot + 1)) cot D := by
  unfold dueOf
  wheel_omega

/-- **new_call_out places the entry at its own second** (clause 2a): the slot `(delay+now) & (N-1)` and the
    rotation count `1 + (delay+now-cot-1)/N` computed by the C code denote exactly the second `now + delay` -/
theorem newCallOut_rot_due (cot now : Nat) (d : Int) (hd : 1 ≤ d) (hc : cot ≤ now) :
    dueOf (slotOf (d + (now : Int)).toNat) cot (1 + Int.tdiv (d + (now : Int) - (cot : Int) - 1) (N : Int))
      = d + (now : Int) := by
  unfold dueOf
  have h0 : 0 ≤ d + (now : Int) - (cot : Int) - 1 := by omega
  rw [Int.tdiv_eq_ediv_of_nonneg h0]
  wheel_omega

theorem newCallOut_rot_pos (cot now : Nat) (d : Int) (hd : 1 ≤ d) (hc : cot ≤ now) :
    1 ≤ 1 + Int.tdiv (d + (now : Int) - (cot : Int) - 1) (N : Int) := by
  have h0 : 0 ≤ d + (now : Int) - (cot : Int) - 1 := by omega
  rw [Int.tdiv_eq_ediv_of_nonneg h0]
  wheel_omega

end NV.C10
