/-
C10 — specification oracle ("judge"): decides, for a history of observable events (`Ev`: the canonical output
lines of either the model or the real driver, as data), whether property C10 held on it:

  every scheduled call_out that is not removed fires exactly once, with its argument, no earlier than
  its delay (minimum 1) and no later than the first tick at or after that time; remove/find report the
  time remaining; a removed call_out never fires; call_outs of destructed objects are dropped; an error
  in one call_out neither loses nor repeats the others.

The judge knows nothing about wheels, slots or deltas: it keeps the set of pending (owner, fn, tag, due).
`judgeEv` is pure data -> data; the text of the violations is produced by `Violation.render` in Drive.lean, and
implementation traces are parsed into `Ev` by `parseEv` in Drive.lean.
-/
import NV.C10.Model

namespace NV.C10

structure Pend where
  owner : Nat
  fn : Nat
  tag : String
  due : Int            -- virtual time (relative to T0)
  handle : Int
  fp : Bool            -- scheduled with a function pointer
  giver : Option Nat   -- this_player() when it was scheduled
  deriving Repr, DecidableEq

/-- what the oracle can object to -/
inductive Violation where
  | nestedTick (e : Ev)
  | malformed (line : String)
  | notFired (owner : Nat) (tag : String) (due tick : Int)
  | scheduledByDestructed (e : Ev)
  | callOutRefused (e : Ev)
  | handleReused (e : Ev)
  | fireOutsideTick (e : Ev)
  | fireUnscheduled (owner fn : Nat) (tag : String) (t : Int)
  | fireEarly (owner : Nat) (tag : String) (due t : Int)
  | fireDestructedOwner (owner : Nat) (tag : String)
  | fireWrongPlayer (owner : Nat) (tag : String) (got want : Option Nat)
  | removeHandleAnswer (owner : Nat) (tag : String) (got want : Int)
  | removeHandleNothingPending (owner : Nat) (tag : String) (got : Int)
  | findHandleAnswer (owner : Nat) (tag : String) (got want : Int)
  | findHandleNothingPending (owner : Nat) (tag : String) (got : Int)
  | removeNameNothingPending (owner fn : Nat) (got : Int)
  | removeNameAnswer (owner fn : Nat) (got : Int) (pending : List Int)
  | findNameNothingPending (owner fn : Nat) (got : Int)
  | findNameAnswer (owner fn : Nat) (got : Int) (pending : List Int)
  | infoMismatch (missing extra : List (Nat × Nat × Int))
  /-- mud_status(): "current length" is not the number of pending call_outs (`lo ≤ len ≤ hi` expected) -/
  | usageLength (len lo hi : Nat)
  /-- mud_status(): the number of allocated structures is not a whole number of chunks, is smaller than the number
      in use, or exceeds what the largest number ever in use (`hwm`) required (a structure was leaked) -/
  | usageAllocated (numCall len hwm : Nat)
  | crash (line : String)
  | memoryError (line : String)
  | unexpectedLine (line : String)
  deriving Repr, DecidableEq

structure JState where
  pend : List Pend := []
  dead : List Nat := []
  handles : List ((Nat × String) × Int) := []        -- (owner, tag) -> last handle returned
  allHandles : List Int := []
  inTick : Bool := false
  bad : List Violation := []                         -- newest first

def JState.flag (s : JState) (v : Violation) : JState := { s with bad := v :: s.bad }

def removeOne (p : Pend → Bool) : List Pend → Option (Pend × List Pend)
  | [] => none
  | x :: xs =>
    if p x then some (x, xs)
    else match removeOne p xs with
      | none => none
      | some r => some (r.1, x :: r.2)

/-- pick the matching pending entry with the smallest due time (the first such) -/
def minDue (p : Pend → Bool) (l : List Pend) : Option Pend :=
  (l.filter p).foldl (fun acc x => match acc with
    | none => some x
    | some y => if x.due < y.due then some x else some y) none

def handleOf (s : JState) (o : Nat) (tag : String) : Int :=
  match s.handles.find? (fun e => e.1 == (o, tag)) with
  | some e => e.2
  | none => 0

def isDeadJ (s : JState) (o : Nat) : Bool := s.dead.contains o

/-- a saved this_player() at the time of the callback: 0 if that object has been destructed meanwhile -/
def liveGiverJ (s : JState) (g : Option Nat) : Option Nat :=
  match g with
  | some x => if isDeadJ s x then none else some x
  | none => none

/-- the efuns return the time left as a C `int`: values outside the int range are converted (two's complement) -/
def toCInt (x : Int) : Int := (x + 2147483648) % 4294967296 - 2147483648

/-- expected answer of find/remove for entry e at time t; a dead owner's entry whose time has passed may
    already have been dropped by the sweep, so -1 is accepted as well -/
def answerOk (s : JState) (e : Pend) (t r : Int) : Bool :=
  r == toCInt (e.due - t) || (isDeadJ s e.owner && e.due ≤ t && r == -1)

def judgeStep (s : JState) (ev : Ev) : JState :=
  match ev with
  | .tickbegin _ => if s.inTick then s.flag (.nestedTick ev) else { s with inTick := true }
  | .tickend t =>
    -- everything due by now (owner alive) must have fired; dead owners' overdue entries are dropped
    let missed := s.pend.filter (fun e => e.due ≤ t && !isDeadJ s e.owner)
    let s := missed.foldl (fun s e => s.flag (.notFired e.owner e.tag e.due t)) s
    { s with inTick := false, pend := s.pend.filter (fun e => e.due > t) }
  | .co t o f d tag h fp g =>
    if isDeadJ s o then
      if h == 0 then { s with handles := ((o, tag), 0) :: s.handles } else s.flag (.scheduledByDestructed ev)
    else if h == 0 then s.flag (.callOutRefused ev)
    else
      let s := if s.allHandles.contains h then s.flag (.handleReused ev) else s
      let due := t + (if d < 1 then 1 else d)
      { s with pend := { owner := o, fn := f, tag := tag, due := due, handle := h, fp := fp, giver := g } :: s.pend,
               handles := ((o, tag), h) :: s.handles, allHandles := h :: s.allHandles }
  | .fire t o f tag tp =>
    let s := if s.inTick then s else s.flag (.fireOutsideTick ev)
    match minDue (fun e => e.owner == o && e.tag == tag && e.fn == f) s.pend with
    | none => s.flag (.fireUnscheduled o f tag t)
    | some e =>
      let s := if e.due > t then s.flag (.fireEarly o tag e.due t) else s
      let s := if isDeadJ s o then s.flag (.fireDestructedOwner o tag) else s
      -- this_player() in the callback is the saved command_giver, or 0 if that object has been destructed
      let want := liveGiverJ s e.giver
      let s := if tp == want then s else s.flag (.fireWrongPlayer o tag tp want)
      match removeOne (fun x => x == e) s.pend with
      | some r => { s with pend := r.2 }
      | none => s
  | .rmh t o tag r =>
    let h := handleOf s o tag
    match removeOne (fun e => e.handle == h) s.pend with
    | some x =>
      let s := if answerOk s x.1 t r then s else s.flag (.removeHandleAnswer o tag r (toCInt (x.1.due - t)))
      -- note: an overdue entry can legitimately report -1 (= due - now); it is removed all the same
      if r == toCInt (x.1.due - t) then { s with pend := x.2 } else s
    | none => if r == -1 then s else s.flag (.removeHandleNothingPending o tag r)
  | .fh t o tag r =>
    let h := handleOf s o tag
    match s.pend.find? (fun e => e.handle == h) with
    | some e => if answerOk s e t r then s else s.flag (.findHandleAnswer o tag r (toCInt (e.due - t)))
    | none => if r == -1 then s else s.flag (.findHandleNothingPending o tag r)
  | .rmn t o f r =>
    let cands := s.pend.filter (fun e => !e.fp && e.owner == o && e.fn == f)
    if cands.isEmpty then
      if r == -1 then s else s.flag (.removeNameNothingPending o f r)
    else
      -- the removed one is a pending entry of that name whose time left is the answer: the earliest such, and
      -- among those of the same second the newest (answers coincide only for times 2^32 seconds apart)
      match minDue (fun e => !e.fp && e.owner == o && e.fn == f && toCInt (e.due - t) == r) s.pend with
      | some e =>
        match removeOne (fun x => x == e) s.pend with
        | some x => { s with pend := x.2 }
        | none => s
      | none =>
        if r == -1 && cands.all (fun e => isDeadJ s e.owner && e.due ≤ t) then s
        else s.flag (.removeNameAnswer o f r (cands.map (fun e => toCInt (e.due - t))))
  | .fnm t o f r =>
    let cands := s.pend.filter (fun e => !e.fp && e.owner == o && e.fn == f)
    if cands.isEmpty then
      if r == -1 then s else s.flag (.findNameNothingPending o f r)
    else if cands.any (fun e => answerOk s e t r) then s
    else s.flag (.findNameAnswer o f r (cands.map (fun e => toCInt (e.due - t))))
  | .rmall _ o =>
    { s with pend := s.pend.filter (fun e => e.owner != o && !isDeadJ s e.owner) }
  | .reload _ o =>
    -- reload_object: the object's call_outs (and those of destructed objects) are dropped, its variables reset
    { s with pend := s.pend.filter (fun e => e.owner != o && !isDeadJ s e.owner),
             handles := s.handles.filter (fun p => p.1.1 != o) }
  | .usage _ _ _ => s
  | .dest _ _ x =>
    if isDeadJ s x then s else { s with dead := x :: s.dead }
  | .info t rows =>
    let want := (s.pend.filter (fun e => !isDeadJ s e.owner)).map (fun e => (e.owner, fnCode e.fp e.fn, e.due - t))
    -- multiset equality
    let missing := want.filter (fun x => want.count x > rows.count x)
    let extra := rows.filter (fun x => rows.count x > want.count x)
    if missing.isEmpty && extra.isEmpty then s
    else s.flag (.infoMismatch missing extra)
  | .err _ => s
  | .errFpDead => s
  | .opErr _ => s
  | .opDestructed _ => s
  | .setScriptDestructed _ => s
  | .note _ => s
  | .crash line =>
    -- the crash line that ends a run right after a sanitizer report is the same incident: reported once
    match s.bad with
    | .memoryError _ :: _ => s
    | _ => s.flag (.crash line)
  | .sanitizer line => s.flag (.memoryError line)
  | .malformed line => s.flag (.malformed line)
  | .unexpected line => s.flag (.unexpectedLine line)

/-- violations of the clauses about firing / answers / call_out_info, oldest first -/
def judgeCore (evs : List Ev) : List Violation :=
  (evs.foldl judgeStep {}).bad.reverse

/-! ### bookkeeping clause: print_call_out_usage (free list, `num_call`, "current length")

The oracle still knows nothing about the wheel: it counts its own pending set.  `hwm` is the largest number of
`pending_call_t` structures that can have been in use at any moment so far (pending ones, plus the one being executed
while call_out() runs).  Structures are allocated `chunkSize` at a time, only when none is free, and never returned:
so `num_call` is a multiple of `chunkSize`, at least the number in use now, and less than `hwm + chunkSize`
(anything more means a structure was not given back to the free list). -/

structure UState where
  j : JState := {}
  hwm : Nat := 0
  ubad : List Violation := []                        -- newest first

/-- entries the oracle still lists that the driver may already have dropped: destructed owner, time has come -/
def maybeDropped (j : JState) (t : Int) (e : Pend) : Bool := isDeadJ j e.owner && decide (e.due ≤ t)

def usageStep (u : UState) (ev : Ev) : UState :=
  let j := judgeStep u.j ev
  let tick : Nat := if j.inTick then 1 else 0
  let hwm := max u.hwm (j.pend.length + tick)
  match ev with
  | .usage t n len =>
    let lo := (j.pend.filter (fun e => !maybeDropped j t e)).length
    let b1 := if lo ≤ len ∧ len ≤ j.pend.length then u.ubad else .usageLength len lo j.pend.length :: u.ubad
    -- inside call_out() a usage line can only come from a callback: its own structure is in use but not in a list
    let b2 := if n % Gen.C10.chunkSize = 0 ∧ len + tick ≤ n ∧ n < hwm + Gen.C10.chunkSize then b1
              else .usageAllocated n len hwm :: b1
    { j := j, hwm := hwm, ubad := b2 }
  | _ => { j := j, hwm := hwm, ubad := u.ubad }

def judgeUsage (evs : List Ev) : List Violation :=
  (evs.foldl usageStep {}).ubad.reverse

/-- violations found on a history (core clauses first, then the bookkeeping clause); `[]` = property held -/
def judgeEv (evs : List Ev) : List Violation :=
  judgeCore evs ++ judgeUsage evs

end NV.C10
