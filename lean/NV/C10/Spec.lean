/-
C10 — specification oracle ("judge"): decides, for a trace of observable events (the canonical output
lines of either the model or the real driver), whether property C10 held on it:

  every scheduled call_out that is not removed fires exactly once, with its argument, no earlier than
  its delay (minimum 1) and no later than the first tick at or after that time; remove/find report the
  time remaining; a removed call_out never fires; call_outs of destructed objects are dropped; an error
  in one call_out neither loses nor repeats the others.

The judge knows nothing about wheels, slots or deltas: it keeps the set of pending (owner, fn, tag, due).
-/
import NV.Common.Proto

namespace NV.C10

open NV.Proto

structure Pend where
  owner : String
  fn : String
  tag : String
  due : Int
  handle : Int
  deriving Repr, BEq

structure JState where
  pend : List Pend := []
  dead : List String := []
  handles : List ((String × String) × Int) := []     -- (owner, tag) -> last handle returned
  allHandles : List Int := []
  inTick : Bool := false
  bad : List String := []                            -- newest first

def JState.flag (s : JState) (v : String) : JState := { s with bad := v :: s.bad }

def removeOne (p : Pend → Bool) : List Pend → Option (Pend × List Pend)
  | [] => none
  | x :: xs =>
    if p x then some (x, xs)
    else match removeOne p xs with
      | none => none
      | some (y, r) => some (y, x :: r)

/-- pick the matching pending entry with the smallest due time -/
def minDue (p : Pend → Bool) (l : List Pend) : Option Pend :=
  (l.filter p).foldl (fun acc x => match acc with
    | none => some x
    | some y => if x.due < y.due then some x else some y) none

def handleOf (s : JState) (o tag : String) : Int :=
  match s.handles.find? (fun e => e.1 == (o, tag)) with
  | some e => e.2
  | none => 0

def isDeadJ (s : JState) (o : String) : Bool := s.dead.contains o

/-- expected answer of find/remove for entry e at time t; a dead owner's entry whose time has passed may
    already have been dropped by the sweep, so -1 is accepted as well -/
def answerOk (s : JState) (e : Pend) (t r : Int) : Bool :=
  r == e.due - t || (isDeadJ s e.owner && e.due ≤ t && r == -1)

def judgeLine (s : JState) (line : String) : JState :=
  match toks line with
  | [t, "tickbegin"] =>
    match t.toInt? with
    | some _ => if s.inTick then s.flag s!"nested-tick {line}" else { s with inTick := true }
    | none => s.flag s!"malformed {line}"
  | [t, "tickend"] =>
    match t.toInt? with
    | some t =>
      -- everything due by now (owner alive) must have fired; dead owners' overdue entries are dropped
      let missed := s.pend.filter (fun e => e.due ≤ t && !isDeadJ s e.owner)
      let s := missed.foldl (fun s e => s.flag s!"not-fired owner={e.owner} tag={e.tag} due={e.due} tick={t} late={t - e.due}") s
      { s with inTick := false, pend := s.pend.filter (fun e => e.due > t) }
    | none => s.flag s!"malformed {line}"
  | [t, "r", "co", o, f, d, tag, h] =>
    match t.toInt?, d.toInt?, h.toInt? with
    | some t, some d, some h =>
      if isDeadJ s o then
        if h == 0 then { s with handles := ((o, tag), 0) :: s.handles } else s.flag s!"scheduled-by-destructed {line}"
      else if h == 0 then s.flag s!"call_out-refused {line}"
      else
        let s := if s.allHandles.contains h then s.flag s!"handle-reused {line}" else s
        let due := t + (if d < 1 then 1 else d)
        { s with pend := { owner := o, fn := f, tag := tag, due := due, handle := h } :: s.pend,
                 handles := ((o, tag), h) :: s.handles, allHandles := h :: s.allHandles }
    | _, _, _ => s.flag s!"malformed {line}"
  | [t, "fire", o, f, tag] =>
    match t.toInt? with
    | some t =>
      let s := if s.inTick then s else s.flag s!"fire-outside-tick {line}"
      match minDue (fun e => e.owner == o && e.tag == tag && e.fn == f) s.pend with
      | none => s.flag s!"fire-unscheduled-removed-or-repeated owner={o} fn={f} tag={tag} at={t}"
      | some e =>
        let s := if e.due > t then s.flag s!"fire-early owner={o} tag={tag} due={e.due} at={t} early={e.due - t}" else s
        let s := if isDeadJ s o then s.flag s!"fire-destructed-owner owner={o} tag={tag}" else s
        match removeOne (fun x => x == e) s.pend with
        | some (_, rest) => { s with pend := rest }
        | none => s
    | none => s.flag s!"malformed {line}"
  | [t, "r", "rmh", o, tag, r] =>
    match t.toInt?, r.toInt? with
    | some t, some r =>
      let h := handleOf s o tag
      match removeOne (fun e => e.handle == h) s.pend with
      | some (e, rest) =>
        let s := if answerOk s e t r then s else s.flag s!"remove-handle-answer owner={o} tag={tag} got={r} want={e.due - t}"
        -- note: an overdue entry can legitimately report -1 (= due - now); it is removed all the same
        if r == e.due - t then { s with pend := rest } else s
      | none => if r == -1 then s else s.flag s!"remove-handle-nothing-pending owner={o} tag={tag} got={r}"
    | _, _ => s.flag s!"malformed {line}"
  | [t, "r", "fh", o, tag, r] =>
    match t.toInt?, r.toInt? with
    | some t, some r =>
      let h := handleOf s o tag
      match s.pend.find? (fun e => e.handle == h) with
      | some e => if answerOk s e t r then s else s.flag s!"find-handle-answer owner={o} tag={tag} got={r} want={e.due - t}"
      | none => if r == -1 then s else s.flag s!"find-handle-nothing-pending owner={o} tag={tag} got={r}"
    | _, _ => s.flag s!"malformed {line}"
  | [t, "r", "rmn", o, f, r] =>
    match t.toInt?, r.toInt? with
    | some t, some r =>
      let cands := s.pend.filter (fun e => e.owner == o && e.fn == f)
      if cands.isEmpty then
        if r == -1 then s else s.flag s!"remove-name-nothing-pending owner={o} fn={f} got={r}"
      else
        match removeOne (fun e => e.owner == o && e.fn == f && e.due - t == r) s.pend with
        | some (_, rest) => { s with pend := rest }
        | none =>
          if r == -1 && cands.all (fun e => isDeadJ s e.owner && e.due ≤ t) then s
          else s.flag s!"remove-name-answer owner={o} fn={f} got={r} pending={cands.map (fun e => e.due - t)}"
    | _, _ => s.flag s!"malformed {line}"
  | [t, "r", "fn", o, f, r] =>
    match t.toInt?, r.toInt? with
    | some t, some r =>
      let cands := s.pend.filter (fun e => e.owner == o && e.fn == f)
      if cands.isEmpty then
        if r == -1 then s else s.flag s!"find-name-nothing-pending owner={o} fn={f} got={r}"
      else if cands.any (fun e => answerOk s e t r) then s
      else s.flag s!"find-name-answer owner={o} fn={f} got={r} pending={cands.map (fun e => e.due - t)}"
    | _, _ => s.flag s!"malformed {line}"
  | [_t, "r", "rmall", o] =>
    { s with pend := s.pend.filter (fun e => e.owner != o && !isDeadJ s e.owner) }
  | [_t, "r", "dest", _o, x] =>
    if isDeadJ s x then s else { s with dead := x :: s.dead }
  | _t :: "r" :: "info" :: rows =>
    match _t.toInt? with
    | some t =>
      let want := (s.pend.filter (fun e => !isDeadJ s e.owner)).map (fun e => s!"{e.owner}/co{e.fn}/{e.due - t}")
      -- multiset equality
      let missing := want.filter (fun x => want.count x > rows.count x)
      let extra := rows.filter (fun x => rows.count x > want.count x)
      if missing.isEmpty && extra.isEmpty then s
      else s.flag s!"info-mismatch missing={missing} extra={extra}"
    | none => s.flag s!"malformed {line}"
  | "err" :: _ => s
  | ["r", _, "do_op", "!err"] => s
  | ["r", _, "do_op", "!destructed"] => s
  | ["r", _, "set_script", "!destructed"] => s
  | "crash" :: _ => s.flag s!"crash {line}"
  | "sanitizer" :: _ => s.flag s!"memory-error {line}"
  | [] => s
  | _ => s.flag s!"unexpected-line {line}"

/-- violations found on a trace, oldest first; `[]` = property held on this trace -/
def judge (trace : List String) : List String :=
  (trace.foldl judgeLine {}).bad.reverse

end NV.C10
