/-
C10 — the wheel invariant `WheelInv` and its preservation by every operation of the model (clause 2c),
the sweep semantics and the sufficiency of the fuel of `visit` / `sweepLoop` (clause 2d).
-/
import NV.C10.LemmasTie
import NV.C10.LemmasCum

namespace NV.C10

/-- order of a slot list on prefix sums: by rotation count, newest (largest serial) first among equals -/
def Before (a b : Int × Call) : Prop := a.1 < b.1 ∨ (a.1 = b.1 ∧ b.2.serial < a.2.serial)

/-- what holds for the entry `p.2` found at cumulative rotation `p.1` in slot `s` -/
structure EntOK (w : World) (s : Nat) (p : Int × Call) : Prop where
  slot : s < N
  /-- the cumulative delta denotes the entry's own second -/
  due : p.2.due = dueOf s w.cot p.1
  /-- nothing pending lies in the past of `call_out_time` -/
  notPast : (w.cot : Int) ≤ p.2.due
  handle : p.2.handle = s + N * p.2.serial
  serialPos : 1 ≤ p.2.serial
  serial : p.2.serial ≤ w.unique

/-- the wheel invariant -/
structure WheelInv (w : World) : Prop where
  cot_le : w.cot ≤ w.now
  now_pos : 0 < w.now
  /-- before the first call_out()/new_call_out() the wheel is empty -/
  fresh : w.cot = 0 → ∀ s, w.slots s = []
  sorted : ∀ s, (cum 0 (w.slots s)).Pairwise Before
  ent : ∀ s, ∀ p ∈ cum 0 (w.slots s), EntOK w s p

/-- outside the do/while of `call_out()` every pending entry is strictly in the future of `call_out_time` -/
def Quiet (w : World) : Prop := ∀ s, ∀ p ∈ cum 0 (w.slots s), 1 ≤ p.1

/-- number of entries of a slot whose rotation count has reached zero (they are due now) -/
def zc (L : List (Int × Call)) : Nat := L.countP (fun p => decide (p.1 ≤ 0))

theorem WheelInv.congr {w w' : World} (h : WheelInv w) (hs : w'.slots = w.slots) (hc : w'.cot = w.cot)
    (hn : w'.now = w.now) (hu : w'.unique = w.unique) : WheelInv w' := by
  refine ⟨by rw [hc, hn]; exact h.cot_le, by rw [hn]; exact h.now_pos, ?_, ?_, ?_⟩
  · intro h0 s; rw [hs]; exact h.fresh (hc ▸ h0) s
  · intro s; rw [hs]; exact h.sorted s
  · intro s p hp
    rw [hs] at hp
    have e := h.ent s p hp
    exact ⟨e.slot, by rw [hc]; exact e.due, by rw [hc]; exact e.notPast, e.handle, e.serialPos, by rw [hu]; exact e.serial⟩

theorem EntOK.congr {w w' : World} {s : Nat} {p : Int × Call} (e : EntOK w s p) (hc : w'.cot = w.cot)
    (hu : w'.unique = w.unique) : EntOK w' s p :=
  ⟨e.slot, by rw [hc]; exact e.due, by rw [hc]; exact e.notPast, e.handle, e.serialPos, by rw [hu]; exact e.serial⟩

theorem dueOf_ge_iff (s cot : Nat) (D : Int) (hs : s < N) :
    (cot : Int) ≤ dueOf s cot D ↔ 1 ≤ D ∨ (D = 0 ∧ s = slotOf cot) := by
  unfold dueOf
  wheel_omega

theorem EntOK.nonneg {w : World} {s : Nat} {p : Int × Call} (e : EntOK w s p) : 0 ≤ p.1 := by
  have := (dueOf_ge_iff s w.cot p.1 e.slot).1 (e.due ▸ e.notPast)
  omega

theorem EntOK.zero_slot {w : World} {s : Nat} {p : Int × Call} (e : EntOK w s p) (h : p.1 ≤ 0) :
    s = slotOf w.cot ∧ p.1 = 0 ∧ p.2.due = w.cot := by
  have := (dueOf_ge_iff s w.cot p.1 e.slot).1 (e.due ▸ e.notPast)
  have h0 : p.1 = 0 := by omega
  have hs : s = slotOf w.cot := by omega
  refine ⟨hs, h0, ?_⟩
  rw [e.due, h0, hs, dueOf_zero_cur]

/-! ### list facts -/

theorem pairwise_insC {D : Int} {c : Call} {L : List (Int × Call)} (hL : L.Pairwise Before)
    (hnew : ∀ x ∈ L, x.2.serial < c.serial) : (insC D c L).Pairwise Before := by
  induction L with
  | nil => simp [insC]
  | cons y ys ih =>
    have hy := List.pairwise_cons.1 hL
    unfold insC
    split
    · rename_i hge
      refine List.pairwise_cons.2 ⟨?_, hL⟩
      intro z hz
      have hzs := hnew z hz
      simp only [List.mem_cons] at hz
      rcases hz with rfl | hz
      · unfold Before; simp only []; omega
      · have := hy.1 z hz
        unfold Before at this ⊢; simp only [] at this ⊢; omega
    · rename_i hlt
      refine List.pairwise_cons.2 ⟨?_, ih hy.2 (fun x hx => hnew x (List.mem_cons_of_mem _ hx))⟩
      intro z hz
      rcases mem_insC.1 hz with rfl | hz
      · unfold Before; simp only []; omega
      · exact hy.1 z hz

theorem zc_insC {D : Int} {c : Call} {L : List (Int × Call)} (hD : 1 ≤ D) : zc (insC D c L) = zc L := by
  unfold zc
  induction L with
  | nil =>
    have : ¬ D ≤ 0 := by omega
    simp [insC, this]
  | cons y ys ih =>
    unfold insC
    split
    · have : ¬ D ≤ 0 := by omega
      simp [List.countP_cons, this]
    · simp only [List.countP_cons, ih]

theorem zc_sublist {L L' : List (Int × Call)} (h : L'.Sublist L) : zc L' ≤ zc L :=
  List.Sublist.countP_le h

theorem zc_eq_zero_iff {L : List (Int × Call)} : zc L = 0 ↔ ∀ p ∈ L, 1 ≤ p.1 := by
  unfold zc
  rw [List.countP_eq_zero]
  constructor
  · intro h p hp; have := h p hp; simp at this; omega
  · intro h p hp; have := h p hp; simp; omega

theorem pairwise_before_map_dec {L : List (Int × Call)} (h : L.Pairwise Before) :
    (L.map (fun p => (p.1 - 1, p.2))).Pairwise Before := by
  rw [List.pairwise_map]
  refine h.imp ?_
  intro a b hab
  unfold Before at hab ⊢; simp only [] at hab ⊢; omega

/-! ### one step: what every operation guarantees -/

/-- `w'` results from `w` by operations that keep the invariant, leave the clocks alone and add no entry that
    is already due -/
structure StepOK (w w' : World) : Prop where
  inv : WheelInv w'
  cot : w.cot ≠ 0 → w'.cot = w.cot
  now : w'.now = w.now
  zc : ∀ s, zc (cum 0 (w'.slots s)) ≤ zc (cum 0 (w.slots s))
  uniq : w.unique ≤ w'.unique

theorem StepOK.refl {w : World} (h : WheelInv w) : StepOK w w :=
  ⟨h, fun _ => rfl, rfl, fun _ => Nat.le_refl _, Nat.le_refl _⟩

theorem StepOK.trans {a b c : World} (h1 : StepOK a b) (h2 : StepOK b c) : StepOK a c := by
  refine ⟨h2.inv, ?_, by rw [h2.now, h1.now], fun s => Nat.le_trans (h2.zc s) (h1.zc s),
    Nat.le_trans h1.uniq h2.uniq⟩
  intro h0
  have := h1.cot h0
  rw [h2.cot (by rw [this]; exact h0), this]

theorem StepOK.congr {w a b : World} (h : StepOK w a) (hs : b.slots = a.slots) (hc : b.cot = a.cot)
    (hn : b.now = a.now) (hu : b.unique = a.unique) : StepOK w b :=
  ⟨h.inv.congr hs hc hn hu, by rw [hc]; exact h.cot, by rw [hn]; exact h.now, by rw [hs]; exact h.zc,
    by rw [hu]; exact h.uniq⟩

/-- replacing slot lists by sublists (on prefix sums) keeps everything -/
theorem StepOK.of_sublist {w w' : World} (h : WheelInv w) (hc : w'.cot = w.cot) (hn : w'.now = w.now)
    (hu : w'.unique = w.unique) (hsub : ∀ s, (cum 0 (w'.slots s)).Sublist (cum 0 (w.slots s))) :
    StepOK w w' := by
  refine ⟨⟨by rw [hc, hn]; exact h.cot_le, by rw [hn]; exact h.now_pos, ?_, ?_, ?_⟩, fun _ => hc, hn,
    fun s => zc_sublist (hsub s), by rw [hu]; exact Nat.le_refl _⟩
  · intro h0 s
    have := h.fresh (hc ▸ h0) s
    have hs := hsub s
    rw [this] at hs
    have hl := hs.length_le
    rw [cum_length] at hl
    simp only [cum_nil, List.length_nil] at hl
    exact List.eq_nil_of_length_eq_zero (by omega)
  · intro s; exact (h.sorted s).sublist (hsub s)
  · intro s p hp
    have e := h.ent s p ((hsub s).subset hp)
    exact ⟨e.slot, by rw [hc]; exact e.due, by rw [hc]; exact e.notPast, e.handle, e.serialPos, by rw [hu]; exact e.serial⟩

@[simp] theorem setSlot_slots (w : World) (s : Nat) (l : List Entry) (i : Nat) :
    (setSlot w s l).slots i = if i = s then l else w.slots i := rfl
@[simp] theorem setSlot_cot (w : World) (s : Nat) (l : List Entry) : (setSlot w s l).cot = w.cot := rfl
@[simp] theorem setSlot_now (w : World) (s : Nat) (l : List Entry) : (setSlot w s l).now = w.now := rfl
@[simp] theorem setSlot_unique (w : World) (s : Nat) (l : List Entry) : (setSlot w s l).unique = w.unique := rfl
@[simp] theorem setSlot_dead (w : World) (s : Nat) (l : List Entry) : (setSlot w s l).dead = w.dead := rfl
@[simp] theorem setSlot_hmap (w : World) (s : Nat) (l : List Entry) : (setSlot w s l).hmap = w.hmap := rfl
@[simp] theorem setSlot_out (w : World) (s : Nat) (l : List Entry) : (setSlot w s l).out = w.out := rfl

/-- replacing one slot list by a sublist -/
theorem StepOK.setSlot_sublist {w : World} (h : WheelInv w) (s : Nat) (l : List Entry)
    (hsub : (cum 0 l).Sublist (cum 0 (w.slots s))) : StepOK w (setSlot w s l) := by
  refine StepOK.of_sublist h rfl rfl rfl ?_
  intro i
  simp only [setSlot_slots]
  split
  · rename_i hi; rw [hi]; exact hsub
  · exact List.Sublist.refl _

theorem removeFirst_sublist {p : Call → Bool} {l : List Entry} {r : Int × List Entry}
    (h : removeFirst p l 0 = some r) :
    ∃ x A B, cum 0 l = A ++ x :: B ∧ cum 0 r.2 = A ++ B ∧ x.1 = r.1 ∧ p x.2 = true ∧ ∀ y ∈ A, p y.2 = false := by
  have := cum_removeFirst p l 0
  rw [h] at this
  cases h2 : eraseFirstC p (cum 0 l) with
  | none => rw [h2] at this; simp at this
  | some e =>
    rw [h2] at this
    simp only [Option.map_some, Option.some.injEq, Prod.mk.injEq] at this
    obtain ⟨A, B, e1, e2, e3, e4⟩ := eraseFirstC_some (x := e.1) (R := e.2) h2
    exact ⟨e.1, A, B, e1, by rw [this.2, e2], this.1.symm, e3, e4⟩

theorem removeFirst_none {p : Call → Bool} {l : List Entry} (h : removeFirst p l 0 = none) :
    ∀ y ∈ cum 0 l, p y.2 = false := by
  have := cum_removeFirst p l 0
  rw [h] at this
  cases h2 : eraseFirstC p (cum 0 l) with
  | none => exact eraseFirstC_none h2
  | some e => rw [h2] at this; simp at this

theorem sublist_of_split {α} {A B : List α} {x : α} : (A ++ B).Sublist (A ++ x :: B) :=
  List.Sublist.append (List.Sublist.refl A) (List.sublist_cons_self x B)

/-! ### scanFrom -/

theorem scanFrom_some {α} {f : Nat → Option α} {n i j : Nat} {a : α} (h : scanFrom f n i = some (j, a)) :
    i ≤ j ∧ j < i + n ∧ f j = some a := by
  induction n generalizing i with
  | zero => simp [scanFrom] at h
  | succ n ih =>
    unfold scanFrom at h
    cases hf : f i with
    | some b =>
      simp only [hf, Option.some.injEq, Prod.mk.injEq] at h
      refine ⟨by omega, by omega, ?_⟩
      rw [← h.1, hf, h.2]
    | none =>
      simp only [hf] at h
      have := ih h
      exact ⟨by omega, by omega, this.2.2⟩

theorem scanFrom_none {α} {f : Nat → Option α} {n i : Nat} (h : scanFrom f n i = none) :
    ∀ j, i ≤ j → j < i + n → f j = none := by
  induction n generalizing i with
  | zero => intro j h1 h2; omega
  | succ n ih =>
    unfold scanFrom at h
    cases hf : f i with
    | some b => simp [hf] at h
    | none =>
      simp only [hf] at h
      intro j h1 h2
      by_cases hj : j = i
      · rw [hj]; exact hf
      · exact ih h j (by omega) (by omega)

end NV.C10
