/-
C10 — the bookkeeping invariant `UInv` along `runOps`, `fireOne`, `visit`, `sweep`, `stepCmd`, `runCmds`
(same skeleton as LemmasSimRun.lean, which provides the simulation relation at every intermediate state).
-/
import NV.C10.LemmasUsage

namespace NV.C10

theorem runOps_u {tick : Bool} {b : Nat} (hb : b = if tick then 1 else 0) {w : World} (hw : WheelInv w)
    (hs : Sim tick w) (hu : UInv b w) (self : Nat) (ops : List Op) (halive : isDead w self = false) :
    UInv b (runOps w self ops).1 := by
  induction ops generalizing w with
  | nil => exact hu
  | cons op rest ih =>
    unfold runOps
    simp only []
    have h1 := stepOp_sim hw hs self op halive
    have u1 : UInv b (stepOp w self op).w := by
      rw [hb]; exact stepOp_u hw hs (hb ▸ hu) self op halive
    split
    · exact u1
    · split
      · exact u1
      · rename_i hstop
        exact ih (stepOp_ok hw self op).inv h1 u1 (stepOp_alive self op halive (by simpa using hstop))

theorem fireOne_u (sc : Scripts) {w : World} (hw : WheelInv w) (hs : Sim true w) (hu : UInv 0 w) {cop : Entry}
    {rest : List Entry} (hl : w.slots (slotOf w.cot) = cop :: rest) (hz : cop.delta = 0) :
    UInv 0 (fireOne sc (setSlot w (slotOf w.cot) rest) cop) := by
  have hsz : wheelSize (setSlot w (slotOf w.cot) rest) + 1 = wheelSize w := by
    have := wheelSize_setSlot w (slotOf w.cot) rest (slotOf_lt _)
    rw [hl] at this
    simp only [List.length_cons] at this
    omega
  have hdrop : UInv 0 (setSlot w (slotOf w.cot) rest) := hu.congr rfl rfl rfl (by omega)
  rw [fireOne_eq_spec]
  unfold fireOneSpec
  by_cases hdead : isDead (setSlot w (slotOf w.cot) rest) cop.c.owner = true
  · rw [if_pos hdead]
    split
    · exact hdrop.emit_other rfl rfl rfl (Nat.le_refl _) (by intro _ _ _ h; cases h)
    · exact hdrop
  · rw [if_neg hdead]
    have hdead' : isDead w cop.c.owner = false := by
      have : isDead (setSlot w (slotOf w.cot) rest) cop.c.owner = isDead w cop.c.owner := rfl
      rw [← this]; simpa using hdead
    obtain ⟨hs1, hw1⟩ := fire_emit_sim hw hs hl hz hdead'
    -- the structure taken out of the list is in use until the callback returns
    have hb : UInv 1 { setSlot w (slotOf w.cot) rest with giver := liveGiver w cop.c.giver, busy := 1 } := by
      refine ⟨hu.ubad, hu.mod, ?_, hu.hwm, rfl⟩
      show wheelSize (setSlot w (slotOf w.cot) rest) + 1 ≤ w.numCall
      have := hu.inUse; omega
    have hu1 : UInv 1 (emit { setSlot w (slotOf w.cot) rest with giver := liveGiver w cop.c.giver, busy := 1 }
        (.fire (vnow w) cop.c.owner cop.c.fn cop.c.tag (liveGiver w cop.c.giver))) :=
      hb.emit_other rfl rfl rfl (Nat.le_refl _) (by intro _ _ _ h; cases h)
    have hrun := runOps_u (tick := true) (b := 1) (by simp) hw1 hs1 hu1 cop.c.owner (sc cop.c.owner cop.c.tag) hdead'
    refine ⟨hrun.ubad, hrun.mod, ?_, hrun.hwm, rfl⟩
    exact Nat.le_trans (Nat.add_le_add_left (Nat.zero_le _) _) hrun.inUse

theorem visit_u (sc : Scripts) (tm : Nat) : ∀ (fuel : Nat) (w : World), WheelInv w → w.cot ≠ 0 →
    tm = slotOf w.cot → (∃ cop rest, w.slots tm = cop :: rest ∧ cop.delta = 0) → Sim true w → UInv 0 w →
    UInv 0 (visit sc tm fuel w) := by
  intro fuel
  induction fuel with
  | zero => intro w _ _ _ _ _ hu; exact hu
  | succ fuel ih =>
    intro w h h0 htm ⟨cop, rest, hl, hz⟩ hs hu
    unfold visit
    simp only [hl, tie_nextDue]
    have hcum : cum 0 (w.slots tm) = (0, cop.c) :: cum 0 rest := by rw [hl]; exact cum_pop_zero _ _ hz
    have h1 : StepOK w (setSlot w tm rest) :=
      StepOK.setSlot_sublist h tm rest (by rw [hcum]; exact List.sublist_cons_self _ _)
    have h2 := fireOne_ok h1.inv sc cop
    have h12 := h1.trans h2
    have hc2 : (fireOne sc (setSlot w tm rest) cop).cot = w.cot := h12.cot h0
    have hs2 : Sim true (fireOne sc (setSlot w tm rest) cop) := by
      subst htm
      exact fireOne_sim sc h hs hl hz
    have hu2 : UInv 0 (fireOne sc (setSlot w tm rest) cop) := by
      subst htm
      exact fireOne_u sc h hs hu hl hz
    generalize fireOne sc (setSlot w tm rest) cop = w2 at *
    cases hl2 : w2.slots tm with
    | nil => exact hu2
    | cons x xs =>
      simp only []
      by_cases hx : x.delta = 0
      · simp only [hx, beq_self_eq_true, if_true]
        exact ih w2 h12.inv (by rw [hc2]; exact h0) (by rw [hc2]; exact htm) ⟨x, xs, hl2, hx⟩ hs2 hu2
      · have : (x.delta == 0) = false := by simp [hx]
        simp only [this, Bool.false_eq_true, if_false]
        exact hu2

theorem decHead_size (w : World) : wheelSize (decHead w) ≤ wheelSize w ∧ (decHead w).numCall = w.numCall ∧
    (decHead w).busy = w.busy := by
  unfold decHead
  simp only []
  split
  · exact ⟨Nat.le_refl _, rfl, rfl⟩
  · rename_i h rest hl
    refine ⟨?_, rfl, rfl⟩
    apply wheelSize_le_of_slots
    intro i
    show (if i = slotOf (w.cot + 1) then _ else w.slots i).length ≤ _
    split
    · rename_i hi; subst hi
      have hl' : w.slots (slotOf (w.cot + 1)) = h :: rest := hl
      rw [hl']; exact Nat.le_refl _
    · exact Nat.le_refl _

theorem decHead_u {w : World} (hu : UInv 0 w) : UInv 0 (decHead w) := by
  obtain ⟨a, b, c⟩ := decHead_size w
  exact hu.congr (decHead_out w).1 b c a

theorem sweepSecond_u (sc : Scripts) {w : World} (h : WheelInv w) (hq : Quiet w) (hlt : w.cot < w.now)
    (hs : Sim true w) (hu : UInv 0 w) : UInv 0 (sweepSecond sc w) := by
  rw [sweepSecond_eq]
  have hd := decHead_inv h hq hlt
  have hc := decHead_cot w
  have hsd := decHead_sim hs
  have hud := decHead_u hu
  cases hl : (decHead w).slots (slotOf (w.cot + 1)) with
  | nil => exact hud
  | cons x xs =>
    simp only []
    by_cases hx : x.delta = 0
    · simp only [hx, beq_self_eq_true, if_true]
      exact visit_u sc _ _ (decHead w) hd (by rw [hc]; omega) (by rw [hc]) ⟨x, xs, hl, hx⟩ hsd hud
    · have : (x.delta == 0) = false := by simp [hx]
      simp only [this, Bool.false_eq_true, if_false]
      exact hud

theorem sweepLoop_u (sc : Scripts) : ∀ (fuel : Nat) (w : World), WheelInv w → Quiet w → w.cot ≠ 0 →
    Sim true w → UInv 0 w → UInv 0 (sweepLoop sc fuel w) := by
  intro fuel
  induction fuel with
  | zero => intro w _ _ _ _ hu; exact hu
  | succ fuel ih =>
    intro w h hq h0 hs hu
    unfold sweepLoop
    rw [tie_sweepCond]
    by_cases hlt : w.cot < w.now
    · rw [if_pos (by simpa using hlt)]
      obtain ⟨a, b, c, _, _⟩ := sweepSecond_ok sc h hq hlt
      exact ih _ a b (by rw [c]; omega) (sweepSecond_sim sc h hq hlt hs) (sweepSecond_u sc h hq hlt hs hu)
    · rw [if_neg (by simpa using hlt)]; exact hu

theorem sweepCore_u (sc : Scripts) {w : World} (h : WheelInv w) (hq : Quiet w) (hs : Sim true w) (hu : UInv 0 w) :
    UInv 0 (sweepCore sc w) := by
  unfold sweepCore
  by_cases h0 : w.cot = 0
  · simp only [h0, if_true]
    have hi : WheelInv { w with cot := w.now } := by
      refine ⟨Nat.le_refl _, h.now_pos, fun _ => h.fresh h0, h.sorted, ?_⟩
      intro s p hp
      rw [h.fresh h0 s] at hp; simp at hp
    have hs' : Sim true { w with cot := w.now } := by
      refine ⟨hs.bad, hs.dead, hs.handles, hs.inTick, hs.allLt, hs.pendLt, hs.pendSorted,
        fun c hc => hs.wheelPend c (hc.congr rfl), ?_⟩
      intro p hp
      rcases hs.pendWheel p hp with ⟨c, hc1, hc2⟩ | hx
      · exact Or.inl ⟨c, hc1.congr rfl, hc2⟩
      · right
        refine ⟨hx.1, ?_⟩
        have := hx.2
        show p.due ≤ ((w.now : Nat) : Int) - (T0 : Int)
        omega
    have hu' : UInv 0 { w with cot := w.now } := hu.congr rfl rfl rfl (Nat.le_refl _)
    exact sweepLoop_u sc _ _ hi hq (by have := h.now_pos; show w.now ≠ 0; omega) hs' hu'
  · simp only [h0, if_false]
    exact sweepLoop_u sc _ _ h hq h0 hs hu

theorem sweep_u (sc : Scripts) {w : World} (h : WheelInv w) (hq : Quiet w) (hs : Sim true w) (hu : UInv 0 w) :
    UInv 0 (sweep sc w) := by
  rw [sweep_eq]
  exact (sweepCore_u sc h hq hs hu).congr rfl rfl rfl (Nat.le_refl _)

theorem applyOp_u {w : World} (hr : Rest w) (hs : Sim false w) (hu : UInv 0 w) (self : Nat) (op : Op) :
    UInv 0 (applyOp w self op) := by
  unfold applyOp
  split
  · exact hu.emit_other rfl rfl rfl (Nat.le_refl _) (by intro _ _ _ h; cases h)
  · rename_i hd
    have := runOps_u (tick := false) (b := 0) (by simp) hr.1 hs hu self [op] (by simpa using hd)
    simp only []
    split
    · exact UInv.emit_other (w := (runOps w self [op]).1) this rfl rfl rfl (Nat.le_refl _) (by intro _ _ _ h; cases h)
    · exact this

theorem stepCmd_u (sc : Scripts) {w : World} (hr : Rest w) (hs : Sim false w) (hu : UInv 0 w) (c : Cmd) :
    UInv 0 (stepCmd sc w c) := by
  cases c with
  | adv dt => exact hu.congr rfl rfl rfl (Nat.le_refl _)
  | sweep =>
    have h1 : Sim true (emit w (.tickbegin (vnow w))) := by
      refine Sim.emit (w := w) rfl ?_
      have hj : judgeStep (jstate w.out) (.tickbegin (vnow w)) = { jstate w.out with inTick := true } := by
        simp only [judgeStep, hs.inTick, Bool.false_eq_true, if_false]
      rw [hj]
      exact ⟨hs.bad, hs.dead, hs.handles, rfl, hs.allLt, hs.pendLt, hs.pendSorted, hs.wheelPend, hs.pendWheel⟩
    have hr1 : Rest (emit w (.tickbegin (vnow w))) := hr.congr rfl rfl rfl rfl
    have u1 : UInv 0 (emit w (.tickbegin (vnow w))) :=
      hu.emit_other rfl rfl rfl (Nat.le_refl _) (by intro _ _ _ h; cases h)
    have u2 := sweep_u sc hr1.1 hr1.2 h1 u1
    exact u2.emit_other rfl rfl rfl (Nat.le_refl _) (by intro _ _ _ h; cases h)
  | setScript self =>
    show UInv 0 (if isDead w self then emit w (.setScriptDestructed self) else w)
    split
    · exact hu.emit_other rfl rfl rfl (Nat.le_refl _) (by intro _ _ _ h; cases h)
    · exact hu
  | op self op => exact applyOp_u hr hs hu self op
  | gop g self op =>
    have hr1 : Rest { w with giver := liveGiver w (some g) } := hr.congr rfl rfl rfl rfl
    have hs1 : Sim false { w with giver := liveGiver w (some g) } := SimJ.congr (w := w) hs rfl rfl rfl rfl rfl
    have hu1 : UInv 0 { w with giver := liveGiver w (some g) } := hu.congr rfl rfl rfl (Nat.le_refl _)
    exact (applyOp_u hr1 hs1 hu1 self op).congr rfl rfl rfl (Nat.le_refl _)
  | setUnique n =>
    show UInv 0 (if n > w.unique then { w with unique := n } else w)
    split
    · exact hu.congr rfl rfl rfl (Nat.le_refl _)
    · exact hu

theorem init_u : UInv 0 World.init :=
  ⟨rfl, by decide, by decide, by decide, rfl⟩

end NV.C10
