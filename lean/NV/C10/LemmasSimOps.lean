/-
C10 — the simulation relation is kept by every efun (`stepOp`): the oracle accepts the event the model emits.
-/
import NV.C10.LemmasWheel
import NV.C10.LemmasJudge

namespace NV.C10

theorem SimJ.congr {tick : Bool} {w w' : World} {j : JState} (h : SimJ tick w j) (hs : w'.slots = w.slots)
    (hc : w'.cot = w.cot) (hu : w'.unique = w.unique) (hd : w'.dead = w.dead) (hm : w'.hmap = w.hmap) :
    SimJ tick w' j := by
  refine ⟨h.bad, by rw [hd]; exact h.dead, by rw [hm]; exact h.handles, h.inTick, by rw [hu]; exact h.allLt,
    by rw [hu]; exact h.pendLt, h.pendSorted, ?_, ?_⟩
  · intro c hc'; exact h.wheelPend c (hc'.congr hs.symm)
  · intro p hp
    rcases h.pendWheel p hp with ⟨c, hc1, hc2⟩ | hx
    · exact Or.inl ⟨c, hc1.congr hs, hc2⟩
    · right; rw [hd, hc]; exact hx

theorem isDeadJ_eq {tick : Bool} {w : World} {j : JState} (h : SimJ tick w j) (o : Nat) :
    isDeadJ j o = isDead w o := by
  unfold isDeadJ isDead; rw [h.dead]

theorem handleOf_eq {tick : Bool} {w : World} {j : JState} (h : SimJ tick w j) (o : Nat) (tag : String) :
    handleOf j o tag = (lookupHandle w o tag : Int) := by
  unfold handleOf lookupHandle
  rw [h.handles, List.find?_map]
  cases hf : List.find? (fun p => p.1 == (o, tag)) w.hmap with
  | none =>
    have : List.find? ((fun e : (Nat × String) × Int => e.1 == (o, tag)) ∘ fun p : (Nat × String) × Nat => (p.1, (p.2 : Int))) w.hmap = none := hf
    rw [this]; rfl
  | some p =>
    have : List.find? ((fun e : (Nat × String) × Int => e.1 == (o, tag)) ∘ fun p : (Nat × String) × Nat => (p.1, (p.2 : Int))) w.hmap = some p := hf
    rw [this]; rfl

/-- the oracle removes the pending entry of the call the model removed -/
theorem SimJ.remove_pair {tick : Bool} {w : World} {j : JState} (hw : WheelInv w) (h : SimJ tick w j)
    {s : Nat} {l' : List Entry} {x : Int × Call} {A B : List (Int × Call)}
    (h1 : cum 0 (w.slots s) = A ++ x :: B) (h2 : cum 0 l' = A ++ B)
    {q : Pend → Bool} {rest : List Pend} (hr : removeOne q j.pend = some (toPend x.2, rest)) :
    SimJ tick (setSlot w s l') { j with pend := rest } := by
  obtain ⟨r1, _, r3, r4, _⟩ := removeOne_some hr h.pendSorted
  have hxw : InWheel w x.2 := ⟨s, x.1, by rw [h1]; simp⟩
  refine ⟨h.bad, h.dead, h.handles, h.inTick, h.allLt, ?_, r4, ?_, ?_⟩
  · intro p hp; exact h.pendLt p ((r3 p).1 hp).1
  · intro c hc
    obtain ⟨hc1, hc2⟩ := (inWheel_remove hw h1 h2 c).1 hc
    refine (r3 _).2 ⟨h.wheelPend c hc1, ?_⟩
    intro heq; exact hc2 (toPend_inj hw hc1 hxw heq)
  · intro p hp
    obtain ⟨hp1, hp2⟩ := (r3 p).1 hp
    rcases h.pendWheel p hp1 with ⟨c, hc1, hc2⟩ | hx
    · left
      refine ⟨c, (inWheel_remove hw h1 h2 c).2 ⟨hc1, ?_⟩, hc2⟩
      intro heq; apply hp2; rw [← hc2, heq]
    · exact Or.inr hx

/-- the oracle forgets an entry that the wheel had dropped already -/
theorem SimJ.drop_extra {tick : Bool} {w : World} {j : JState} (h : SimJ tick w j)
    {q : Pend → Bool} {e : Pend} {rest : List Pend} (hr : removeOne q j.pend = some (e, rest))
    (hne : ∀ c, InWheel w c → toPend c ≠ e) : SimJ tick w { j with pend := rest } := by
  obtain ⟨r1, _, r3, r4, _⟩ := removeOne_some hr h.pendSorted
  refine ⟨h.bad, h.dead, h.handles, h.inTick, h.allLt, ?_, r4, ?_, ?_⟩
  · intro p hp; exact h.pendLt p ((r3 p).1 hp).1
  · intro c hc; exact (r3 _).2 ⟨h.wheelPend c hc, hne c hc⟩
  · intro p hp; exact h.pendWheel p ((r3 p).1 hp).1

/-- answer of find/remove for the call at `x` -/
theorem timeLeft_pend {w : World} (hw : WheelInv w) {s : Nat} {x : Int × Call} (hx : x ∈ cum 0 (w.slots s)) :
    timeLeft w s x.1 = (toPend x.2).due - vnow w := by
  have e := hw.ent s x hx
  rw [timeLeft_eq w s x.1 e.slot, ← e.due]
  unfold toPend vnow
  simp only []
  omega

theorem trunc32_eq_toCInt (x : Int) : Gen.C10.trunc32 x = toCInt x := rfl

/-- what the efun returns for the call at `x`: its time left as a C int -/
theorem efun_pend {w : World} (hw : WheelInv w) {s : Nat} {x : Int × Call} (hx : x ∈ cum 0 (w.slots s)) :
    Gen.C10.efunResult (timeLeft w s x.1) = toCInt ((toPend x.2).due - vnow w) := by
  rw [tie_efunResult, trunc32_eq_toCInt, timeLeft_pend hw hx]

/-- extras are in the past -/
theorem extra_due_le {w : World} (hw : WheelInv w) {p : Pend} (h : p.due ≤ (w.cot : Int) - (T0 : Int)) :
    p.due ≤ vnow w := by
  have := hw.cot_le
  unfold vnow; omega

/-- a wheel call whose handle is `hd` sits in slot `slotOf hd` -/
theorem inWheel_handle_slot {w : World} (hw : WheelInv w) {c : Call} (hc : InWheel w c) :
    ∃ D, (D, c) ∈ cum 0 (w.slots (slotOf c.handle)) := by
  obtain ⟨s, D, hm⟩ := hc
  have := slot_of_handle (hw.ent s _ hm)
  simp only [] at this
  exact ⟨D, by rw [this]; exact hm⟩

end NV.C10
