/-
C10 — the simulation relation between the model's world and the state of the specification oracle
(definitions only; used by the proof of the top theorem `model_satisfies_spec`).
-/
import NV.C10.Spec
import NV.C10.LemmasSweep

namespace NV.C10

/-- the oracle's view of a pending call_out -/
def toPend (c : Call) : Pend :=
  { owner := c.owner, fn := c.fn, tag := c.tag, due := c.due - (T0 : Int), handle := (c.handle : Int), fp := c.fp,
    giver := c.giver }

/-- `c` is pending somewhere in the wheel -/
def InWheel (w : World) (c : Call) : Prop := ∃ s D, (D, c) ∈ cum 0 (w.slots s)

/-- oracle state after the events `out` (newest first) -/
def jstate (out : List Ev) : JState := out.foldr (fun e s => judgeStep s e) {}

@[simp] theorem jstate_cons (e : Ev) (out : List Ev) : jstate (e :: out) = judgeStep (jstate out) e := rfl

theorem judgeCore_events (w : World) : judgeCore (events w) = (jstate w.out).bad.reverse := by
  unfold judgeCore events jstate
  rw [List.foldl_reverse]

/-- the simulation relation: the oracle, having read the events so far, has raised no violation and its
    pending set is the content of the wheel, plus possibly entries of destructed owners that the sweep has
    already dropped (`tick` = inside `call_out()`) -/
structure SimJ (tick : Bool) (w : World) (j : JState) : Prop where
  bad : j.bad = []
  dead : j.dead = w.dead
  handles : j.handles = w.hmap.map (fun p => (p.1, (p.2 : Int)))
  inTick : j.inTick = tick
  allLt : ∀ h ∈ j.allHandles, h < ((N * (w.unique + 1) : Nat) : Int)
  pendLt : ∀ p ∈ j.pend, p.handle < ((N * (w.unique + 1) : Nat) : Int)
  pendSorted : j.pend.Pairwise (fun a b => b.handle < a.handle)
  wheelPend : ∀ c, InWheel w c → toPend c ∈ j.pend
  pendWheel : ∀ p ∈ j.pend, (∃ c, InWheel w c ∧ toPend c = p) ∨
    (w.dead.contains p.owner = true ∧ p.due ≤ (w.cot : Int) - (T0 : Int))

def Sim (tick : Bool) (w : World) : Prop := SimJ tick w (jstate w.out)

end NV.C10
