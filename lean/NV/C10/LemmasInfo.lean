/-
C10 — call_out_info(): the rows reported by the model are a permutation of the oracle's pending set of live
objects with their time left, so the oracle accepts the `info` event.
-/
import NV.C10.LemmasSimOps3

namespace NV.C10

theorem insertSorted_perm (x : Nat × Nat × Int) (l : List (Nat × Nat × Int)) : (insertSorted x l).Perm (x :: l) := by
  induction l with
  | nil => exact List.Perm.refl _
  | cons y ys ih =>
    unfold insertSorted
    split
    · exact ((List.Perm.cons y ih).trans (List.Perm.swap x y ys))
    · exact List.Perm.refl _

/-- the LPC-side sort is a permutation -/
theorem sortRows_perm (l : List (Nat × Nat × Int)) : (sortRows l).Perm l := by
  unfold sortRows
  induction l with
  | nil => exact List.Perm.refl _
  | cons x xs ih =>
    simp only [List.foldr_cons]
    exact (insertSorted_perm x _).trans (List.Perm.cons x ih)

/-- the inner loop of get_all_call_outs, on prefix sums -/
theorem infoRowsList_eq (w : World) (j : Nat) (l : List Entry) (acc : Int) :
    infoRowsList w j l acc =
      ((cum acc l).filter (fun p => !(!p.2.fp && w.dead.contains p.2.owner))).map
        (fun p => (p.2.owner, fnCode p.2.fp p.2.fn, timeLeft w j p.1)) := by
  induction l generalizing acc with
  | nil => rfl
  | cons x xs ih =>
    unfold infoRowsList
    simp only [cum_cons, List.filter_cons, tie_infoTimeLeft, tie_infoSkip]
    by_cases hd : (!x.c.fp && w.dead.contains x.c.owner) = true
    · simp only [hd, if_true, Bool.not_true, Bool.false_eq_true, if_false]
      exact ih _
    · have hd' : (!x.c.fp && w.dead.contains x.c.owner) = false := by simpa using hd
      simp only [hd', Bool.false_eq_true, if_false, Bool.not_false, if_true, List.map_cons, ih]

/-- multiset comparison done by the oracle succeeds on permutations -/
theorem info_check_of_perm {want rows : List (Nat × Nat × Int)} (h : want.Perm rows) :
    ((want.filter (fun x => decide (want.count x > rows.count x))).isEmpty &&
      (rows.filter (fun x => decide (rows.count x > want.count x))).isEmpty) = true := by
  have h1 : want.filter (fun x => decide (want.count x > rows.count x)) = [] := by
    apply List.filter_eq_nil_iff.2
    intro a _
    have := h.count_eq a
    simp only [decide_eq_true_eq]; omega
  have h2 : rows.filter (fun x => decide (rows.count x > want.count x)) = [] := by
    apply List.filter_eq_nil_iff.2
    intro a _
    have := h.count_eq a
    simp only [decide_eq_true_eq]; omega
  rw [h1, h2]; rfl

/-- all calls pending in the wheel, slot by slot -/
def wheelList (w : World) : List Call := (List.range N).flatMap (fun s => (cum 0 (w.slots s)).map (·.2))

theorem mem_wheelList {w : World} (hw : WheelInv w) (c : Call) : c ∈ wheelList w ↔ InWheel w c := by
  unfold wheelList InWheel
  simp only [List.mem_flatMap, List.mem_range, List.mem_map]
  constructor
  · rintro ⟨s, _, p, hp, rfl⟩; exact ⟨s, p.1, hp⟩
  · rintro ⟨s, D, hm⟩; exact ⟨s, (hw.ent s _ hm).slot, (D, c), hm, rfl⟩

theorem wheelList_pairwise {w : World} (hw : WheelInv w) :
    (wheelList w).Pairwise (fun a b => toPend a ≠ toPend b) := by
  have hne : (wheelList w).Pairwise (fun a b => a ≠ b) := by
    unfold wheelList
    rw [List.pairwise_flatMap]
    constructor
    · intro s _
      rw [List.pairwise_map]
      refine List.Pairwise.imp_of_mem ?_ (hw.sorted s)
      intro a b ha hb hab heq
      have := (wheel_unique hw (c := b.2) (D₁ := a.1) (D₂ := b.1) (by rw [← heq]; exact ha) hb).2
      have hab' : a = b := by cases a; cases b; simp only [] at this heq; subst this; subst heq; rfl
      subst hab'
      exact before_irrefl a hab
    · refine List.Pairwise.imp ?_ List.pairwise_lt_range
      intro s₁ s₂ hlt x hx y hy heq
      obtain ⟨p, hp, rfl⟩ := List.mem_map.1 hx
      obtain ⟨q, hq, hq2⟩ := List.mem_map.1 hy
      have := (wheel_unique hw (c := p.2) (D₁ := p.1) (D₂ := q.1) hp (by rw [heq, ← hq2]; exact hq)).1
      omega
  refine List.Pairwise.imp_of_mem ?_ hne
  intro a b ha hb hab heq
  exact hab (toPend_inj hw ((mem_wheelList hw a).1 ha) ((mem_wheelList hw b).1 hb) heq)

theorem infoRows_eq {w : World} (hw : WheelInv w) :
    (infoRows w).filter (fun r => !w.dead.contains r.1) =
      (((wheelList w).map toPend).filter (fun e => !w.dead.contains e.owner)).map
        (fun e => (e.owner, fnCode e.fp e.fn, e.due - vnow w)) := by
  unfold infoRows wheelList
  rw [List.filter_flatMap, List.map_flatMap, List.filter_flatMap, List.map_flatMap]
  congr 1
  funext s
  rw [infoRowsList_eq, List.filter_map, List.filter_filter]
  simp only [List.filter_map, List.map_map]
  have hf : List.filter ((fun e : Pend => !w.dead.contains e.owner) ∘ toPend ∘ fun x : Int × Call => x.2)
      (cum 0 (w.slots s)) = List.filter (fun p : Int × Call => !w.dead.contains p.2.owner) (cum 0 (w.slots s)) := rfl
  rw [hf]
  have hg : List.filter (fun a : Int × Call =>
        ((fun r : Nat × Nat × Int => !w.dead.contains r.1) ∘
          fun p : Int × Call => (p.2.owner, fnCode p.2.fp p.2.fn, timeLeft w s p.1)) a &&
        !(!a.2.fp && w.dead.contains a.2.owner)) (cum 0 (w.slots s)) =
      List.filter (fun p : Int × Call => !w.dead.contains p.2.owner) (cum 0 (w.slots s)) := by
    apply List.filter_congr
    intro p _
    simp only [Function.comp]
    cases w.dead.contains p.2.owner <;> simp
  rw [hg]
  apply List.map_congr_left
  intro p hp
  have hp' := (List.mem_filter.1 hp).1
  simp only [Function.comp]
  rw [timeLeft_pend hw hp']
  rfl

/-- **call_out_info() reports exactly the pending call_outs of live objects with their time left** -/
theorem info_perm {tick : Bool} {w : World} {j : JState} (hw : WheelInv w) (hs : SimJ tick w j) :
    ((j.pend.filter (fun e => !isDeadJ j e.owner)).map (fun e => (e.owner, fnCode e.fp e.fn, e.due - vnow w))).Perm
      (sortRows ((infoRows w).filter (fun r => !w.dead.contains r.1))) := by
  refine List.Perm.trans ?_ (sortRows_perm _).symm
  rw [infoRows_eq hw]
  apply List.Perm.map
  have hd : (fun e : Pend => !isDeadJ j e.owner) = (fun e : Pend => !w.dead.contains e.owner) := by
    funext e; unfold isDeadJ; rw [hs.dead]
  rw [hd]
  apply (List.perm_ext_iff_of_nodup ?_ ?_).2
  · intro p
    simp only [List.mem_filter, List.mem_map]
    constructor
    · rintro ⟨hp, halive⟩
      rcases hs.pendWheel p hp with ⟨c, hc1, hc2⟩ | hx
      · exact ⟨⟨c, (mem_wheelList hw c).2 hc1, hc2⟩, halive⟩
      · rw [hx.1] at halive; cases halive
    · rintro ⟨⟨c, hc1, rfl⟩, halive⟩
      exact ⟨hs.wheelPend c ((mem_wheelList hw c).1 hc1), halive⟩
  · refine List.Pairwise.filter _ ?_
    refine List.Pairwise.imp ?_ hs.pendSorted
    intro a b hab heq
    rw [heq] at hab; omega
  · refine List.Pairwise.filter _ ?_
    show List.Pairwise (· ≠ ·) _
    rw [List.pairwise_map]
    exact wheelList_pairwise hw

theorem sim_info {tick : Bool} {w : World} {j : JState} (hw : WheelInv w) (h : SimJ tick w j) :
    SimJ tick w (judgeStep j (.info (vnow w) (sortRows ((infoRows w).filter (fun r => !w.dead.contains r.1))))) := by
  have hp := info_check_of_perm (info_perm hw h)
  have hj : judgeStep j (.info (vnow w) (sortRows ((infoRows w).filter (fun r => !w.dead.contains r.1)))) = j := by
    simp only [judgeStep]
    rw [if_pos hp]
  rw [hj]; exact h

end NV.C10
