/-
C10 — which calls are in the wheel (`InWheel`) after each list surgery, uniqueness of a call in the wheel, and
the tie-breaking fact used by the simulation: the first entry of a slot list satisfying a predicate has the
largest handle among the entries with the same second.
-/
import NV.C10.LemmasSimDefs

namespace NV.C10

theorem InWheel.congr {w w' : World} {c : Call} (h : InWheel w c) (hs : w'.slots = w.slots) : InWheel w' c := by
  obtain ⟨s, D, hm⟩ := h
  exact ⟨s, D, by rw [hs]; exact hm⟩

theorem before_irrefl (a : Int × Call) : ¬ Before a a := by
  unfold Before; omega

/-- the slot of an entry is determined by its handle -/
theorem slot_of_handle {w : World} {s : Nat} {p : Int × Call} (e : EntOK w s p) : slotOf p.2.handle = s := by
  rw [slotOf_eq_mod, e.handle, Nat.add_mul_mod_self_left]
  exact Nat.mod_eq_of_lt e.slot

/-- a call sits at one place only -/
theorem wheel_unique {w : World} (hw : WheelInv w) {c : Call} {s₁ s₂ : Nat} {D₁ D₂ : Int}
    (h₁ : (D₁, c) ∈ cum 0 (w.slots s₁)) (h₂ : (D₂, c) ∈ cum 0 (w.slots s₂)) : s₁ = s₂ ∧ D₁ = D₂ := by
  have e₁ := hw.ent s₁ _ h₁
  have e₂ := hw.ent s₂ _ h₂
  have hs : s₁ = s₂ := by rw [← slot_of_handle e₁, ← slot_of_handle e₂]
  subst hs
  refine ⟨rfl, ?_⟩
  have := e₁.due.symm.trans e₂.due
  exact (dueOf_inj s₁ w.cot D₁ D₂).1 this

theorem toPend_inj {w : World} (hw : WheelInv w) {c₁ c₂ : Call} (h₁ : InWheel w c₁) (h₂ : InWheel w c₂)
    (h : toPend c₁ = toPend c₂) : c₁ = c₂ := by
  obtain ⟨s₁, D₁, m₁⟩ := h₁
  obtain ⟨s₂, D₂, m₂⟩ := h₂
  have e₁ := hw.ent s₁ _ m₁
  have e₂ := hw.ent s₂ _ m₂
  unfold toPend at h
  simp only [Pend.mk.injEq] at h
  obtain ⟨ho, hf, ht, hd, hh, hfp, hgv⟩ := h
  have hh' : c₁.handle = c₂.handle := by omega
  have hs : s₁ = s₂ := by
    have a := slot_of_handle e₁; have b := slot_of_handle e₂
    simp only [] at a b
    rw [← a, ← b, hh']
  subst hs
  have hser : c₁.serial = c₂.serial := by
    have a := e₁.handle; have b := e₂.handle
    simp only [] at a b
    rw [a, b] at hh'
    have hN := N_pos
    have : N * c₁.serial = N * c₂.serial := by omega
    exact Nat.eq_of_mul_eq_mul_left hN this
  have hdue : c₁.due = c₂.due := by omega
  cases c₁; cases c₂
  simp only [Call.mk.injEq] at *
  exact ⟨hser, ho, hf, ht, hh', hdue, hfp, hgv⟩

/-- handles compare like serials inside one slot -/
theorem handle_lt_of_serial_lt {w : World} {s : Nat} {p q : Int × Call} (ep : EntOK w s p) (eq : EntOK w s q)
    (h : p.2.serial < q.2.serial) : p.2.handle < q.2.handle := by
  rw [ep.handle, eq.handle]
  have := Nat.mul_lt_mul_of_pos_left h N_pos
  omega

/-- removing the occurrence `x` of a slot list removes exactly the call `x.2` from the wheel -/
theorem inWheel_remove {w : World} (hw : WheelInv w) {s : Nat} {l' : List Entry} {x : Int × Call}
    {A B : List (Int × Call)} (h1 : cum 0 (w.slots s) = A ++ x :: B) (h2 : cum 0 l' = A ++ B) (c : Call) :
    InWheel (setSlot w s l') c ↔ (InWheel w c ∧ c ≠ x.2) := by
  have hx : x ∈ cum 0 (w.slots s) := by rw [h1]; simp
  have hsorted := hw.sorted s
  rw [h1] at hsorted
  -- x does not occur in A ++ B
  have hnot : ∀ y ∈ A ++ B, y.2 ≠ x.2 := by
    intro y hy heq
    have hy' : y ∈ cum 0 (w.slots s) := by
      rw [h1]; simp only [List.mem_append, List.mem_cons] at hy ⊢
      rcases hy with hy | hy
      · exact Or.inl hy
      · exact Or.inr (Or.inr hy)
    have hyx : y = x := by
      have := (wheel_unique hw (c := x.2) (D₁ := y.1) (D₂ := x.1) (by rw [← heq]; exact hy') hx).2
      cases y; cases x; simp only [] at this heq; subst this; subst heq; rfl
    subst hyx
    rw [List.pairwise_append] at hsorted
    obtain ⟨_, hB, hAB⟩ := hsorted
    simp only [List.mem_append] at hy
    rcases hy with hy | hy
    · exact before_irrefl y (hAB y hy y (by simp))
    · exact before_irrefl y ((List.pairwise_cons.1 hB).1 y hy)
  constructor
  · rintro ⟨s', D, hm⟩
    simp only [setSlot_slots] at hm
    split at hm
    · rename_i hs; subst hs
      rw [h2] at hm
      refine ⟨⟨s', D, ?_⟩, fun heq => hnot _ hm heq⟩
      rw [h1]; simp only [List.mem_append, List.mem_cons] at hm ⊢
      rcases hm with hm | hm
      · exact Or.inl hm
      · exact Or.inr (Or.inr hm)
    · rename_i hs
      refine ⟨⟨s', D, hm⟩, ?_⟩
      intro heq
      subst heq
      exact hs (wheel_unique hw hm hx).1
  · rintro ⟨⟨s', D, hm⟩, hne⟩
    refine ⟨s', D, ?_⟩
    simp only [setSlot_slots]
    split
    · rename_i hs; subst hs
      rw [h2]
      rw [h1] at hm
      simp only [List.mem_append, List.mem_cons] at hm ⊢
      rcases hm with hm | hm | hm
      · exact Or.inl hm
      · exfalso; apply hne; rw [← hm]
      · exact Or.inr hm
    · exact hm

/-- **tie-break**: if `x` is the first entry of its slot list satisfying a predicate (nothing in `A` does), any
    other entry `c` of the wheel satisfying it and meant for the same second has a smaller handle -/
theorem first_has_largest_handle {w : World} (hw : WheelInv w) {s : Nat} {x : Int × Call}
    {A B : List (Int × Call)} (h1 : cum 0 (w.slots s) = A ++ x :: B) {c : Call} (hc : InWheel w c)
    (hdue : c.due = x.2.due) (hA : ∀ y ∈ A, y.2 ≠ c) : c = x.2 ∨ c.handle < x.2.handle := by
  have hx : x ∈ cum 0 (w.slots s) := by rw [h1]; simp
  have ex := hw.ent s x hx
  obtain ⟨s', D, hm⟩ := hc
  have ec := hw.ent s' _ hm
  -- same second => same slot, same rotation count
  have hs : s' = s := by
    have a := dueOf_mod s' w.cot D ec.slot
    have b := dueOf_mod s w.cot x.1 ex.slot
    rw [← ec.due] at a; rw [← ex.due] at b
    simp only [] at a
    rw [hdue, b] at a
    omega
  subst hs
  have hD : D = x.1 := by
    have := ec.due.symm.trans (hdue.trans ex.due)
    exact (dueOf_inj s' w.cot D x.1).1 this
  subst hD
  have hsorted := hw.sorted s'
  rw [h1] at hm hsorted
  simp only [List.mem_append, List.mem_cons] at hm
  rcases hm with hm | hm | hm
  · exact absurd rfl (hA _ hm)
  · left; rw [← hm]
  · right
    rw [List.pairwise_append] at hsorted
    have := (List.pairwise_cons.1 hsorted.2.1).1 _ hm
    unfold Before at this
    simp only [] at this
    have hser : c.serial < x.2.serial := by omega
    exact handle_lt_of_serial_lt (p := (x.1, c)) (q := x) ec ex hser

/-- if `x` is the first entry of its slot list satisfying a predicate, every other entry `c` of the wheel that
    satisfies it and belongs to the same slot (same second modulo the wheel size) is not earlier than `x` -/
theorem first_is_earliest {w : World} (hw : WheelInv w) {s : Nat} {x : Int × Call}
    {A B : List (Int × Call)} (h1 : cum 0 (w.slots s) = A ++ x :: B) {c : Call} (hc : InWheel w c)
    (hmod : c.due % (N : Int) = x.2.due % (N : Int)) (hA : ∀ y ∈ A, y.2 ≠ c) : x.2.due ≤ c.due := by
  have hx : x ∈ cum 0 (w.slots s) := by rw [h1]; simp
  have ex := hw.ent s x hx
  obtain ⟨s', D, hm⟩ := hc
  have ec := hw.ent s' _ hm
  have hs : s' = s := by
    have a := dueOf_mod s' w.cot D ec.slot
    have b := dueOf_mod s w.cot x.1 ex.slot
    rw [← ec.due] at a; rw [← ex.due] at b
    simp only [] at a
    rw [hmod, b] at a
    omega
  subst hs
  have hsorted := hw.sorted s'
  rw [h1] at hm hsorted
  simp only [List.mem_append, List.mem_cons] at hm
  rcases hm with hm | hm | hm
  · exact absurd rfl (hA _ hm)
  · rw [← hm]; exact Int.le_refl _
  · rw [List.pairwise_append] at hsorted
    have := before_le ((List.pairwise_cons.1 hsorted.2.1).1 _ hm)
    simp only [] at this
    have hnlt : ¬ (dueOf s' w.cot D < dueOf s' w.cot x.1) := by
      rw [dueOf_lt_iff]; omega
    rw [ex.due]
    have := ec.due
    simp only [] at this
    rw [this]; omega

/-- calls in the wheel after `new_call_out` -/
theorem inWheel_newCallOut {w : World} (o f : Nat) (tag : String) (delay : Int) (fp : Bool) (c : Call) :
    InWheel (newCallOut w o f tag delay fp).1 c ↔ (c = coCall w o f tag delay fp ∨ InWheel w c) := by
  rw [newCallOut_fst]
  constructor
  · rintro ⟨s, D, hm⟩
    simp only [setSlot_slots] at hm
    split at hm
    · rw [cum_insertDelta] at hm
      rcases mem_insC.1 hm with h | h
      · left; cases h; rfl
      · right; rename_i hs; exact ⟨s, D, by rw [hs]; exact h⟩
    · right; exact ⟨s, D, hm⟩
  · rintro (rfl | ⟨s, D, hm⟩)
    · refine ⟨coSlot w delay, 0 + coRot w delay, ?_⟩
      simp only [setSlot_slots, if_true]
      rw [cum_insertDelta]
      exact mem_insC.2 (Or.inl rfl)
    · refine ⟨s, D, ?_⟩
      simp only [setSlot_slots]
      split
      · rename_i hs
        rw [cum_insertDelta]
        exact mem_insC.2 (Or.inr (by rw [← hs]; exact hm))
      · exact hm

theorem inWheel_removeAll {w : World} (o : Nat) (c : Call) :
    InWheel (removeAll w o) c ↔ (InWheel w c ∧ (c.owner == o || w.dead.contains c.owner) = false) := by
  rw [removeAll_eq_spec]
  unfold InWheel removeAllSpec
  simp only [cum_removeAllList, List.mem_filter]
  constructor
  · rintro ⟨s, D, hm, hp⟩
    exact ⟨⟨s, D, hm⟩, by simpa using hp⟩
  · rintro ⟨⟨s, D, hm⟩, hp⟩
    exact ⟨s, D, hm, by simpa using hp⟩

theorem inWheel_decHead {w : World} (c : Call) : InWheel (decHead w) c ↔ InWheel w c := by
  unfold InWheel
  constructor
  · rintro ⟨s, D, hm⟩
    rw [decHead_cum] at hm
    split at hm
    · obtain ⟨q, hq, he⟩ := List.mem_map.1 hm
      cases he
      exact ⟨s, q.1, hq⟩
    · exact ⟨s, D, hm⟩
  · rintro ⟨s, D, hm⟩
    by_cases hs : s = slotOf (w.cot + 1)
    · refine ⟨s, D - 1, ?_⟩
      rw [decHead_cum, if_pos hs]
      exact List.mem_map.2 ⟨(D, c), hm, rfl⟩
    · refine ⟨s, D, ?_⟩
      rw [decHead_cum, if_neg hs]
      exact hm

end NV.C10
