/-
C10 — simulation, efun by efun: remove/find by name, remove all, destruct; then `stepOp` and `runOps`.
-/
import NV.C10.LemmasSimOps2

namespace NV.C10

theorem no_wheel_match {w : World} (hw : WheelInv w) {P : Call → Bool}
    (hnone : ∀ i, i < N → ∀ y ∈ cum 0 (w.slots i), P y.2 = false) (c : Call) (hc : InWheel w c) : P c = false := by
  obtain ⟨s, D, hm⟩ := hc
  exact hnone s (hw.ent s _ hm).slot _ hm

/-- the pending entries of a live object are all in the wheel -/
theorem pend_alive_inWheel {tick : Bool} {w : World} {j : JState} (h : SimJ tick w j) {p : Pend} (hp : p ∈ j.pend)
    (halive : isDead w p.owner = false) : ∃ c, InWheel w c ∧ toPend c = p := by
  rcases h.pendWheel p hp with hc | hx
  · exact hc
  · unfold isDead at halive; rw [hx.1] at halive; cases halive

theorem byName_iff (o f : Nat) (c : Call) : byName o f c = true ↔ (c.fp = false ∧ c.owner = o ∧ c.fn = f) := by
  unfold byName
  simp only [tie_byNameCond, Bool.and_eq_true, Bool.not_eq_true', beq_iff_eq]
  exact and_assoc

theorem pendByName_iff (o f : Nat) (e : Pend) :
    (!e.fp && e.owner == o && e.fn == f) = true ↔ (e.fp = false ∧ e.owner = o ∧ e.fn = f) := by
  simp only [Bool.and_eq_true, Bool.not_eq_true', beq_iff_eq]
  exact and_assoc

theorem pendByName_toPend (o f : Nat) (c : Call) :
    (!(toPend c).fp && (toPend c).owner == o && (toPend c).fn == f) = byName o f c := rfl

theorem cands_empty {tick : Bool} {w : World} {j : JState} (hw : WheelInv w) (h : SimJ tick w j) (self fn : Nat)
    (halive : isDead w self = false)
    (hnone : ∀ i, i < N → ∀ y ∈ cum 0 (w.slots i), byName self fn y.2 = false) :
    (j.pend.filter (fun e => !e.fp && e.owner == self && e.fn == fn)).isEmpty = true := by
  rw [List.isEmpty_iff]
  apply List.filter_eq_nil_iff.2
  intro p hp hq
  have hq' := (pendByName_iff self fn p).1 hq
  obtain ⟨c, hc1, hc2⟩ := pend_alive_inWheel h hp (by rw [hq'.2.1]; exact halive)
  have := no_wheel_match (P := byName self fn) hw hnone c hc1
  rw [← hc2, pendByName_toPend, this] at hq
  cases hq

theorem sim_rmn {tick : Bool} {w : World} {j : JState} (hw : WheelInv w) (h : SimJ tick w j)
    (self fn : Nat) (halive : isDead w self = false) :
    SimJ tick (removeByName w self fn).1 (judgeStep j (.rmn (vnow w) self fn (removeByName w self fn).2)) := by
  unfold removeByName
  cases hsc : scanFrom (fun i => removeFirst (byName self fn) (w.slots i) 0) N 0 with
  | none =>
    simp only []
    have hnone : ∀ i, i < N → ∀ y ∈ cum 0 (w.slots i), byName self fn y.2 = false := by
      intro i hi
      exact removeFirst_none (scanFrom_none hsc i (Nat.zero_le _) (by omega))
    have hce := cands_empty hw h self fn halive hnone
    have hj : judgeStep j (.rmn (vnow w) self fn (-1)) = j := by
      simp only [judgeStep, hce, if_true, beq_self_eq_true]
    rw [hj]; exact h
  | some ir =>
    obtain ⟨i, r⟩ := ir
    simp only []
    have hrf := (scanFrom_some hsc).2.2
    obtain ⟨x, A, B, e1, e2, e3, e4, e5⟩ := removeFirst_sublist hrf
    have hx : x ∈ cum 0 (w.slots i) := by rw [e1]; simp
    have hxw : InWheel w x.2 := ⟨_, x.1, hx⟩
    have hmem := h.wheelPend _ hxw
    have hval : Gen.C10.efunResult (timeLeft w i r.1) = toCInt ((toPend x.2).due - vnow w) := by
      rw [← e3]; exact efun_pend hw hx
    have hxP : (!(toPend x.2).fp && (toPend x.2).owner == self && (toPend x.2).fn == fn) = true := by
      rw [pendByName_toPend]; exact e4
    have hce : (j.pend.filter (fun e => !e.fp && e.owner == self && e.fn == fn)).isEmpty = false := by
      cases hc : (j.pend.filter (fun e => !e.fp && e.owner == self && e.fn == fn)).isEmpty with
      | false => rfl
      | true =>
        rw [List.isEmpty_iff] at hc
        have := List.filter_eq_nil_iff.1 hc _ hmem
        exact absurd hxP this
    have hxQ : (fun e : Pend => !e.fp && e.owner == self && e.fn == fn &&
        toCInt (e.due - vnow w) == toCInt ((toPend x.2).due - vnow w)) (toPend x.2) = true := by
      simp only [hxP, beq_self_eq_true, Bool.and_self]
    cases hmin : minDue (fun e => !e.fp && e.owner == self && e.fn == fn &&
        toCInt (e.due - vnow w) == toCInt ((toPend x.2).due - vnow w)) j.pend with
    | none => have := minDue_none hmin _ hmem; exact absurd (hxQ.symm.trans this) (by simp)
    | some e =>
      obtain ⟨m1, m2, m3⟩ := minDue_some hmin h.pendSorted
      have hee : e = toPend x.2 := by
        simp only [Bool.and_eq_true, beq_iff_eq] at m2
        have r2a := (pendByName_iff self fn e).1 (by simp only [Bool.and_eq_true, beq_iff_eq]; exact m2.1)
        obtain ⟨c, hc1, hc2⟩ := pend_alive_inWheel h m1 (by rw [r2a.2.1]; exact halive)
        subst hc2
        have hcP : byName self fn c = true := by
          rw [← pendByName_toPend]; simp only [Bool.and_eq_true, beq_iff_eq]; exact m2.1
        have hA : ∀ y ∈ A, y.2 ≠ c := by
          intro y hy heq
          have := e5 y hy
          rw [heq, hcP] at this; cases this
        have hmod : c.due % (N : Int) = x.2.due % (N : Int) := by
          have := m2.2
          unfold toCInt toPend at this
          simp only [] at this
          wheel_omega
        have hge := first_is_earliest hw e1 hc1 hmod hA
        have hle := (m3 _ hmem hxQ).1
        have hdue : c.due = x.2.due := by
          simp only [toPend] at hle; omega
        rcases first_has_largest_handle hw e1 hc1 hdue hA with hcx | hlt
        · rw [hcx]
        · exfalso
          have := (m3 _ hmem hxQ).2 (by simp only [toPend]; omega)
          simp only [toPend] at this
          omega
      subst hee
      obtain ⟨e', rest, hro⟩ := removeOne_isSome_of_mem (q := fun y => y == toPend x.2) hmem (by simp)
      obtain ⟨_, r2, _⟩ := removeOne_some hro h.pendSorted
      have : e' = toPend x.2 := by simpa using r2
      subst this
      have hj : judgeStep j (.rmn (vnow w) self fn (Gen.C10.efunResult (timeLeft w i r.1))) = { j with pend := rest } := by
        simp only [judgeStep, hce, hval, hmin, hro, Bool.false_eq_true, if_false]
      rw [hj]
      exact SimJ.remove_pair hw h e1 e2 hro

theorem sim_fnm {tick : Bool} {w : World} {j : JState} (hw : WheelInv w) (h : SimJ tick w j)
    (self fn : Nat) (halive : isDead w self = false) :
    SimJ tick w (judgeStep j (.fnm (vnow w) self fn (findByName w self fn))) := by
  unfold findByName
  cases hsc : scanFrom (fun i => findFirst (byName self fn) (w.slots i) 0) N 0 with
  | none =>
    simp only []
    have hnone : ∀ i, i < N → ∀ y ∈ cum 0 (w.slots i), byName self fn y.2 = false := by
      intro i hi y hy
      have := scanFrom_none hsc i (Nat.zero_le _) (by omega)
      simp only [findFirst_eq, Option.map_eq_none_iff] at this
      have := List.find?_eq_none.1 this y hy
      simpa using this
    have hce := cands_empty hw h self fn halive hnone
    have hj : judgeStep j (.fnm (vnow w) self fn (-1)) = j := by
      simp only [judgeStep, hce, if_true, beq_self_eq_true]
    rw [hj]; exact h
  | some ir =>
    obtain ⟨i, d⟩ := ir
    simp only []
    have hff := (scanFrom_some hsc).2.2
    simp only [findFirst_eq] at hff
    cases hf : List.find? (fun x => byName self fn x.2) (cum 0 (w.slots i)) with
    | none => rw [hf] at hff; cases hff
    | some x =>
      rw [hf] at hff
      simp only [Option.map_some, Option.some.injEq] at hff
      have hx : x ∈ cum 0 (w.slots i) := List.mem_of_find?_eq_some hf
      have e4 : byName self fn x.2 = true := List.find?_some (p := fun x : Int × Call => byName self fn x.2) hf
      have hxw : InWheel w x.2 := ⟨_, x.1, hx⟩
      have hmem := h.wheelPend _ hxw
      have hval : Gen.C10.efunResult (timeLeft w i d) = toCInt ((toPend x.2).due - vnow w) := by
        rw [← hff]; exact efun_pend hw hx
      have hxP : (!(toPend x.2).fp && (toPend x.2).owner == self && (toPend x.2).fn == fn) = true := by
        rw [pendByName_toPend]; exact e4
      have hmemc : toPend x.2 ∈ j.pend.filter (fun e => !e.fp && e.owner == self && e.fn == fn) :=
        List.mem_filter.2 ⟨hmem, hxP⟩
      have hce : (j.pend.filter (fun e => !e.fp && e.owner == self && e.fn == fn)).isEmpty = false := by
        cases hc : (j.pend.filter (fun e => !e.fp && e.owner == self && e.fn == fn)).isEmpty with
        | false => rfl
        | true => rw [List.isEmpty_iff] at hc; rw [hc] at hmemc; cases hmemc
      have hany : (j.pend.filter (fun e => !e.fp && e.owner == self && e.fn == fn)).any
          (fun e => answerOk j e (vnow w) (toCInt ((toPend x.2).due - vnow w))) = true :=
        List.any_eq_true.2 ⟨_, hmemc, by simp [answerOk]⟩
      have hj : judgeStep j (.fnm (vnow w) self fn (Gen.C10.efunResult (timeLeft w i d))) = j := by
        simp only [judgeStep, hce, hval, hany, Bool.false_eq_true, if_false, if_true]
      rw [hj]; exact h

theorem sim_rmall {tick : Bool} {w : World} {j : JState} (h : SimJ tick w j) (self : Nat) :
    SimJ tick (removeAll w self) (judgeStep j (.rmall (vnow w) self)) := by
  have hj : judgeStep j (.rmall (vnow w) self) =
      { j with pend := j.pend.filter (fun e => e.owner != self && !isDeadJ j e.owner) } := rfl
  rw [hj]
  refine ⟨h.bad, h.dead, h.handles, h.inTick, h.allLt, ?_, ?_, ?_, ?_⟩
  · intro p hp; exact h.pendLt p (List.mem_filter.1 hp).1
  · exact List.Pairwise.sublist List.filter_sublist h.pendSorted
  · intro c hc
    obtain ⟨hc1, hc2⟩ := (inWheel_removeAll self c).1 hc
    refine List.mem_filter.2 ⟨h.wheelPend c hc1, ?_⟩
    simp only [Bool.or_eq_false_iff] at hc2
    simp only [isDeadJ, h.dead, toPend, hc2.2, Bool.not_false, Bool.and_true, bne_iff_ne, ne_eq]
    simpa using hc2.1
  · intro p hp
    obtain ⟨hp1, hp2⟩ := List.mem_filter.1 hp
    simp only [isDeadJ, h.dead, Bool.and_eq_true, bne_iff_ne, ne_eq, Bool.not_eq_true'] at hp2
    rcases h.pendWheel p hp1 with ⟨c, hc1, hc2⟩ | hx
    · left
      refine ⟨c, (inWheel_removeAll self c).2 ⟨hc1, ?_⟩, hc2⟩
      rw [← hc2] at hp2
      simp only [toPend] at hp2
      rw [hp2.2]
      simp [hp2.1]
    · exfalso
      have : (removeAll w self).dead = w.dead := rfl
      rw [hx.1] at hp2; cases hp2.2

theorem sim_reload {tick : Bool} {w : World} {j : JState} (h : SimJ tick w j) (self : Nat) :
    SimJ tick (reloadObj w self) (judgeStep j (.reload (vnow w) self)) := by
  have R := sim_rmall h self
  have hj : judgeStep j (.reload (vnow w) self) =
      { judgeStep j (.rmall (vnow w) self) with handles := j.handles.filter (fun p => p.1.1 != self) } := rfl
  rw [hj]
  refine ⟨R.bad, R.dead, ?_, R.inTick, R.allLt, R.pendLt, R.pendSorted,
    fun c hc => R.wheelPend c (hc.congr rfl), ?_⟩
  · show j.handles.filter (fun p => p.1.1 != self) =
      (w.hmap.filter (fun p => p.1.1 != self)).map (fun p => (p.1, (p.2 : Int)))
    rw [h.handles, List.filter_map]
    rfl
  · intro p hp
    rcases R.pendWheel p hp with ⟨c, hc1, hc2⟩ | hx
    · exact Or.inl ⟨c, hc1.congr rfl, hc2⟩
    · exact Or.inr hx

theorem sim_dest {tick : Bool} {w : World} {j : JState} (h : SimJ tick w j) (self t : Nat) :
    SimJ tick (if isDead w t then w else { w with dead := t :: w.dead }) (judgeStep j (.dest (vnow w) self t)) := by
  have hj : judgeStep j (.dest (vnow w) self t) = if isDeadJ j t then j else { j with dead := t :: j.dead } := rfl
  rw [hj, isDeadJ_eq h]
  split
  · exact h
  · refine ⟨h.bad, by show t :: j.dead = t :: w.dead; rw [h.dead], h.handles, h.inTick, h.allLt, h.pendLt,
      h.pendSorted, fun c hc => h.wheelPend c (hc.congr rfl), ?_⟩
    intro p hp
    rcases h.pendWheel p hp with ⟨c, hc1, hc2⟩ | hx
    · exact Or.inl ⟨c, hc1.congr rfl, hc2⟩
    · right
      refine ⟨?_, hx.2⟩
      show (t :: w.dead).contains p.owner = true
      have := hx.1
      simp only [List.contains_cons, this, Bool.or_true]

end NV.C10
