/-
C10 — the delta-encoded lists, seen through their prefix sums (clause 2b).
`cum acc l` lists every entry of `l` with its cumulative delta (starting from `acc`).  The C list surgery
(`insertDelta`, `removeFirst`, `removeAllList`, the head decrement) becomes plain list surgery on `cum`.
-/
import NV.C10.Model

namespace NV.C10

/-- entries with their cumulative delta (prefix sums of `delta`) -/
def cum (acc : Int) : List Entry → List (Int × Call)
  | [] => []
  | x :: xs => (acc + x.delta, x.c) :: cum (acc + x.delta) xs

/-- sorted insertion on prefix sums: before the first element whose cumulative delta is ≥ `D` -/
def insC (D : Int) (c : Call) : List (Int × Call) → List (Int × Call)
  | [] => [(D, c)]
  | x :: xs => if x.1 ≥ D then (D, c) :: x :: xs else x :: insC D c xs

/-- remove the first element satisfying `p` -/
def eraseFirstC (p : Call → Bool) : List (Int × Call) → Option ((Int × Call) × List (Int × Call))
  | [] => none
  | x :: xs =>
    if p x.2 then some (x, xs)
    else match eraseFirstC p xs with
      | none => none
      | some r => some (r.1, x :: r.2)

@[simp] theorem cum_nil (acc : Int) : cum acc [] = [] := rfl
@[simp] theorem cum_cons (acc : Int) (x : Entry) (xs : List Entry) :
    cum acc (x :: xs) = (acc + x.delta, x.c) :: cum (acc + x.delta) xs := rfl

theorem cum_length (acc : Int) (l : List Entry) : (cum acc l).length = l.length := by
  induction l generalizing acc with
  | nil => rfl
  | cons x xs ih => simp [ih]

/-- shifting the start shifts every prefix sum -/
theorem cum_shift (acc k : Int) (l : List Entry) :
    cum (acc + k) l = (cum acc l).map (fun p => (p.1 + k, p.2)) := by
  induction l generalizing acc with
  | nil => rfl
  | cons x xs ih =>
    simp only [cum_cons, List.map_cons]
    have : acc + k + x.delta = acc + x.delta + k := by omega
    rw [this, ih]

/-- **insertDelta refines sorted insertion on prefix sums** (clause 2b) -/
theorem cum_insertDelta (acc : Int) (l : List Entry) (d : Int) (c : Call) :
    cum acc (insertDelta l d c) = insC (acc + d) c (cum acc l) := by
  induction l generalizing acc d with
  | nil => simp [insertDelta, insC]
  | cons x xs ih =>
    unfold insertDelta
    -- tie: the generated comparison of the insertion loop is `(*copp)->delta >= delay`
    have tie_insertBefore : NV.Gen.C10.insertBefore x.delta d = decide (x.delta ≥ d) := rfl
    -- ... and the two delta updates are `(*copp)->delta -= delay` and `delay -= (*copp)->delta`
    have tie_insertSplit : NV.Gen.C10.insertSplit x.delta d = x.delta - d := rfl
    have tie_insertWalk : NV.Gen.C10.insertWalk d x.delta = d - x.delta := rfl
    rw [tie_insertBefore, tie_insertSplit, tie_insertWalk]
    by_cases h : x.delta ≥ d
    · have h' : acc + x.delta ≥ acc + d := by omega
      simp only [h, decide_true, ite_true, cum_cons, insC, h']
      have : acc + d + (x.delta - d) = acc + x.delta := by omega
      simp [this]
    · have h' : ¬ (acc + x.delta ≥ acc + d) := by omega
      simp only [h, decide_false, Bool.false_eq_true, ite_false, cum_cons, insC, h']
      rw [ih]
      have : acc + x.delta + (d - x.delta) = acc + d := by omega
      rw [this]

/-- **removeFirst preserves the prefix sums of the remaining entries** (clause 2b) and reports the prefix sum
    of the removed one -/
theorem cum_removeFirst (p : Call → Bool) (l : List Entry) (acc : Int) :
    (removeFirst p l acc).map (fun r => (r.1, cum acc r.2)) =
      (eraseFirstC p (cum acc l)).map (fun r => (r.1.1, r.2)) := by
  induction l generalizing acc with
  | nil => simp [removeFirst, eraseFirstC]
  | cons x xs ih =>
    unfold removeFirst
    -- tie: the generated successor update is `cop->next->delta += cop->delta`
    have tie_unlinkDelta : ∀ a b : Int, NV.Gen.C10.unlinkDelta a b = a + b := fun _ _ => rfl
    simp only [tie_unlinkDelta]
    by_cases h : p x.c
    · simp only [h, ite_true, cum_cons, eraseFirstC, Option.map_some]
      cases xs with
      | nil => simp
      | cons y ys =>
        simp only [cum_cons]
        have : acc + (y.delta + x.delta) = acc + x.delta + y.delta := by omega
        simp [this]
    · simp only [h, cum_cons, eraseFirstC]
      have ih' := ih (acc + x.delta)
      cases h1 : removeFirst p xs (acc + x.delta) with
      | none =>
        rw [h1] at ih'
        cases h2 : eraseFirstC p (cum (acc + x.delta) xs) with
        | none => simp
        | some r => rw [h2] at ih'; simp at ih'
      | some r =>
        rw [h1] at ih'
        cases h2 : eraseFirstC p (cum (acc + x.delta) xs) with
        | none => rw [h2] at ih'; simp at ih'
        | some r2 =>
          rw [h2] at ih'
          simp only [Option.map_some, Option.some.injEq, Prod.mk.injEq] at ih'
          simp [ih'.1, ih'.2]

theorem findFirst_eq (p : Call → Bool) (l : List Entry) (acc : Int) :
    findFirst p l acc = ((cum acc l).find? (fun x => p x.2)).map (·.1) := by
  induction l generalizing acc with
  | nil => simp [findFirst]
  | cons x xs ih =>
    unfold findFirst
    by_cases h : p x.c
    · simp [h]
    · simp [h, ih]

/-- **removeAllList preserves the prefix sums of the remaining entries** (clause 2b) -/
theorem cum_removeAllList (p : Call → Bool) (l : List Entry) (acc : Int) :
    cum acc (removeAllList p l) = (cum acc l).filter (fun x => !p x.2) := by
  generalize hn : l.length = n
  induction n using Nat.strongRecOn generalizing l acc with
  | _ n ih =>
    cases l with
    | nil => simp [removeAllList]
    | cons x xs =>
      unfold removeAllList
      have tie_unlinkDelta : ∀ a b : Int, NV.Gen.C10.unlinkDelta a b = a + b := fun _ _ => rfl
      simp only [tie_unlinkDelta]
      by_cases h : p x.c
      · simp only [h, ite_true, cum_cons]
        cases xs with
        | nil => simp [h]
        | cons y ys =>
          simp only []
          rw [ih ys.length.succ (by simp at hn; omega) _ _ (by simp)]
          have : acc + (y.delta + x.delta) = acc + x.delta + y.delta := by omega
          simp [h, this]
      · simp only [h, Bool.false_eq_true, ↓reduceIte, cum_cons]
        rw [ih xs.length (by simp at hn; omega) _ _ rfl]
        simp [h]

/-- the head decrement of `call_out()` lowers every prefix sum of the slot by one -/
theorem cum_dec_head (h : Entry) (rest : List Entry) :
    cum 0 ({ h with delta := h.delta - 1 } :: rest) = (cum 0 (h :: rest)).map (fun p => (p.1 - 1, p.2)) := by
  simp only [cum_cons, List.map_cons]
  have : (0 : Int) + (h.delta - 1) = 0 + h.delta + (-1) := by omega
  rw [this, cum_shift]
  simp [Int.sub_eq_add_neg]

/-- popping a head whose delta is zero leaves the other prefix sums alone -/
theorem cum_pop_zero (h : Entry) (rest : List Entry) (hz : h.delta = 0) :
    cum 0 (h :: rest) = (0, h.c) :: cum 0 rest := by
  simp [hz]

/-! ### facts about `insC` and `eraseFirstC` -/

theorem mem_insC {D : Int} {c : Call} {L : List (Int × Call)} {x : Int × Call} :
    x ∈ insC D c L ↔ x = (D, c) ∨ x ∈ L := by
  induction L with
  | nil => simp [insC]
  | cons y ys ih =>
    unfold insC
    split
    · simp
    · simp only [List.mem_cons, ih]
      constructor
      · rintro (h | h | h) <;> simp [h]
      · rintro (h | h | h) <;> simp [h]

theorem eraseFirstC_some {p : Call → Bool} {L : List (Int × Call)} {x : Int × Call} {R : List (Int × Call)}
    (h : eraseFirstC p L = some (x, R)) :
    ∃ A B, L = A ++ x :: B ∧ R = A ++ B ∧ p x.2 = true ∧ ∀ y ∈ A, p y.2 = false := by
  induction L generalizing x R with
  | nil => simp [eraseFirstC] at h
  | cons y ys ih =>
    unfold eraseFirstC at h
    by_cases hp : p y.2
    · simp only [hp, ite_true, Option.some.injEq, Prod.mk.injEq] at h
      exact ⟨[], ys, by simp [h.1], by simp [h.2], by rw [← h.1]; exact hp, by simp⟩
    · simp only [hp, Bool.false_eq_true, ↓reduceIte] at h
      cases h1 : eraseFirstC p ys with
      | none => simp [h1] at h
      | some r =>
        simp only [h1, Option.some.injEq, Prod.mk.injEq] at h
        obtain ⟨A, B, e1, e2, e3, e4⟩ := ih (x := r.1) (R := r.2) (by simp [h1])
        refine ⟨y :: A, B, by simp [e1, h.1], by simp [← h.2, e2], by rw [← h.1]; exact e3, ?_⟩
        intro z hz
        simp only [List.mem_cons] at hz
        rcases hz with rfl | hz
        · simpa using hp
        · exact e4 z hz

theorem eraseFirstC_none {p : Call → Bool} {L : List (Int × Call)} (h : eraseFirstC p L = none) :
    ∀ y ∈ L, p y.2 = false := by
  induction L with
  | nil => simp
  | cons y ys ih =>
    unfold eraseFirstC at h
    by_cases hp : p y.2
    · simp [hp] at h
    · simp only [hp, Bool.false_eq_true, ↓reduceIte] at h
      cases h1 : eraseFirstC p ys with
      | none =>
        intro z hz
        simp only [List.mem_cons] at hz
        rcases hz with rfl | hz
        · simpa using hp
        · exact ih h1 z hz
      | some r => simp [h1] at h

end NV.C10
