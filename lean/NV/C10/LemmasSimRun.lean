/-
C10 — the simulation relation along `stepOp`, `runOps`, `visit`, `sweep`, `stepCmd`, `runCmds`.
-/
import NV.C10.LemmasInfo

namespace NV.C10

/-! ### frame: fields the efuns do not touch -/

theorem removeByHandle_frame (w : World) (hd : Nat) :
    (removeByHandle w hd).1.out = w.out ∧ (removeByHandle w hd).1.dead = w.dead ∧
      (removeByHandle w hd).1.hmap = w.hmap := by
  unfold removeByHandle; simp only []; split <;> exact ⟨rfl, rfl, rfl⟩

theorem removeByName_frame (w : World) (o f : Nat) :
    (removeByName w o f).1.out = w.out ∧ (removeByName w o f).1.dead = w.dead ∧
      (removeByName w o f).1.hmap = w.hmap := by
  unfold removeByName; split <;> exact ⟨rfl, rfl, rfl⟩

theorem Sim.emit {tick : Bool} {w w' : World} {ev : Ev} (hout : w'.out = w.out)
    (h : SimJ tick w' (judgeStep (jstate w.out) ev)) : Sim tick (emit w' ev) := by
  unfold Sim
  show SimJ tick (NV.C10.emit w' ev) (judgeStep (jstate w'.out) ev)
  rw [hout]
  exact h.congr rfl rfl rfl rfl rfl

theorem stepOp_sim {tick : Bool} {w : World} (hw : WheelInv w) (hs : Sim tick w) (self : Nat) (op : Op)
    (halive : isDead w self = false) : Sim tick (stepOp w self op).w := by
  cases op with
  | co fn delay tag fp =>
    unfold stepOp
    simp only [halive, Bool.false_eq_true, if_false]
    exact Sim.emit (w := w) rfl (sim_co hw hs self fn delay tag fp halive)
  | rmh tag => exact Sim.emit (removeByHandle_frame w _).1 (sim_rmh hw hs self tag)
  | rmn fn => exact Sim.emit (removeByName_frame w self fn).1 (sim_rmn hw hs self fn halive)
  | fh tag => exact Sim.emit rfl (sim_fh hw hs self tag)
  | fnm fn => exact Sim.emit rfl (sim_fnm hw hs self fn halive)
  | rmall => exact Sim.emit (w := w) rfl (sim_rmall hs self)
  | dest t =>
    have := sim_dest hs self t
    unfold stepOp
    simp only []
    refine Sim.emit (w := w) ?_ ?_
    · split <;> rfl
    · have hv : vnow (if isDead w t = true then w else { w with dead := t :: w.dead }) = vnow w := by
        split <;> rfl
      rw [hv]; exact this
  | err => exact Sim.emit (w := w) rfl hs
  | info => exact Sim.emit rfl (sim_info hw hs)
  | reload => exact Sim.emit (w := w) rfl (sim_reload hs self)
  | usage => exact Sim.emit (w := w) rfl hs

theorem stepOp_alive {w : World} (self : Nat) (op : Op) (halive : isDead w self = false)
    (hstop : (stepOp w self op).stop = false) : isDead (stepOp w self op).w self = false := by
  cases op with
  | co fn delay tag fp =>
    unfold stepOp
    simp only [halive, Bool.false_eq_true, if_false]
    exact halive
  | rmh tag =>
    show (removeByHandle w _).1.dead.contains self = false
    rw [(removeByHandle_frame w _).2.1]; exact halive
  | rmn fn =>
    show (removeByName w self fn).1.dead.contains self = false
    rw [(removeByName_frame w self fn).2.1]; exact halive
  | fh tag => exact halive
  | fnm fn => exact halive
  | rmall => exact halive
  | dest t =>
    have hne : (t == self) = false := hstop
    unfold stepOp
    simp only []
    show (if isDead w t = true then w else { w with dead := t :: w.dead }).dead.contains self = false
    split
    · exact halive
    · unfold isDead at halive
      simp only [List.contains_cons, halive, Bool.or_false]
      rw [beq_eq_false_iff_ne] at hne ⊢
      exact fun h => hne h.symm
  | err => exact halive
  | info => exact halive
  | reload => exact halive
  | usage => exact halive

theorem runOps_sim {tick : Bool} {w : World} (hw : WheelInv w) (hs : Sim tick w) (self : Nat) (ops : List Op)
    (halive : isDead w self = false) : Sim tick (runOps w self ops).1 := by
  induction ops generalizing w with
  | nil => exact hs
  | cons op rest ih =>
    unfold runOps
    simp only []
    have h1 := stepOp_sim hw hs self op halive
    split
    · exact h1
    · split
      · exact h1
      · rename_i hstop
        exact ih (stepOp_ok hw self op).inv h1 (stepOp_alive self op halive (by simpa using hstop))

/-! ### the do/while of call_out() -/

/-- the live branch of `fireOne` up to the `fire` event: the oracle picks the same entry as call_out() -/
theorem fire_emit_sim {w : World} (hw : WheelInv w) (hs : Sim true w) {cop : Entry} {rest : List Entry}
    (hl : w.slots (slotOf w.cot) = cop :: rest) (hz : cop.delta = 0) (hdead' : isDead w cop.c.owner = false) :
    Sim true (emit { setSlot w (slotOf w.cot) rest with giver := liveGiver w cop.c.giver, busy := 1 }
        (.fire (vnow w) cop.c.owner cop.c.fn cop.c.tag (liveGiver w cop.c.giver))) ∧
      WheelInv (emit { setSlot w (slotOf w.cot) rest with giver := liveGiver w cop.c.giver, busy := 1 }
        (.fire (vnow w) cop.c.owner cop.c.fn cop.c.tag (liveGiver w cop.c.giver))) := by
  have hcum : cum 0 (w.slots (slotOf w.cot)) = [] ++ (0, cop.c) :: cum 0 rest := by
    rw [hl]; exact cum_pop_zero _ _ hz
  have hx : ((0 : Int), cop.c) ∈ cum 0 (w.slots (slotOf w.cot)) := by rw [hcum]; simp
  have hxw : InWheel w cop.c := ⟨_, 0, hx⟩
  have ex := hw.ent _ _ hx
  have hdue : cop.c.due = w.cot := (ex.zero_slot (Int.le_refl _)).2.2
  have hmem := hs.wheelPend _ hxw
  have h1 := StepOK.setSlot_sublist hw (slotOf w.cot) rest (by rw [hcum]; exact List.sublist_cons_self _ _)
  -- the oracle picks the same entry
  have hQ : ((toPend cop.c).owner == cop.c.owner && (toPend cop.c).tag == cop.c.tag &&
      (toPend cop.c).fn == cop.c.fn) = true := by
    simp [toPend]
  cases hmin : minDue (fun e => e.owner == cop.c.owner && e.tag == cop.c.tag && e.fn == cop.c.fn)
      (jstate w.out).pend with
  | none => have := minDue_none hmin _ hmem; rw [hQ] at this; cases this
  | some e =>
    obtain ⟨m1, m2, m3⟩ := minDue_some hmin hs.pendSorted
    have hee : e = toPend cop.c := by
      simp only [Bool.and_eq_true, beq_iff_eq] at m2
      obtain ⟨c, hc1, hc2⟩ := pend_alive_inWheel hs m1 (by rw [m2.1.1]; exact hdead')
      subst hc2
      have hle := (m3 _ hmem hQ).1
      obtain ⟨s', D', hm'⟩ := hc1
      have ec := hw.ent s' _ hm'
      have hcd : c.due = cop.c.due := by
        have := ec.notPast
        simp only [toPend] at hle
        simp only [] at this
        omega
      rcases first_has_largest_handle hw hcum ⟨s', D', hm'⟩ hcd (by simp) with hcx | hlt
      · rw [hcx]
      · exfalso
        have := (m3 _ hmem hQ).2 (by simp only [toPend]; omega)
        simp only [toPend] at this
        simp only [] at hlt
        omega
    subst hee
    obtain ⟨e', rest', hro⟩ := removeOne_isSome_of_mem (q := fun x => x == toPend cop.c) hmem (by simp)
    obtain ⟨_, r2, _⟩ := removeOne_some hro hs.pendSorted
    have : e' = toPend cop.c := by simpa using r2
    subst this
    have hnotearly : ¬ ((toPend cop.c).due > vnow w) := by
      have := hw.cot_le
      simp only [toPend, vnow]; omega
    have hwant : liveGiverJ (jstate w.out) (toPend cop.c).giver = liveGiver w cop.c.giver := by
      unfold liveGiver liveGiverJ toPend
      cases cop.c.giver with
      | none => rfl
      | some g => simp only [isDeadJ_eq hs]
    have hj : judgeStep (jstate w.out) (.fire (vnow w) cop.c.owner cop.c.fn cop.c.tag (liveGiver w cop.c.giver)) =
        { jstate w.out with pend := rest' } := by
      simp only [judgeStep, hs.inTick, if_true, hmin, hnotearly, if_false, hwant, isDeadJ_eq hs, hdead', hro,
        Bool.false_eq_true, beq_self_eq_true]
    have hs1 : Sim true (emit { setSlot w (slotOf w.cot) rest with giver := liveGiver w cop.c.giver, busy := 1 }
        (.fire (vnow w) cop.c.owner cop.c.fn cop.c.tag (liveGiver w cop.c.giver))) := by
      refine Sim.emit (w := w) rfl ?_
      rw [hj]
      exact (SimJ.remove_pair hw hs hcum (by simp) hro).congr rfl rfl rfl rfl rfl
    exact ⟨hs1, h1.inv.congr rfl rfl rfl rfl⟩

theorem fireOne_sim (sc : Scripts) {w : World} (hw : WheelInv w) (hs : Sim true w) {cop : Entry} {rest : List Entry}
    (hl : w.slots (slotOf w.cot) = cop :: rest) (hz : cop.delta = 0) :
    Sim true (fireOne sc (setSlot w (slotOf w.cot) rest) cop) := by
  have hcum : cum 0 (w.slots (slotOf w.cot)) = [] ++ (0, cop.c) :: cum 0 rest := by
    rw [hl]; exact cum_pop_zero _ _ hz
  have hx : ((0 : Int), cop.c) ∈ cum 0 (w.slots (slotOf w.cot)) := by rw [hcum]; simp
  have hxw : InWheel w cop.c := ⟨_, 0, hx⟩
  have ex := hw.ent _ _ hx
  have hdue : cop.c.due = w.cot := (ex.zero_slot (Int.le_refl _)).2.2
  have hmem := hs.wheelPend _ hxw
  have h1 := StepOK.setSlot_sublist hw (slotOf w.cot) rest (by rw [hcum]; exact List.sublist_cons_self _ _)
  rw [fireOne_eq_spec]
  unfold fireOneSpec
  by_cases hdead : isDead (setSlot w (slotOf w.cot) rest) cop.c.owner = true
  · rw [if_pos hdead]
    -- dropped (silently, or with the "owner destructed" error of a function pointer): the oracle keeps it as
    -- an entry of a destructed owner whose time has come
    have hdrop : Sim true (setSlot w (slotOf w.cot) rest) := by
      refine ⟨hs.bad, hs.dead, hs.handles, hs.inTick, hs.allLt, hs.pendLt, hs.pendSorted, ?_, ?_⟩
      · intro c hc
        exact hs.wheelPend c ((inWheel_remove hw hcum (by simp) c).1 hc).1
      · intro p hp
        rcases hs.pendWheel p hp with ⟨c, hc1, hc2⟩ | hxx
        · by_cases hcc : c = cop.c
          · right
            subst hcc
            refine ⟨?_, ?_⟩
            · rw [← hc2]; exact hdead
            · rw [← hc2]; simp only [toPend, setSlot_cot]; omega
          · left
            exact ⟨c, (inWheel_remove hw hcum (by simp) c).2 ⟨hc1, hcc⟩, hc2⟩
        · exact Or.inr hxx
    split
    · exact Sim.emit (w := setSlot w (slotOf w.cot) rest) (ev := .errFpDead) rfl hdrop
    · exact hdrop
  · rw [if_neg hdead]
    have hdead' : isDead w cop.c.owner = false := by
      have : isDead (setSlot w (slotOf w.cot) rest) cop.c.owner = isDead w cop.c.owner := rfl
      rw [← this]; simpa using hdead
    obtain ⟨hs1, hw1⟩ := fire_emit_sim hw hs hl hz hdead'
    have hrun := runOps_sim hw1 hs1 cop.c.owner (sc cop.c.owner cop.c.tag) hdead'
    exact SimJ.congr hrun rfl rfl rfl rfl rfl

theorem visit_sim (sc : Scripts) (tm : Nat) : ∀ (fuel : Nat) (w : World), WheelInv w → w.cot ≠ 0 →
    tm = slotOf w.cot → (∃ cop rest, w.slots tm = cop :: rest ∧ cop.delta = 0) → Sim true w →
    Sim true (visit sc tm fuel w) := by
  intro fuel
  induction fuel with
  | zero => intro w _ _ _ _ hs; exact hs
  | succ fuel ih =>
    intro w h h0 htm ⟨cop, rest, hl, hz⟩ hs
    unfold visit
    simp only [hl, tie_nextDue]
    have hcum : cum 0 (w.slots tm) = (0, cop.c) :: cum 0 rest := by rw [hl]; exact cum_pop_zero _ _ hz
    have h1 : StepOK w (setSlot w tm rest) :=
      StepOK.setSlot_sublist h tm rest (by rw [hcum]; exact List.sublist_cons_self _ _)
    have h2 := fireOne_ok h1.inv sc cop
    have h12 := h1.trans h2
    have hc2 : (fireOne sc (setSlot w tm rest) cop).cot = w.cot := h12.cot h0
    have hs2 : Sim true (fireOne sc (setSlot w tm rest) cop) := by
      subst htm
      exact fireOne_sim sc h hs hl hz
    generalize fireOne sc (setSlot w tm rest) cop = w2 at *
    cases hl2 : w2.slots tm with
    | nil => exact hs2
    | cons x xs =>
      simp only []
      by_cases hx : x.delta = 0
      · simp only [hx, beq_self_eq_true, if_true]
        exact ih w2 h12.inv (by rw [hc2]; exact h0) (by rw [hc2]; exact htm) ⟨x, xs, hl2, hx⟩ hs2
      · have : (x.delta == 0) = false := by simp [hx]
        simp only [this, Bool.false_eq_true, if_false]
        exact hs2

theorem decHead_out (w : World) : (decHead w).out = w.out ∧ (decHead w).dead = w.dead ∧ (decHead w).hmap = w.hmap := by
  unfold decHead; simp only []; split <;> exact ⟨rfl, rfl, rfl⟩

theorem decHead_sim {w : World} (hs : Sim true w) : Sim true (decHead w) := by
  unfold Sim at *
  rw [(decHead_out w).1]
  refine ⟨hs.bad, by rw [(decHead_out w).2.1]; exact hs.dead, by rw [(decHead_out w).2.2]; exact hs.handles,
    hs.inTick, by rw [decHead_unique]; exact hs.allLt, by rw [decHead_unique]; exact hs.pendLt, hs.pendSorted, ?_, ?_⟩
  · intro c hc; exact hs.wheelPend c ((inWheel_decHead c).1 hc)
  · intro p hp
    rcases hs.pendWheel p hp with ⟨c, hc1, hc2⟩ | hx
    · exact Or.inl ⟨c, (inWheel_decHead c).2 hc1, hc2⟩
    · right
      rw [(decHead_out w).2.1, decHead_cot]
      exact ⟨hx.1, by have := hx.2; omega⟩

theorem sweepSecond_sim (sc : Scripts) {w : World} (h : WheelInv w) (hq : Quiet w) (hlt : w.cot < w.now)
    (hs : Sim true w) : Sim true (sweepSecond sc w) := by
  rw [sweepSecond_eq]
  have hd := decHead_inv h hq hlt
  have hc := decHead_cot w
  have hsd := decHead_sim hs
  cases hl : (decHead w).slots (slotOf (w.cot + 1)) with
  | nil => exact hsd
  | cons x xs =>
    simp only []
    by_cases hx : x.delta = 0
    · simp only [hx, beq_self_eq_true, if_true]
      exact visit_sim sc _ _ (decHead w) hd (by rw [hc]; omega) (by rw [hc]) ⟨x, xs, hl, hx⟩ hsd
    · have : (x.delta == 0) = false := by simp [hx]
      simp only [this, Bool.false_eq_true, if_false]
      exact hsd

theorem sweepLoop_sim (sc : Scripts) : ∀ (fuel : Nat) (w : World), WheelInv w → Quiet w → w.cot ≠ 0 →
    Sim true w → Sim true (sweepLoop sc fuel w) := by
  intro fuel
  induction fuel with
  | zero => intro w _ _ _ hs; exact hs
  | succ fuel ih =>
    intro w h hq h0 hs
    unfold sweepLoop
    rw [tie_sweepCond]
    by_cases hlt : w.cot < w.now
    · rw [if_pos (by simpa using hlt)]
      obtain ⟨a, b, c, _, _⟩ := sweepSecond_ok sc h hq hlt
      exact ih _ a b (by rw [c]; omega) (sweepSecond_sim sc h hq hlt hs)
    · rw [if_neg (by simpa using hlt)]; exact hs

theorem sweepCore_sim (sc : Scripts) {w : World} (h : WheelInv w) (hq : Quiet w) (hs : Sim true w) :
    Sim true (sweepCore sc w) := by
  unfold sweepCore
  by_cases h0 : w.cot = 0
  · simp only [h0, if_true]
    have hi : WheelInv { w with cot := w.now } := by
      refine ⟨Nat.le_refl _, h.now_pos, fun _ => h.fresh h0, h.sorted, ?_⟩
      intro s p hp
      rw [h.fresh h0 s] at hp; simp at hp
    have hs' : Sim true { w with cot := w.now } := by
      refine ⟨hs.bad, hs.dead, hs.handles, hs.inTick, hs.allLt, hs.pendLt, hs.pendSorted,
        fun c hc => hs.wheelPend c (hc.congr rfl), ?_⟩
      intro p hp
      rcases hs.pendWheel p hp with ⟨c, hc1, hc2⟩ | hx
      · exact Or.inl ⟨c, hc1.congr rfl, hc2⟩
      · right
        refine ⟨hx.1, ?_⟩
        have := hx.2
        show p.due ≤ ((w.now : Nat) : Int) - (T0 : Int)
        omega
    exact sweepLoop_sim sc _ _ hi hq (by have := h.now_pos; show w.now ≠ 0; omega) hs'
  · simp only [h0, if_false]
    exact sweepLoop_sim sc _ _ h hq h0 hs

theorem sweep_sim (sc : Scripts) {w : World} (h : WheelInv w) (hq : Quiet w) (hs : Sim true w) :
    Sim true (sweep sc w) := by
  rw [sweep_eq]
  exact SimJ.congr (w := sweepCore sc w) (sweepCore_sim sc h hq hs) rfl rfl rfl rfl rfl

end NV.C10
