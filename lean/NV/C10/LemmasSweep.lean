/-
C10 — `visit`, `sweepSecond`, `sweepLoop`, `sweep`, `stepCmd`, `runCmds` keep `WheelInv` (clause 2c), the fuel
of `visit`/`sweepLoop` is sufficient and after a sweep `call_out_time = current_time` (clause 2d).
-/
import NV.C10.LemmasOps

namespace NV.C10

theorem before_le {a b : Int × Call} (h : Before a b) : a.1 ≤ b.1 := by
  unfold Before at h; omega

/-- if the head of the slot being swept is not due, nothing is due -/
theorem quiet_of_head {w : World} (h : WheelInv w)
    (hh : ∀ x xs, w.slots (slotOf w.cot) = x :: xs → x.delta ≠ 0) : Quiet w := by
  intro s p hp
  have e := h.ent s p hp
  have hn := e.nonneg
  by_cases h0 : p.1 ≤ 0
  · exfalso
    obtain ⟨hs, hp0, _⟩ := e.zero_slot h0
    subst hs
    cases hl : w.slots (slotOf w.cot) with
    | nil => rw [hl] at hp; simp at hp
    | cons x xs =>
      have hx := hh x xs hl
      have hsort := h.sorted (slotOf w.cot)
      rw [hl] at hp hsort
      simp only [cum_cons, List.mem_cons] at hp
      have hxn := (h.ent (slotOf w.cot) (0 + x.delta, x.c) (by rw [hl]; simp)).nonneg
      simp only [] at hxn
      rcases hp with rfl | hp
      · simp only [] at hp0; omega
      · simp only [cum_cons] at hsort
        have := before_le ((List.pairwise_cons.1 hsort).1 p hp)
        simp only [] at this
        omega
  · omega

theorem quiet_zc {w : World} (hq : Quiet w) (s : Nat) : zc (cum 0 (w.slots s)) = 0 :=
  zc_eq_zero_iff.2 (hq s)

theorem StepOK.quiet {w w' : World} (h : StepOK w w') (hq : Quiet w) : Quiet w' := by
  intro s
  have := h.zc s
  rw [quiet_zc hq s] at this
  exact zc_eq_zero_iff.1 (by omega)

/-- **the fuel of `visit` is sufficient** (clause 2d): started on a due head with at least as much fuel as
    there are due entries, the do/while ends because no head is due any more (`Quiet`), never because the fuel
    ran out; and it keeps the invariant -/
theorem visit_ok (sc : Scripts) (tm : Nat) : ∀ (fuel : Nat) (w : World), WheelInv w → w.cot ≠ 0 →
    tm = slotOf w.cot → (∃ cop rest, w.slots tm = cop :: rest ∧ cop.delta = 0) →
    zc (cum 0 (w.slots tm)) ≤ fuel → StepOK w (visit sc tm fuel w) ∧ Quiet (visit sc tm fuel w) := by
  intro fuel
  induction fuel with
  | zero =>
    intro w _ _ _ ⟨cop, rest, hl, hz⟩ hfuel
    exfalso
    rw [hl] at hfuel
    simp [zc, hz] at hfuel
  | succ fuel ih =>
    intro w h h0 htm ⟨cop, rest, hl, hz⟩ hfuel
    unfold visit
    simp only [hl, tie_nextDue]
    -- pop
    have hcum : cum 0 (w.slots tm) = (0, cop.c) :: cum 0 rest := by rw [hl]; exact cum_pop_zero _ _ hz
    have h1 : StepOK w (setSlot w tm rest) :=
      StepOK.setSlot_sublist h tm rest (by rw [hcum]; exact List.sublist_cons_self _ _)
    have hz1 : zc (cum 0 ((setSlot w tm rest).slots tm)) ≤ fuel := by
      simp only [setSlot_slots, if_true]
      rw [hcum] at hfuel
      simp [zc] at hfuel
      unfold zc; omega
    -- callback
    have h2 := fireOne_ok h1.inv sc cop
    have h12 := h1.trans h2
    have hc2 : (fireOne sc (setSlot w tm rest) cop).cot = w.cot := h12.cot h0
    have hz2 : zc (cum 0 ((fireOne sc (setSlot w tm rest) cop).slots tm)) ≤ fuel :=
      Nat.le_trans (h2.zc tm) hz1
    generalize fireOne sc (setSlot w tm rest) cop = w2 at *
    cases hl2 : w2.slots tm with
    | nil =>
      simp only []
      refine ⟨h12, quiet_of_head h12.inv ?_⟩
      intro x xs hx
      rw [hc2, ← htm, hl2] at hx
      cases hx
    | cons x xs =>
      simp only []
      by_cases hx : x.delta = 0
      · simp only [hx, beq_self_eq_true, if_true]
        have := ih w2 h12.inv (by rw [hc2]; exact h0) (by rw [hc2]; exact htm) ⟨x, xs, hl2, hx⟩ hz2
        exact ⟨h12.trans this.1, this.2⟩
      · have : (x.delta == 0) = false := by simp [hx]
        simp only [this, Bool.false_eq_true, ↓reduceIte]
        refine ⟨h12, quiet_of_head h12.inv ?_⟩
        intro y ys hy
        rw [hc2, ← htm, hl2] at hy
        cases hy
        exact hx

/-- the world after `call_out_time++` and the head decrement of the visited slot -/
def decHead (w : World) : World :=
  let tm := slotOf (w.cot + 1)
  let w := { w with cot := w.cot + 1 }
  match w.slots tm with
  | [] => w
  | h :: rest => setSlot w tm ({ h with delta := h.delta - 1 } :: rest)

theorem decHead_cum (w : World) (s : Nat) :
    cum 0 ((decHead w).slots s) =
      if s = slotOf (w.cot + 1) then (cum 0 (w.slots s)).map (fun p => (p.1 - 1, p.2)) else cum 0 (w.slots s) := by
  unfold decHead
  simp only []
  cases hl : w.slots (slotOf (w.cot + 1)) with
  | nil =>
    simp only []
    split
    · rename_i hs; rw [hs, hl]; rfl
    · rfl
  | cons h rest =>
    simp only [setSlot_slots]
    split
    · rename_i hs; rw [cum_dec_head, hs, hl]
    · rfl

theorem decHead_cot (w : World) : (decHead w).cot = w.cot + 1 := by
  unfold decHead; simp only []; split <;> rfl
theorem decHead_now (w : World) : (decHead w).now = w.now := by
  unfold decHead; simp only []; split <;> rfl
theorem decHead_unique (w : World) : (decHead w).unique = w.unique := by
  unfold decHead; simp only []; split <;> rfl

/-- `call_out_time++; --call_list[tm]->delta` keeps the invariant: in the visited slot every rotation count
    drops by one and denotes the same second as before, the other slots are untouched -/
theorem decHead_inv {w : World} (h : WheelInv w) (hq : Quiet w) (hlt : w.cot < w.now) : WheelInv (decHead w) := by
  refine ⟨by rw [decHead_cot, decHead_now]; omega, by rw [decHead_now]; exact h.now_pos, ?_, ?_, ?_⟩
  · intro h0; rw [decHead_cot] at h0; omega
  · intro s
    rw [decHead_cum]
    split
    · exact pairwise_before_map_dec (h.sorted s)
    · exact h.sorted s
  · intro s p hp
    rw [decHead_cum] at hp
    split at hp
    · rename_i hs
      obtain ⟨q, hq1, rfl⟩ := List.mem_map.1 hp
      have e := h.ent s q hq1
      have hpos := hq s q hq1
      have hgt := (dueOf_gt_iff s w.cot q.1).2 hpos
      refine ⟨e.slot, ?_, ?_, e.handle, e.serialPos, by rw [decHead_unique]; exact e.serial⟩
      · rw [decHead_cot]
        show q.2.due = dueOf s (w.cot + 1) (q.1 - 1)
        rw [e.due, hs, dueOf_succ_cur]
      · rw [decHead_cot]
        show ((w.cot + 1 : Nat) : Int) ≤ q.2.due
        rw [e.due]; omega
    · rename_i hs
      have e := h.ent s p hp
      have hpos := hq s p hp
      have hgt := (dueOf_gt_iff s w.cot p.1).2 hpos
      refine ⟨e.slot, ?_, ?_, e.handle, e.serialPos, by rw [decHead_unique]; exact e.serial⟩
      · rw [decHead_cot, dueOf_succ_other s w.cot p.1 e.slot hs]; exact e.due
      · rw [decHead_cot, e.due]; omega

theorem sweepSecond_eq (sc : Scripts) (w : World) :
    sweepSecond sc w =
      match (decHead w).slots (slotOf (w.cot + 1)) with
      | [] => decHead w
      | h :: _ => if h.delta == 0 then visit sc (slotOf (w.cot + 1)) (((decHead w).slots (slotOf (w.cot + 1))).length) (decHead w)
                  else decHead w := by
  unfold sweepSecond decHead
  simp only [tie_sweepOrder.1, tie_sweepOrder.2, if_true, tie_sweepSlot, tie_headDue, tie_headDec]
  cases hl : w.slots (slotOf (w.cot + 1)) with
  | nil => simp [hl]
  | cons h rest => simp [setSlot]

/-- one second of `call_out()`: invariant kept, nothing due is left over, the clocks move as in the C code -/
theorem sweepSecond_ok (sc : Scripts) {w : World} (h : WheelInv w) (hq : Quiet w) (hlt : w.cot < w.now) :
    WheelInv (sweepSecond sc w) ∧ Quiet (sweepSecond sc w) ∧ (sweepSecond sc w).cot = w.cot + 1 ∧
      (sweepSecond sc w).now = w.now ∧ w.unique ≤ (sweepSecond sc w).unique := by
  rw [sweepSecond_eq]
  have hd := decHead_inv h hq hlt
  have hc := decHead_cot w
  have hn := decHead_now w
  have hu := decHead_unique w
  cases hl : (decHead w).slots (slotOf (w.cot + 1)) with
  | nil =>
    simp only []
    refine ⟨hd, quiet_of_head hd ?_, hc, hn, by omega⟩
    intro x xs hx
    rw [hc, hl] at hx; cases hx
  | cons x xs =>
    simp only []
    by_cases hx : x.delta = 0
    · simp only [hx, beq_self_eq_true, if_true]
      have hfuel : zc (cum 0 ((decHead w).slots (slotOf (w.cot + 1)))) ≤ (x :: xs).length := by
        unfold zc
        refine Nat.le_trans (List.countP_le_length) ?_
        rw [cum_length, hl]; exact Nat.le_refl _
      have := visit_ok sc (slotOf (w.cot + 1)) (x :: xs).length (decHead w) hd (by rw [hc]; omega) (by rw [hc])
        ⟨x, xs, hl, hx⟩ hfuel
      refine ⟨this.1.inv, this.2, ?_, ?_, ?_⟩
      · rw [this.1.cot (by rw [hc]; omega), hc]
      · rw [this.1.now, hn]
      · have := this.1.uniq; omega
    · have : (x.delta == 0) = false := by simp [hx]
      simp only [this, Bool.false_eq_true, ↓reduceIte]
      refine ⟨hd, quiet_of_head hd ?_, hc, hn, by omega⟩
      intro y ys hy
      rw [hc, hl] at hy; cases hy; exact hx

/-- **the fuel of the `while (call_out_time < current_time)` loop is sufficient and the loop ends with
    `call_out_time = current_time`** (clause 2d) -/
theorem sweepLoop_ok (sc : Scripts) : ∀ (fuel : Nat) (w : World), WheelInv w → Quiet w → w.cot ≠ 0 →
    w.now - w.cot ≤ fuel →
    WheelInv (sweepLoop sc fuel w) ∧ Quiet (sweepLoop sc fuel w) ∧ (sweepLoop sc fuel w).cot = w.now ∧
      (sweepLoop sc fuel w).now = w.now ∧ w.unique ≤ (sweepLoop sc fuel w).unique := by
  intro fuel
  induction fuel with
  | zero =>
    intro w h hq _ hf
    have := h.cot_le
    exact ⟨h, hq, by show w.cot = w.now; omega, rfl, Nat.le_refl _⟩
  | succ fuel ih =>
    intro w h hq h0 hf
    unfold sweepLoop
    rw [tie_sweepCond]
    by_cases hlt : w.cot < w.now
    · rw [if_pos (by simpa using hlt)]
      obtain ⟨a, b, c, d, e⟩ := sweepSecond_ok sc h hq hlt
      have := ih (sweepSecond sc w) a b (by rw [c]; omega) (by rw [c, d]; omega)
      rw [d] at this
      exact ⟨this.1, this.2.1, this.2.2.1, this.2.2.2.1, Nat.le_trans e this.2.2.2.2⟩
    · rw [if_neg (by simpa using hlt)]
      have := h.cot_le
      exact ⟨h, hq, by omega, rfl, Nat.le_refl _⟩

/-- call_out() without the save/restore of command_giver around it -/
def sweepCore (sc : Scripts) (w : World) : World :=
  let w := if w.cot = 0 then { w with cot := w.now } else w
  sweepLoop sc (w.now - w.cot) w

theorem sweep_eq (sc : Scripts) (w : World) : sweep sc w = { sweepCore sc w with giver := w.giver } := rfl

theorem sweepCore_ok (sc : Scripts) {w : World} (h : WheelInv w) (hq : Quiet w) :
    WheelInv (sweepCore sc w) ∧ Quiet (sweepCore sc w) ∧ (sweepCore sc w).cot = w.now ∧
      (sweepCore sc w).now = w.now ∧ w.unique ≤ (sweepCore sc w).unique := by
  unfold sweepCore
  by_cases h0 : w.cot = 0
  · simp only [h0, if_true]
    have hi : WheelInv { w with cot := w.now } := by
      refine ⟨Nat.le_refl _, h.now_pos, fun _ => h.fresh h0, h.sorted, ?_⟩
      intro s p hp
      rw [h.fresh h0 s] at hp; simp at hp
    have hq' : Quiet { w with cot := w.now } := hq
    have := sweepLoop_ok sc (w.now - w.now) { w with cot := w.now } hi hq'
      (by have := h.now_pos; show w.now ≠ 0; omega) (Nat.le_refl _)
    exact this
  · simp only [h0, if_false]
    exact sweepLoop_ok sc (w.now - w.cot) w h hq h0 (Nat.le_refl _)

/-- **after `call_out()`: `call_out_time = current_time`, so no pending entry is overdue** (clause 2d) -/
theorem sweep_ok (sc : Scripts) {w : World} (h : WheelInv w) (hq : Quiet w) :
    WheelInv (sweep sc w) ∧ Quiet (sweep sc w) ∧ (sweep sc w).cot = w.now ∧ (sweep sc w).now = w.now ∧
      w.unique ≤ (sweep sc w).unique := by
  rw [sweep_eq]
  obtain ⟨a, b, c, d, e⟩ := sweepCore_ok sc h hq
  exact ⟨a.congr rfl rfl rfl rfl, b, c, d, e⟩

/-- the state between two top-level commands -/
def Rest (w : World) : Prop := WheelInv w ∧ Quiet w

theorem init_rest : Rest World.init := by
  refine ⟨⟨by decide, by decide, fun _ _ => rfl, ?_, ?_⟩, ?_⟩
  · intro s; simp [World.init]
  · intro s p hp; simp [World.init] at hp
  · intro s p hp; simp [World.init] at hp

theorem Rest.congr {w w' : World} (h : Rest w) (hs : w'.slots = w.slots) (hc : w'.cot = w.cot)
    (hn : w'.now = w.now) (hu : w'.unique = w.unique) : Rest w' :=
  ⟨h.1.congr hs hc hn hu, by intro s; rw [hs]; exact h.2 s⟩

theorem applyOp_rest {w : World} (h : Rest w) (self : Nat) (op : Op) : Rest (applyOp w self op) := by
  unfold applyOp
  split
  · exact h.congr rfl rfl rfl rfl
  · have := runOps_ok h.1 self [op]
    simp only []
    split
    · exact Rest.congr ⟨this.inv, this.quiet h.2⟩ rfl rfl rfl rfl
    · exact ⟨this.inv, this.quiet h.2⟩

theorem stepCmd_rest (sc : Scripts) {w : World} (h : Rest w) (c : Cmd) : Rest (stepCmd sc w c) := by
  cases c with
  | adv dt =>
    refine ⟨⟨?_, ?_, h.1.fresh, h.1.sorted, ?_⟩, h.2⟩
    · show w.cot ≤ w.now + dt
      have := h.1.cot_le; omega
    · show 0 < w.now + dt
      have := h.1.now_pos; omega
    · intro s p hp; exact (h.1.ent s p hp).congr rfl rfl
  | sweep =>
    have h1 : Rest (emit w (.tickbegin (vnow w))) := h.congr rfl rfl rfl rfl
    have := sweep_ok sc h1.1 h1.2
    exact Rest.congr ⟨this.1, this.2.1⟩ rfl rfl rfl rfl
  | setScript self =>
    show Rest (if isDead w self then emit w (.setScriptDestructed self) else w)
    split
    · exact h.congr rfl rfl rfl rfl
    · exact h
  | op self op => exact applyOp_rest h self op
  | gop g self op =>
    have h1 : Rest { w with giver := liveGiver w (some g) } := h.congr rfl rfl rfl rfl
    exact (applyOp_rest h1 self op).congr rfl rfl rfl rfl
  | setUnique n =>
    -- the hook only raises `unique`: every serial stays below it
    show Rest (if n > w.unique then { w with unique := n } else w)
    split
    · rename_i hn
      refine ⟨⟨h.1.cot_le, h.1.now_pos, h.1.fresh, h.1.sorted, ?_⟩, h.2⟩
      intro s p hp
      have e := h.1.ent s p hp
      exact ⟨e.slot, e.due, e.notPast, e.handle, e.serialPos, by have := e.serial; show p.2.serial ≤ n; omega⟩
    · exact h

/-- **`WheelInv` (and `Quiet`) hold after every history** (clause 2c) -/
theorem runCmds_rest (sc : Scripts) {w : World} (h : Rest w) (cs : List Cmd) : Rest (runCmds sc w cs) := by
  unfold runCmds
  induction cs generalizing w with
  | nil => exact h
  | cons c cs ih => exact ih (stepCmd_rest sc h c)

end NV.C10
