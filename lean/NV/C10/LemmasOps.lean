/-
C10 — every operation of the model keeps `WheelInv` (clause 2c), part 1: the efuns.
-/
import NV.C10.LemmasInv

namespace NV.C10

/-! ### new_call_out, spelled out -/

def coD (delay : Int) : Int := if delay < 1 then 1 else delay
def coCot (w : World) : Nat := if w.cot = 0 then w.now else w.cot
def coDue (w : World) (delay : Int) : Int := coD delay + (w.now : Int)
def coSlot (w : World) (delay : Int) : Nat := slotOf (coDue w delay).toNat
def coRot (w : World) (delay : Int) : Int := 1 + Int.tdiv (coDue w delay - (coCot w : Int) - 1) (N : Int)
def coCall (w : World) (owner fn : Nat) (tag : String) (delay : Int) (fp : Bool) : Call :=
  { serial := w.unique + 1, owner := owner, fn := fn, tag := tag,
    handle := coSlot w delay + N * (w.unique + 1), due := coDue w delay, fp := fp,
    giver := liveGiver w w.giver }

theorem newCallOut_fst (w : World) (o f : Nat) (tag : String) (delay : Int) (fp : Bool) :
    (newCallOut w o f tag delay fp).1 =
      setSlot { w with cot := coCot w, unique := w.unique + 1, numCall := allocCall w } (coSlot w delay)
        (insertDelta (w.slots (coSlot w delay)) (coRot w delay) (coCall w o f tag delay fp)) := by
  unfold newCallOut coCall coRot coSlot coDue coCot coD
  simp only [tie_clampDelay, tie_initCot, tie_slotExpr, tie_rotExpr, tie_handleExpr]

theorem newCallOut_snd (w : World) (o f : Nat) (tag : String) (delay : Int) (fp : Bool) :
    (newCallOut w o f tag delay fp).2 = coSlot w delay + N * (w.unique + 1) := by
  unfold newCallOut coSlot coDue coD
  simp only [tie_clampDelay, tie_slotExpr, tie_handleExpr]

theorem coD_pos (delay : Int) : 1 ≤ coD delay := by unfold coD; split <;> omega

theorem coCot_le {w : World} (h : WheelInv w) : coCot w ≤ w.now := by
  unfold coCot; split
  · exact Nat.le_refl _
  · exact h.cot_le

theorem coCot_ne {w : World} (h : WheelInv w) : coCot w ≠ 0 := by
  unfold coCot; split
  · have := h.now_pos; omega
  · assumption

theorem coCot_eq {w : World} (h0 : w.cot ≠ 0) : coCot w = w.cot := by
  unfold coCot; simp [h0]

theorem coRot_pos {w : World} (h : WheelInv w) (delay : Int) : 1 ≤ coRot w delay :=
  newCallOut_rot_pos (coCot w) w.now (coD delay) (coD_pos delay) (coCot_le h)

theorem coRot_due {w : World} (h : WheelInv w) (delay : Int) :
    dueOf (coSlot w delay) (coCot w) (coRot w delay) = coDue w delay :=
  newCallOut_rot_due (coCot w) w.now (coD delay) (coD_pos delay) (coCot_le h)

/-- entries already in the wheel stay well placed when `new_call_out` initialises `call_out_time` -/
theorem old_ent_co {w : World} (h : WheelInv w) (s : Nat) (p : Int × Call) (hp : p ∈ cum 0 (w.slots s)) :
    EntOK { w with cot := coCot w, unique := w.unique + 1, numCall := allocCall w } s p := by
  by_cases h0 : w.cot = 0
  · rw [h.fresh h0 s] at hp; simp at hp
  · have e := h.ent s p hp
    have hc := coCot_eq h0
    exact ⟨e.slot, by simp only [hc]; exact e.due, by simp only [hc]; exact e.notPast, e.handle, e.serialPos,
      Nat.le_succ_of_le e.serial⟩

theorem newCallOut_ok {w : World} (h : WheelInv w) (o f : Nat) (tag : String) (delay : Int) (fp : Bool) :
    StepOK w (newCallOut w o f tag delay fp).1 := by
  rw [newCallOut_fst]
  have hcum : ∀ s, cum 0 ((setSlot { w with cot := coCot w, unique := w.unique + 1, numCall := allocCall w } (coSlot w delay)
        (insertDelta (w.slots (coSlot w delay)) (coRot w delay) (coCall w o f tag delay fp))).slots s) =
      if s = coSlot w delay then insC (coRot w delay) (coCall w o f tag delay fp) (cum 0 (w.slots s))
      else cum 0 (w.slots s) := by
    intro s
    simp only [setSlot_slots]
    split
    · rename_i hs; rw [cum_insertDelta, hs]; simp
    · rfl
  refine ⟨⟨coCot_le h, h.now_pos, ?_, ?_, ?_⟩, ?_, rfl, ?_, Nat.le_succ _⟩
  · intro h0; exact absurd h0 (coCot_ne h)
  · intro s
    rw [hcum]
    split
    · refine pairwise_insC (h.sorted s) ?_
      intro x hx
      have := (h.ent s x hx).serial
      show x.2.serial < w.unique + 1
      omega
    · exact h.sorted s
  · intro s p hp
    rw [hcum] at hp
    split at hp
    · rename_i hs
      rcases mem_insC.1 hp with rfl | hp
      · refine ⟨by rw [hs]; exact slotOf_lt _, ?_, ?_, ?_, ?_, ?_⟩
        · show coDue w delay = dueOf s (coCot w) (coRot w delay)
          rw [hs, coRot_due h]
        · show ((coCot w : Nat) : Int) ≤ coDue w delay
          have := coCot_le h; have := coD_pos delay
          unfold coDue; omega
        · show coSlot w delay + N * (w.unique + 1) = s + N * (w.unique + 1)
          rw [hs]
        · show 1 ≤ w.unique + 1
          omega
        · show w.unique + 1 ≤ w.unique + 1
          omega
      · exact (old_ent_co h s p hp).congr rfl rfl
    · exact (old_ent_co h s p hp).congr rfl rfl
  · intro h0; exact coCot_eq h0
  · intro s
    rw [hcum]
    split
    · rw [zc_insC (coRot_pos h delay)]; exact Nat.le_refl _
    · exact Nat.le_refl _

theorem removeByHandle_ok {w : World} (h : WheelInv w) (hd : Nat) : StepOK w (removeByHandle w hd).1 := by
  unfold removeByHandle
  simp only []
  cases hr : removeFirst (fun c => c.handle == hd) (w.slots (handleSlot hd)) 0 with
  | none => exact StepOK.refl h
  | some r =>
    obtain ⟨x, A, B, e1, e2, _⟩ := removeFirst_sublist hr
    exact StepOK.setSlot_sublist h _ _ (by rw [e1, e2]; exact sublist_of_split)

theorem removeByName_ok {w : World} (h : WheelInv w) (o f : Nat) : StepOK w (removeByName w o f).1 := by
  unfold removeByName
  cases hr : scanFrom (fun i => removeFirst (byName o f) (w.slots i) 0) N 0 with
  | none => exact StepOK.refl h
  | some r =>
    have := (scanFrom_some (j := r.1) (a := r.2) hr).2.2
    obtain ⟨x, A, B, e1, e2, _⟩ := removeFirst_sublist this
    exact StepOK.setSlot_sublist h _ _ (by rw [e1, e2]; exact sublist_of_split)

theorem reloadObj_ok {w : World} (h : WheelInv w) (o : Nat) : StepOK w (reloadObj w o) := by
  refine StepOK.of_sublist h rfl rfl rfl ?_
  intro s
  show (cum 0 (removeAllList _ (w.slots s))).Sublist _
  rw [cum_removeAllList]
  exact List.filter_sublist

theorem removeAll_ok {w : World} (h : WheelInv w) (o : Nat) : StepOK w (removeAll w o) := by
  refine StepOK.of_sublist h rfl rfl rfl ?_
  intro s
  show (cum 0 (removeAllList _ (w.slots s))).Sublist _
  rw [cum_removeAllList]
  exact List.filter_sublist

/-! ### stepOp, runOps -/

theorem stepOp_ok {w : World} (h : WheelInv w) (self : Nat) (op : Op) : StepOK w (stepOp w self op).w := by
  cases op with
  | co fn delay tag fp =>
    unfold stepOp
    simp only []
    split
    · exact (StepOK.refl h).congr rfl rfl rfl rfl
    · exact (newCallOut_ok h self fn tag delay fp).congr rfl rfl rfl rfl
  | rmh tag => exact (removeByHandle_ok h _).congr rfl rfl rfl rfl
  | rmn fn => exact (removeByName_ok h self fn).congr rfl rfl rfl rfl
  | fh tag => exact (StepOK.refl h).congr rfl rfl rfl rfl
  | fnm fn => exact (StepOK.refl h).congr rfl rfl rfl rfl
  | rmall => exact (removeAll_ok h self).congr rfl rfl rfl rfl
  | dest t =>
    unfold stepOp
    simp only []
    split
    · exact (StepOK.refl h).congr rfl rfl rfl rfl
    · exact (StepOK.refl h).congr rfl rfl rfl rfl
  | err => exact (StepOK.refl h).congr rfl rfl rfl rfl
  | info => exact (StepOK.refl h).congr rfl rfl rfl rfl
  | reload => exact (reloadObj_ok h self).congr rfl rfl rfl rfl
  | usage => exact (StepOK.refl h).congr rfl rfl rfl rfl

theorem runOps_ok {w : World} (h : WheelInv w) (self : Nat) (ops : List Op) :
    StepOK w (runOps w self ops).1 := by
  induction ops generalizing w with
  | nil => exact StepOK.refl h
  | cons op rest ih =>
    unfold runOps
    simp only []
    have h1 := stepOp_ok h self op
    split
    · exact h1
    · split
      · exact h1
      · exact h1.trans (ih h1.inv)

theorem fireOne_ok {w : World} (h : WheelInv w) (sc : Scripts) (cop : Entry) : StepOK w (fireOne sc w cop) := by
  rw [fireOne_eq_spec]
  unfold fireOneSpec
  split
  · split
    · exact (StepOK.refl h).congr rfl rfl rfl rfl
    · exact StepOK.refl h
  · have h1 : WheelInv (emit { w with giver := liveGiver w cop.c.giver, busy := 1 }
        (.fire (vnow w) cop.c.owner cop.c.fn cop.c.tag (liveGiver w cop.c.giver))) := h.congr rfl rfl rfl rfl
    have := runOps_ok h1 cop.c.owner (sc cop.c.owner cop.c.tag)
    exact ⟨this.inv.congr rfl rfl rfl rfl, this.cot, this.now, this.zc, this.uniq⟩

end NV.C10
