/-
C10 — facts about the list functions of the specification oracle (`removeOne`, `minDue`, `find?`) on a pending
list whose handles are strictly decreasing (newest first).
-/
import NV.C10.Spec

namespace NV.C10

/-- handle order of the oracle's pending list: newest (largest handle) first -/
def HDesc (l : List Pend) : Prop := l.Pairwise (fun a b => b.handle < a.handle)

theorem hdesc_handle_inj {l : List Pend} (hl : HDesc l) {a b : Pend} (ha : a ∈ l) (hb : b ∈ l)
    (h : a.handle = b.handle) : a = b := by
  induction l with
  | nil => cases ha
  | cons x xs ih =>
    have hx := List.pairwise_cons.1 hl
    simp only [List.mem_cons] at ha hb
    rcases ha with rfl | ha <;> rcases hb with rfl | hb
    · rfl
    · have := hx.1 b hb; omega
    · have := hx.1 a ha; omega
    · exact ih hx.2 ha hb

theorem removeOne_some {q : Pend → Bool} {l : List Pend} {e : Pend} {rest : List Pend}
    (h : removeOne q l = some (e, rest)) (hl : HDesc l) :
    e ∈ l ∧ q e = true ∧ (∀ p, p ∈ rest ↔ (p ∈ l ∧ p ≠ e)) ∧ HDesc rest ∧
      (∀ p ∈ l, q p = true → p.handle ≤ e.handle) := by
  induction l generalizing e rest with
  | nil => simp [removeOne] at h
  | cons x xs ih =>
    have hx := List.pairwise_cons.1 hl
    unfold removeOne at h
    by_cases hq : q x = true
    · simp only [hq, if_true, Option.some.injEq, Prod.mk.injEq] at h
      obtain ⟨rfl, rfl⟩ := h
      refine ⟨by simp, hq, ?_, hx.2, ?_⟩
      · intro p
        constructor
        · intro hp
          refine ⟨List.mem_cons_of_mem _ hp, ?_⟩
          intro hpe; subst hpe
          have := hx.1 p hp; omega
        · rintro ⟨hp, hne⟩
          simp only [List.mem_cons] at hp
          rcases hp with rfl | hp
          · exact absurd rfl hne
          · exact hp
      · intro p hp _
        simp only [List.mem_cons] at hp
        rcases hp with rfl | hp
        · exact Int.le_refl _
        · have := hx.1 p hp; omega
    · simp only [hq, Bool.false_eq_true, if_false] at h
      cases h1 : removeOne q xs with
      | none => simp [h1] at h
      | some r =>
        simp only [h1, Option.some.injEq, Prod.mk.injEq] at h
        obtain ⟨rfl, rfl⟩ := h
        obtain ⟨a1, a2, a3, a4, a5⟩ := ih (e := r.1) (rest := r.2) h1 hx.2
        refine ⟨List.mem_cons_of_mem _ a1, a2, ?_, ?_, ?_⟩
        · intro p
          simp only [List.mem_cons, a3]
          constructor
          · rintro (rfl | ⟨hp, hne⟩)
            · refine ⟨Or.inl rfl, ?_⟩
              intro hpe; rw [hpe] at hq; exact hq a2
            · exact ⟨Or.inr hp, hne⟩
          · rintro ⟨rfl | hp, hne⟩
            · exact Or.inl rfl
            · exact Or.inr ⟨hp, hne⟩
        · refine List.pairwise_cons.2 ⟨?_, a4⟩
          intro p hp
          exact hx.1 p ((a3 p).1 hp).1
        · intro p hp hqp
          simp only [List.mem_cons] at hp
          rcases hp with rfl | hp
          · exact absurd hqp hq
          · exact a5 p hp hqp

theorem removeOne_none {q : Pend → Bool} {l : List Pend} (h : removeOne q l = none) :
    ∀ p ∈ l, q p = false := by
  induction l with
  | nil => simp
  | cons x xs ih =>
    unfold removeOne at h
    by_cases hq : q x = true
    · simp [hq] at h
    · simp only [hq, Bool.false_eq_true, if_false] at h
      cases h1 : removeOne q xs with
      | none =>
        intro p hp
        simp only [List.mem_cons] at hp
        rcases hp with rfl | hp
        · simpa using hq
        · exact ih h1 p hp
      | some r => simp [h1] at h

theorem removeOne_isSome_of_mem {q : Pend → Bool} {l : List Pend} {p : Pend} (hp : p ∈ l) (hq : q p = true) :
    ∃ e rest, removeOne q l = some (e, rest) := by
  cases h : removeOne q l with
  | none => have := removeOne_none h p hp; rw [hq] at this; cases this
  | some r => exact ⟨r.1, r.2, rfl⟩

def minStep (acc : Option Pend) (x : Pend) : Option Pend :=
  match acc with
  | none => some x
  | some y => if x.due < y.due then some x else some y

theorem minDue_eq (q : Pend → Bool) (l : List Pend) : minDue q l = (l.filter q).foldl minStep none := rfl

theorem minFold_aux (l : List Pend) : ∀ (acc : Option Pend), HDesc l →
    (∀ a, acc = some a → ∀ p ∈ l, p.handle < a.handle) →
    (l.foldl minStep acc = none → acc = none ∧ l = []) ∧
    (∀ e, l.foldl minStep acc = some e → (acc = some e ∨ e ∈ l) ∧
      ∀ p, (acc = some p ∨ p ∈ l) → e.due ≤ p.due ∧ (p.due = e.due → p.handle ≤ e.handle)) := by
  induction l with
  | nil =>
    intro acc _ _
    simp only [List.foldl_nil]
    refine ⟨fun h => ⟨h, by trivial⟩, ?_⟩
    intro e he
    refine ⟨Or.inl he, ?_⟩
    intro p hp
    rcases hp with hp | hp
    · rw [he] at hp; cases hp; exact ⟨Int.le_refl _, fun _ => Int.le_refl _⟩
    · cases hp
  | cons x xs ih =>
    intro acc hl hacc
    have hx := List.pairwise_cons.1 hl
    simp only [List.foldl_cons]
    have hacc' : ∀ a, minStep acc x = some a → ∀ p ∈ xs, p.handle < a.handle := by
      intro a ha p hp
      unfold minStep at ha
      cases acc with
      | none => simp at ha; subst ha; exact hx.1 p hp
      | some y =>
        simp only [] at ha
        split at ha
        · cases ha; exact hx.1 p hp
        · rename_i hlt
          cases ha; exact hacc _ rfl p (List.mem_cons_of_mem _ hp)
    obtain ⟨i1, i2⟩ := ih (minStep acc x) hx.2 hacc'
    constructor
    · intro h
      have := (i1 h).1
      unfold minStep at this
      cases acc with
      | none => simp at this
      | some y => simp only [] at this; split at this <;> cases this
    · intro e he
      obtain ⟨j1, j2⟩ := i2 e he
      cases acc with
      | none =>
        have hm : minStep none x = some x := rfl
        rw [hm] at j1 j2
        constructor
        · rcases j1 with j1 | j1
          · cases j1; exact Or.inr (by simp)
          · exact Or.inr (List.mem_cons_of_mem _ j1)
        · intro p hp
          rcases hp with hp | hp
          · cases hp
          · simp only [List.mem_cons] at hp
            rcases hp with rfl | hp
            · exact j2 p (Or.inl rfl)
            · exact j2 p (Or.inr hp)
      | some y =>
        have hyx : x.handle < y.handle := hacc y rfl x (by simp)
        by_cases hlt : x.due < y.due
        · have hm : minStep (some y) x = some x := by simp [minStep, hlt]
          rw [hm] at j1 j2
          have hex := j2 x (Or.inl rfl)
          constructor
          · rcases j1 with j1 | j1
            · cases j1; exact Or.inr (by simp)
            · exact Or.inr (List.mem_cons_of_mem _ j1)
          · intro p hp
            rcases hp with hp | hp
            · cases hp
              exact ⟨by omega, fun h => by omega⟩
            · simp only [List.mem_cons] at hp
              rcases hp with rfl | hp
              · exact hex
              · exact j2 p (Or.inr hp)
        · have hm : minStep (some y) x = some y := by simp [minStep, hlt]
          rw [hm] at j1 j2
          have hey := j2 y (Or.inl rfl)
          constructor
          · rcases j1 with j1 | j1
            · exact Or.inl j1
            · exact Or.inr (List.mem_cons_of_mem _ j1)
          · intro p hp
            rcases hp with hp | hp
            · cases hp; exact hey
            · simp only [List.mem_cons] at hp
              rcases hp with rfl | hp
              · exact ⟨by omega, fun h => by have := hey.2 (by omega); omega⟩
              · exact j2 p (Or.inr hp)

/-- `minDue` returns the first (= largest handle) among the matching entries with the smallest due time -/
theorem minDue_some {q : Pend → Bool} {l : List Pend} {e : Pend} (h : minDue q l = some e) (hl : HDesc l) :
    e ∈ l ∧ q e = true ∧ ∀ p ∈ l, q p = true → e.due ≤ p.due ∧ (p.due = e.due → p.handle ≤ e.handle) := by
  rw [minDue_eq] at h
  have hf : HDesc (l.filter q) := List.Pairwise.sublist List.filter_sublist hl
  obtain ⟨_, a2⟩ := minFold_aux (l.filter q) none hf (by intro a ha; cases ha)
  obtain ⟨b1, b2⟩ := a2 e h
  rcases b1 with b1 | b1
  · cases b1
  · have := List.mem_filter.1 b1
    refine ⟨this.1, this.2, ?_⟩
    intro p hp hq
    exact b2 p (Or.inr (List.mem_filter.2 ⟨hp, hq⟩))

theorem minDue_none {q : Pend → Bool} {l : List Pend} (h : minDue q l = none) : ∀ p ∈ l, q p = false := by
  rw [minDue_eq] at h
  intro p hp
  by_cases hq : q p = true
  · exfalso
    have hmem : p ∈ l.filter q := List.mem_filter.2 ⟨hp, hq⟩
    -- a non-empty fold never returns none
    have : ∀ (l : List Pend) (acc : Option Pend), l.foldl minStep acc = none → acc = none ∧ l = [] := by
      intro l
      induction l with
      | nil => intro acc h; exact ⟨h, rfl⟩
      | cons x xs ih =>
        intro acc h
        simp only [List.foldl_cons] at h
        have := (ih _ h).1
        unfold minStep at this
        cases acc with
        | none => simp at this
        | some y => simp only [] at this; split at this <;> cases this
    have := (this _ _ h).2
    rw [this] at hmem; cases hmem
  · simpa using hq

end NV.C10
