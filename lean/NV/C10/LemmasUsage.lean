/-
C10 — the bookkeeping clause of the oracle (`usageStep`: print_call_out_usage, `num_call`, the free list) holds on
every history of the model.  Invariant `UInv`: `num_call` is a whole number of chunks, covers the structures in use
(`wheelSize + busy`), and is less than one chunk above the largest number the oracle has ever counted in use.
-/
import NV.C10.LemmasSimRun

namespace NV.C10

/-- obligation on the regenerated `CHUNK_SIZE`: a chunk has at least one structure -/
theorem tie_chunkPos : 0 < Gen.C10.chunkSize := by decide

/-! ### sums over the wheel -/

def sumTo (f : Nat → Nat) (n : Nat) : Nat := ((List.range n).map f).sum

theorem sumTo_succ (f : Nat → Nat) (n : Nat) : sumTo f (n + 1) = sumTo f n + f n := by
  unfold sumTo
  rw [List.range_succ, List.map_append, List.sum_append]
  simp

theorem sumTo_le {f g : Nat → Nat} (h : ∀ i, f i ≤ g i) (n : Nat) : sumTo f n ≤ sumTo g n := by
  induction n with
  | zero => simp [sumTo]
  | succ n ih => rw [sumTo_succ, sumTo_succ]; have := h n; omega

theorem sumTo_update_ge (f : Nat → Nat) (s a : Nat) (n : Nat) (h : n ≤ s) :
    sumTo (fun i => if i = s then a else f i) n = sumTo f n := by
  induction n with
  | zero => rfl
  | succ n ih =>
    rw [sumTo_succ, sumTo_succ, ih (by omega)]
    have : n ≠ s := by omega
    simp only [this, if_false]

theorem sumTo_update (f : Nat → Nat) (s a : Nat) (n : Nat) (h : s < n) :
    sumTo (fun i => if i = s then a else f i) n + f s = sumTo f n + a := by
  induction n with
  | zero => omega
  | succ n ih =>
    rw [sumTo_succ, sumTo_succ]
    by_cases hs : s = n
    · subst hs
      rw [sumTo_update_ge f s a s (Nat.le_refl _)]
      simp only [if_true]
      omega
    · have := ih (by omega)
      have hn : n ≠ s := fun e => hs e.symm
      simp only [hn, if_false]
      omega

theorem wheelSize_sumTo (w : World) : wheelSize w = sumTo (fun i => (w.slots i).length) N := rfl

theorem wheelSize_congr {w w' : World} (h : w'.slots = w.slots) : wheelSize w' = wheelSize w := by
  unfold wheelSize; rw [h]

theorem wheelSize_le_of_slots {w w' : World} (h : ∀ i, (w'.slots i).length ≤ (w.slots i).length) :
    wheelSize w' ≤ wheelSize w := by
  rw [wheelSize_sumTo, wheelSize_sumTo]; exact sumTo_le h N

theorem wheelSize_setSlot (w : World) (s : Nat) (l : List Entry) (hs : s < N) :
    wheelSize (setSlot w s l) + (w.slots s).length = wheelSize w + l.length := by
  have := sumTo_update (fun i => (w.slots i).length) s l.length N hs
  rw [wheelSize_sumTo, wheelSize_sumTo]
  have hf : (fun i => ((setSlot w s l).slots i).length) = (fun i => if i = s then l.length else (w.slots i).length) := by
    funext i
    show (if i = s then l else w.slots i).length = _
    split <;> rfl
  rw [hf]; exact this

theorem wheelSize_eq (w : World) : wheelSize w = (wheelList w).length := by
  unfold wheelSize wheelList
  rw [List.length_flatMap]
  congr 1
  apply List.map_congr_left
  intro s _
  rw [List.length_map, cum_length]

/-- the wheel never holds more than the oracle lists as pending -/
theorem wheelSize_le_pend {tick : Bool} {w : World} (hw : WheelInv w) (hs : Sim tick w) :
    wheelSize w ≤ (jstate w.out).pend.length := by
  rw [wheelSize_eq, ← List.length_map (f := toPend)]
  apply List.Nodup.length_le_of_subset
  · show List.Pairwise (· ≠ ·) _
    rw [List.pairwise_map]
    exact wheelList_pairwise hw
  · intro p hp
    obtain ⟨c, hc, rfl⟩ := List.mem_map.1 hp
    exact hs.wheelPend c ((mem_wheelList hw c).1 hc)

/-- everything the oracle lists as pending is in the wheel, except entries of destructed owners whose time has come -/
theorem lo_le_wheelSize {tick : Bool} {w : World} (hw : WheelInv w) (hs : Sim tick w) :
    ((jstate w.out).pend.filter (fun e => !maybeDropped (jstate w.out) (vnow w) e)).length ≤ wheelSize w := by
  rw [wheelSize_eq, ← List.length_map (f := toPend)]
  apply List.Nodup.length_le_of_subset
  · refine List.Pairwise.filter _ ?_
    refine List.Pairwise.imp ?_ hs.pendSorted
    intro a b hab heq
    rw [heq] at hab; omega
  · intro p hp
    obtain ⟨hp1, hp2⟩ := List.mem_filter.1 hp
    rcases hs.pendWheel p hp1 with ⟨c, hc1, hc2⟩ | hx
    · exact List.mem_map.2 ⟨c, (mem_wheelList hw c).2 hc1, hc2⟩
    · exfalso
      have hd : maybeDropped (jstate w.out) (vnow w) p = true := by
        unfold maybeDropped
        rw [isDeadJ_eq hs]
        have h1 : isDead w p.owner = true := hx.1
        have h2 := hx.2
        have h3 := hw.cot_le
        have h4 : p.due ≤ vnow w := by simp only [vnow]; omega
        simp [h1, h4]
      rw [hd] at hp2; cases hp2

/-! ### lengths after the list operations -/

theorem insertDelta_length (l : List Entry) (d : Int) (c : Call) : (insertDelta l d c).length = l.length + 1 := by
  induction l generalizing d with
  | nil => rfl
  | cons x xs ih =>
    unfold insertDelta
    split
    · rfl
    · simp only [List.length_cons, ih]

theorem removeFirst_length {p : Call → Bool} {l : List Entry} {acc : Int} {r : Int × List Entry}
    (h : removeFirst p l acc = some r) : r.2.length + 1 = l.length := by
  induction l generalizing acc r with
  | nil => simp [removeFirst] at h
  | cons x xs ih =>
    unfold removeFirst at h
    split at h
    · cases h
      cases xs <;> rfl
    · split at h
      · cases h
      · rename_i r' hr
        cases h
        have := ih hr
        simp only [List.length_cons]; omega

theorem removeAllList_length (p : Call → Bool) (l : List Entry) : (removeAllList p l).length ≤ l.length := by
  have := cum_removeAllList p l 0
  have h1 := congrArg List.length this
  rw [cum_length] at h1
  rw [h1]
  refine Nat.le_trans (List.length_filter_le _ _) ?_
  rw [cum_length]; exact Nat.le_refl _

theorem removeByHandle_size (w : World) (h : Nat) :
    wheelSize (removeByHandle w h).1 ≤ wheelSize w ∧ (removeByHandle w h).1.numCall = w.numCall ∧
      (removeByHandle w h).1.busy = w.busy := by
  unfold removeByHandle
  simp only []
  split
  · rename_i r hr
    refine ⟨?_, rfl, rfl⟩
    apply wheelSize_le_of_slots
    intro i
    show (if i = handleSlot h then r.2 else w.slots i).length ≤ _
    split
    · rename_i hi; subst hi; have := removeFirst_length hr; omega
    · exact Nat.le_refl _
  · exact ⟨Nat.le_refl _, rfl, rfl⟩

theorem removeByName_size (w : World) (o f : Nat) :
    wheelSize (removeByName w o f).1 ≤ wheelSize w ∧ (removeByName w o f).1.numCall = w.numCall ∧
      (removeByName w o f).1.busy = w.busy := by
  unfold removeByName
  split
  · rename_i i r hr
    refine ⟨?_, rfl, rfl⟩
    have hr' := (scanFrom_some hr).2.2
    apply wheelSize_le_of_slots
    intro k
    show (if k = i then r.2 else w.slots k).length ≤ _
    split
    · rename_i hi; subst hi; have := removeFirst_length hr'; omega
    · exact Nat.le_refl _
  · exact ⟨Nat.le_refl _, rfl, rfl⟩

theorem removeAll_size (w : World) (o : Nat) : wheelSize (removeAll w o) ≤ wheelSize w :=
  wheelSize_le_of_slots (fun _ => removeAllList_length _ _)

theorem newCallOut_size (w : World) (o f : Nat) (tag : String) (delay : Int) (fp : Bool) :
    wheelSize (newCallOut w o f tag delay fp).1 = wheelSize w + 1 ∧
      (newCallOut w o f tag delay fp).1.numCall = allocCall w ∧ (newCallOut w o f tag delay fp).1.busy = w.busy := by
  rw [newCallOut_fst]
  refine ⟨?_, rfl, rfl⟩
  have := wheelSize_setSlot { w with cot := coCot w, unique := w.unique + 1, numCall := allocCall w } (coSlot w delay)
    (insertDelta (w.slots (coSlot w delay)) (coRot w delay) (coCall w o f tag delay fp)) (slotOf_lt _)
  rw [insertDelta_length] at this
  have h2 : wheelSize { w with cot := coCot w, unique := w.unique + 1, numCall := allocCall w } = wheelSize w := rfl
  rw [h2] at this
  have h3 : ({ w with cot := coCot w, unique := w.unique + 1, numCall := allocCall w } : World).slots (coSlot w delay) =
      w.slots (coSlot w delay) := rfl
  rw [h3] at this
  omega

/-! ### the oracle's bookkeeping state along the event list -/

def ustate (out : List Ev) : UState := out.foldr (fun e u => usageStep u e) {}

@[simp] theorem ustate_cons (e : Ev) (out : List Ev) : ustate (e :: out) = usageStep (ustate out) e := rfl

def tickN (j : JState) : Nat := if j.inTick then 1 else 0

theorem usageStep_j (u : UState) (ev : Ev) : (usageStep u ev).j = judgeStep u.j ev := by
  cases ev <;> rfl

theorem usageStep_hwm (u : UState) (ev : Ev) :
    (usageStep u ev).hwm = max u.hwm ((judgeStep u.j ev).pend.length + tickN (judgeStep u.j ev)) := by
  cases ev <;> rfl

theorem usageStep_ubad_other (u : UState) (ev : Ev) (h : ∀ t n l, ev ≠ .usage t n l) :
    (usageStep u ev).ubad = u.ubad := by
  cases ev <;> first | rfl | (exfalso; exact h _ _ _ rfl)

theorem usageStep_usage_ok (u : UState) (t : Int) (n len : Nat)
    (h1 : (u.j.pend.filter (fun e => !maybeDropped u.j t e)).length ≤ len) (h2 : len ≤ u.j.pend.length)
    (h3 : n % Gen.C10.chunkSize = 0) (h4 : len + tickN u.j ≤ n)
    (h5 : n < max u.hwm (u.j.pend.length + tickN u.j) + Gen.C10.chunkSize) :
    (usageStep u (.usage t n len)).ubad = u.ubad := by
  show (if _ then (if _ then u.ubad else _) else _) = u.ubad
  rw [if_pos ⟨h3, h4, h5⟩, if_pos ⟨h1, h2⟩]

theorem ustate_j (out : List Ev) : (ustate out).j = jstate out := by
  induction out with
  | nil => rfl
  | cons e out ih => rw [ustate_cons, usageStep_j, ih]; rfl

theorem judgeUsage_events (w : World) : judgeUsage (events w) = (ustate w.out).ubad.reverse := by
  unfold judgeUsage events ustate
  rw [List.foldl_reverse]

theorem ustate_hwm_cons (e : Ev) (out : List Ev) :
    (ustate (e :: out)).hwm = max (ustate out).hwm ((jstate (e :: out)).pend.length + tickN (jstate (e :: out))) := by
  rw [ustate_cons, usageStep_hwm, ustate_j]; rfl

/-! ### the invariant -/

structure UInv (b : Nat) (w : World) : Prop where
  ubad : (ustate w.out).ubad = []
  mod : w.numCall % Gen.C10.chunkSize = 0
  inUse : wheelSize w + w.busy ≤ w.numCall
  hwm : w.numCall < (ustate w.out).hwm + Gen.C10.chunkSize
  busy : w.busy = b

theorem UInv.congr {b : Nat} {w w' : World} (hu : UInv b w) (hout : w'.out = w.out) (hn : w'.numCall = w.numCall)
    (hb : w'.busy = w.busy) (hsz : wheelSize w' ≤ wheelSize w) : UInv b w' := by
  refine ⟨by rw [hout]; exact hu.ubad, by rw [hn]; exact hu.mod, ?_, by rw [hout, hn]; exact hu.hwm,
    hb.trans hu.busy⟩
  rw [hn, hb]; have := hu.inUse; omega

theorem UInv.emit_other {b : Nat} {w w' : World} {ev : Ev} (hu : UInv b w) (hout : w'.out = w.out)
    (hn : w'.numCall = w.numCall) (hb : w'.busy = w.busy) (hsz : wheelSize w' ≤ wheelSize w)
    (hev : ∀ t n l, ev ≠ .usage t n l) : UInv b (emit w' ev) := by
  refine ⟨?_, ?_, ?_, ?_, ?_⟩
  · show (ustate (ev :: w'.out)).ubad = []
    rw [hout, ustate_cons, usageStep_ubad_other _ _ hev]; exact hu.ubad
  · show w'.numCall % Gen.C10.chunkSize = 0
    rw [hn]; exact hu.mod
  · show wheelSize w' + w'.busy ≤ w'.numCall
    rw [hn, hb]; have := hu.inUse; omega
  · show w'.numCall < (ustate (ev :: w'.out)).hwm + Gen.C10.chunkSize
    rw [hout, ustate_hwm_cons, hn]
    have := hu.hwm
    have := Nat.le_max_left (ustate w.out).hwm ((jstate (ev :: w.out)).pend.length + tickN (jstate (ev :: w.out)))
    omega
  · exact hb.trans hu.busy

theorem tickN_of_sim {tick : Bool} {w : World} (hs : Sim tick w) : tickN (jstate w.out) = if tick then 1 else 0 := by
  unfold tickN; rw [hs.inTick]

/-! ### along `stepOp`, `runOps` -/

theorem stepOp_u {tick : Bool} {w : World} (hw : WheelInv w) (hs : Sim tick w)
    (hu : UInv (if tick then 1 else 0) w) (self : Nat) (op : Op) (halive : isDead w self = false) :
    UInv (if tick then 1 else 0) (stepOp w self op).w := by
  have hs' := stepOp_sim hw hs self op halive
  have hw' := (stepOp_ok hw self op).inv
  cases op with
  | co fn delay tag fp =>
    have hle := wheelSize_le_pend hw' hs'
    have htk := tickN_of_sim hs'
    revert hs' hw' hle htk
    unfold stepOp
    simp only [halive, Bool.false_eq_true, if_false]
    intro _ _ hle htk
    obtain ⟨z1, z2, z3⟩ := newCallOut_size w self fn tag delay fp
    have hro : (newCallOut w self fn tag delay fp).1.out = w.out := by rw [newCallOut_fst]; rfl
    generalize newCallOut w self fn tag delay fp = r at *
    have hwm := ustate_hwm_cons (.co (vnow w) self fn delay tag (r.2 : Int) fp (liveGiver w w.giver)) w.out
    have hsz : wheelSize (emit { r.1 with hmap := ((self, tag), r.2) :: r.1.hmap }
        (.co (vnow w) self fn delay tag (r.2 : Int) fp (liveGiver w w.giver))) = wheelSize w + 1 := z1
    have hout : (emit { r.1 with hmap := ((self, tag), r.2) :: r.1.hmap }
        (.co (vnow w) self fn delay tag (r.2 : Int) fp (liveGiver w w.giver))).out =
        .co (vnow w) self fn delay tag (r.2 : Int) fp (liveGiver w w.giver) :: w.out := by
      show _ :: r.1.out = _
      rw [hro]
    rw [hsz, hout] at hle
    rw [hout] at htk
    rw [htk] at hwm
    have hb := hu.busy
    have h1 := hu.inUse
    have h2 := hu.hwm
    have h3 := hu.mod
    have hpos := tie_chunkPos
    have hmax := Nat.le_max_left (ustate w.out).hwm
      ((jstate (.co (vnow w) self fn delay tag (r.2 : Int) fp (liveGiver w w.giver) :: w.out)).pend.length +
        if tick then 1 else 0)
    have hmax2 := Nat.le_max_right (ustate w.out).hwm
      ((jstate (.co (vnow w) self fn delay tag (r.2 : Int) fp (liveGiver w w.giver) :: w.out)).pend.length +
        if tick then 1 else 0)
    have hnc : r.1.numCall = allocCall w := z2
    unfold allocCall at hnc
    refine ⟨?_, ?_, ?_, ?_, ?_⟩
    · show (ustate (emit { r.1 with hmap := ((self, tag), r.2) :: r.1.hmap }
        (.co (vnow w) self fn delay tag (r.2 : Int) fp (liveGiver w w.giver))).out).ubad = []
      rw [hout, ustate_cons, usageStep_ubad_other _ _ (by intro _ _ _ h; cases h)]; exact hu.ubad
    · show r.1.numCall % Gen.C10.chunkSize = 0
      rw [hnc]; split
      · rw [Nat.add_mod_right]; exact h3
      · exact h3
    · show wheelSize (emit { r.1 with hmap := ((self, tag), r.2) :: r.1.hmap }
        (.co (vnow w) self fn delay tag (r.2 : Int) fp (liveGiver w w.giver))) + r.1.busy ≤ r.1.numCall
      rw [hsz, z3, hnc]; split <;> omega
    · show r.1.numCall < (ustate (emit { r.1 with hmap := ((self, tag), r.2) :: r.1.hmap }
        (.co (vnow w) self fn delay tag (r.2 : Int) fp (liveGiver w w.giver))).out).hwm + Gen.C10.chunkSize
      rw [hout, hwm, hnc]; split <;> omega
    · show r.1.busy = _
      rw [z3]; exact hb
  | rmh tag =>
    obtain ⟨a, b, c⟩ := removeByHandle_size w (lookupHandle w self tag)
    exact hu.emit_other (removeByHandle_frame w _).1 b c a (by intro _ _ _ h; cases h)
  | rmn fn =>
    obtain ⟨a, b, c⟩ := removeByName_size w self fn
    exact hu.emit_other (removeByName_frame w self fn).1 b c a (by intro _ _ _ h; cases h)
  | fh tag => exact hu.emit_other rfl rfl rfl (Nat.le_refl _) (by intro _ _ _ h; cases h)
  | fnm fn => exact hu.emit_other rfl rfl rfl (Nat.le_refl _) (by intro _ _ _ h; cases h)
  | rmall => exact hu.emit_other (w' := removeAll w self) rfl rfl rfl (removeAll_size w self) (by intro _ _ _ h; cases h)
  | dest t =>
    unfold stepOp
    simp only []
    refine hu.emit_other ?_ ?_ ?_ ?_ (by intro _ _ _ h; cases h)
    · split <;> rfl
    · split <;> rfl
    · split <;> rfl
    · split <;> exact Nat.le_refl _
  | err => exact hu.emit_other rfl rfl rfl (Nat.le_refl _) (by intro _ _ _ h; cases h)
  | info => exact hu.emit_other rfl rfl rfl (Nat.le_refl _) (by intro _ _ _ h; cases h)
  | reload =>
    exact hu.emit_other (w' := reloadObj w self) rfl rfl rfl (removeAll_size w self) (by intro _ _ _ h; cases h)
  | usage =>
    have h1 := lo_le_wheelSize hw hs
    have h2 := wheelSize_le_pend hw hs
    have htk := tickN_of_sim hs
    refine ⟨?_, hu.mod, hu.inUse, ?_, hu.busy⟩
    · show (ustate (.usage (vnow w) w.numCall (wheelSize w) :: w.out)).ubad = []
      rw [ustate_cons, usageStep_usage_ok, hu.ubad]
      · rw [ustate_j]; exact h1
      · rw [ustate_j]; exact h2
      · exact hu.mod
      · rw [ustate_j, htk, ← hu.busy]; exact hu.inUse
      · rw [ustate_j]
        have := hu.hwm
        have := Nat.le_max_left (ustate w.out).hwm ((jstate w.out).pend.length + tickN (jstate w.out))
        omega
    · show w.numCall < (ustate (.usage (vnow w) w.numCall (wheelSize w) :: w.out)).hwm + Gen.C10.chunkSize
      rw [ustate_hwm_cons]
      have := hu.hwm
      have := Nat.le_max_left (ustate w.out).hwm ((jstate (.usage (vnow w) w.numCall (wheelSize w) :: w.out)).pend.length +
        tickN (jstate (.usage (vnow w) w.numCall (wheelSize w) :: w.out)))
      omega

end NV.C10
