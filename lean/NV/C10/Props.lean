/-
C10 — property theorems.  Helper lemmas live in NV/C10/Lemmas*.lean; this file has the top-level statements:

  * `model_satisfies_spec` : for ALL callback scripts and ALL command lists the specification oracle `judgeEv`
    (the same function that judges the traces of the real driver) raises no violation on the history produced by
    the model of lib/efuns/call_out.c.
  * `wheelInv_always`, `sweep_catches_up`, ... : the invariants behind it, clause by clause.
-/
import NV.C10.LemmasFit

namespace NV.C10

theorem init_sim : Sim false World.init := by
  refine ⟨rfl, rfl, rfl, rfl, ?_, ?_, List.Pairwise.nil, ?_, ?_⟩
  · intro h hh; cases hh
  · intro p hp; cases hp
  · rintro c ⟨s, D, hm⟩; simp [World.init] at hm
  · intro p hp; cases hp

/-- in a quiet wheel every pending call_out is strictly later than `call_out_time` -/
theorem quiet_due_gt {w : World} (hw : WheelInv w) (hq : Quiet w) {c : Call} (hc : InWheel w c) :
    (w.cot : Int) < c.due := by
  obtain ⟨s, D, hm⟩ := hc
  have e := hw.ent s _ hm
  rw [e.due]
  exact (dueOf_gt_iff s w.cot D).2 (hq s _ hm)

theorem tickend_sim {w : World} (hw : WheelInv w) (hq : Quiet w) (hcn : w.cot = w.now) (hs : Sim true w) :
    Sim false (emit w (.tickend (vnow w))) := by
  refine Sim.emit (w := w) rfl ?_
  have hmiss : (jstate w.out).pend.filter (fun e => decide (e.due ≤ vnow w) && !isDeadJ (jstate w.out) e.owner) = [] := by
    apply List.filter_eq_nil_iff.2
    intro p hp
    rcases hs.pendWheel p hp with ⟨c, hc1, hc2⟩ | hx
    · have hlt : (w.now : Int) < c.due := by
        have := quiet_due_gt hw hq hc1; rw [hcn] at this; exact this
      have hd : ¬ p.due ≤ vnow w := by
        rw [← hc2]; simp only [toPend, vnow]; omega
      simp [hd]
    · have : isDeadJ (jstate w.out) p.owner = true := by rw [isDeadJ_eq hs]; exact hx.1
      simp [this]
  have hj : judgeStep (jstate w.out) (.tickend (vnow w)) =
      { jstate w.out with inTick := false, pend := (jstate w.out).pend.filter (fun e => decide (e.due > vnow w)) } := by
    simp only [judgeStep, hmiss, List.foldl_nil]
  rw [hj]
  refine ⟨hs.bad, hs.dead, hs.handles, rfl, hs.allLt, ?_, ?_, ?_, ?_⟩
  · intro p hp; exact hs.pendLt p (List.mem_filter.1 hp).1
  · exact List.Pairwise.filter _ hs.pendSorted
  · intro c hc
    refine List.mem_filter.2 ⟨hs.wheelPend c hc, ?_⟩
    have hlt : (w.now : Int) < c.due := by
      have := quiet_due_gt hw hq hc; rw [hcn] at this; exact this
    have : (toPend c).due > vnow w := by simp only [toPend, vnow]; omega
    exact decide_eq_true this
  · intro p hp
    exact hs.pendWheel p (List.mem_filter.1 hp).1

theorem applyOp_sim {w : World} (hr : Rest w) (hs : Sim false w) (self : Nat) (op : Op) :
    Sim false (applyOp w self op) := by
  unfold applyOp
  split
  · exact Sim.emit (w := w) rfl hs
  · rename_i hd
    have := runOps_sim hr.1 hs self [op] (by simpa using hd)
    simp only []
    split
    · exact Sim.emit (w := (runOps w self [op]).1) rfl this
    · exact this

theorem stepCmd_sim (sc : Scripts) {w : World} (hr : Rest w) (hs : Sim false w) (c : Cmd) :
    Sim false (stepCmd sc w c) := by
  cases c with
  | adv dt => exact SimJ.congr (w := w) hs rfl rfl rfl rfl rfl
  | sweep =>
    have h1 : Sim true (emit w (.tickbegin (vnow w))) := by
      refine Sim.emit (w := w) rfl ?_
      have hj : judgeStep (jstate w.out) (.tickbegin (vnow w)) = { jstate w.out with inTick := true } := by
        simp only [judgeStep, hs.inTick, Bool.false_eq_true, if_false]
      rw [hj]
      exact ⟨hs.bad, hs.dead, hs.handles, rfl, hs.allLt, hs.pendLt, hs.pendSorted, hs.wheelPend, hs.pendWheel⟩
    have hr1 : Rest (emit w (.tickbegin (vnow w))) := hr.congr rfl rfl rfl rfl
    have h2 := sweep_sim sc hr1.1 hr1.2 h1
    obtain ⟨a, b, c, d, _⟩ := sweep_ok sc hr1.1 hr1.2
    exact tickend_sim a b (by rw [c, d]) h2
  | setScript self =>
    show Sim false (if isDead w self then emit w (.setScriptDestructed self) else w)
    split
    · exact Sim.emit (w := w) rfl hs
    · exact hs
  | op self op => exact applyOp_sim hr hs self op
  | gop g self op =>
    have hr1 : Rest { w with giver := liveGiver w (some g) } := hr.congr rfl rfl rfl rfl
    have hs1 : Sim false { w with giver := liveGiver w (some g) } := SimJ.congr (w := w) hs rfl rfl rfl rfl rfl
    exact SimJ.congr (w := applyOp { w with giver := liveGiver w (some g) } self op) (applyOp_sim hr1 hs1 self op)
      rfl rfl rfl rfl rfl
  | setUnique n =>
    show Sim false (if n > w.unique then { w with unique := n } else w)
    split
    · rename_i hn
      have hle : ((N * (w.unique + 1) : Nat) : Int) ≤ ((N * (n + 1) : Nat) : Int) := by
        have : N * (w.unique + 1) ≤ N * (n + 1) := Nat.mul_le_mul_left _ (by omega)
        omega
      refine ⟨hs.bad, hs.dead, hs.handles, hs.inTick, ?_, ?_, hs.pendSorted, fun c hc => hs.wheelPend c (hc.congr rfl), ?_⟩
      · intro h hh; have := hs.allLt h hh; show h < ((N * (n + 1) : Nat) : Int); omega
      · intro p hp; have := hs.pendLt p hp; show p.handle < ((N * (n + 1) : Nat) : Int); omega
      · intro p hp
        rcases hs.pendWheel p hp with ⟨c, hc1, hc2⟩ | hx
        · exact Or.inl ⟨c, hc1.congr rfl, hc2⟩
        · exact Or.inr hx
    · exact hs

theorem runCmds_sim (sc : Scripts) {w : World} (hr : Rest w) (hs : Sim false w) (cs : List Cmd) :
    Sim false (runCmds sc w cs) := by
  unfold runCmds
  induction cs generalizing w with
  | nil => exact hs
  | cons c cs ih => exact ih (stepCmd_rest sc hr c) (stepCmd_sim sc hr hs c)

/-- the bookkeeping invariant along a command list -/
theorem runCmds_u (sc : Scripts) {w : World} (hr : Rest w) (hs : Sim false w) (hu : UInv 0 w) (cs : List Cmd) :
    UInv 0 (runCmds sc w cs) := by
  unfold runCmds
  induction cs generalizing w with
  | nil => exact hu
  | cons c cs ih => exact ih (stepCmd_rest sc hr c) (stepCmd_sim sc hr hs c) (stepCmd_u sc hr hs hu c)

/-- **C10, top theorem.**  For every callback oracle `sc` (what each call_out callback does: schedule, remove,
    find, destruct, raise an error, ...) and every list of top-level commands `cmds` (operations, clock advances of
    any size, sweeps at any spacing incl. backlog), the history of observable events produced by the model of
    lib/efuns/call_out.c is accepted by the specification oracle `judgeEv`: every scheduled call_out of a live
    object that is not removed fires exactly once, with its argument, not before its time and no later than the
    first `call_out()` at or after it; find/remove (by handle and by name) answer exactly `(int)(due - now)`; a removed
    call_out never fires; call_outs of destructed objects are dropped; an error in a callback loses/repeats
    nothing; handles are never reused; `call_out_info()` lists exactly the pending call_outs of live objects;
    this_player() in a callback is the saved command_giver (0 if destructed); `reload_object` drops the object's
    call_outs; print_call_out_usage reports the number of pending call_outs and a `num_call` that is a whole number of
    chunks, covers the structures in use and never exceeds what the largest number ever in use required (no leak).  (See NV/C10/PropsNeg.lean for histories the oracle rejects, clause by clause.) -/
theorem model_satisfies_spec (sc : Scripts) (cmds : List Cmd) :
    judgeEv (events (runCmds sc World.init cmds)) = [] := by
  unfold judgeEv
  rw [judgeCore_events, (runCmds_sim sc init_rest init_sim cmds).bad, judgeUsage_events,
    (runCmds_u sc init_rest init_sim init_u cmds).ubad]
  rfl

/-- **bookkeeping (free list / num_call / print_call_out_usage)**: after every history `num_call` is a whole number
    of chunks and covers every structure in use, none is held by a finished callback (`busy = 0`), and the wheel holds
    no more entries than the oracle lists as pending (the clause-level statement behind the `usage-*` verdicts; that
    `num_call` stays below `hwm + CHUNK_SIZE` is part of `model_satisfies_spec`) -/
theorem usage_exact (sc : Scripts) (cmds : List Cmd) :
    (runCmds sc World.init cmds).numCall % Gen.C10.chunkSize = 0 ∧
      wheelSize (runCmds sc World.init cmds) + (runCmds sc World.init cmds).busy ≤ (runCmds sc World.init cmds).numCall ∧
      (runCmds sc World.init cmds).busy = 0 ∧
      wheelSize (runCmds sc World.init cmds) ≤ (jstate (runCmds sc World.init cmds).out).pend.length := by
  have hu := runCmds_u sc init_rest init_sim init_u cmds
  have hr := runCmds_rest sc init_rest cmds
  have hs := runCmds_sim sc init_rest init_sim cmds
  exact ⟨hu.mod, hu.inUse, hu.busy, wheelSize_le_pend hr.1 hs⟩

/-- **clause 2c**: the wheel invariant holds after every history, and between commands nothing pending is due -/
theorem wheelInv_always (sc : Scripts) (cmds : List Cmd) :
    WheelInv (runCmds sc World.init cmds) ∧ Quiet (runCmds sc World.init cmds) :=
  runCmds_rest sc init_rest cmds

/-- **clause 2d**: after `call_out()` the sweep has caught up, `call_out_time = current_time` (so no pending
    entry is overdue: all of them are strictly later, by `Quiet`) -/
theorem sweep_catches_up (sc : Scripts) (cmds : List Cmd) :
    (sweep sc (runCmds sc World.init cmds)).cot = (runCmds sc World.init cmds).now ∧
      Quiet (sweep sc (runCmds sc World.init cmds)) ∧ WheelInv (sweep sc (runCmds sc World.init cmds)) := by
  have h := runCmds_rest sc init_rest cmds
  obtain ⟨a, b, c, _, _⟩ := sweep_ok sc h.1 h.2
  exact ⟨c, b, a⟩

/-- **time_left_exact**: in every reachable state, for the entry at cumulative rotation `D` of slot `s`,
    `time_left(s, D)` is the entry's own second minus `current_time` -/
theorem time_left_exact (sc : Scripts) (cmds : List Cmd) (s : Nat) (p : Int × Call)
    (hp : p ∈ cum 0 ((runCmds sc World.init cmds).slots s)) :
    timeLeft (runCmds sc World.init cmds) s p.1 = p.2.due - (runCmds sc World.init cmds).now := by
  have h := (runCmds_rest sc init_rest cmds).1
  have e := h.ent s p hp
  rw [timeLeft_eq _ s p.1 e.slot, ← e.due]

/-- **handle_unique**: two different pending call_outs never carry the same handle -/
theorem handle_unique (sc : Scripts) (cmds : List Cmd) (c₁ c₂ : Call)
    (h₁ : InWheel (runCmds sc World.init cmds) c₁) (h₂ : InWheel (runCmds sc World.init cmds) c₂)
    (hh : c₁.handle = c₂.handle) : c₁ = c₂ := by
  have hw := (runCmds_rest sc init_rest cmds).1
  have hs := runCmds_sim sc init_rest init_sim cmds
  have := hdesc_handle_inj hs.pendSorted (hs.wheelPend _ h₁) (hs.wheelPend _ h₂) (by simp [toPend, hh])
  exact toPend_inj hw h₁ h₂ this

theorem nonneg_of_sorted : ∀ (xs : List Entry) (acc : Int) (x : Entry), (cum acc (x :: xs)).Pairwise Before →
    ∀ y ∈ xs, 0 ≤ y.delta := by
  intro xs
  induction xs with
  | nil => intro _ _ _ y hy; cases hy
  | cons z zs ih =>
    intro acc x hsort y hy
    simp only [cum_cons] at hsort
    have h2 := List.pairwise_cons.1 hsort
    simp only [List.mem_cons] at hy
    rcases hy with rfl | hy
    · have := before_le (h2.1 (acc + x.delta + y.delta, y.c) (by simp))
      simp only [] at this; omega
    · exact ih (acc + x.delta) z (by simpa using h2.2) y hy

/-- deltas are what the C code assumes: non-negative after the head, positive at the head outside a visit -/
theorem deltas_ok (sc : Scripts) (cmds : List Cmd) (s : Nat) (x : Entry) (xs : List Entry)
    (hl : (runCmds sc World.init cmds).slots s = x :: xs) : 1 ≤ x.delta ∧ ∀ y ∈ xs, 0 ≤ y.delta := by
  obtain ⟨hw, hq⟩ := runCmds_rest sc init_rest cmds
  have hsort := hw.sorted s
  rw [hl] at hsort
  have hq' := hq s
  rw [hl] at hq'
  constructor
  · have := hq' (0 + x.delta, x.c) (by simp)
    simp only [] at this; omega
  · exact nonneg_of_sorted xs 0 x hsort

/-- the model keeps handles in `Nat`; the C code returns them as `int`.  **Explicit side condition** under which
    the two agree: fewer than 2^31 / N call_outs have been created so far (`unique` counts them).  Then every pending
    handle fits a C `int`.  (Beyond that bound `tm += CALLOUT_CYCLE_SIZE * ++unique` overflows; not modelled.) -/
theorem handles_fit_int (sc : Scripts) (cmds : List Cmd) (hb : (runCmds sc World.init cmds).unique < 2 ^ 31 / N)
    (c : Call) (hc : InWheel (runCmds sc World.init cmds) c) : c.handle < 2 ^ 31 := by
  have hw := (runCmds_rest sc init_rest cmds).1
  obtain ⟨s, D, hm⟩ := hc
  have e := hw.ent s _ hm
  have h1 := e.handle
  have h2 := e.serial
  have h3 := e.slot
  simp only [] at h1 h2
  generalize (runCmds sc World.init cmds).unique = u at *
  wheel_omega

/-! ### handles in explicit width (C `int`) -/

/-- `tm += CALLOUT_CYCLE_SIZE * ++unique` evaluated in a C `int` (`trunc32` = what a two's complement machine
    leaves; in C itself the overflow is undefined behaviour) -/
def handleC (tm unique : Nat) : Int := Gen.C10.trunc32 (Gen.C10.handleExpr tm unique)

/-- **full statement under the stated bound**: for every slot and every serial below `2^31 / N - 1` the `int`
    computation is exactly the model's handle `tm + N * (unique + 1)` (positive, never 0, slot recoverable) -/
theorem handleC_exact (tm u : Nat) (htm : tm < N) (hb : u + 1 < 2 ^ 31 / N) :
    handleC tm u = ((tm + N * (u + 1) : Nat) : Int) := by
  have h := tie_handleExpr tm u
  unfold handleC Gen.C10.trunc32
  have h0 : 0 ≤ Gen.C10.handleExpr tm u := by
    unfold Gen.C10.handleExpr; wheel_omega
  have h1 : Gen.C10.handleExpr tm u = ((tm + N * (u + 1) : Nat) : Int) := by omega
  rw [h1]
  wheel_omega

/-- the statement without the bound, for all serials -/
def C10_handles_Full : Prop := ∀ tm u : Nat, tm < N → handleC tm u = ((tm + N * (u + 1) : Nat) : Int)

/-- **witness above the bound** (Lean-checked): the first serial whose handle leaves `int` comes out negative ... -/
theorem handleC_overflow_witness : handleC 0 (2 ^ 31 / N - 1) < 0 := by decide

/-- ... so the full statement is false; `handleC_exact` is the `_partial` version with the explicit bound
    (2^26 - 1 call_outs for N = 32).  Not replayed on the driver: reaching it needs 2^26 call_outs or a hook that
    sets `unique` (see notes/C10.md). -/
theorem C10_handles_Full_false : ¬ C10_handles_Full := by
  intro h
  have h1 := h 0 (2 ^ 31 / N - 1) (by decide)
  have h2 := handleC_overflow_witness
  rw [h1] at h2
  omega

/-- and `2^32 / N` serials later a handle repeats -/
theorem handleC_collision_witness : handleC 5 0 = handleC 5 (2 ^ 32 / N) := by decide

/-! ### the history with `int` handles (`eventsC`): partial theorem, refuted full statement -/

/-- **explicit decidable side condition**: every handle returned by call_out() in this history survives the
    conversion to a C `int` -/
def handlesFit (evs : List Ev) : Bool :=
  evs.all (fun e => match e with
    | .co _ _ _ _ _ h _ _ => decide (Gen.C10.trunc32 h = h)
    | _ => true)

theorem cutAtOverflow_id : ∀ {evs : List Ev}, handlesFit evs = true → cutAtOverflow evs = evs
  | [], _ => rfl
  | e :: es, h => by
    have h' : handlesFit es = true := by
      unfold handlesFit at h ⊢
      simp only [List.all_cons, Bool.and_eq_true] at h
      exact h.2
    have ih := cutAtOverflow_id h'
    cases e with
    | co t o fn d tag hd fp tp =>
      have h1 : Gen.C10.trunc32 hd = hd := by
        unfold handlesFit at h
        simp only [List.all_cons, Bool.and_eq_true, decide_eq_true_eq] at h
        exact h.1
      simp only [cutAtOverflow, h1, if_true, ih]
    | _ => simp only [cutAtOverflow, ih]

/-- **`model_satisfies_spec_int` (the `_partial` statement)**: on every history whose handles fit an `int`, the
    history as the C code with `int` handles produces it (`eventsC`, what `nvdrive C10 model` prints) is accepted
    by the oracle.  Below 2^31 / N - 1 call_outs (`handleC_exact`) the side condition holds. -/
theorem model_satisfies_spec_int (sc : Scripts) (cmds : List Cmd)
    (h : handlesFit (events (runCmds sc World.init cmds)) = true) :
    judgeEv (eventsC (runCmds sc World.init cmds)) = [] := by
  unfold eventsC
  rw [cutAtOverflow_id h]
  exact model_satisfies_spec sc cmds

/-- **the side condition follows from the number of call_outs made**: if after the history fewer than `2^31 / N`
    handle serials are used up (`unique` counts every call_out since boot, the hook only raises it), every handle
    printed in the history fits an `int` -/
theorem handlesFit_of_bound (sc : Scripts) (cmds : List Cmd)
    (hb : (runCmds sc World.init cmds).unique + 1 ≤ 2 ^ 31 / N) :
    handlesFit (events (runCmds sc World.init cmds)) = true := by
  have h := runCmds_hb sc init_hb cmds
  unfold handlesFit events
  rw [List.all_eq_true]
  intro e he
  have he' : e ∈ (runCmds sc World.init cmds).out := List.mem_reverse.1 he
  have hf := h e he'
  cases e with
  | co t o fn d tag hd fp tp =>
    have hm : N * ((runCmds sc World.init cmds).unique + 1) ≤ N * (2 ^ 31 / N) := Nat.mul_le_mul_left _ hb
    have hd2 : N * (2 ^ 31 / N) ≤ 2 ^ 31 := Nat.mul_div_le _ _
    obtain ⟨h0, h1⟩ := hf
    simp only [decide_eq_true_eq]
    unfold Gen.C10.trunc32
    omega
  | _ => rfl

/-- **`model_satisfies_spec_int` under the numeric bound**: for every history that uses fewer than `2^31 / N` handle
    serials, the history with C `int` handles is accepted by the oracle (the bound is tight: `ovf_witness` uses one more) -/
theorem model_satisfies_spec_int_bound (sc : Scripts) (cmds : List Cmd)
    (hb : (runCmds sc World.init cmds).unique + 1 ≤ 2 ^ 31 / N) :
    judgeEv (eventsC (runCmds sc World.init cmds)) = [] :=
  model_satisfies_spec_int sc cmds (handlesFit_of_bound sc cmds hb)

/-- the statement without the side condition -/
def C10_int_Full : Prop := ∀ (sc : Scripts) (cmds : List Cmd), judgeEv (eventsC (runCmds sc World.init cmds)) = []

/-- the witness history (replayed on the real driver by the open known finding C10-handle-overflow): the serial is
    advanced to two below the end of the range, the first call_out still gets a positive `int`, the second overflows -/
def ovfCmds : List Cmd :=
  [.setUnique (2 ^ 31 / N - 2), .op 1 (.co 0 5 "a" false), .op 1 (.co 0 5 "b" false), .adv 5, .sweep]

theorem ovf_witness : judgeEv (eventsC (runCmds (fun _ _ => []) World.init ovfCmds)) ≠ [] := by decide

/-- the first call_out of the witness is still fine (non-vacuity of the side condition right below the bound) -/
example : handlesFit (events (runCmds (fun _ _ => []) World.init (ovfCmds.take 2))) = true := by decide

/-- the bound holds right below the witness: the first call_out of `ovfCmds` uses the last serial -/
example : (runCmds (fun _ _ => []) World.init (ovfCmds.take 2)).unique + 1 ≤ 2 ^ 31 / N := by decide

theorem C10_int_Full_false : ¬ C10_int_Full := fun h => ovf_witness (h _ _)

/-- the efuns return `(int) time_left (...)`; the model applies the same conversion (`efunResult`, generated) and the
    oracle expects a C int (`toCInt`).  **Explicit side condition** under which the conversion is the identity, i.e.
    the answer is the true time left: the entry's second lies within 2^31 seconds of `current_time`
    (delays and backlog below 2^31).  `trunc32` is the generated C `(int)` conversion. -/
theorem time_left_fits_int (sc : Scripts) (cmds : List Cmd) (s : Nat) (p : Int × Call)
    (hp : p ∈ cum 0 ((runCmds sc World.init cmds).slots s))
    (hb : -(2147483648 : Int) ≤ p.2.due - (runCmds sc World.init cmds).now ∧
      p.2.due - (runCmds sc World.init cmds).now < 2147483648) :
    Gen.C10.trunc32 (timeLeft (runCmds sc World.init cmds) s p.1) = timeLeft (runCmds sc World.init cmds) s p.1 := by
  rw [time_left_exact sc cmds s p hp]
  unfold Gen.C10.trunc32
  omega

/-! ### non-vacuity -/

/-- a script table used by the examples: the callback of (o1, "a") schedules "b" into the slot being swept,
    removes "c" and raises an error -/
def exScripts : Scripts := fun o tag =>
  if o = 1 ∧ tag = "a" then [.co 1 32 "b" true, .rmh "c", .fnm 2, .info, .err] else []

def exCmds : List Cmd :=
  [.gop 3 1 (.co 0 1 "a" false), .op 1 (.co 2 5 "c" true), .op 2 (.co 2 70 "d" true), .op 2 (.dest 2), .adv 3, .sweep,
   .op 1 (.fh "b"), .adv 40, .sweep, .adv 100, .sweep]

/-- the example history is non-trivial: 2 fires (a, b: a function-pointer call_out scheduled from inside a callback
    into the slot being swept), a removal from inside a callback, an error, a destructed owner's function-pointer
    call_out dropped with the "owner destructed" error; this_player() = o3 is saved with "a", restored for its
    callback and inherited by "b" -/
example : (events (runCmds exScripts World.init exCmds)).length = 19 := by decide

example : (events (runCmds exScripts World.init exCmds)).filter (fun e => match e with | .fire .. => true | _ => false)
    = [.fire 3 1 0 "a" (some 3), .fire 43 1 1 "b" (some 3)] := by decide

/-- `usage_exact` on the example: one chunk allocated, one call_out still pending -/
example : (runCmds exScripts World.init (exCmds.take 9)).numCall = Gen.C10.chunkSize ∧
    wheelSize (runCmds exScripts World.init (exCmds.take 9)) = 1 := by decide

/-- the side condition of `handles_fit_int` is satisfiable on the non-trivial example history -/
example : (runCmds exScripts World.init exCmds).unique < 2 ^ 31 / N := by decide

/-- the side condition of `time_left_fits_int` holds for the three entries pending before the first sweep of the
    example history -/
example : (List.range N).all (fun s => (cum 0 ((runCmds exScripts World.init (exCmds.take 5)).slots s)).all (fun p =>
    decide (-(2147483648 : Int) ≤ p.2.due - (runCmds exScripts World.init (exCmds.take 5)).now ∧
      p.2.due - (runCmds exScripts World.init (exCmds.take 5)).now < 2147483648))) = true := by decide
example : ((List.range N).map (fun s => ((runCmds exScripts World.init (exCmds.take 5)).slots s).length)).sum = 3 := by
  decide

/-- the oracle is not vacuous: it rejects a late fire, a repeated fire, a wrong answer, a missed call_out -/
example : judgeEv [.co 0 1 0 5 "a" 37 false none, .tickbegin 9, .fire 9 1 0 "a" none, .fire 9 1 0 "a" none, .tickend 9] ≠ [] := by decide
example : judgeEv [.co 0 1 0 5 "a" 37 false none, .tickbegin 4, .fire 4 1 0 "a" none, .tickend 4] ≠ [] := by decide
example : judgeEv [.co 0 1 0 5 "a" 37 false none, .fh 1 1 "a" 5] ≠ [] := by decide
example : judgeEv [.co 0 1 0 5 "a" 37 false none, .tickbegin 5, .tickend 5] ≠ [] := by decide
example : judgeEv [.co 0 1 0 5 "a" 37 false (some 2), .tickbegin 5, .fire 5 1 0 "a" none, .tickend 5] ≠ [] := by decide
example : judgeEv [.co 0 1 0 5 "a" 37 false none, .rmh 2 1 "a" 3, .tickbegin 5, .fire 5 1 0 "a" none, .tickend 5] ≠ [] := by decide

end NV.C10
