/-
C10 — property theorems (statements only live here; helper lemmas in NV/C10/Lemmas.lean).
-/
import NV.C10.Model
import NV.C10.Spec

namespace NV.C10

/-- the wheel size regenerated from the source is a power of two, so `t & (N-1)` is `t % N` -/
theorem N_pow2 : 2 ^ Nat.log2 N = N := by decide

theorem slotOf_eq_mod (t : Nat) : slotOf t = t % N := by
  unfold slotOf
  rw [← N_pow2]
  exact Nat.and_two_pow_sub_one_eq_mod t (Nat.log2 N)

end NV.C10
