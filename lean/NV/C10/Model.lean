/-
C10 — executable model of lib/efuns/call_out.c (timing wheel of delta-encoded lists).

Mirrors, line by line:
  new_call_out            -> `newCallOut`   (slot = (delay+now) & (N-1), rotations, ordered insert with delta split)
  call_out                -> `sweep`        (per-second loop, `call_out_time++` first, head `--delta == 0`, do/while over
                                             zero deltas, destructed-owner drop, per-callback recovery that continues
                                             the sweep)
  time_left               -> `timeLeft`
  remove_call_out[_by_handle], find_call_out[_by_handle], remove_all_call_out, get_all_call_outs

C integers: `delta`/`delay` are `time_t` (signed) -> `Int`; slots use `&&&` exactly as the C code does.
Callbacks into LPC are an oracle: `Scripts` maps (owner, tag) to the list of operations the callback performs
(the correspondence harness installs the same scripts in the real objects).

The model emits *structured events* (`Ev`); `render` (Drive.lean) prints them in the canonical text of the harness.
`Call.due` is a ghost field (the absolute second the call_out is meant for); no decision of the model reads it.
-/
import NV.Gen.C10

namespace NV.C10

/-- wheel size, regenerated from lib/efuns/options.h on every run -/
abbrev N : Nat := NV.Gen.C10.calloutCycleSize

/-- virtual epoch used by the harness (VH_T0) -/
def T0 : Nat := 1000000000

/-- observable events: the canonical output lines of the harness / the model, as data.
    `t` is always the virtual time `current_time - T0` at which the line was printed. -/
inductive Ev where
  | tickbegin (t : Int)
  | tickend (t : Int)
  /-- `h = call_out("co<fn>", d, tag)` by object `o`; `fp`: `call_out((: co<fn> :), d, tag)` (function pointer);
      `tp` = this_player() at that moment (the command_giver new_call_out saves) -/
  | co (t : Int) (o fn : Nat) (d : Int) (tag : String) (h : Int) (fp : Bool) (tp : Option Nat)
  /-- the call_out `co<fn>(tag)` of object `o` runs; `tp` = this_player() inside the callback -/
  | fire (t : Int) (o fn : Nat) (tag : String) (tp : Option Nat)
  /-- `r = remove_call_out(handle of tag)` -/
  | rmh (t : Int) (o : Nat) (tag : String) (r : Int)
  /-- `r = find_call_out(handle of tag)` -/
  | fh (t : Int) (o : Nat) (tag : String) (r : Int)
  /-- `r = remove_call_out("co<fn>")` -/
  | rmn (t : Int) (o fn : Nat) (r : Int)
  /-- `r = find_call_out("co<fn>")` -/
  | fnm (t : Int) (o fn : Nat) (r : Int)
  /-- `remove_call_out()` (all of `o`) -/
  | rmall (t : Int) (o : Nat)
  /-- `reload_object(this_object())` by `o` (drops its call_outs, resets its variables) -/
  | reload (t : Int) (o : Nat)
  /-- mud_status(): `call out: <num_call> ... (current length <len>)` -/
  | usage (t : Int) (numCall len : Nat)
  /-- `o` destructs `x` -/
  | dest (t : Int) (o x : Nat)
  /-- `call_out_info()`: sorted rows (owner, fn, time left) -/
  | info (t : Int) (rows : List (Nat × Nat × Int))
  /-- `error("boom")` raised by `o` -/
  | err (o : Nat)
  /-- call_out() ran a function-pointer call_out whose owner is destructed: call_function_pointer raises an error -/
  | errFpDead
  /-- a top-level apply ended with an error -/
  | opErr (o : Nat)
  /-- a top-level apply on a destructed object -/
  | opDestructed (o : Nat)
  | setScriptDestructed (o : Nat)
  /-- only produced by the line parser (implementation traces): ignorable line -/
  | note (line : String)
  | crash (line : String)
  | sanitizer (line : String)
  | malformed (line : String)
  | unexpected (line : String)
  deriving Repr, DecidableEq

/-- everything in a `pending_call_t` except `delta` -/
structure Call where
  serial : Nat            -- value of `unique` at creation (ghost identity)
  owner : Nat             -- object id
  fn : Nat                -- function "co<fn>"
  tag : String            -- the single argument
  handle : Nat            -- slot + N * serial
  due : Int               -- GHOST: current_time + max delay 1 at creation
  fp : Bool               -- function-pointer call_out: C has `cop->ob == 0`, `owner` is `function.f->hdr.owner`
  giver : Option Nat      -- `cop->command_giver` (THIS_PLAYER_IN_CALL_OUT), as this_player() shows it when saved
  deriving Repr, DecidableEq

structure Entry where
  delta : Int             -- pending_call_t.delta
  c : Call
  deriving Repr, DecidableEq

/-- operations an object can perform (top level or inside a call_out callback) -/
inductive Op where
  | co (fn : Nat) (delay : Int) (tag : String) (fp : Bool)  -- h = call_out("co<fn>" or (: co<fn> :), delay, tag)
  | rmh (tag : String)                          -- remove_call_out(handle of tag)
  | rmn (fn : Nat)                              -- remove_call_out("co<fn>")
  | fh (tag : String)                           -- find_call_out(handle of tag)
  | fnm (fn : Nat)                              -- find_call_out("co<fn>")
  | rmall                                       -- remove_call_out()
  | dest (target : Nat)                         -- destruct(target)
  | err                                         -- error("boom")
  | info                                        -- call_out_info()
  | reload                                      -- reload_object(this_object())
  | usage                                       -- mud_status(): allocated structures and current length
  deriving Repr, DecidableEq

structure World where
  slots : Nat → List Entry
  cot : Nat                                     -- call_out_time (0 = not yet initialised)
  now : Nat                                     -- current_time
  unique : Nat
  dead : List Nat                               -- destructed objects
  hmap : List ((Nat × String) × Nat)            -- per object: tag -> handle (LPC variable `handles`)
  giver : Option Nat                            -- command_giver (none = 0)
  numCall : Nat                                 -- num_call: allocated pending_call_t structures
  busy : Nat                                    -- structures taken out of the wheel and not yet freed (static `cop`)
  out : List Ev                                 -- events, newest first

/-- scripts: what the callback of (owner, tag) does -/
abbrev Scripts := Nat → String → List Op

def World.init : World :=
  { slots := fun _ => [], cot := 0, now := T0, unique := 0, dead := [], hmap := [], giver := none, numCall := 0, busy := 0,
    out := [] }

def setSlot (w : World) (s : Nat) (l : List Entry) : World :=
  { w with slots := fun i => if i = s then l else w.slots i }

def emit (w : World) (e : Ev) : World := { w with out := e :: w.out }

def vnow (w : World) : Int := (w.now : Int) - (T0 : Int)

def isDead (w : World) (o : Nat) : Bool := w.dead.contains o

/-- a saved command_giver as the driver uses it: a destructed one counts as 0
    (`cop->command_giver && !(cop->command_giver->flags & O_DESTRUCTED)`; this_player() does the same test).
    O_LISTENER is never set anywhere in this driver, so the `else if (ob->flags & O_LISTENER)` branch of
    call_out() is dead code and not modelled. -/
def liveGiver (w : World) (g : Option Nat) : Option Nat :=
  match g with
  | some x => if isDead w x then none else some x
  | none => none

/-- ordered insert of new_call_out: walk the list subtracting deltas; insert before the first element whose
    delta is >= the remaining delay and reduce that element's delta.  The comparison and both delta updates
    (`(*copp)->delta -= delay`, `delay -= (*copp)->delta`) are the generated expressions. -/
def insertDelta (l : List Entry) (delay : Int) (c : Call) : List Entry :=
  match l with
  | [] => [{ delta := delay, c := c }]
  | x :: xs =>
    if Gen.C10.insertBefore x.delta delay then
      { delta := delay, c := c } :: { x with delta := Gen.C10.insertSplit x.delta delay } :: xs
    else x :: insertDelta xs (Gen.C10.insertWalk delay x.delta) c

/-- C: `(x) & (CALLOUT_CYCLE_SIZE - 1)` -/
def slotOf (t : Nat) : Nat := t &&& (N - 1)

/-- number of entries pending in the whole wheel (print_call_out_usage: "current length") -/
def wheelSize (w : World) : Nat := ((List.range N).map (fun i => (w.slots i).length)).sum

/-- `if (!call_list_free)`: every allocated structure is in use (pending or being executed) -> allocate a chunk -/
def allocCall (w : World) : Nat :=
  if wheelSize w + w.busy = w.numCall then w.numCall + Gen.C10.chunkSize else w.numCall

/-- new_call_out; returns the handle.  The clamp, the initialisation of `call_out_time`, the slot, the rotation
    count and the handle are the expressions *recovered from the C source* (NV/Gen/C10.lean, props/c10_extract.py),
    evaluated in the order the statements have in the source (checked by the extractor). -/
def newCallOut (w : World) (owner fn : Nat) (tag : String) (delay : Int) (fp : Bool) : World × Nat :=
  let d : Int := Gen.C10.clampDelay delay
  let cot : Nat := (Gen.C10.initCot w.cot w.now).toNat
  let tm : Nat := (Gen.C10.slotExpr d w.now).toNat
  let rot : Int := Gen.C10.rotExpr d w.now cot
  let uniq := w.unique + 1
  let h : Nat := (Gen.C10.handleExpr tm w.unique).toNat
  let c : Call :=
    { serial := uniq, owner := owner, fn := fn, tag := tag, handle := h, due := d + (w.now : Int), fp := fp,
      giver := liveGiver w w.giver }
  let w1 := { w with cot := cot, unique := uniq, numCall := allocCall w }
  (setSlot w1 tm (insertDelta (w1.slots tm) rot c), h)

/-- time_left(slot, delay): the generated expressions of both branches -/
def timeLeft (w : World) (slot : Nat) (delay : Int) : Int :=
  let cur := Gen.C10.curSlotExpr w.cot
  if Gen.C10.timeLeftCond slot cur then Gen.C10.timeLeftThen delay slot cur w.cot w.now
  else Gen.C10.timeLeftElse delay slot cur w.cot w.now

/-- the copy of time_left that get_all_call_outs carries inline (its own generated expressions) -/
def infoTimeLeft (w : World) (j : Nat) (delay : Int) : Int :=
  let tm := Gen.C10.infoSlotExpr w.cot
  if Gen.C10.infoCond j tm then Gen.C10.infoThen delay j tm w.cot w.now
  else Gen.C10.infoElse delay j tm w.cot w.now

/-- search one list for the first entry satisfying `p`; returns (cumulative delta, list without it) -/
def removeFirst (p : Call → Bool) (l : List Entry) (acc : Int) : Option (Int × List Entry) :=
  match l with
  | [] => none
  | x :: xs =>
    if p x.c then
      some (acc + x.delta,
        match xs with
        | [] => []
        | y :: ys => { y with delta := Gen.C10.unlinkDelta y.delta x.delta } :: ys)
    else
      match removeFirst p xs (acc + x.delta) with
      | none => none
      | some r => some (r.1, x :: r.2)

def findFirst (p : Call → Bool) (l : List Entry) (acc : Int) : Option Int :=
  match l with
  | [] => none
  | x :: xs => if p x.c then some (acc + x.delta) else findFirst p xs (acc + x.delta)

/-- `for (i = 0; i < CALLOUT_CYCLE_SIZE; i++)`: first slot (from `i`, at most `fuel` of them) where `f` succeeds -/
def scanFrom {α : Type} (f : Nat → Option α) : Nat → Nat → Option (Nat × α)
  | 0, _ => none
  | fuel + 1, i =>
    match f i with
    | some a => some (i, a)
    | none => scanFrom f fuel (i + 1)

/-- `(*copp)->ob == ob && strcmp ((*copp)->function.s, fun) == 0`: function-pointer entries have `ob == 0` -/
def byName (owner fn : Nat) (c : Call) : Bool :=
  Gen.C10.byNameCond (!c.fp && c.owner == owner) (c.fn == fn)

/-- remove_call_out(ob, fun): slots are scanned in index order -/
def removeByName (w : World) (owner fn : Nat) : World × Int :=
  match scanFrom (fun i => removeFirst (byName owner fn) (w.slots i) 0) N 0 with
  | some (i, r) => (setSlot w i r.2, Gen.C10.efunResult (timeLeft w i r.1))
  | none => (w, -1)

def findByName (w : World) (owner fn : Nat) : Int :=
  match scanFrom (fun i => findFirst (byName owner fn) (w.slots i) 0) N 0 with
  | some (i, d) => Gen.C10.efunResult (timeLeft w i d)
  | none => -1

/-- `handle & (CALLOUT_CYCLE_SIZE - 1)` (generated) -/
def handleSlot (h : Nat) : Nat := (Gen.C10.handleSlotExpr h).toNat

def removeByHandle (w : World) (h : Nat) : World × Int :=
  let s := handleSlot h
  match removeFirst (fun c => c.handle == h) (w.slots s) 0 with
  | some r => (setSlot w s r.2, Gen.C10.efunResult (timeLeft w s r.1))
  | none => (w, -1)

def findByHandle (w : World) (h : Nat) : Int :=
  let s := handleSlot h
  match findFirst (fun c => c.handle == h) (w.slots s) 0 with
  | some d => Gen.C10.efunResult (timeLeft w s d)
  | none => -1

/-- remove every entry satisfying p from one list, folding its delta into the successor -/
def removeAllList (p : Call → Bool) : List Entry → List Entry
  | [] => []
  | x :: xs =>
    if p x.c then
      match xs with
      | [] => []
      | y :: ys => removeAllList p ({ y with delta := Gen.C10.unlinkDelta y.delta x.delta } :: ys)
    else x :: removeAllList p xs
termination_by l => l.length

/-- remove_all_call_out(obj) as the theorems use it: entries of obj and of any destructed object -/
def removeAllSpec (w : World) (owner : Nat) : World :=
  { w with slots := fun i => removeAllList (fun c => c.owner == owner || w.dead.contains c.owner) (w.slots i) }

/-- remove_all_call_out(obj) in the shape of the C code: the regenerated ownership test over `(*copp)->ob`
    (0 for a function-pointer call_out, whose owner is `function.f->hdr.owner`); `removeAll_eq_spec` (LemmasTie.lean) -/
def removeAll (w : World) (owner : Nat) : World :=
  { w with slots := fun i => removeAllList (fun c =>
      Gen.C10.removeAllCond (!c.fp) (!c.fp && c.owner == owner) (!c.fp && w.dead.contains c.owner)
        (c.fp && c.owner == owner) (c.fp && w.dead.contains c.owner)) (w.slots i) }

/-- reload_object(obj): `remove_all_call_out (obj)`; the object's variables are reset (its `handles` mapping) -/
def reloadObj (w : World) (self : Nat) : World :=
  let w := removeAll w self
  { w with hmap := w.hmap.filter (fun p => p.1.1 != self) }

def lookupHandle (w : World) (owner : Nat) (tag : String) : Nat :=
  match w.hmap.find? (fun p => p.1 == (owner, tag)) with
  | some p => p.2
  | none => 0

/-- second column of a call_out_info row: 0 = "<function>", k+1 = "co<k>" (this is also their string order) -/
def fnCode (fp : Bool) (fn : Nat) : Nat := if fp then 0 else fn + 1

/-- the inner loop of get_all_call_outs over one list: rows (owner, name code, time left); only string call_outs
    of destructed objects are skipped (`cop->ob && (cop->ob->flags & O_DESTRUCTED)`) -/
def infoRowsList (w : World) (j : Nat) : List Entry → Int → List (Nat × Nat × Int)
  | [], _ => []
  | x :: xs, acc =>
    let d := acc + x.delta
    let rest := infoRowsList w j xs d
    if Gen.C10.infoSkip (!x.c.fp) (w.dead.contains x.c.owner) then rest
    else (x.c.owner, fnCode x.c.fp x.c.fn, infoTimeLeft w j d) :: rest

/-- get_all_call_outs -/
def infoRows (w : World) : List (Nat × Nat × Int) :=
  (List.range N).flatMap (fun j => infoRowsList w j (w.slots j) 0)

def rowLt (a b : Nat × Nat × Int) : Bool :=
  a.1 < b.1 || (a.1 == b.1 && (a.2.1 < b.2.1 || (a.2.1 == b.2.1 && a.2.2 < b.2.2)))

def insertSorted (x : Nat × Nat × Int) : List (Nat × Nat × Int) → List (Nat × Nat × Int)
  | [] => [x]
  | y :: ys => if rowLt y x then y :: insertSorted x ys else x :: y :: ys

/-- canonicalisation done by the LPC side of the harness (sort_array) -/
def sortRows (l : List (Nat × Nat × Int)) : List (Nat × Nat × Int) := l.foldr insertSorted []

/-- result of running one operation: new world, `true` if an LPC error was raised,
    `true` if the executing object destructed itself (its script stops) -/
structure StepRes where
  w : World
  err : Bool := false
  stop : Bool := false

/-- one operation executed by object `self` -/
def stepOp (w : World) (self : Nat) (op : Op) : StepRes :=
  match op with
  | .co fn delay tag fp =>
    if isDead w self then
      let w := { w with hmap := ((self, tag), 0) :: w.hmap }
      { w := emit w (.co (vnow w) self fn delay tag 0 fp (liveGiver w w.giver)) }
    else
      let r := newCallOut w self fn tag delay fp
      let w' := { r.1 with hmap := ((self, tag), r.2) :: r.1.hmap }
      { w := emit w' (.co (vnow w) self fn delay tag (r.2 : Int) fp (liveGiver w w.giver)) }
  | .rmh tag =>
    let r := removeByHandle w (lookupHandle w self tag)
    { w := emit r.1 (.rmh (vnow w) self tag r.2) }
  | .rmn fn =>
    let r := removeByName w self fn
    { w := emit r.1 (.rmn (vnow w) self fn r.2) }
  | .fh tag =>
    { w := emit w (.fh (vnow w) self tag (findByHandle w (lookupHandle w self tag))) }
  | .fnm fn =>
    { w := emit w (.fnm (vnow w) self fn (findByName w self fn)) }
  | .rmall =>
    { w := emit (removeAll w self) (.rmall (vnow w) self) }
  | .dest t =>
    let w := if isDead w t then w else { w with dead := t :: w.dead }
    { w := emit w (.dest (vnow w) self t), stop := (t == self) }
  | .err =>
    { w := emit w (.err self), err := true }
  | .reload =>
    { w := emit (reloadObj w self) (.reload (vnow w) self) }
  | .usage =>
    { w := emit w (.usage (vnow w) w.numCall (wheelSize w)) }
  | .info =>
    -- the LPC side drops rows whose object has been destructed (function-pointer call_outs of dead owners)
    { w := emit w (.info (vnow w) (sortRows ((infoRows w).filter (fun r => !w.dead.contains r.1)))) }

/-- run a script; stops at the first error or self-destruct.  Returns (world, error raised) -/
def runOps (w : World) (self : Nat) : List Op → World × Bool
  | [] => (w, false)
  | op :: rest =>
    let r := stepOp w self op
    if r.err then (r.w, true)
    else if r.stop then (r.w, false)
    else runOps r.w self rest

/-- the body of the do/while of call_out() for the head `cop` just taken out of the chain, as the theorems use it:
    a destructed owner's string call_out is dropped silently, its function pointer raises "owner destructed" -/
def fireOneSpec (sc : Scripts) (w : World) (cop : Entry) : World :=
  if isDead w cop.c.owner then
    -- string call_out: dropped silently; function pointer: call_function_pointer raises "owner destructed"
    if cop.c.fp then emit w .errFpDead else w
  else
    -- command_giver = the saved one unless it has been destructed
    let w := { w with giver := liveGiver w cop.c.giver, busy := 1 }      -- `cop` is out of the chain, not yet freed
    let w := emit w (.fire (vnow w) cop.c.owner cop.c.fn cop.c.tag w.giver)
    let w := (runOps w cop.c.owner (sc cop.c.owner cop.c.tag)).1
    { w with busy := 0 }                                                  -- free_called_call (cop); cop = 0

/-- the same in the shape of the C code: the drop test is the regenerated `cop->ob && (cop->ob->flags & O_DESTRUCTED)`
    (`cop->ob` is 0 for a function-pointer call_out); otherwise the call is made, and call_function_pointer itself
    refuses a destructed owner.  `fireOne_eq_spec` (LemmasTie.lean) shows the two agree. -/
def fireOne (sc : Scripts) (w : World) (cop : Entry) : World :=
  if Gen.C10.dropCond (!cop.c.fp) (isDead w cop.c.owner) then w
  else if isDead w cop.c.owner then emit w .errFpDead
  else
    let w := { w with giver := liveGiver w cop.c.giver, busy := 1 }
    let w := emit w (.fire (vnow w) cop.c.owner cop.c.fn cop.c.tag w.giver)
    let w := (runOps w cop.c.owner (sc cop.c.owner cop.c.tag)).1
    { w with busy := 0 }

/-- the do/while of call_out(): pop heads while their delta is zero -/
def visit (sc : Scripts) (tm : Nat) : Nat → World → World
  | 0, w => w
  | fuel + 1, w =>
    match w.slots tm with
    | [] => w
    | cop :: rest =>
      let w := fireOne sc (setSlot w tm rest) cop
      match w.slots tm with
      | [] => w
      | h :: _ => if Gen.C10.nextDue h.delta then visit sc tm fuel w else w

/-- one second of call_out().  The position of `call_out_time++` relative to `tm = ...` and to the visit of the
    slot, and the slot expression, are recovered from the source (fix C10: the increment comes first). -/
def sweepSecond (sc : Scripts) (w : World) : World :=
  let cotTm := if Gen.C10.sweepIncBeforeSlot then w.cot + 1 else w.cot
  let tm : Nat := (Gen.C10.sweepSlotExpr cotTm).toNat
  let w := if Gen.C10.sweepIncBeforeVisit then { w with cot := w.cot + 1 } else w
  let w :=
    match w.slots tm with
    | [] => w
    | h :: rest =>
      let h' := { h with delta := Gen.C10.headDec h.delta }
      let w := setSlot w tm (h' :: rest)
      if Gen.C10.headDue h.delta then visit sc tm ((w.slots tm).length) w else w
  if Gen.C10.sweepIncBeforeVisit then w else { w with cot := w.cot + 1 }

def sweepLoop (sc : Scripts) : Nat → World → World
  | 0, w => w
  | fuel + 1, w => if Gen.C10.sweepCond w.cot w.now then sweepLoop sc fuel (sweepSecond sc w) else w

/-- call_out(): `while (call_out_time < current_time)` -/
def sweep (sc : Scripts) (w : World) : World :=
  let save := w.giver                         -- `save_command_giver = command_giver`
  let w := if w.cot = 0 then { w with cot := w.now } else w
  let w := sweepLoop sc (w.now - w.cot) w
  { w with giver := save }                    -- `command_giver = save_command_giver`

/-- top-level commands of a case -/
inductive Cmd where
  | adv (dt : Nat)                  -- current_time += dt
  | sweep                           -- call_out()
  | op (self : Nat) (op : Op)       -- apply do_op on object
  | gop (g self : Nat) (op : Op)    -- the same with command_giver = g (this_player() of the apply)
  | setScript (self : Nat)          -- apply set_script on object (the script table itself is static)
  | setUnique (n : Nat)             -- verif hook verif_call_out_set_unique(n): `if (n > unique) unique = n;`
  deriving Repr

/-- apply do_op on `self` -/
def applyOp (w : World) (self : Nat) (op : Op) : World :=
  if isDead w self then emit w (.opDestructed self)
  else
    let r := runOps w self [op]
    if r.2 then emit r.1 (.opErr self) else r.1

def stepCmd (sc : Scripts) (w : World) : Cmd → World
  | .adv dt => { w with now := w.now + dt }
  | .sweep =>
    let w := emit w (.tickbegin (vnow w))
    let w := sweep sc w
    emit w (.tickend (vnow w))
  | .setScript self => if isDead w self then emit w (.setScriptDestructed self) else w
  | .setUnique n => if n > w.unique then { w with unique := n } else w
  | .op self op => applyOp w self op
  | .gop g self op =>
    -- save_command_giver (g) ... restore_command_giver ()
    let w1 := applyOp { w with giver := liveGiver w (some g) } self op
    { w1 with giver := w.giver }

def runCmds (sc : Scripts) (w : World) (cs : List Cmd) : World := cs.foldl (stepCmd sc) w

/-- the observable history of a run, oldest event first -/
def events (w : World) : List Ev := w.out.reverse

/-! ### C `int` width of the handle

The model keeps `unique` and handles in `Nat`.  In C, `tm += CALLOUT_CYCLE_SIZE * ++unique` is `int` arithmetic: once
the value leaves the `int` range the behaviour is undefined, and the sanitizer build used by the correspondence run
aborts at that statement (before the efun returns, so the `co` line is never printed).  `cutAtOverflow` is this
explicit crash outcome on the level of the history: the first `co` event whose handle does not survive the conversion
to `int` is replaced by the sanitizer report and the crash line, and nothing follows. -/

/-- the product that overflows, as UBSan prints it -/
def overflowText (h : Int) : String :=
  s!"call_out.c(new_call_out): signed integer overflow: {N} * {h / (N : Int)} cannot be represented in type 'int'"

def cutAtOverflow : List Ev → List Ev
  | [] => []
  | .co t o fn d tag h fp tp :: es =>
    if Gen.C10.trunc32 h = h then .co t o fn d tag h fp tp :: cutAtOverflow es
    else [.sanitizer ("sanitizer " ++ overflowText h), .crash "crash exit 1"]
  | e :: es => e :: cutAtOverflow es

/-- the history as the C code (with `int` handles) produces it -/
def eventsC (w : World) : List Ev := cutAtOverflow (events w)

end NV.C10
