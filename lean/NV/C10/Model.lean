/-
C10 — executable model of lib/efuns/call_out.c (timing wheel of delta-encoded lists).

Mirrors, line by line:
  new_call_out            -> `newCallOut`   (slot = (delay+now) & (N-1), rotations, ordered insert with delta split)
  call_out                -> `sweep`        (per-second loop, head `--delta == 0`, do/while over zero deltas,
                                             destructed-owner drop, per-callback recovery that continues the sweep)
  time_left               -> `timeLeft`
  remove_call_out[_by_handle], find_call_out[_by_handle], remove_all_call_out, get_all_call_outs

C integers: `delta`/`delay` are `time_t` (signed) -> `Int`; slots use `&&&` exactly as the C code does.
Callbacks into LPC are an oracle: `Scripts` maps (owner, tag) to the list of operations the callback performs
(the correspondence harness installs the same scripts in the real objects).
-/
import NV.Gen.C10

namespace NV.C10

/-- wheel size, regenerated from lib/efuns/options.h on every run -/
abbrev N : Nat := NV.Gen.C10.calloutCycleSize

/-- virtual epoch used by the harness (VH_T0) -/
def T0 : Nat := 1000000000

structure Entry where
  serial : Nat            -- value of `unique` at creation (ghost identity)
  owner : Nat             -- object id
  fn : Nat                -- function "co<fn>"
  tag : String            -- the single argument
  delta : Int             -- pending_call_t.delta
  handle : Nat            -- slot + N * serial
  deriving Repr, BEq, DecidableEq

/-- operations an object can perform (top level or inside a call_out callback) -/
inductive Op where
  | co (fn : Nat) (delay : Int) (tag : String)   -- h = call_out("co<fn>", delay, tag)
  | rmh (tag : String)                          -- remove_call_out(handle of tag)
  | rmn (fn : Nat)                              -- remove_call_out("co<fn>")
  | fh (tag : String)                           -- find_call_out(handle of tag)
  | fnm (fn : Nat)                              -- find_call_out("co<fn>")
  | rmall                                       -- remove_call_out()
  | dest (target : Nat)                         -- destruct(target)
  | err                                         -- error("boom")
  | info                                        -- call_out_info()
  deriving Repr, BEq

structure World where
  slots : Nat → List Entry
  cot : Nat                                     -- call_out_time (0 = not yet initialised)
  now : Nat                                     -- current_time
  unique : Nat
  dead : List Nat                               -- destructed objects
  hmap : List ((Nat × String) × Nat)            -- per object: tag -> handle (LPC variable `handles`)
  out : List String                             -- canonical output, newest first

/-- scripts: what the callback of (owner, tag) does -/
abbrev Scripts := Nat → String → List Op

def World.init : World :=
  { slots := fun _ => [], cot := 0, now := T0, unique := 0, dead := [], hmap := [], out := [] }

def setSlot (w : World) (s : Nat) (l : List Entry) : World :=
  { w with slots := fun i => if i = s then l else w.slots i }

def emit (w : World) (s : String) : World := { w with out := s :: w.out }

def vnow (w : World) : Int := (w.now : Int) - (T0 : Int)

def isDead (w : World) (o : Nat) : Bool := w.dead.contains o

/-- ordered insert of new_call_out: walk the list subtracting deltas; insert before the first element whose
    delta is >= the remaining delay and reduce that element's delta -/
def insertDelta (l : List Entry) (delay : Int) (e : Entry) : List Entry :=
  match l with
  | [] => [{ e with delta := delay }]
  | x :: xs =>
    if x.delta ≥ delay then { e with delta := delay } :: { x with delta := x.delta - delay } :: xs
    else x :: insertDelta xs (delay - x.delta) e

/-- C: `(x) & (CALLOUT_CYCLE_SIZE - 1)` -/
def slotOf (t : Nat) : Nat := t &&& (N - 1)

/-- new_call_out; returns the handle -/
def newCallOut (w : World) (owner fn : Nat) (tag : String) (delay : Int) : World × Nat :=
  let d : Int := if delay < 1 then 1 else delay
  let cot := if w.cot = 0 then w.now else w.cot
  let due : Int := d + (w.now : Int)
  let tm := slotOf due.toNat
  let rot : Int := 1 + Int.tdiv (due - (cot : Int) - 1) (N : Int)
  let uniq := w.unique + 1
  let h := tm + N * uniq
  let e : Entry := { serial := uniq, owner := owner, fn := fn, tag := tag, delta := 0, handle := h }
  let w1 := { w with cot := cot, unique := uniq }
  (setSlot w1 tm (insertDelta (w1.slots tm) rot e), h)

/-- time_left(slot, delay) -/
def timeLeft (w : World) (slot : Nat) (delay : Int) : Int :=
  let cur := slotOf w.cot
  if slot > cur then (delay - 1) * (N : Int) + ((slot : Int) - (cur : Int)) + (w.cot : Int) - (w.now : Int)
  else delay * (N : Int) + ((slot : Int) - (cur : Int)) + (w.cot : Int) - (w.now : Int)

/-- search one list for the first entry satisfying `p`; returns (cumulative delta, list without it) -/
def removeFirst (p : Entry → Bool) (l : List Entry) (acc : Int) : Option (Int × List Entry) :=
  match l with
  | [] => none
  | x :: xs =>
    if p x then
      some (acc + x.delta,
        match xs with
        | [] => []
        | y :: ys => { y with delta := y.delta + x.delta } :: ys)
    else
      match removeFirst p xs (acc + x.delta) with
      | none => none
      | some (d, xs') => some (d, x :: xs')

def findFirst (p : Entry → Bool) (l : List Entry) (acc : Int) : Option Int :=
  match l with
  | [] => none
  | x :: xs => if p x then some (acc + x.delta) else findFirst p xs (acc + x.delta)

/-- remove_call_out(ob, fun): slots are scanned in index order -/
def removeByName (w : World) (owner fn : Nat) : World × Int :=
  let rec go (fuel i : Nat) : World × Int :=
    match fuel with
    | 0 => (w, -1)
    | fuel + 1 =>
      match removeFirst (fun e => e.owner == owner && e.fn == fn) (w.slots i) 0 with
      | some (d, l') => (setSlot w i l', timeLeft w i d)
      | none => go fuel (i + 1)
  go N 0

def findByName (w : World) (owner fn : Nat) : Int :=
  let rec go (fuel i : Nat) : Int :=
    match fuel with
    | 0 => -1
    | fuel + 1 =>
      match findFirst (fun e => e.owner == owner && e.fn == fn) (w.slots i) 0 with
      | some d => timeLeft w i d
      | none => go fuel (i + 1)
  go N 0

def removeByHandle (w : World) (h : Nat) : World × Int :=
  let s := slotOf h
  match removeFirst (fun e => e.handle == h) (w.slots s) 0 with
  | some (d, l') => (setSlot w s l', timeLeft w s d)
  | none => (w, -1)

def findByHandle (w : World) (h : Nat) : Int :=
  let s := slotOf h
  match findFirst (fun e => e.handle == h) (w.slots s) 0 with
  | some d => timeLeft w s d
  | none => -1

/-- remove every entry satisfying p from one list, folding its delta into the successor -/
def removeAllList (p : Entry → Bool) : List Entry → List Entry
  | [] => []
  | x :: xs =>
    if p x then
      match xs with
      | [] => []
      | y :: ys => removeAllList p ({ y with delta := y.delta + x.delta } :: ys)
    else x :: removeAllList p xs
termination_by l => l.length

/-- remove_all_call_out(obj): entries of obj and of any destructed object -/
def removeAll (w : World) (owner : Nat) : World :=
  { w with slots := fun i => removeAllList (fun e => e.owner == owner || w.dead.contains e.owner) (w.slots i) }

def lookupHandle (w : World) (owner : Nat) (tag : String) : Nat :=
  match w.hmap.find? (fun p => p.1 == (owner, tag)) with
  | some p => p.2
  | none => 0

/-- get_all_call_outs, canonicalised like the LPC side does: sorted rows "<oid>/<fn>/<delay>" -/
def infoRows (w : World) : List (Nat × Nat × Int) :=
  let tm := slotOf w.cot
  let rec rows (j : Nat) (l : List Entry) (acc : Int) : List (Nat × Nat × Int) :=
    match l with
    | [] => []
    | x :: xs =>
      let d := acc + x.delta
      let rest := rows j xs d
      if w.dead.contains x.owner then rest
      else
        let v : Int := if j > tm then (d - 1) * (N : Int) + ((j : Int) - (tm : Int)) + (w.cot : Int) - (w.now : Int)
                       else d * (N : Int) + ((j : Int) - (tm : Int)) + (w.cot : Int) - (w.now : Int)
        (x.owner, x.fn, v) :: rest
  (List.range N).flatMap (fun j => rows j (w.slots j) 0)

def rowLt (a b : Nat × Nat × Int) : Bool :=
  a.1 < b.1 || (a.1 == b.1 && (a.2.1 < b.2.1 || (a.2.1 == b.2.1 && a.2.2 < b.2.2)))

def insertSorted (x : Nat × Nat × Int) : List (Nat × Nat × Int) → List (Nat × Nat × Int)
  | [] => [x]
  | y :: ys => if rowLt y x then y :: insertSorted x ys else x :: y :: ys

def sortRows (l : List (Nat × Nat × Int)) : List (Nat × Nat × Int) := l.foldr insertSorted []

/-- result of running one operation: new world, `true` if an LPC error was raised,
    `true` if the executing object destructed itself (its script stops) -/
structure StepRes where
  w : World
  err : Bool := false
  stop : Bool := false

def pre (w : World) : String := toString (vnow w)

/-- one operation executed by object `self` -/
def stepOp (w : World) (self : Nat) (op : Op) : StepRes :=
  match op with
  | .co fn delay tag =>
    if isDead w self then
      let w := { w with hmap := ((self, tag), 0) :: w.hmap }
      { w := emit w s!"{pre w} r co o{self} {fn} {delay} {tag} 0" }
    else
      let (w, h) := newCallOut w self fn tag delay
      let w := { w with hmap := ((self, tag), h) :: w.hmap }
      { w := emit w s!"{pre w} r co o{self} {fn} {delay} {tag} {h}" }
  | .rmh tag =>
    let (w, r) := removeByHandle w (lookupHandle w self tag)
    { w := emit w s!"{pre w} r rmh o{self} {tag} {r}" }
  | .rmn fn =>
    let (w, r) := removeByName w self fn
    { w := emit w s!"{pre w} r rmn o{self} {fn} {r}" }
  | .fh tag =>
    { w := emit w s!"{pre w} r fh o{self} {tag} {findByHandle w (lookupHandle w self tag)}" }
  | .fnm fn =>
    { w := emit w s!"{pre w} r fn o{self} {fn} {findByName w self fn}" }
  | .rmall =>
    let w := removeAll w self
    { w := emit w s!"{pre w} r rmall o{self}" }
  | .dest t =>
    let w := if isDead w t then w else { w with dead := t :: w.dead }
    { w := emit w s!"{pre w} r dest o{self} o{t}", stop := (t == self) }
  | .err =>
    { w := emit w s!"err *boom o{self}", err := true }
  | .info =>
    let rows := sortRows (infoRows w)
    let txt := String.join (rows.map fun r => s!" o{r.1}/co{r.2.1}/{r.2.2}")
    { w := emit w s!"{pre w} r info{txt}" }

/-- run a script; stops at the first error or self-destruct.  Returns (world, error raised) -/
def runOps (w : World) (self : Nat) : List Op → World × Bool
  | [] => (w, false)
  | op :: rest =>
    let r := stepOp w self op
    if r.err then (r.w, true)
    else if r.stop then (r.w, false)
    else runOps r.w self rest

/-- the do/while of call_out(): pop heads while their delta is zero -/
def visit (sc : Scripts) (tm : Nat) : Nat → World → World
  | 0, w => w
  | fuel + 1, w =>
    match w.slots tm with
    | [] => w
    | cop :: rest =>
      let w := setSlot w tm rest
      let w :=
        if isDead w cop.owner then w
        else
          let w := emit w s!"{pre w} fire o{cop.owner} {cop.fn} {cop.tag}"
          (runOps w cop.owner (sc cop.owner cop.tag)).1
      match w.slots tm with
      | [] => w
      | h :: _ => if h.delta == 0 then visit sc tm fuel w else w

/-- number of entries pending in the whole wheel (fuel bound for `visit`) -/
def wheelSize (w : World) : Nat := ((List.range N).map (fun i => (w.slots i).length)).sum

/-- one second of call_out(): `cot` is advanced *before* the slot is visited (fix: C10) -/
def sweepSecond (sc : Scripts) (w : World) : World :=
  let tm := slotOf (w.cot + 1)
  let w := { w with cot := w.cot + 1 }
  match w.slots tm with
  | [] => w
  | h :: rest =>
    let h' := { h with delta := h.delta - 1 }
    let w := setSlot w tm (h' :: rest)
    if h'.delta == 0 then visit sc tm ((w.slots tm).length) w else w

/-- call_out(): `while (call_out_time < current_time)` -/
def sweep (sc : Scripts) (w : World) : World :=
  let w := if w.cot = 0 then { w with cot := w.now } else w
  let rec loop : Nat → World → World
    | 0, w => w
    | fuel + 1, w => if w.cot < w.now then loop fuel (sweepSecond sc w) else w
  loop (w.now - w.cot) w

/-- top-level commands of a case -/
inductive Cmd where
  | adv (dt : Nat)                  -- current_time += dt
  | sweep                           -- call_out()
  | op (self : Nat) (op : Op)       -- apply do_op on object
  | setScript (self : Nat)          -- apply set_script on object (the script table itself is static)
  deriving Repr

def stepCmd (sc : Scripts) (w : World) : Cmd → World
  | .adv dt => { w with now := w.now + dt }
  | .sweep =>
    let w := emit w s!"{pre w} tickbegin"
    let w := sweep sc w
    emit w s!"{pre w} tickend"
  | .setScript self => if isDead w self then emit w s!"r o{self} set_script !destructed" else w
  | .op self op =>
    if isDead w self then emit w s!"r o{self} do_op !destructed"
    else
      let (w, e) := runOps w self [op]
      if e then emit w s!"r o{self} do_op !err" else w

def runCmds (sc : Scripts) (w : World) (cs : List Cmd) : World := cs.foldl (stepCmd sc) w

end NV.C10
