/-
C10 — audit of the specification oracle: for every clause (every `Violation` kind) histories that must be REJECTED,
and for the tolerant clauses histories that must be accepted.  All by evaluation (`decide`).
Abbreviations: `sch t o fn d tag h` = string call_out by o without this_player.
-/
import NV.C10.Spec

namespace NV.C10

private def sch (t : Int) (o fn : Nat) (d : Int) (tag : String) (h : Int) : Ev := .co t o fn d tag h false none

/-! ticks -/
example : judgeEv [.tickbegin 1, .tickbegin 1] ≠ [] := by decide
example : judgeEv [.tickbegin 1, .tickend 1, .tickbegin 2, .tickbegin 2] ≠ [] := by decide
example : judgeEv [.malformed "x"] ≠ [] := by decide
example : judgeEv [.unexpected "x"] ≠ [] := by decide
example : judgeEv [.crash "crash SIGSEGV"] ≠ [] := by decide
example : judgeEv [.sanitizer "sanitizer heap-use-after-free"] ≠ [] := by decide
example : (judgeEv [.sanitizer "sanitizer x", .crash "crash exit 1"]).length = 1 := by decide      -- one incident, one verdict
example : (judgeEv [.sanitizer "sanitizer x", .tickbegin 1, .crash "crash exit 1"]).length = 1 := by decide
example : (judgeEv [.tickbegin 1, .tickbegin 1, .crash "crash exit 1"]).length = 2 := by decide     -- a crash of its own

/-! fires exactly once, not early, by the first tick at or after its time -/
example : judgeEv [sch 0 1 0 5 "a" 37, .tickbegin 5, .tickend 5] ≠ [] := by decide                       -- missed
example : judgeEv [sch 0 1 0 5 "a" 37, .tickbegin 7, .tickend 7, .tickbegin 8, .fire 8 1 0 "a" none, .tickend 8] ≠ [] := by
  decide                                                                                                -- one tick late
example : judgeEv [sch 0 1 0 0 "a" 33, .tickbegin 1, .tickend 1] ≠ [] := by decide                       -- delay 0 means 1
example : judgeEv [sch 0 1 0 (-3) "a" 33, .tickbegin 1, .tickend 1] ≠ [] := by decide
example : judgeEv [sch 0 1 0 5 "a" 37, .tickbegin 4, .fire 4 1 0 "a" none, .tickend 4] ≠ [] := by decide  -- early
example : judgeEv [sch 0 1 0 5 "a" 37, .tickbegin 5, .fire 5 1 0 "a" none, .fire 5 1 0 "a" none, .tickend 5] ≠ [] := by
  decide                                                                                                -- twice
example : judgeEv [sch 0 1 0 5 "a" 37, .tickbegin 5, .fire 5 1 0 "a" none, .tickend 5, .tickbegin 37,
    .fire 37 1 0 "a" none, .tickend 37] ≠ [] := by decide                                                -- again a turn later
example : judgeEv [sch 0 1 0 5 "a" 37, .tickbegin 5, .fire 5 1 0 "b" none, .tickend 5] ≠ [] := by decide  -- wrong argument
example : judgeEv [sch 0 1 0 5 "a" 37, .tickbegin 5, .fire 5 1 1 "a" none, .tickend 5] ≠ [] := by decide  -- wrong function
example : judgeEv [sch 0 1 0 5 "a" 37, .tickbegin 5, .fire 5 2 0 "a" none, .tickend 5] ≠ [] := by decide  -- wrong object
example : judgeEv [sch 0 1 0 5 "a" 37, .fire 5 1 0 "a" none] ≠ [] := by decide                            -- outside call_out()
example : judgeEv [.tickbegin 5, .fire 5 1 0 "a" none, .tickend 5] ≠ [] := by decide                       -- never scheduled
example : judgeEv [sch 0 1 0 5 "a" 37, .tickbegin 9, .fire 9 1 0 "a" none, .tickend 9] = [] := by decide   -- backlog: accepted

/-! call_out() itself -/
example : judgeEv [sch 0 1 0 5 "a" 0] ≠ [] := by decide                                                  -- refused
example : judgeEv [sch 0 1 0 5 "a" 37, sch 0 1 0 5 "b" 37] ≠ [] := by decide                              -- handle reused
example : judgeEv [sch 0 1 0 5 "a" 37, .rmh 1 1 "a" 4, sch 1 1 0 5 "b" 37] ≠ [] := by decide              -- ... even after removal
example : judgeEv [.dest 0 2 1, sch 0 1 0 5 "a" 37] ≠ [] := by decide                                     -- by a destructed object
example : judgeEv [.dest 0 2 1, sch 0 1 0 5 "a" 0] = [] := by decide

/-! destructed owners -/
example : judgeEv [sch 0 1 0 5 "a" 37, .dest 1 2 1, .tickbegin 5, .fire 5 1 0 "a" none, .tickend 5] ≠ [] := by decide
example : judgeEv [sch 0 1 0 5 "a" 37, .dest 1 2 1, .tickbegin 5, .tickend 5] = [] := by decide           -- dropped: accepted
example : judgeEv [sch 0 1 0 5 "a" 37, .dest 1 2 1, .tickbegin 5, .tickend 5, .tickbegin 6, .fire 6 1 0 "a" none,
    .tickend 6] ≠ [] := by decide
example : judgeEv [.co 0 1 0 5 "a" 37 true none, .dest 1 2 1, .tickbegin 5, .fire 5 1 0 "a" none, .tickend 5] ≠ [] := by
  decide                                                                                                -- function pointer too

/-! this_player() -/
example : judgeEv [.co 0 1 0 5 "a" 37 false (some 2), .tickbegin 5, .fire 5 1 0 "a" none, .tickend 5] ≠ [] := by decide
example : judgeEv [.co 0 1 0 5 "a" 37 false (some 2), .tickbegin 5, .fire 5 1 0 "a" (some 3), .tickend 5] ≠ [] := by decide
example : judgeEv [.co 0 1 0 5 "a" 37 false none, .tickbegin 5, .fire 5 1 0 "a" (some 1), .tickend 5] ≠ [] := by decide
example : judgeEv [.co 0 1 0 5 "a" 37 false (some 2), .dest 1 1 2, .tickbegin 5, .fire 5 1 0 "a" (some 2), .tickend 5] ≠ [] := by
  decide                                                                                                -- destructed giver
example : judgeEv [.co 0 1 0 5 "a" 37 false (some 2), .dest 1 1 2, .tickbegin 5, .fire 5 1 0 "a" none, .tickend 5] = [] := by
  decide

/-! remove / find by handle -/
example : judgeEv [sch 0 1 0 5 "a" 37, .rmh 2 1 "a" 4] ≠ [] := by decide                                  -- wrong time left
example : judgeEv [sch 0 1 0 5 "a" 37, .rmh 2 1 "a" (-1)] ≠ [] := by decide                               -- "not found" while pending
example : judgeEv [.rmh 2 1 "a" 3] ≠ [] := by decide                                                      -- something from nothing
example : judgeEv [sch 0 1 0 5 "a" 37, .rmh 2 1 "a" 3, .rmh 2 1 "a" 3] ≠ [] := by decide                  -- removed twice
example : judgeEv [sch 0 1 0 5 "a" 37, .rmh 2 1 "a" 3, .tickbegin 5, .fire 5 1 0 "a" none, .tickend 5] ≠ [] := by decide
example : judgeEv [sch 0 1 0 5 "a" 37, .rmh 2 2 "a" 3] ≠ [] := by decide                                  -- another object's tag
example : judgeEv [sch 0 1 0 5 "a" 37, .fh 2 1 "a" 5] ≠ [] := by decide
example : judgeEv [sch 0 1 0 5 "a" 37, .fh 2 1 "a" (-1)] ≠ [] := by decide
example : judgeEv [.fh 2 1 "a" 0] ≠ [] := by decide
example : judgeEv [sch 0 1 0 5 "a" 37, .rmh 2 1 "a" 3, .fh 2 1 "a" 3] ≠ [] := by decide                   -- found after removal
example : judgeEv [sch 0 1 0 5 "a" 37, .fh 2 1 "a" 3, .fh 3 1 "a" 2, .rmh 4 1 "a" 1] = [] := by decide
example : judgeEv [sch 0 1 0 5 "a" 37, .tickbegin 9, .fh 9 1 "a" (-4), .fire 9 1 0 "a" none, .tickend 9] = [] := by
  decide                                                                                                -- overdue during backlog

/-! remove / find by name -/
example : judgeEv [.rmn 2 1 0 3] ≠ [] := by decide
example : judgeEv [sch 0 1 0 5 "a" 37, .rmn 2 1 0 4] ≠ [] := by decide
example : judgeEv [sch 0 1 0 5 "a" 37, .rmn 2 1 0 (-1)] ≠ [] := by decide
example : judgeEv [sch 0 1 0 5 "a" 37, .rmn 2 1 1 3] ≠ [] := by decide                                    -- other function
example : judgeEv [sch 0 1 0 5 "a" 37, .rmn 2 2 0 3] ≠ [] := by decide                                    -- other object
example : judgeEv [.co 0 1 0 5 "a" 37 true none, .rmn 2 1 0 3] ≠ [] := by decide                           -- a function pointer has no name
example : judgeEv [sch 0 1 0 5 "a" 37, .rmn 2 1 0 3, .tickbegin 5, .fire 5 1 0 "a" none, .tickend 5] ≠ [] := by decide
example : judgeEv [sch 0 1 0 5 "a" 37, sch 0 1 0 9 "b" 73, .rmn 2 1 0 3, .tickbegin 9, .fire 9 1 0 "b" none, .tickend 9] = [] := by
  decide
example : judgeEv [sch 0 1 0 5 "a" 37, sch 0 1 0 9 "b" 73, .rmn 2 1 0 3, .tickbegin 9, .fire 9 1 0 "a" none, .tickend 9] ≠ [] := by
  decide                                                                                                -- the other one was removed
example : judgeEv [.fnm 2 1 0 3] ≠ [] := by decide
example : judgeEv [sch 0 1 0 5 "a" 37, .fnm 2 1 0 4] ≠ [] := by decide
example : judgeEv [sch 0 1 0 5 "a" 37, .fnm 2 1 0 (-1)] ≠ [] := by decide
example : judgeEv [.co 0 1 0 5 "a" 37 true none, .fnm 2 1 0 3] ≠ [] := by decide

/-! the answers are C ints -/
example : judgeEv [sch 0 1 0 2147483648 "a" 37, .fh 0 1 "a" 2147483648] ≠ [] := by decide
example : judgeEv [sch 0 1 0 2147483648 "a" 37, .fh 0 1 "a" (-2147483648)] = [] := by decide
example : judgeEv [sch 0 1 0 4294967301 "a" 37, .rmh 0 1 "a" 5] = [] := by decide
example : judgeEv [sch 0 1 0 4294967301 "a" 37, .rmh 0 1 "a" 6] ≠ [] := by decide
/-- two call_outs of one name whose times are 2^32 s apart give the same answer: the earlier one is removed -/
example : judgeEv [sch 0 1 0 7 "a" 39, sch 0 1 0 4294967303 "b" 71, .rmn 0 1 0 7, .fh 0 1 "a" (-1), .fh 0 1 "b" 7] = [] := by
  decide
example : judgeEv [sch 0 1 0 7 "a" 39, sch 0 1 0 4294967303 "b" 71, .rmn 0 1 0 7, .fh 0 1 "b" (-1)] ≠ [] := by decide

/-! remove all / reload -/
example : judgeEv [sch 0 1 0 5 "a" 37, .rmall 1 1, .tickbegin 5, .fire 5 1 0 "a" none, .tickend 5] ≠ [] := by decide
example : judgeEv [sch 0 1 0 5 "a" 37, .rmall 1 1, .fh 1 1 "a" 4] ≠ [] := by decide
example : judgeEv [sch 0 1 0 5 "a" 37, .rmall 1 2, .tickbegin 5, .tickend 5] ≠ [] := by decide            -- other object's stay
example : judgeEv [.co 0 1 0 5 "a" 37 true none, .rmall 1 1, .tickbegin 5, .fire 5 1 0 "a" none, .tickend 5] ≠ [] := by decide
example : judgeEv [sch 0 1 0 5 "a" 37, .reload 1 1, .tickbegin 5, .fire 5 1 0 "a" none, .tickend 5] ≠ [] := by decide
example : judgeEv [sch 0 1 0 5 "a" 37, .reload 1 1, sch 1 1 0 9 "b" 74, .fh 1 1 "a" 4] ≠ [] := by decide  -- handles forgotten
example : judgeEv [sch 0 1 0 5 "a" 37, .reload 1 1, .fh 1 1 "a" (-1), .info 1 []] = [] := by decide

/-! call_out_info -/
example : judgeEv [sch 0 1 0 5 "a" 37, .info 2 []] ≠ [] := by decide                                      -- missing
example : judgeEv [.info 2 [(1, 1, 3)]] ≠ [] := by decide                                                 -- extra
example : judgeEv [sch 0 1 0 5 "a" 37, .info 2 [(1, 1, 4)]] ≠ [] := by decide                             -- wrong time
example : judgeEv [sch 0 1 0 5 "a" 37, .info 2 [(1, 2, 3)]] ≠ [] := by decide                             -- wrong name
example : judgeEv [sch 0 1 0 5 "a" 37, .info 2 [(1, 1, 3), (1, 1, 3)]] ≠ [] := by decide                  -- listed twice
example : judgeEv [.co 0 1 0 5 "a" 37 true none, .info 2 [(1, 1, 3)]] ≠ [] := by decide                    -- a pointer listed by name
example : judgeEv [.co 0 1 0 5 "a" 37 true none, .info 2 [(1, 0, 3)]] = [] := by decide
example : judgeEv [sch 0 1 0 5 "a" 37, .dest 1 2 1, .info 2 [(1, 1, 3)]] ≠ [] := by decide                -- destructed owner listed
example : judgeEv [sch 0 1 0 2147483648 "a" 37, .info 0 [(1, 1, -2147483648)]] ≠ [] := by decide         -- info is not converted

/-- the regenerated `CHUNK_SIZE` (the examples are stated relative to it) -/
private abbrev CH : Nat := Gen.C10.chunkSize

/-! print_call_out_usage: current length = number of pending call_outs; num_call = whole chunks, covers what is in
    use, never more than one chunk above the largest number ever in use (a leaked structure shows up here) -/
example : judgeEv [.usage 0 0 0] = [] := by decide
example : judgeEv [sch 0 1 0 5 "a" 37, .usage 0 CH 1] = [] := by decide
example : judgeEv [sch 0 1 0 5 "a" 37, .usage 0 CH 0] ≠ [] := by decide                                   -- a pending one not counted
example : judgeEv [sch 0 1 0 5 "a" 37, .usage 0 CH 2] ≠ [] := by decide                                   -- counted twice
example : judgeEv [sch 0 1 0 5 "a" 37, .rmh 1 1 "a" 4, .usage 1 CH 1] ≠ [] := by decide                   -- removed but still counted
example : judgeEv [sch 0 1 0 5 "a" 37, .usage 0 0 1] ≠ [] := by decide                                    -- fewer allocated than in use
example : judgeEv [sch 0 1 0 5 "a" 37, .usage 0 (CH - 1) 1] ≠ [] := by decide                                   -- not a whole chunk
example : judgeEv [sch 0 1 0 5 "a" 37, .usage 0 (2 * CH) 1] ≠ [] := by decide                                   -- a chunk nobody needed (leak)
example : judgeEv [sch 0 1 0 5 "a" 37, .tickbegin 5, .fire 5 1 0 "a" none, .usage 5 CH 0, .tickend 5, .usage 5 CH 0] = [] := by
  decide
example : judgeEv [sch 0 1 0 5 "a" 37, .dest 1 2 1, .usage 1 CH 1, .tickbegin 5, .tickend 5, .usage 5 CH 0] = [] := by
  decide                                                                                                -- dropped at its time
example : judgeEv [sch 0 1 0 5 "a" 37, .dest 1 2 1, .tickbegin 5, .usage 5 CH 1, .tickend 5] = [] := by decide  -- or not yet
example : judgeEv [sch 0 1 0 5 "a" 37, .dest 1 2 1, .usage 1 CH 0] ≠ [] := by decide                      -- too early to drop

end NV.C10
