/-
C10 — the tie obligations: the expressions that props/c10_extract.py recovers from lib/efuns/call_out.c
(NV/Gen/C10.lean, regenerated on every check) are the formulas the theorems are about.  If somebody changes a
formula, the statement order of new_call_out()/call_out(), or one of the two copies of time_left in the C source,
the corresponding `tie_*` lemma no longer proves and the check reports a broken obligation.
-/
import NV.C10.LemmasArith

namespace NV.C10

open NV.Gen.C10

/-- `if (delay < 1) delay = 1` -/
theorem tie_clampDelay (d : Int) : clampDelay d = if d < 1 then 1 else d := rfl

/-- `if (!call_out_time) call_out_time = current_time` -/
theorem tie_initCot (cot now : Nat) : (initCot cot now).toNat = if cot = 0 then now else cot := by
  unfold initCot
  by_cases h : cot = 0
  · simp [h]
  · simp [h]

theorem trunc32_small (x : Int) (h0 : 0 ≤ x) (h1 : x < N) : trunc32 x = x := by
  unfold trunc32
  wheel_omega

/-- `x & (CALLOUT_CYCLE_SIZE - 1)` is the model's `slotOf` -/
theorem cAnd_mask (a : Int) : cAnd a ((calloutCycleSize : Int) - 1) = (slotOf a.toNat : Int) := by
  unfold cAnd slotOf
  have : ((calloutCycleSize : Int) - 1).toNat = N - 1 := by decide
  rw [this]

theorem mask_expr (a : Int) : trunc32 (cAnd a ((calloutCycleSize : Int) - 1)) = (slotOf a.toNat : Int) := by
  rw [cAnd_mask]
  have := slotOf_lt a.toNat
  exact trunc32_small _ (by omega) (by omega)

/-- `tm = (delay + current_time) & (CALLOUT_CYCLE_SIZE - 1)` -/
theorem tie_slotExpr (d : Int) (now : Nat) : (slotExpr d now).toNat = slotOf (d + (now : Int)).toNat := by
  unfold slotExpr
  rw [mask_expr]
  exact Int.toNat_natCast _

/-- `delay = 1 + (delay + current_time - call_out_time - 1) / CALLOUT_CYCLE_SIZE` -/
theorem tie_rotExpr (d : Int) (now cot : Nat) :
    rotExpr d now cot = 1 + Int.tdiv (d + (now : Int) - (cot : Int) - 1) (N : Int) := rfl

/-- `tm += CALLOUT_CYCLE_SIZE * ++unique` -/
theorem tie_handleExpr (tm u : Nat) : (handleExpr tm u).toNat = tm + N * (u + 1) := by
  unfold handleExpr
  wheel_omega

/-- time_left: `current_slot = call_out_time & (CALLOUT_CYCLE_SIZE - 1)` -/
theorem tie_curSlot (cot : Nat) : curSlotExpr cot = (slotOf cot : Int) := by
  unfold curSlotExpr
  rw [mask_expr, Int.toNat_natCast]

/-- both branches of time_left -/
theorem tie_timeLeft (w : World) (slot : Nat) (delay : Int) :
    timeLeft w slot delay =
      if slot > slotOf w.cot then
        (delay - 1) * (N : Int) + ((slot : Int) - (slotOf w.cot : Int)) + (w.cot : Int) - (w.now : Int)
      else delay * (N : Int) + ((slot : Int) - (slotOf w.cot : Int)) + (w.cot : Int) - (w.now : Int) := by
  unfold timeLeft timeLeftCond timeLeftThen timeLeftElse
  simp only [tie_curSlot]
  by_cases h : slot > slotOf w.cot
  · have : ((slot : Int) > (slotOf w.cot : Int)) := by omega
    simp only [h, this, decide_true, if_true]
  · have : ¬ ((slot : Int) > (slotOf w.cot : Int)) := by omega
    simp only [h, this, decide_false, if_false, Bool.false_eq_true]

/-- the copy of time_left inside get_all_call_outs is the same function -/
theorem tie_infoTimeLeft (w : World) (j : Nat) (delay : Int) : infoTimeLeft w j delay = timeLeft w j delay := rfl

/-- call_out(): `call_out_time++` comes before `tm = ...` and before the callbacks of the second (fix C10) -/
theorem tie_sweepOrder : sweepIncBeforeSlot = true ∧ sweepIncBeforeVisit = true := ⟨rfl, rfl⟩

/-- call_out(): `tm = call_out_time & (CALLOUT_CYCLE_SIZE - 1)` -/
theorem tie_sweepSlot (cot : Nat) : (sweepSlotExpr cot).toNat = slotOf cot := by
  unfold sweepSlotExpr
  rw [mask_expr, Int.toNat_natCast, Int.toNat_natCast]

/-- call_out(): `while (call_out_time < current_time)` -/
theorem tie_sweepCond (cot now : Nat) : sweepCond cot now = decide (cot < now) := by
  unfold sweepCond
  by_cases h : cot < now
  · have : (cot : Int) < now := by omega
    simp [h, this]
  · have : ¬ (cot : Int) < now := by omega
    simp [h, this]

/-- new_call_out: the ordered insert stops at the first entry with `(*copp)->delta >= delay` -/
theorem tie_insertBefore (a b : Int) : insertBefore a b = decide (a ≥ b) := rfl

/-- remove/find_call_out_by_handle: `handle & (CALLOUT_CYCLE_SIZE - 1)` -/
theorem tie_handleSlot (h : Nat) : handleSlot h = slotOf h := by
  unfold handleSlot handleSlotExpr
  rw [cAnd_mask, Int.toNat_natCast, Int.toNat_natCast]

/-- the efun helpers return `(int) time_left (...)` -/
theorem tie_efunResult (x : Int) : efunResult x = trunc32 x := rfl

/-- call_out(): `--call_list[tm]->delta == 0` (argument = the value before the decrement) -/
theorem tie_headDue (d : Int) : headDue d = (d - 1 == 0) := by
  unfold headDue
  by_cases h : d - 1 = 0 <;> simp [h]

/-- call_out(): `while (call_list[tm] && call_list[tm]->delta == 0)` -/
theorem tie_nextDue (d : Int) : nextDue d = (d == 0) := by
  unfold nextDue
  by_cases h : d = 0 <;> simp [h]

/-- **time_left is exact** (clause 2a): for the entry at cumulative rotation `D` of slot `s`,
    `time_left(s, D) = dueOf s cot D - now` -/
theorem timeLeft_eq (w : World) (s : Nat) (D : Int) (hs : s < N) :
    timeLeft w s D = dueOf s w.cot D - w.now := by
  rw [tie_timeLeft]
  unfold dueOf
  split <;> wheel_omega

/-! ### list surgery (round 4) -/

/-- `cop->next->delta += cop->delta` in remove_call_out, remove_call_out_by_handle, remove_all_call_out (the extractor
    checks that the three copies agree) -/
theorem tie_unlinkDelta (a b : Int) : Gen.C10.unlinkDelta a b = a + b := rfl

/-- `(*copp)->delta -= delay` in the insert branch of new_call_out -/
theorem tie_insertSplit (delta delay : Int) : Gen.C10.insertSplit delta delay = delta - delay := rfl

/-- `delay -= (*copp)->delta` when new_call_out walks past an entry -/
theorem tie_insertWalk (delay delta : Int) : Gen.C10.insertWalk delay delta = delay - delta := rfl

/-- `--call_list[tm]->delta` in call_out() -/
theorem tie_headDec (delta : Int) : Gen.C10.headDec delta = delta - 1 := rfl

/-- the head test of call_out() is a test of the decremented value: `headDue d` iff `headDec d = 0` -/
theorem tie_headDue_dec (delta : Int) : Gen.C10.headDue delta = decide (Gen.C10.headDec delta = 0) := rfl

/-! ### owner tests (round 4) -/

/-- call_out(): `cop->ob && (cop->ob->flags & O_DESTRUCTED)` -/
theorem tie_dropCond (a b : Bool) : Gen.C10.dropCond a b = (a && b) := rfl

/-- get_all_call_outs: `if (cop->ob && (cop->ob->flags & O_DESTRUCTED)) continue;` -/
theorem tie_infoSkip (a b : Bool) : Gen.C10.infoSkip a b = (a && b) := rfl

/-- get_all_call_outs: the counting loop and the row loop agree (the array has exactly one element per row) -/
theorem tie_infoCount (a b : Bool) : Gen.C10.infoCount a b = !Gen.C10.infoSkip a b := by
  cases a <;> cases b <;> rfl

/-- the C-shaped `fireOne` is the one the theorems are about -/
theorem fireOne_eq_spec (sc : Scripts) (w : World) (cop : Entry) : fireOne sc w cop = fireOneSpec sc w cop := by
  unfold fireOne fireOneSpec
  rw [tie_dropCond]
  cases cop.c.fp <;> cases isDead w cop.c.owner <;> rfl

/-! ### ownership tests (round 5) -/

/-- remove_call_out / find_call_out: `cop->ob == ob && strcmp (cop->function.s, fun) == 0` (both copies agree) -/
theorem tie_byNameCond (a b : Bool) : Gen.C10.byNameCond a b = (a && b) := rfl

/-- remove_all_call_out: with `ob` = 0 exactly for function pointers, the nested test is "owner is obj or destructed",
    for string call_outs through `ob`, for function pointers through `function.f->hdr.owner` -/
theorem tie_removeAllCond (fp a d : Bool) :
    Gen.C10.removeAllCond (!fp) (!fp && a) (!fp && d) (fp && a) (fp && d) = (a || d) := by
  cases fp <;> cases a <;> cases d <;> rfl

theorem removeAll_eq_spec (w : World) (owner : Nat) : removeAll w owner = removeAllSpec w owner := by
  unfold removeAll removeAllSpec
  simp only [tie_removeAllCond]

end NV.C10
