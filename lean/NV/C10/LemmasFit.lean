/-
C10 — every handle printed in a history is bounded by the number of call_outs made so far (`unique`):
invariant `HB` along `stepOp`, `runOps`, `fireOne`, `visit`, `sweep`, `stepCmd`, `runCmds` (no hypotheses: the only
facts used are that events are only appended and that `unique` never decreases).  Links the decidable side
condition `handlesFit` of the int-width theorem to the bound `unique + 1 ≤ 2^31 / N`.
-/
import NV.C10.LemmasUsageRun

namespace NV.C10

/-- a `co` event carries a handle that new_call_out can have produced with at most `u` call_outs made -/
def coFits (u : Nat) : Ev → Prop
  | .co _ _ _ _ _ h _ _ => 0 ≤ h ∧ h < ((N * (u + 1) : Nat) : Int)
  | _ => True

def HB (w : World) : Prop := ∀ e ∈ w.out, coFits w.unique e

theorem coFits.mono {u u' : Nat} (h : u ≤ u') {e : Ev} (he : coFits u e) : coFits u' e := by
  cases e with
  | co t o fn d tag hd fp tp =>
    have hm : N * (u + 1) ≤ N * (u' + 1) := Nat.mul_le_mul_left _ (by omega)
    exact ⟨he.1, by have := he.2; omega⟩
  | _ => trivial

theorem HB.congr {w w' : World} (hb : HB w) (hout : w'.out = w.out) (hu : w.unique ≤ w'.unique) : HB w' := by
  intro e he
  rw [hout] at he
  exact (hb e he).mono hu

theorem HB.emit {w w' : World} {ev : Ev} (hb : HB w) (hout : w'.out = w.out) (hu : w.unique ≤ w'.unique)
    (hev : coFits w'.unique ev) : HB (emit w' ev) := by
  intro e he
  have he' : e = ev ∨ e ∈ w'.out := List.mem_cons.1 he
  rcases he' with rfl | he'
  · exact hev
  · rw [hout] at he'
    exact (hb e he').mono hu

theorem removeByHandle_unique (w : World) (h : Nat) : (removeByHandle w h).1.unique = w.unique := by
  unfold removeByHandle; simp only []; split <;> rfl

theorem removeByName_unique (w : World) (o f : Nat) : (removeByName w o f).1.unique = w.unique := by
  unfold removeByName; split <;> rfl

theorem stepOp_hb {w : World} (hb : HB w) (self : Nat) (op : Op) : HB (stepOp w self op).w := by
  cases op with
  | co fn delay tag fp =>
    unfold stepOp
    simp only []
    split
    · refine HB.emit (w := w) hb rfl (Nat.le_refl _) ?_
      refine ⟨Int.le_refl _, ?_⟩
      have : 0 < N * (w.unique + 1) := Nat.mul_pos (by decide) (by omega)
      show (0 : Int) < ((N * (w.unique + 1) : Nat) : Int)
      omega
    · have h1 := newCallOut_fst w self fn tag delay fp
      have h2 := newCallOut_snd w self fn tag delay fp
      have hu : (newCallOut w self fn tag delay fp).1.unique = w.unique + 1 := by rw [h1]; rfl
      have ho : (newCallOut w self fn tag delay fp).1.out = w.out := by rw [h1]; rfl
      have hs : coSlot w delay < N := slotOf_lt _
      refine HB.emit (w := w) hb ho (by show w.unique ≤ (newCallOut w self fn tag delay fp).1.unique; omega) ?_
      show (0 : Int) ≤ ((newCallOut w self fn tag delay fp).2 : Int) ∧
        (((newCallOut w self fn tag delay fp).2 : Nat) : Int) < ((N * ((newCallOut w self fn tag delay fp).1.unique + 1) : Nat) : Int)
      rw [h2, hu]
      have : N * (w.unique + 1 + 1) = N * (w.unique + 1) + N := by rw [Nat.mul_add N (w.unique + 1) 1, Nat.mul_one]
      constructor
      · omega
      · omega
  | rmh tag =>
    exact HB.emit hb (removeByHandle_frame w _).1 (Nat.le_of_eq (removeByHandle_unique w _).symm) trivial
  | rmn fn =>
    exact HB.emit hb (removeByName_frame w self fn).1 (Nat.le_of_eq (removeByName_unique w self fn).symm) trivial
  | fh tag => exact HB.emit (w' := w) hb rfl (Nat.le_refl _) trivial
  | fnm fn => exact HB.emit (w' := w) hb rfl (Nat.le_refl _) trivial
  | rmall => exact HB.emit (w' := removeAll w self) hb rfl (Nat.le_refl _) trivial
  | dest t =>
    unfold stepOp
    simp only []
    refine HB.emit hb ?_ ?_ trivial
    · split <;> rfl
    · split <;> exact Nat.le_refl _
  | err => exact HB.emit (w' := w) hb rfl (Nat.le_refl _) trivial
  | info => exact HB.emit (w' := w) hb rfl (Nat.le_refl _) trivial
  | reload => exact HB.emit (w' := reloadObj w self) hb rfl (Nat.le_refl _) trivial
  | usage => exact HB.emit (w' := w) hb rfl (Nat.le_refl _) trivial

theorem runOps_hb {w : World} (hb : HB w) (self : Nat) (ops : List Op) : HB (runOps w self ops).1 := by
  induction ops generalizing w with
  | nil => exact hb
  | cons op rest ih =>
    unfold runOps
    simp only []
    have h1 := stepOp_hb hb self op
    split
    · exact h1
    · split
      · exact h1
      · exact ih h1

theorem fireOne_hb (sc : Scripts) {w : World} (hb : HB w) (cop : Entry) : HB (fireOne sc w cop) := by
  rw [fireOne_eq_spec]
  unfold fireOneSpec
  split
  · split
    · exact HB.emit (w' := w) hb rfl (Nat.le_refl _) trivial
    · exact hb
  · have h1 : HB (emit { w with giver := liveGiver w cop.c.giver, busy := 1 }
        (.fire (vnow w) cop.c.owner cop.c.fn cop.c.tag (liveGiver w cop.c.giver))) :=
      HB.emit (w := w) hb rfl (Nat.le_refl _) trivial
    exact (runOps_hb h1 cop.c.owner (sc cop.c.owner cop.c.tag)).congr rfl (Nat.le_refl _)

theorem visit_hb (sc : Scripts) (tm : Nat) : ∀ (fuel : Nat) (w : World), HB w → HB (visit sc tm fuel w) := by
  intro fuel
  induction fuel with
  | zero => intro w hb; exact hb
  | succ fuel ih =>
    intro w hb
    unfold visit
    cases hl : w.slots tm with
    | nil => exact hb
    | cons cop rest =>
      simp only []
      have h1 : HB (setSlot w tm rest) := hb.congr rfl (Nat.le_refl _)
      have h2 := fireOne_hb sc h1 cop
      generalize fireOne sc (setSlot w tm rest) cop = w2 at *
      cases hl2 : w2.slots tm with
      | nil => exact h2
      | cons x xs =>
        simp only []
        split
        · exact ih w2 h2
        · exact h2

theorem decHead_hb {w : World} (hb : HB w) : HB (decHead w) :=
  hb.congr (decHead_out w).1 (Nat.le_of_eq (decHead_unique w).symm)

theorem sweepSecond_hb (sc : Scripts) {w : World} (hb : HB w) : HB (sweepSecond sc w) := by
  rw [sweepSecond_eq]
  have hd := decHead_hb hb
  cases hl : (decHead w).slots (slotOf (w.cot + 1)) with
  | nil => exact hd
  | cons x xs =>
    simp only []
    split
    · exact visit_hb sc _ _ _ hd
    · exact hd

theorem sweepLoop_hb (sc : Scripts) : ∀ (fuel : Nat) (w : World), HB w → HB (sweepLoop sc fuel w) := by
  intro fuel
  induction fuel with
  | zero => intro w hb; exact hb
  | succ fuel ih =>
    intro w hb
    unfold sweepLoop
    split
    · exact ih _ (sweepSecond_hb sc hb)
    · exact hb

theorem sweep_hb (sc : Scripts) {w : World} (hb : HB w) : HB (sweep sc w) := by
  rw [sweep_eq]
  unfold sweepCore
  refine HB.congr (w := sweepLoop sc _ _) ?_ rfl (Nat.le_refl _)
  apply sweepLoop_hb
  split
  · exact hb.congr rfl (Nat.le_refl _)
  · exact hb

theorem applyOp_hb {w : World} (hb : HB w) (self : Nat) (op : Op) : HB (applyOp w self op) := by
  unfold applyOp
  split
  · exact HB.emit (w' := w) hb rfl (Nat.le_refl _) trivial
  · simp only []
    have := runOps_hb hb self [op]
    split
    · exact HB.emit (w' := (runOps w self [op]).1) this rfl (Nat.le_refl _) trivial
    · exact this

theorem stepCmd_hb (sc : Scripts) {w : World} (hb : HB w) (c : Cmd) : HB (stepCmd sc w c) := by
  cases c with
  | adv dt => exact hb.congr rfl (Nat.le_refl _)
  | sweep =>
    have h1 : HB (emit w (.tickbegin (vnow w))) := HB.emit (w' := w) hb rfl (Nat.le_refl _) trivial
    have h2 := sweep_hb sc h1
    exact HB.emit (w' := sweep sc (emit w (.tickbegin (vnow w)))) h2 rfl (Nat.le_refl _) trivial
  | setScript self =>
    show HB (if isDead w self then emit w (.setScriptDestructed self) else w)
    split
    · exact HB.emit (w' := w) hb rfl (Nat.le_refl _) trivial
    · exact hb
  | op self op => exact applyOp_hb hb self op
  | gop g self op =>
    have h1 : HB { w with giver := liveGiver w (some g) } := hb.congr rfl (Nat.le_refl _)
    exact (applyOp_hb h1 self op).congr rfl (Nat.le_refl _)
  | setUnique n =>
    show HB (if n > w.unique then { w with unique := n } else w)
    split
    · rename_i hn
      exact hb.congr (w' := { w with unique := n }) rfl (by show w.unique ≤ n; omega)
    · exact hb

theorem runCmds_hb (sc : Scripts) {w : World} (hb : HB w) (cs : List Cmd) : HB (runCmds sc w cs) := by
  unfold runCmds
  induction cs generalizing w with
  | nil => exact hb
  | cons c cs ih => exact ih (stepCmd_hb sc hb c)

theorem init_hb : HB World.init := by
  intro e he; cases he

end NV.C10
