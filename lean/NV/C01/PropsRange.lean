/-
C01 — range theorems: `range_result_len` and the accesses of f_range / f_extract_range / slice_array.
-/
import NV.C01.Props

namespace NV.C01
open NV.Gen.C01

/-- the result of a range rvalue is a slice of the source: never negative, never beyond the source -/
def SliceOk (size : Int) : Res → Prop
  | .slice s l => 0 ≤ l ∧ 0 ≤ s ∧ s + l ≤ size
  | _ => False

set_option maxHeartbeats 1000000 in
theorem range_result_len_str (lim : Limits) (r1 r2 : Bool) (size n1 n2 : Int) (out : Out) (hk : SizeOk .str size)
    (hn1 : InI64 n1) (hn2 : InI64 n2) (h : opRange lim .str r1 r2 size n1 n2 = .ok out) :
    SliceOk size out.res ∧ ∀ a ∈ out.acc, a.inBounds .str size 0 := by
  obtain ⟨h0, hk⟩ := hk
  simp only at hk
  unfold opRange at h
  dsimp only at h
  -- the bounds hold for EVERY int64 value of the "counted from the end" subtractions (regenerated `rev_*`)
  have htR : InI64 (rev_range_str_to size n2) := by unfold rev_range_str_to; exact rangeFromEnd_inI64 _ _
  generalize rev_range_str_to size n2 = tR at h htR
  have hfR : InI64 (rev_range_str_from size n1) := by unfold rev_range_str_from; exact rangeFromEnd_inI64 _ _
  generalize rev_range_str_from size n1 = fR at h hfR
  unfold InI64 at *
  simp only [guard_range_str_to_neg, guard_range_str_from_neg, guard_range_str_from_clamp, guard_range_str_empty,
    guard_range_str_tail, inS64, trunc64] at h
  cases r1 <;> cases r2 <;> simp only [Bool.false_eq_true, ↓reduceIte, Bool.not_true, Bool.not_false, Bool.true_and, Bool.false_and] at h <;>
    (repeat' split at h) <;> cases h <;>
    (refine ⟨?_, ?_⟩
     · simp only [SliceOk]; simp at * <;> omega
     · intro a ha
       first
         | (simp at ha; done)
         | (simp [rd, wr] at ha
            rcases ha with rfl | rfl <;> simp [Access.inBounds, allocOf] at * <;> omega))

set_option maxHeartbeats 1000000 in
theorem range_result_len_buf (lim : Limits) (r1 r2 : Bool) (size n1 n2 : Int) (out : Out) (hk : SizeOk .buf size)
    (hn1 : InI64 n1) (hn2 : InI64 n2) (h : opRange lim .buf r1 r2 size n1 n2 = .ok out) :
    SliceOk size out.res ∧ ∀ a ∈ out.acc, a.inBounds .buf size 0 := by
  obtain ⟨h0, hk⟩ := hk
  simp only at hk
  unfold opRange at h
  dsimp only at h
  have htR : InI64 (rev_range_buf_to size n2) := by unfold rev_range_buf_to; exact rangeFromEnd_inI64 _ _
  generalize rev_range_buf_to size n2 = tR at h htR
  have hfR : InI64 (rev_range_buf_from size n1) := by unfold rev_range_buf_from; exact rangeFromEnd_inI64 _ _
  generalize rev_range_buf_from size n1 = fR at h hfR
  unfold InI64 at *
  simp only [guard_range_buf_to_neg, guard_range_buf_from_neg, guard_range_buf_from_neg2, guard_range_buf_empty,
    guard_range_buf_to_hi, inS64, trunc64] at h
  cases r1 <;> cases r2 <;> simp only [Bool.false_eq_true, ↓reduceIte, Bool.not_true, Bool.not_false, Bool.true_and, Bool.false_and] at h <;>
    (repeat' split at h) <;> cases h <;>
    (refine ⟨?_, ?_⟩
     · simp only [SliceOk]; simp at * <;> omega
     · intro a ha
       first
         | (simp at ha; done)
         | (simp [rd, wr] at ha
            rcases ha with rfl | rfl <;> simp [Access.inBounds, allocOf, bufTailPad] at * <;> omega))

/-- slice_array: the slice is inside the source for every `int` pair -/
theorem sliceArray_ok (size f t : Int) (h0 : 0 ≤ size) (hk : size ≤ 65535) :
    SliceOk size (sliceArray size f t).res ∧ ∀ a ∈ (sliceArray size f t).acc, a.inBounds .arr size 0 := by
  have g := g_slice size f t h0 hk
  simp only at g
  unfold sliceArray
  simp only
  generalize (if guard_slice_from_neg f = true then 0 else f) = fromC at g ⊢
  generalize (if guard_slice_to_hi t size = true then size - 1 else t) = toC at g ⊢
  by_cases he : guard_slice_empty fromC toC = true
  · rw [if_pos he]
    exact ⟨by simp only [SliceOk]; omega, by intro a ha; simp at ha⟩
  · rw [if_neg he]
    have g' := g (not_true_to_false he)
    refine ⟨by simp only [SliceOk]; omega, ?_⟩
    intro a ha
    simp [rd, wr] at ha
    rcases ha with rfl | rfl <;> simp [Access.inBounds, allocOf] <;> omega

/-- the `(int)` narrowing in front of slice_array is exact after the 64-bit clamps of f_range -/
theorem range_arr_narrowing_exact (size from1 to1 : Int) (h0 : 0 ≤ size) (hk : size ≤ 65535) :
    let from2 := if guard_range_arr_from_neg from1 then 0 else from1
    let to2 := if guard_range_arr_to_hi to1 size then size - 1 else to1
    let to3 := if guard_range_arr_to_lo to2 then -1 else to2
    let from3 := if guard_range_arr_from_hi from2 size then size else from2
    trunc32 from3 = from3 ∧ trunc32 to3 = to3 := by
  have g := g_range_arr_clamps size from1 to1 h0 hk
  simp only at g ⊢
  exact ⟨trunc32_id _ (by omega) (by omega), trunc32_id _ (by omega) (by omega)⟩

theorem range_result_len_arr (lim : Limits) (r1 r2 : Bool) (size n1 n2 : Int) (out : Out) (hk : SizeOk .arr size)
    (h : opRange lim .arr r1 r2 size n1 n2 = .ok out) :
    SliceOk size out.res ∧ ∀ a ∈ out.acc, a.inBounds .arr size 0 := by
  obtain ⟨h0, hk⟩ := hk
  simp only at hk
  unfold opRange at h
  cases r1 <;> cases r2 <;> simp only [Bool.false_eq_true, ↓reduceIte] at h <;>
    (repeat' split at h) <;> cases h <;> exact sliceArray_ok size _ _ h0 hk

/-- `range_result_len`: for every kind, size and int64 operands, `c[n1..n2]` (all four forms) yields a slice of the
    source - length never negative, never beyond the source - and every access is inside its allocation -/
theorem range_result_len (lim : Limits) (k : Kind) (r1 r2 : Bool) (size n1 n2 : Int) (out : Out) (hk : SizeOk k size)
    (hn1 : InI64 n1) (hn2 : InI64 n2) (h : opRange lim k r1 r2 size n1 n2 = .ok out) :
    SliceOk size out.res ∧ ∀ a ∈ out.acc, a.inBounds k size 0 := by
  cases k
  · exact range_result_len_arr lim r1 r2 size n1 n2 out hk h
  · exact range_result_len_str lim r1 r2 size n1 n2 out hk hn1 hn2 h
  · exact range_result_len_buf lim r1 r2 size n1 n2 out hk hn1 hn2 h

theorem erange_result_len_arr (lim : Limits) (r1 : Bool) (size n1 : Int) (out : Out) (hk : SizeOk .arr size)
    (h : opErange lim .arr r1 size n1 = .ok out) :
    SliceOk size out.res ∧ ∀ a ∈ out.acc, a.inBounds .arr size 0 := by
  obtain ⟨h0, hk⟩ := hk
  simp only at hk
  unfold opErange at h
  cases r1 <;> simp only [Bool.false_eq_true, ↓reduceIte] at h <;>
    (repeat' split at h) <;> cases h <;> exact sliceArray_ok size _ _ h0 hk

set_option maxHeartbeats 1000000 in
theorem erange_result_len_str (lim : Limits) (r1 : Bool) (size n1 : Int) (out : Out) (hk : SizeOk .str size)
    (hn1 : InI64 n1) (h : opErange lim .str r1 size n1 = .ok out) :
    SliceOk size out.res ∧ ∀ a ∈ out.acc, a.inBounds .str size 0 := by
  obtain ⟨h0, hk⟩ := hk
  simp only at hk
  unfold opErange at h
  dsimp only at h
  have hfR : InI64 (rev_erange_str_from size n1) := by unfold rev_erange_str_from; exact rangeFromEnd_inI64 _ _
  generalize rev_erange_str_from size n1 = fR at h hfR
  unfold InI64 at *
  simp only [guard_erange_str_from_neg, guard_erange_str_from_neg2, guard_erange_str_empty, inS64, trunc64] at h
  cases r1 <;> simp only [Bool.false_eq_true, ↓reduceIte] at h <;>
    (repeat' split at h) <;> cases h <;>
    (refine ⟨?_, ?_⟩
     · simp only [SliceOk]; simp at * <;> omega
     · intro a ha
       first
         | (simp at ha; done)
         | (simp [rd, wr] at ha
            rcases ha with rfl | rfl <;> simp [Access.inBounds, allocOf] at * <;> omega))

set_option maxHeartbeats 1000000 in
theorem erange_result_len_buf (lim : Limits) (r1 : Bool) (size n1 : Int) (out : Out) (hk : SizeOk .buf size)
    (hn1 : InI64 n1) (h : opErange lim .buf r1 size n1 = .ok out) :
    SliceOk size out.res ∧ ∀ a ∈ out.acc, a.inBounds .buf size 0 := by
  obtain ⟨h0, hk⟩ := hk
  simp only at hk
  unfold opErange at h
  dsimp only at h
  have hfR : InI64 (rev_erange_buf_from size n1) := by unfold rev_erange_buf_from; exact rangeFromEnd_inI64 _ _
  generalize rev_erange_buf_from size n1 = fR at h hfR
  unfold InI64 at *
  simp only [guard_erange_buf_from_neg, guard_erange_buf_from_neg2, guard_erange_buf_from_hi, inS64, trunc64] at h
  cases r1 <;> simp only [Bool.false_eq_true, ↓reduceIte] at h <;>
    (repeat' split at h) <;> cases h <;>
    (refine ⟨?_, ?_⟩
     · simp only [SliceOk]; simp at * <;> omega
     · intro a ha
       first
         | (simp at ha; done)
         | (simp [rd, wr] at ha
            rcases ha with rfl | rfl <;> simp [Access.inBounds, allocOf, bufTailPad] at * <;> omega))

/-- f_extract_range: `c[n1..]`, `c[<n1..]` -/
theorem erange_result_len (lim : Limits) (k : Kind) (r1 : Bool) (size n1 : Int) (out : Out) (hk : SizeOk k size)
    (hn1 : InI64 n1) (h : opErange lim k r1 size n1 = .ok out) :
    SliceOk size out.res ∧ ∀ a ∈ out.acc, a.inBounds k size 0 := by
  cases k
  · exact erange_result_len_arr lim r1 size n1 out hk h
  · exact erange_result_len_str lim r1 size n1 out hk hn1 h
  · exact erange_result_len_buf lim r1 size n1 out hk hn1 h

end NV.C01
