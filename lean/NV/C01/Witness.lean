import NV.C01.Props
namespace NV.C01
end NV.C01
