/-
C01 — Lean-checked counterexamples of the full statements that the CURRENT code falsifies (open known findings),
and non-vacuity examples of the theorems.
-/
import NV.C01.Props
import NV.C01.PropsRange
import NV.C01.PropsLrange
import NV.C01.PropsMisc
import NV.C01.PropsEfun

namespace NV.C01
open NV.Gen.C01

/-! ## stack_height_bounded (full statement) is false -/

/-- full statement: no script of pushes and calls ever stores outside the value stack -/
def stack_height_bounded_Full : Prop :=
  ∀ (cfg : StackCfg) (ops : List SOp), isCrash (srun cfg { sp := -1, depth := 0 } ops) = false

/-- witness: the default configuration (StackSize 1000, MaxCallDepth 50) and the program
    `rec (d, a0..a22)` recursing 41 deep with its 23 local-variable arguments pushed by F_LOCAL / F_PUSH: the
    frame set-up check passes at height 984 and the next 24 unchecked pushes reach index 1008 -/
theorem stack_height_bounded_false : ¬ stack_height_bounded_Full := by
  intro h
  have := h {} (stackprogOps 41 23 0)
  revert this
  decide

/-- the same program one level shallower stays inside (the witness is minimal in depth) -/
example : isCrash (srun {} { sp := -1, depth := 0 } (stackprogOps 40 23 0)) = false := by decide

/-- non-vacuity of `stack_height_bounded_partial`: a script with bursts of at most five unchecked pushes -/
example : burstOk 5 0 [.enter 2, .pushU 3, .pushC 1, .pushU 5, .pop 4, .enter 0, .pushU 2, .leave] = true := by decide

/-- the witness script violates the side condition of the partial theorem -/
example : burstOk 5 0 (stackprogOps 41 23 0) = false := by decide

/-! ## signed overflow (C undefined behaviour) in reverse-index arithmetic - all repaired

F_RINDEX on arrays (`rindex_arr_no_ub`), push_lvalue_range (`lrangeBounds_no_ub`), the buffer index `>=`
(`index_logical_bound_buf`), and - since the `fix:` of C01-ub-index-signed-overflow - `size - ind` in
push_indexed_lvalue and `len - to` / `len - from` in f_range / f_extract_range: the former full statement
`index_arith_defined_Full` is now the theorem `index_arith_defined` (PropsWrap.lean), its witness is gone. -/

/-- `s[0..2147483647] = x` is now rejected by the 64-bit pre-check (was: `++ind2` overflows int) -/
example : opLrange {} .str false false 5 0 2147483647 0 = .error (.lpc msg_lrange_ind2_pre) := rfl
/-- `a[<(-2^31)]` is now rejected by the guard (was: `size - (int)n` overflows int) -/
example : opRindex .arr 5 (-2147483648) = .error (.lpc msg_rindex_arr) := rfl

/-! ## non-vacuity of the bound theorems -/

example : ∃ out, opIndex .arr 5 4 = .ok out := ⟨_, rfl⟩
example : opIndex .arr 5 5 = .error (.lpc msg_index_arr) := rfl
example : opIndex .arr 5 4294967296 = .error (.lpc msg_index_arr) := rfl      -- no (int) truncation any more
example : opIndex .buf 5 5 = .error (.lpc msg_index_buf) := rfl               -- b[sizeof(b)] is rejected now
example : ∃ out, opRange {} .str false true 10 2 3 = .ok out := ⟨_, rfl⟩
example : ∃ out, opLrange {} .buf false false 5 1 2 4 = .ok out ∧ out.acc.length = 6 := ⟨_, rfl, rfl⟩
example : errorTouches (2 * errBufSize + 21) 97 = [(errBufSize : Int) - 3, (errBufSize : Int) - 2, (errBufSize : Int) - 1] := by decide
example : errorTouches (-1) 97 = [] := by decide
example : errDelivered (8 * errBufSize) false = ((errVsnSize - 1).toNat, true) := by decide

end NV.C01
