/-
C01 - theorems about the array builders (explode_string).
-/
import NV.C01.Builders
import NV.C01.Lemmas

namespace NV.C01
open NV.Gen.C01

/-- invariant of the fill loop: `num + r = d` (the delimiters processed and the ones ahead), every index stored is
    below `size` and below `limit`, the loop never reaches fatal() as long as `d <= size` or `limit <= size` -/
theorem explodeLoop_ok (limit size : Int) (d : Int) (hfit : d ≤ size ∨ limit ≤ size) (hs : 0 ≤ size) (hs2 : size ≤ 2147483647) :
    ∀ (r : Nat) (num : Int) (acc : List Int), 0 ≤ num → num + r = d → (∀ s ∈ acc, 0 ≤ s ∧ s < size ∧ s < num) →
      ∃ num' acc', explodeLoop limit size r num acc = .ok (num', acc') ∧ num ≤ num' ∧ num' ≤ d ∧
        (num' ≤ limit ∨ num' = num) ∧ (∀ s ∈ acc', 0 ≤ s ∧ s < size ∧ s < num') := by
  intro r
  induction r with
  | zero =>
    intro num acc h0 hd hacc
    exact ⟨num, acc, rfl, by omega, by omega, Or.inr rfl, hacc⟩
  | succ r ih =>
    intro num acc h0 hd hacc
    unfold explodeLoop
    by_cases c1 : guard_explode_loop num limit = true
    · have hl : num < limit := by simpa [guard_explode_loop] using c1
      have hns : ¬ num ≥ size := by rcases hfit with h | h <;> omega
      have c2 : guard_explode_fatal num size = false := by
        simp [guard_explode_fatal, trunc32_id size (by omega) (by omega), hns]
      simp only [c1, c2, Bool.not_true, Bool.false_eq_true, ↓reduceIte]
      have hsz : num < size := by rcases hfit with h | h <;> omega
      obtain ⟨n', a', e, h1, h2, h3, h4⟩ := ih (num + 1) (explodeLoopIdx num :: acc) (by omega) (by omega) (by
        intro s hs'
        simp only [List.mem_cons] at hs'
        rcases hs' with rfl | hs'
        · (try simp only [explodeLoopIdx]); omega
        · have := hacc s hs'; omega)
      refine ⟨n', a', e, by omega, h2, ?_, h4⟩
      rcases h3 with h3 | h3
      · exact Or.inl h3
      · exact Or.inl (by omega)
    · have c1' : guard_explode_loop num limit = false := not_true_to_false' c1
      simp only [c1', Bool.not_false, ↓reduceIte]
      exact ⟨num, acc, rfl, by omega, by omega, Or.inr rfl, hacc⟩
where
  not_true_to_false' {b : Bool} (h : ¬ b = true) : b = false := by cases b <;> simp_all

/-- `explode_string`: for every number of delimiters, with or without trailing text and for every configured array
    limit 1..65535, every store (fill loop and last piece) is inside the allocated result and the driver never reaches
    `fatal("Index out of bounds in explode!")`. -/
theorem explode_stores_in_bounds (maxArr : Int) (d : Nat) (tail : Bool) (h1 : 1 ≤ maxArr) (h2 : maxArr ≤ 65535) :
    ∃ out, explodePieces maxArr d tail = .ok out ∧ ∀ s ∈ out.stores, 0 ≤ s ∧ s < out.alloc := by
  unfold explodePieces
  simp only
  generalize hn0 : ((d : Int) + (if (explodeReversible || tail) = true then 1 else 0)) = num0
  have hn0' : (d : Int) ≤ num0 ∧ num0 ≤ d + 1 := by
    rw [← hn0]; split <;> omega
  -- the clamp and the allocation
  generalize hA : explodeAlloc (if guard_explode_clamp num0 maxArr = true then explodeClampTo maxArr else num0) = A
  have hlim : explodeLimit maxArr = maxArr - 1 := by
    simp only [explodeLimit]; exact trunc32_id _ (by omega) (by omega)
  have hAv : (num0 ≤ maxArr ∧ A = num0) ∨ (num0 > maxArr ∧ A = maxArr) := by
    rw [← hA]
    by_cases c : guard_explode_clamp num0 maxArr = true
    · right
      have : num0 > maxArr := by simpa [guard_explode_clamp] using c
      simp only [c, ↓reduceIte, explodeClampTo, explodeAlloc, truncU64]
      exact ⟨this, by omega⟩
    · left
      have : ¬ num0 > maxArr := by simpa [guard_explode_clamp] using c
      have c' : guard_explode_clamp num0 maxArr = false := by cases h : guard_explode_clamp num0 maxArr <;> simp_all
      simp only [c', Bool.false_eq_true, ↓reduceIte, explodeAlloc, truncU64]
      exact ⟨by omega, by omega⟩
  have hfit : (d : Int) ≤ A ∨ explodeLimit maxArr ≤ A := by
    rcases hAv with ⟨a, b⟩ | ⟨a, b⟩
    · left; omega
    · right; omega
  have hA0 : 0 ≤ A ∧ A ≤ 2147483647 := by rcases hAv with ⟨a, b⟩ | ⟨a, b⟩ <;> omega
  obtain ⟨num, acc, e, g1, g2, g3, g4⟩ :=
    explodeLoop_ok (explodeLimit maxArr) A d hfit hA0.1 hA0.2 d 0 [] (by omega) (by omega) (by intro s hs; simp at hs)
  rw [e]
  refine ⟨_, rfl, ?_⟩
  intro s hs
  dsimp only at hs ⊢
  simp only [List.mem_append, List.mem_reverse] at hs
  rcases hs with hs | hs
  · have := g4 s hs; omega
  · -- the last-piece store
    split at hs
    · rename_i hc
      simp only [List.mem_singleton, explodeLastIdx] at hs
      rw [hs]
      refine ⟨by omega, ?_⟩
      rcases hAv with ⟨a, b⟩ | ⟨a, b⟩
      · -- not clamped: A = num0 >= d; equality num = d needs the extra slot, which exists exactly when a last
        -- piece is stored with all delimiters processed
        by_cases hnd : num < d
        · omega
        · have : num = d := by omega
          have hx : (explodeReversible || tail) = true := by
            simp only [Bool.or_eq_true, decide_eq_true_eq] at hc
            rcases hc with hc | hc
            · simpa using hc
            · omega
          rw [← hn0, if_pos hx] at b
          omega
      · -- clamped: A = maxArr, num <= limit = maxArr - 1 (or the loop did not run: num = 0)
        rcases g3 with g3 | g3 <;> omega
    · simp at hs

/-- non-vacuity / the clamped edge: 20 delimiters with MaxArraySize 8 fill 7 slots in the loop and the 8th after it -/
example : explodePieces 8 20 true = .ok ⟨8, [0, 1, 2, 3, 4, 5, 6, 7]⟩ := rfl
example : explodePieces 8 6 true = .ok ⟨7, [0, 1, 2, 3, 4, 5, 6]⟩ := rfl
example : explodePieces 8 7 false = .ok ⟨8, [0, 1, 2, 3, 4, 5, 6, 7]⟩ := rfl

/-- add_array: the two copies lie inside the `res` elements that are allocated, and `res` respects the limit, for all
    `unsigned short` sizes and every non-negative configured limit -/
theorem add_array_in_bounds (maxArr psize rsize : Int) (out : Fill) (hp : 0 ≤ psize ∧ psize ≤ 65535)
    (hr : 0 ≤ rsize ∧ rsize ≤ 65535) (h : addArray maxArr psize rsize = .ok out) :
    out.alloc ≤ maxArr ∧ ∀ w ∈ out.writes, 0 ≤ w.1 ∧ 0 ≤ w.2 ∧ w.1 + w.2 ≤ out.alloc := by
  unfold addArray at h
  simp only at h
  have hres : addArrayRes psize rsize = psize + rsize := by
    simp only [addArrayRes, trunc32_id psize (by omega) (by omega), trunc32_id rsize (by omega) (by omega)]
    exact trunc32_id _ (by omega) (by omega)
  rw [hres] at h
  split at h
  · cases h
  · rename_i g
    have g' : ¬ (psize + rsize < 0 ∨ psize + rsize > maxArr) := by simpa [guard_add_array] using g
    cases h
    refine ⟨by dsimp only; omega, ?_⟩
    intro w hw
    simp at hw
    rcases hw with rfl | rfl <;> dsimp only <;> omega

/-- implode_string: when the size check passes, the `size_t` expression that is allocated has not wrapped - it is
    exactly the number of bytes the fill loop writes (strings + delimiters), the NUL fits behind it, and the result
    respects MaxStringLength - for every count of strings >= 1 and all lengths below 2^62 -/
theorem implode_in_bounds (maxStr size num delLen : Int) (out : Fill) (hm : 0 ≤ maxStr ∧ maxStr ≤ 2147483647)
    (hs : 0 ≤ size ∧ size < 4611686018427387904) (hn : 1 ≤ num ∧ num ≤ 65535)
    (hd : 0 ≤ delLen ∧ delLen < 70368744177664)
    (h : implode maxStr size num delLen = .ok out) :
    out.alloc = size + (num - 1) * delLen + 1 ∧ out.alloc ≤ maxStr + 1 ∧
      ∀ w ∈ out.writes, 0 ≤ w.1 ∧ 0 ≤ w.2 ∧ w.1 + w.2 ≤ out.alloc := by
  have hprod0 : 0 ≤ (num - 1) * delLen := Int.mul_nonneg (by omega) hd.1
  have hprod1 : (num - 1) * delLen < 65535 * 70368744177664 := by
    have : (num - 1) * delLen ≤ 65534 * delLen := Int.mul_le_mul_of_nonneg_right (by omega) hd.1
    omega
  have e1 : trunc32 (num - 1) = num - 1 := trunc32_id _ (by omega) (by omega)
  have e2 : truncU64 (num - 1) = num - 1 := by unfold truncU64; exact Int.emod_eq_of_lt (by omega) (by omega)
  have e3 : truncU64 ((num - 1) * delLen) = (num - 1) * delLen := by
    unfold truncU64; exact Int.emod_eq_of_lt hprod0 (by omega)
  have e4 : truncU64 (size + (num - 1) * delLen) = size + (num - 1) * delLen := by
    unfold truncU64; exact Int.emod_eq_of_lt (by omega) (by omega)
  have e5 : truncU64 maxStr = maxStr := by unfold truncU64; exact Int.emod_eq_of_lt (by omega) (by omega)
  have hal : implodeAlloc size num delLen = size + (num - 1) * delLen := by
    simp only [implodeAlloc, e1, e2, e3, e4]
  unfold implode at h
  split at h
  · cases h
  · rename_i g
    have g' : ¬ size + (num - 1) * delLen > maxStr := by
      simpa [guard_implode, e1, e2, e3, e4, e5] using g
    cases h
    refine ⟨by dsimp only; rw [hal], by dsimp only; rw [hal]; omega, ?_⟩
    intro w hw
    simp at hw
    rcases hw with rfl | rfl <;> dsimp only <;> rw [hal] <;> omega

example : addArray 8 3 5 = .ok ⟨8, [(0, 3), (3, 5)]⟩ := rfl
example : addArray 8 4 5 = .error (.lpc msg_add_array) := rfl
example : implode 64 10 3 2 = .ok ⟨15, [(0, 14), (14, 1)]⟩ := rfl

end NV.C01
