/-
C01 - `fp_efun_args_checked`: efuns called through function pointers with bound arguments get the same dispatch-time
type checks as efuns called through the F_EFUN opcodes.
-/
import NV.C01.FunPtr
import NV.C01.Lemmas

namespace NV.C01
open NV.Gen.C01

/-- the statement order of the FP_EFUN case as regenerated: bound arguments merged and the default pushed BEFORE the
    number of arguments to check is taken -/
theorem fp_efun_order : fpEfunOrder = ["merge", "default", "ncap", "nrule", "loop", "call"] := by decide

/-- every efun of the table: 0 <= min_arg <= number of type slots of instrs[] -/
theorem efuns_min_le_slots : efuns.all (fun e => decide (0 ≤ e.minArg) && decide (e.minArg ≤ instrTypeSlots)) = true := by decide

/-- `fp_efun_args_checked`: for EVERY efun with 0 <= min_arg <= 4 (all of the table: `efuns_min_le_slots`), every
    number of bound arguments and every number of call-time arguments that passes the arity tests: every argument
    position below min_arg is checked against the type mask of the SAME position and reported with its own number,
    no check touches a slot outside the arguments, no check reads outside `instrs[i].type[4]`. -/
theorem fp_efun_args_checked (e : Efun) (bound ct : Nat) (h0 : 0 ≤ e.minArg) (h4 : e.minArg ≤ instrTypeSlots)
    (hacc : fpAccepts e (fpFinal e bound ct).numArg) :
    (∀ i : Nat, (i : Int) < e.minArg → ((i : Int) + 1, (i : Int), (i : Int) + 1) ∈ fpChecks e bound ct) ∧
    (∀ c ∈ fpChecks e bound ct, 1 ≤ c.1 ∧ c.1 ≤ (fpFinal e bound ct).numArg ∧ 0 ≤ c.2.1 ∧ c.2.1 < instrTypeSlots ∧ c.2.2 = c.1) := by
  unfold fpAccepts at hacc
  unfold fpChecks
  generalize hst : fpFinal e bound ct = st at hacc ⊢
  -- what the regenerated order computes
  have hn : st.n = if fpEfunUseMin st.numArg e.maxArg then e.minArg else st.numArg := by
    rw [← hst]; unfold fpFinal; rw [fp_efun_order]
    simp only [List.foldl, fpStep]
    simp (config := { decide := true }) only [↓reduceIte]
    split <;> split <;> simp_all
  have hslots : (instrTypeSlots : Int) = 4 := by decide
  have hnb : e.minArg ≤ st.n ∧ st.n ≤ st.numArg ∧ st.n ≤ 4 := by
    rw [hn]; unfold fpEfunUseMin trunc32
    split <;> rename_i hc <;> simp at hc <;> omega
  refine ⟨?_, ?_⟩
  · intro i hi
    simp only [List.mem_map, List.mem_filter, List.mem_range, Bool.and_eq_true, decide_eq_true_eq]
    refine ⟨i, ⟨by simp [instrTypeSlots] at *; omega, ?_, ?_⟩, ?_⟩
    · unfold fpEfunLoopStart; omega
    · unfold fpEfunLoopCond; simp; omega
    · unfold fpEfunChkSlot fpEfunChkTypeIdx fpEfunChkArgNo trunc32
      simp only [Prod.mk.injEq]
      refine ⟨by omega, trivial, by omega⟩
  · intro c hc
    simp only [List.mem_map, List.mem_filter, List.mem_range, Bool.and_eq_true, decide_eq_true_eq] at hc
    obtain ⟨j, ⟨hj, hs, hl⟩, rfl⟩ := hc
    unfold fpEfunLoopStart at hs
    unfold fpEfunLoopCond at hl
    simp at hl
    unfold fpEfunChkSlot fpEfunChkTypeIdx fpEfunChkArgNo trunc32
    simp only
    refine ⟨by omega, by omega, by omega, by omega, by omega⟩

/-- table form -/
theorem fp_efun_args_checked_table (e : Efun) (he : e ∈ efuns) (bound ct : Nat)
    (hacc : fpAccepts e (fpFinal e bound ct).numArg) :
    ∀ i : Nat, (i : Int) < e.minArg → ((i : Int) + 1, (i : Int), (i : Int) + 1) ∈ fpChecks e bound ct := by
  have h := List.all_eq_true.mp efuns_min_le_slots e he
  simp only [Bool.and_eq_true, decide_eq_true_eq] at h
  exact (fp_efun_args_checked e bound ct h.1 h.2 hacc).1

/-- merge_arg_lists() tests the stack room before `sp += num_arr_arg` (repaired; the guard itself is the regenerated
    `guard_stack_merge_arg_lists`, lemma `g_stack_check_merge`) -/
theorem merge_arg_lists_checked : mergeArgListsStackCheck = true := by decide

/-- non-vacuity: `(: explode, "a b c" :)` evaluated with one more argument: both positions are checked -/
example : (fpChecks ⟨"x", 300, 2, 2, [4, 4, 0, 0], 0⟩ 1 1).map (·.1) = [1, 2] := by decide
/-- `(: capitalize, 12345 :)` evaluated without arguments: position 1 (the bound one) is checked -/
example : (fpChecks ⟨"x", 300, 1, 1, [4, 0, 0, 0], 0⟩ 1 0).map (·.1) = [1] := by decide

end NV.C01
