/-
C01 - F_SWITCH: every table entry probed by the search lies inside the table, for every table size, every size code the
compiler can store and EVERY sequence of comparison results.
-/
import NV.C01.Switch
import NV.Gen.C01

namespace NV.C01
open NV.Gen.C01

theorem swStep_zero : swStep 0 = 0 := rfl
theorem swStep_one : swStep 1 = 1 := rfl

theorem swStep_succ (m : Nat) (h : 1 ≤ m) : swStep (m + 1) = 2 * swStep m := by
  unfold swStep
  have h1 : m + 1 ≠ 0 := by omega
  have h2 : m ≠ 0 := by omega
  simp only [h1, h2, if_false]
  have : m + 1 - 1 = (m - 1) + 1 := by omega
  rw [this, Int.pow_succ]; omega

theorem swStep_pos (m : Nat) (h : 1 ≤ m) : 1 ≤ swStep m := by
  induction m with
  | zero => omega
  | succ k ih =>
    by_cases hk : k = 0
    · subst hk; decide
    · have := ih (by omega); rw [swStep_succ k (by omega)]; omega

theorem swStep_nonneg (m : Nat) : 0 ≤ swStep m := by
  by_cases h : m = 0
  · subst h; decide
  · have := swStep_pos m (by omega); omega

/-- `d >>= 1` halves the step (a step of one entry becomes "d < SWITCH_CASE_SIZE") -/
theorem swStep_half (m : Nat) : 2 * swStep (m - 1) ≤ swStep m := by
  cases m with
  | zero => decide
  | succ k =>
    by_cases hk : k = 0
    · subst hk; decide
    · have : k + 1 - 1 = k := by omega
      rw [this, swStep_succ k (by omega)]; omega

theorem swStep_mono (a b : Nat) (h : a ≤ b) : swStep a ≤ swStep b := by
  induction b with
  | zero => have : a = 0 := by omega
            subst this; omega
  | succ k ih =>
    by_cases hab : a = k + 1
    · subst hab; omega
    · have h1 := ih (by omega)
      have h2 := swStep_half (k + 1)
      have h3 : k + 1 - 1 = k := by omega
      rw [h3] at h2
      have := swStep_nonneg k
      omega

/-- the fix-up loop for tables whose size is not a power of two: entered with n <= k, having come from entry
    k - step (< n); it ends either exactly at `end_tab` (k = n: default) or strictly between the entry it came from
    and the end of the table -/
theorem swFixup_ok (n : Int) : ∀ (m : Nat) (k : Int), n ≤ k → k - swStep m < n →
    ((swFixup n m k).1 = n ∨ ((swFixup n m k).1 < n ∧ 1 ≤ (swFixup n m k).2)) ∧
    k - swStep m < (swFixup n m k).1 ∧ (swFixup n m k).2 ≤ m := by
  intro m
  induction m with
  | zero => intro k h1 h2; rw [swStep_zero] at h2; omega
  | succ m ih =>
    intro k h1 h2
    unfold swFixup
    by_cases hm : m = 0
    · subst hm
      rw [swStep_one] at h2
      simp only [if_true]
      refine ⟨Or.inl (by omega), by rw [swStep_one]; omega, by omega⟩
    · simp only [hm, if_false]
      have hs := swStep_succ m (by omega)
      have hp := swStep_pos m (by omega)
      by_cases hk : k - swStep m ≥ n
      · simp only [hk, if_true]
        have r := ih (k - swStep m) hk (by omega)
        refine ⟨r.1, by omega, by omega⟩
      · simp only [hk, if_false]
        refine ⟨Or.inr ⟨by omega, by omega⟩, by omega, by omega⟩

/-- loop invariant of the search: 0 <= k < n and 2 * step <= k + 1 -/
theorem swLoop_ok (n : Int) (cmp : Int → Int) : ∀ (fuel m : Nat) (k : Int), m + 1 ≤ fuel → 0 ≤ k → k < n →
    2 * swStep m ≤ k + 1 → ∀ p ∈ swLoop n cmp fuel m k, 0 ≤ p ∧ p < n := by
  intro fuel
  induction fuel with
  | zero => intro m k hf; omega
  | succ f ih =>
    intro m k hf h0 h1 h2 p hp
    unfold swLoop at hp
    simp only at hp
    by_cases hd : cmp k = 0
    · simp only [hd, if_true, List.mem_singleton] at hp; omega
    · simp only [hd, if_false] at hp
      by_cases hm : m = 0
      · by_cases hlt : cmp k < 0 <;> simp only [hlt, hm, if_true, if_false, List.mem_singleton] at hp <;> omega
      · have hpos := swStep_pos m (by omega)
        have hhalf := swStep_half m
        by_cases hlt : cmp k < 0
        · simp only [hlt, hm, if_true, if_false, List.mem_cons] at hp
          rcases hp with rfl | hp
          · omega
          · exact ih (m - 1) (k - swStep m) (by omega) (by omega) (by omega) (by omega) p hp
        · simp only [hlt, hm, if_false] at hp
          by_cases hk1 : k + swStep m ≥ n
          · simp only [hk1, if_true] at hp
            have r := swFixup_ok n m (k + swStep m) hk1 (by omega)
            generalize swFixup n m (k + swStep m) = res at hp r
            obtain ⟨k2, m2⟩ := res
            simp only at hp r
            by_cases hend : k2 = n
            · simp only [hend, if_true, List.mem_singleton] at hp; omega
            · simp only [hend, if_false, List.mem_cons] at hp
              rcases hp with rfl | hp
              · omega
              · have hmono := swStep_mono (m2 - 1) m (by omega)
                exact ih (m2 - 1) k2 (by omega) (by omega) (by omega) (by omega) p hp
          · simp only [hk1, if_false] at hp
            by_cases hend : k + swStep m = n
            · omega
            · simp only [hend, if_false, List.mem_cons] at hp
              rcases hp with rfl | hp
              · omega
              · exact ih (m - 1) (k + swStep m) (by omega) (by omega) (by omega) (by omega) p hp

/-- `switch_probes_in_bounds`: a table of n >= 1 entries whose size code i satisfies 2^i <= n (what the compiler
    stores: `swCode_ok`): every entry the search reads is inside the table, whatever the comparisons answer -/
theorem switch_probes_in_bounds (n : Int) (i : Nat) (hi : (2 : Int) ^ i ≤ n) (cmp : Int → Int) :
    ∀ p ∈ swSearch n i cmp, 0 ≤ p ∧ p < n := by
  unfold swSearch
  have hpow : (1 : Int) ≤ 2 ^ i := by
    have : (0 : Int) < 2 ^ i := Int.pow_pos (by decide)
    omega
  apply swLoop_ok n cmp (i + 2) i _ (by omega) (by omega) (by omega)
  unfold swStep
  by_cases h0 : i = 0
  · subst h0; simp
  · simp only [h0, if_false]
    have : i = (i - 1) + 1 := by omega
    rw [this, Int.pow_succ]
    have : i - 1 + 1 - 1 = i - 1 := by omega
    rw [this]; omega

/-- the compiler's size code: the loop of icode.c ends with 2^i <= table_size -/
theorem swCodeAux_ok (n : Nat) : ∀ (fuel p i : Nat), p = 2 ^ i → p ≤ n → 2 ^ (swCodeAux n fuel p i) ≤ n := by
  intro fuel
  induction fuel with
  | zero => intro p i hp hn; unfold swCodeAux; omega
  | succ f ih =>
    intro p i hp hn
    unfold swCodeAux
    by_cases h : 2 * p ≤ n
    · simp only [h, if_true]
      exact ih (2 * p) (i + 1) (by rw [hp, Nat.pow_succ]; omega) h
    · simp only [h, if_false]; omega

theorem swCode_ok (n : Nat) (h : 1 ≤ n) : 2 ^ (swCode n) ≤ n := by
  unfold swCode
  exact swCodeAux_ok n n 1 0 (by simp) h

/-- the two together: for every table with at least one entry, with the code the compiler stores -/
theorem switch_probes_in_bounds_compiled (n : Nat) (h : 1 ≤ n) (cmp : Int → Int) :
    ∀ p ∈ swSearch n (swCode n) cmp, 0 ≤ p ∧ p < (n : Int) := by
  apply switch_probes_in_bounds
  have := swCode_ok n h
  exact_mod_cast this

/-! ### bridging lemmas: the entry-unit model vs the byte arithmetic of f_switch (REGENERATED `swOffTab`, `swDInit`,
`switchCaseSize`, `swShape`) -/

/-- the updates of l / d and the tests of the search loop, in source order: s < r: [d<S] l -= d; d >>= 1 -
    s > r: [d<S] l += d; while (l >= end_tab) { d >>= 1; if (d < S) { d = 0; break; } l -= d; } if (l == end_tab) ..; d >>= 1 -/
theorem sw_shape : swShape = ["d<S", "l-=d", "d>>=1", "d<S", "l+=d", "l>=end", "d>>=1", "d<S", "d=0", "l-=d", "l==end", "d>>=1"] := by
  decide

/-- `off_tab[i]` = (2^i - 1) entries: the search starts at entry 2^i - 1 -/
theorem sw_offtab_pow : (List.range swOffTab.length).all (fun i => swOffTab.getD i 0 == 2 ^ i - 1) = true := by decide

/-- an entry has an even number of bytes (so that halving a step of 2^j entries is exact) -/
theorem sw_size_even : switchCaseSize % 2 = 0 ∧ 2 ≤ switchCaseSize := by decide

/-- the initial step `d = (off_tab[i] + SIZE) >> 1`, with "d < SIZE means 0", is `swStep i` entries -/
theorem sw_dinit_is_step : (List.range swOffTab.length).all (fun i =>
    let d := swDInit (swOffTab.getD i 0 * switchCaseSize)
    (if d < switchCaseSize then 0 else d) == swStep i * switchCaseSize) = true := by decide

/-- `d >>= 1` on a step of `swStep m` entries, with "d < SIZE means 0", is `swStep (m - 1)` entries -/
theorem sw_halving_is_pred : (List.range swOffTab.length).all (fun m =>
    let d := (swStep m * switchCaseSize) / 2
    (if d < switchCaseSize then 0 else d) == swStep (m - 1) * switchCaseSize) = true := by decide

/-- the size codes that reach the search (i < 14; 14 is the direct-lookup format, 15 is fatal) have a start entry -/
theorem sw_offtab_covers_codes : swOffTab.length = 14 := by decide

/-- non-vacuity: 5 entries (code 2: start at entry 3), key larger than everything: 3, then the fix-up lands on 4 -/
example : swSearch 5 (swCode 5) (fun _ => 1) = [3, 4] := by decide
example : swSearch 5 (swCode 5) (fun _ => -1) = [3, 1, 0] := by decide
example : swSearch 1 (swCode 1) (fun _ => 1) = [0] := by decide
example : swCode 5 = 2 ∧ swCode 8 = 3 ∧ swCode 1 = 0 := by decide

end NV.C01
