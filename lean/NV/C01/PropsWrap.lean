/-
C01 - the "counted from the end" arithmetic after the repair of C01-ub-index-signed-overflow.

`size - i` in push_indexed_lvalue is computed in uint64_t and converted back (LPC_INT_SUB); f_range / f_extract_range
call the helper `range_from_end (len, i)` (C03's repair: SATURATES at INT64_MAX instead of wrapping, so `x[<i..]` with i
near INT64_MIN is empty), whose body is regenerated as `rangeFromEnd` together with the unwrapped values of its signed
operations (`range_from_end_no_overflow`).  The expressions are REGENERATED from the clang AST (`NV.Gen.C01.rev_*`, with the C type of the
subtraction recorded in `revSitesUnsigned`).  Proved here, for every size a C container can have and every int64
operand:
  * the C subtraction is unsigned at all 14 sites (so it cannot be undefined behaviour) - `rev_sites_unsigned`;
  * the result is the exact difference whenever it is not negative; a wrapped result is always negative, so the bounds
    tests that follow reject it - `rev_*_exact`;
  * no modelled opcode has an undefined-behaviour outcome left at these sites - `index_arith_defined` (this was the
    falsified full statement `index_arith_defined_Full` of the open finding);
  * the element a reverse lvalue index writes is exactly `size - n` - `lindex_reverse_exact`.
-/
import NV.C01.PropsRange

namespace NV.C01
open NV.Gen.C01

/-- the helper range_from_end, for every container length and every int64 operand: the difference when it fits,
    INT64_MAX (saturation: "before the first element") when it does not -/
theorem rangeFromEnd_spec (len i : Int) (h0 : 0 ≤ len) (h1 : len ≤ 9223372036854775807) (hi : InI64 i) :
    InI64 (rangeFromEnd len i) ∧ (len - i ≤ 9223372036854775807 → rangeFromEnd len i = len - i) ∧
    (9223372036854775807 < len - i → rangeFromEnd len i = 9223372036854775807) := by
  unfold InI64 at *
  unfold rangeFromEnd rangeFromEndCond trunc64
  split <;> simp only [decide_eq_true_eq] at * <;> omega

/-- `range_from_end_no_overflow`: no SIGNED C operation of the helper leaves the range of int64_t - the ones in the
    condition always, the ones of each return only on the path that evaluates them.  (The unwrapped values of the signed
    arithmetic nodes are regenerated from the clang AST: `rangeFromEndNodes*`.) -/
theorem range_from_end_no_overflow (len i : Int) (h0 : 0 ≤ len) (h1 : len ≤ 9223372036854775807) (hi : InI64 i) :
    (∀ x ∈ rangeFromEndNodesCond len i, InI64 x) ∧
    (rangeFromEndCond len i = true → ∀ x ∈ rangeFromEndNodesThen len i, InI64 x) ∧
    (rangeFromEndCond len i = false → ∀ x ∈ rangeFromEndNodesElse len i, InI64 x) := by
  unfold InI64 at *
  unfold rangeFromEndNodesCond rangeFromEndNodesThen rangeFromEndNodesElse rangeFromEndCond trunc64
  refine ⟨?_, ?_, ?_⟩ <;> intros <;> simp_all <;> omega

/-- the translator found the signed operations of the helper (a helper without any would make the theorem vacuous) -/
theorem range_from_end_nodes_found : (rangeFromEndNodesCond 5 1).length + (rangeFromEndNodesThen 5 1).length +
    (rangeFromEndNodesElse 5 1).length ≥ 2 := by decide

theorem trunc64_trunc64 (x : Int) : trunc64 (trunc64 x) = trunc64 x := by
  unfold trunc64; omega

/-- every helper site is one of the listed reverse-index sites (no literal site count: the translator decides, per site,
    between "unsigned subtraction" and "helper call", and refuses any other shape) -/
theorem rev_sites_helper : ∀ s ∈ revSitesHelper, s ∈ revSitesUnsigned.map (·.1) := by decide

/-- every regenerated "counted from the end" computation is an unsigned C subtraction or the proved helper -/
theorem rev_sites_unsigned : ∀ p ∈ revSitesUnsigned, p.2 = true := by decide

/-- the translator found reverse-index sites in all three functions (non-vacuity of `rev_sites_unsigned`; the exact
    number of sites per function is enforced by the translator's site list, not by a literal here) -/
theorem rev_sites_complete : 3 ≤ revSitesUnsigned.length := by decide

theorem rev_lindex_str_exact (size n : Int) (h0 : 0 ≤ size) (h1 : size ≤ 4294967295) (hn : InI64 n) :
    InI64 (rev_lindex_str size n) ∧ (0 ≤ rev_lindex_str size n → rev_lindex_str size n = size - n) ∧ (size - n ≤ 9223372036854775807 → rev_lindex_str size n = size - n) := by
  unfold InI64 at *; unfold rev_lindex_str trunc64 truncU64; omega

theorem rev_lindex_buf_exact (size n : Int) (h0 : 0 ≤ size) (h1 : size ≤ 4294967295) (hn : InI64 n) :
    InI64 (rev_lindex_buf size n) ∧ (0 ≤ rev_lindex_buf size n → rev_lindex_buf size n = size - n) ∧ (size - n ≤ 9223372036854775807 → rev_lindex_buf size n = size - n) := by
  unfold InI64 at *; unfold rev_lindex_buf trunc64 truncU64; omega

theorem rev_lindex_arr_exact (size n : Int) (h0 : 0 ≤ size) (h1 : size ≤ 4294967295) (hn : InI64 n) :
    InI64 (rev_lindex_arr size n) ∧ (0 ≤ rev_lindex_arr size n → rev_lindex_arr size n = size - n) ∧ (size - n ≤ 9223372036854775807 → rev_lindex_arr size n = size - n) := by
  unfold InI64 at *; unfold rev_lindex_arr trunc64 truncU64; omega

theorem rev_sindex_buf_exact (size n : Int) (h0 : 0 ≤ size) (h1 : size ≤ 4294967295) (hn : InI64 n) :
    InI64 (rev_sindex_buf size n) ∧ (0 ≤ rev_sindex_buf size n → rev_sindex_buf size n = size - n) ∧ (size - n ≤ 9223372036854775807 → rev_sindex_buf size n = size - n) := by
  unfold InI64 at *; unfold rev_sindex_buf trunc64 truncU64; omega

theorem rev_sindex_arr_exact (size n : Int) (h0 : 0 ≤ size) (h1 : size ≤ 4294967295) (hn : InI64 n) :
    InI64 (rev_sindex_arr size n) ∧ (0 ≤ rev_sindex_arr size n → rev_sindex_arr size n = size - n) ∧ (size - n ≤ 9223372036854775807 → rev_sindex_arr size n = size - n) := by
  unfold InI64 at *; unfold rev_sindex_arr trunc64 truncU64; omega

theorem rev_range_str_to_exact (size n : Int) (h0 : 0 ≤ size) (h1 : size ≤ 4294967295) (hn : InI64 n) :
    InI64 (rev_range_str_to size n) ∧ (size - n ≤ 9223372036854775807 → rev_range_str_to size n = size - n) ∧
    (9223372036854775807 < size - n → rev_range_str_to size n = 9223372036854775807) := by
  unfold rev_range_str_to
  have e : trunc64 size = size := trunc64_id _ (by omega) (by omega)
  simp only [trunc64_trunc64, e]
  exact rangeFromEnd_spec size n h0 (by omega) hn

theorem rev_range_buf_to_exact (size n : Int) (h0 : 0 ≤ size) (h1 : size ≤ 4294967295) (hn : InI64 n) :
    InI64 (rev_range_buf_to size n) ∧ (size - n ≤ 9223372036854775807 → rev_range_buf_to size n = size - n) ∧
    (9223372036854775807 < size - n → rev_range_buf_to size n = 9223372036854775807) := by
  unfold rev_range_buf_to
  have e : trunc64 size = size := trunc64_id _ (by omega) (by omega)
  simp only [trunc64_trunc64, e]
  exact rangeFromEnd_spec size n h0 (by omega) hn

theorem rev_range_arr_to_exact (size n : Int) (h0 : 0 ≤ size) (h1 : size ≤ 4294967295) (hn : InI64 n) :
    InI64 (rev_range_arr_to size n) ∧ (size - n ≤ 9223372036854775807 → rev_range_arr_to size n = size - n) ∧
    (9223372036854775807 < size - n → rev_range_arr_to size n = 9223372036854775807) := by
  unfold rev_range_arr_to
  have e : trunc64 size = size := trunc64_id _ (by omega) (by omega)
  simp only [trunc64_trunc64, e]
  exact rangeFromEnd_spec size n h0 (by omega) hn

theorem rev_range_str_from_exact (size n : Int) (h0 : 0 ≤ size) (h1 : size ≤ 4294967295) (hn : InI64 n) :
    InI64 (rev_range_str_from size n) ∧ (size - n ≤ 9223372036854775807 → rev_range_str_from size n = size - n) ∧
    (9223372036854775807 < size - n → rev_range_str_from size n = 9223372036854775807) := by
  unfold rev_range_str_from
  have e : trunc64 size = size := trunc64_id _ (by omega) (by omega)
  simp only [trunc64_trunc64, e]
  exact rangeFromEnd_spec size n h0 (by omega) hn

theorem rev_range_buf_from_exact (size n : Int) (h0 : 0 ≤ size) (h1 : size ≤ 4294967295) (hn : InI64 n) :
    InI64 (rev_range_buf_from size n) ∧ (size - n ≤ 9223372036854775807 → rev_range_buf_from size n = size - n) ∧
    (9223372036854775807 < size - n → rev_range_buf_from size n = 9223372036854775807) := by
  unfold rev_range_buf_from
  have e : trunc64 size = size := trunc64_id _ (by omega) (by omega)
  simp only [trunc64_trunc64, e]
  exact rangeFromEnd_spec size n h0 (by omega) hn

theorem rev_range_arr_from_exact (size n : Int) (h0 : 0 ≤ size) (h1 : size ≤ 4294967295) (hn : InI64 n) :
    InI64 (rev_range_arr_from size n) ∧ (size - n ≤ 9223372036854775807 → rev_range_arr_from size n = size - n) ∧
    (9223372036854775807 < size - n → rev_range_arr_from size n = 9223372036854775807) := by
  unfold rev_range_arr_from
  have e : trunc64 size = size := trunc64_id _ (by omega) (by omega)
  simp only [trunc64_trunc64, e]
  exact rangeFromEnd_spec size n h0 (by omega) hn

theorem rev_erange_str_from_exact (size n : Int) (h0 : 0 ≤ size) (h1 : size ≤ 4294967295) (hn : InI64 n) :
    InI64 (rev_erange_str_from size n) ∧ (size - n ≤ 9223372036854775807 → rev_erange_str_from size n = size - n) ∧
    (9223372036854775807 < size - n → rev_erange_str_from size n = 9223372036854775807) := by
  unfold rev_erange_str_from
  have e : trunc64 size = size := trunc64_id _ (by omega) (by omega)
  simp only [trunc64_trunc64, e]
  exact rangeFromEnd_spec size n h0 (by omega) hn

theorem rev_erange_buf_from_exact (size n : Int) (h0 : 0 ≤ size) (h1 : size ≤ 4294967295) (hn : InI64 n) :
    InI64 (rev_erange_buf_from size n) ∧ (size - n ≤ 9223372036854775807 → rev_erange_buf_from size n = size - n) ∧
    (9223372036854775807 < size - n → rev_erange_buf_from size n = 9223372036854775807) := by
  unfold rev_erange_buf_from
  have e : trunc64 size = size := trunc64_id _ (by omega) (by omega)
  simp only [trunc64_trunc64, e]
  exact rangeFromEnd_spec size n h0 (by omega) hn

theorem rev_erange_arr_from_exact (size n : Int) (h0 : 0 ≤ size) (h1 : size ≤ 4294967295) (hn : InI64 n) :
    InI64 (rev_erange_arr_from size n) ∧ (size - n ≤ 9223372036854775807 → rev_erange_arr_from size n = size - n) ∧
    (9223372036854775807 < size - n → rev_erange_arr_from size n = 9223372036854775807) := by
  unfold rev_erange_arr_from
  have e : trunc64 size = size := trunc64_id _ (by omega) (by omega)
  simp only [trunc64_trunc64, e]
  exact rangeFromEnd_spec size n h0 (by omega) hn


/-- push_indexed_lvalue + store: no undefined-behaviour outcome is left -/
theorem lindex_arith_defined (k : Kind) (rev onStack : Bool) (size n v : Int) (s : String) :
    opLindex k rev onStack size n v ≠ .error (.ub s) := by
  unfold opLindex lindexCore
  cases k <;> cases rev <;> cases onStack <;> simp only [Bool.false_eq_true, ↓reduceIte] <;>
    (repeat' split) <;> simp

theorem range_arith_defined (lim : Limits) (k : Kind) (r1 r2 : Bool) (size n1 n2 : Int) (s : String) :
    opRange lim k r1 r2 size n1 n2 ≠ .error (.ub s) := by
  unfold opRange
  cases k <;> dsimp only <;> (repeat' split) <;> simp

theorem erange_arith_defined (lim : Limits) (k : Kind) (r1 : Bool) (size n1 : Int) (s : String) :
    opErange lim k r1 size n1 ≠ .error (.ub s) := by
  unfold opErange
  cases k <;> dsimp only <;> (repeat' split) <;> simp

/-- `index_arith_defined`: the full statement that the open finding C01-ub-index-signed-overflow falsified - the index
    arithmetic of the modelled lvalue-index and range opcodes never leaves the range of its C type - for every kind,
    size and operand.  (F_RINDEX: `rindex_arr_no_ub`; push_lvalue_range: `lrangeBounds_no_ub`.) -/
theorem index_arith_defined (lim : Limits) (k : Kind) (r1 r2 onStack : Bool) (size n1 n2 v : Int) (s : String) :
    opLindex k r1 onStack size n1 v ≠ .error (.ub s) ∧ opRange lim k r1 r2 size n1 n2 ≠ .error (.ub s) ∧
    opErange lim k r1 size n1 ≠ .error (.ub s) :=
  ⟨lindex_arith_defined k r1 onStack size n1 v s, range_arith_defined lim k r1 r2 size n1 n2 s, erange_arith_defined lim k r1 size n1 s⟩

/-- the element that `c[<n] = v` writes is exactly element `size - n`: the wrap-around of the unsigned subtraction can
    never turn an out-of-range operand into an accepted index -/
theorem lindex_reverse_exact (k : Kind) (onStack : Bool) (size n v : Int) (out : Out) (hk : SizeOk k size) (hn : InI64 n)
    (h : opLindex k true onStack size n v = .ok out) : ∀ a ∈ out.acc, a.off = size - n := by
  have hb := lindex_access_in_bounds k true onStack size n v out hk h
  obtain ⟨h0, hk⟩ := hk
  unfold opLindex lindexCore at h
  cases k <;> cases onStack <;> simp only [Bool.false_eq_true, ↓reduceIte] at h hk <;>
    (repeat' split at h) <;> (try cases h) <;> intro a ha <;>
    (have hb' := (hb a ha).1.2.1
     simp [wr] at ha; subst ha
     simp only at hb'
     first
       | exact ((rev_lindex_arr_exact size n h0 (by omega) hn).2.1 hb')
       | exact ((rev_sindex_arr_exact size n h0 (by omega) hn).2.1 hb')
       | exact ((rev_lindex_buf_exact size n h0 (by omega) hn).2.1 hb')
       | exact ((rev_sindex_buf_exact size n h0 (by omega) hn).2.1 hb')
       | exact ((rev_lindex_str_exact size n h0 (by omega) hn).2.1 hb'))

/-- non-vacuity: `a[<2] = 81` on five elements writes element 3; `a[<(-2^63)] = 81` is an LPC error, not UB -/
example : ∃ out, opLindex .arr true false 5 2 81 = .ok out ∧ out.acc.map (·.off) = [3] := ⟨_, rfl, rfl⟩
example : opLindex .arr true false 5 (-9223372036854775808) 81 = .error (.lpc msg_lindex_arr) := rfl
example : opLindex .buf true true 5 (-9223372036854775808) 81 = .error (.lpc msg_sindex_buf) := rfl
example : ∃ out, opErange {} .str true 5 (-9223372036854775808) = .ok out := ⟨_, rfl⟩
example : ∃ out, opRange {} .arr true true 5 (-9223372036854775803) (-9223372036854775808) = .ok out := ⟨_, rfl⟩

end NV.C01
