/-
C01 model, part 2: the message buffer arithmetic of `error()` (src/error_context.c)

    char msg[N];  len = vsnprintf (msg, sizeof msg - 1, fmt, args);
    if (len > (int)sizeof msg - 2) len = (int)sizeof msg - 2;          -- the repaired clamp
    if (len > 0 && msg[len-1] != '\n') { msg[len] = '\n'; msg[len+1] = 0; }

Buffer size, the vsnprintf size argument, the clamp, the newline test and the three index expressions are the
REGENERATED `NV.Gen.C01.errBufSize / errVsnSize / guard_error_clamp / errClampTo / guard_error_nl / errIdx`.
libc's return-value contract is a parameter: the theorems hold for every `int` that vsnprintf may return.
-/
import NV.Gen.C01
import NV.C01.IndexOps

namespace NV.C01
open NV.Gen.C01

/-- libc contract: what `vsnprintf (buf, size, ..)` returns for a text whose complete length is `full` -/
structure Libc where
  vsn : (size : Int) → (full : Nat) → Int

/-- C99: the length the complete text would have had -/
def libcC99 : Libc := ⟨fun _ full => full⟩
/-- pre-C99 glibc / some platforms: -1 on truncation -/
def libcOld : Libc := ⟨fun size full => if (full : Int) < size then full else -1⟩

/-- `len` after the clamp -/
def errLen (ret : Int) : Int := if guard_error_clamp ret then errClampTo else ret

/-- indices of `msg` that error() itself reads or writes, for a vsnprintf return value `ret` and the character `c`
    found at msg[len-1] (only read when len > 0: `&&` short-circuits) -/
def errorTouches (ret : Int) (c : Int) : List Int :=
  let len := errLen ret
  let reads := if len > 0 then (errIdx len).take 1 else []
  if guard_error_nl len c then reads ++ (errIdx len).drop 1 else reads

/-- number of characters vsnprintf stores (excluding the NUL) for a text of `full` characters -/
def errStored (full : Nat) : Nat := min full (errVsnSize - 1).toNat

/-- the message handed to error_handler for a text of `full` characters whose last character is a newline iff
    `endsNl`: (number of text characters kept, newline appended?) - under the C99 contract -/
def errDelivered (full : Nat) (endsNl : Bool) : Nat × Bool :=
  let len := errLen (libcC99.vsn errVsnSize full)
  let kept := errStored full
  -- msg[len-1] is the last kept character when nothing was cut, otherwise some character of the text
  let lastIsNl := endsNl && decide (kept = full)
  (kept, decide (len > 0) && !lastIsNl)

end NV.C01
