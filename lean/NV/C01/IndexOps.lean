/-
C01 model, part 1: every index / reverse-index / range / range-lvalue opcode case of `eval_instruction`
(src/interpret.c F_INDEX, F_RINDEX), `push_indexed_lvalue`, `push_lvalue_range` + `copy_lvalue_range` /
`assign_lvalue_range`, `f_range`, `f_extract_range` (lib/lpc/operator.c) and `slice_array` (lib/lpc/array.c) as a
function
      (container kind, size, int64 operands)  →  Except Err (accesses, result descriptor)

* every guard is the REGENERATED `NV.Gen.C01.guard_<site>` (translator T4) - never a hand copy;
* the arithmetic in front of a guard mirrors the C statement including its integer width: `(int)x` is `trunc32`,
  `size_t` arithmetic is `truncU64`, and a *signed* C operation whose mathematical result does not fit its type is
  the explicit outcome `Err.ub` (undefined behaviour, reported by UBSan on the real driver), never silently wrapped;
  the "counted from the end" subtractions `size - i` are the REGENERATED `rev_*`: done in uint64_t in
  push_indexed_lvalue (they wrap by definition), through the saturating helper `range_from_end` (REGENERATED
  `rangeFromEnd`) in f_range / f_extract_range; `revSitesUnsigned` / `revSitesHelper` record which shape each site has;
* an access is (target allocation, offset, width, read|write) in element units (svalues for arrays, bytes otherwise).

The model mirrors the code that exists, with the build's configuration (OLD_RANGE_BEHAVIOR is defined).
-/
import NV.Gen.C01

namespace NV.C01
open NV.Gen.C01

inductive Kind | arr | str | buf
  deriving DecidableEq, Repr, Inhabited

inductive Rw | read | write
  deriving DecidableEq, Repr

/-- which allocation an access touches -/
inductive Tgt
  | owner                 -- the indexed container (size `size`)
  | rhs                   -- the right-hand side of a range assignment (size `fsize`)
  | rhsHdr                -- the `buffer_t` *header* of the rhs (copy_lvalue_range copies from `from->u.buf`)
  | fresh (n : Int)       -- a container newly allocated with n elements
  deriving DecidableEq, Repr

structure Access where
  tgt : Tgt
  off : Int
  width : Int
  rw : Rw
  deriving Repr

inductive Err
  | lpc (msg : String)    -- LPC runtime error raised through error()
  | ub (site : String)    -- C undefined behaviour: signed overflow at this site
  | fatal (msg : String)  -- the driver calls fatal(): the process ends
  deriving Repr, DecidableEq

/-- what the opcode leaves as its value (interpreted by the driver into the harness's value summary) -/
inductive Res
  | elem (off : Int)                         -- the element / byte read at `off`
  | slice (start len : Int)                  -- a new container holding owner[start .. start+len)
  | stored (off : Int) (v : Int)             -- the owner with element `off` replaced by v
  | spliced (ind1 ind2 fsize : Int) (realloc : Bool)   -- owner[0..ind1) ++ rhs ++ owner[ind2..size)
  deriving Repr

structure Out where
  acc : List Access
  res : Res
  deriving Repr

abbrev R := Except Err Out

def inS32 (x : Int) : Bool := decide (-2147483648 ≤ x) && decide (x ≤ 2147483647)
def inS64 (x : Int) : Bool := decide (-9223372036854775808 ≤ x) && decide (x ≤ 9223372036854775807)

/-- configuration limits that reach the modelled paths (`MaxArraySize`, `MaxBufferSize`) -/
structure Limits where
  maxArray : Int := 65535
  maxBuffer : Int := 4000000

def rd (t : Tgt) (off width : Int) : Access := ⟨t, off, width, .read⟩
def wr (t : Tgt) (off width : Int) : Access := ⟨t, off, width, .write⟩

/-- F_INDEX: `c[n]` as an rvalue.  The guards test the 64-bit operand; the index computed afterwards is the
    REGENERATED `idx_index_*` (`i = (int)n`). -/
def opIndex (k : Kind) (size : Int) (n : Int) : R :=
  match k with
  | .buf => if guard_index_buf n size then .error (.lpc msg_index_buf)
            else .ok ⟨[rd .owner (idx_index_buf n) 1], .elem (idx_index_buf n)⟩
  | .str => if guard_index_str n size then .error (.lpc msg_index_str)
            else .ok ⟨[rd .owner (idx_index_str n) 1], .elem (idx_index_str n)⟩
  | .arr =>
    if guard_index_arr_neg n then .error (.lpc msg_index_arr_neg)
    else if guard_index_arr n size then .error (.lpc msg_index_arr)
    else .ok ⟨[rd .owner (idx_index_arr n) 1], .elem (idx_index_arr n)⟩

/-- F_RINDEX: `c[<n]` as an rvalue.  The guards test the 64-bit operand, then the index is computed by the
    REGENERATED `idx_rindex_*` (`size - (int)n` in the arithmetic of the C operand types). -/
def opRindex (k : Kind) (size : Int) (n : Int) : R :=
  match k with
  | .buf =>
    if guard_rindex_buf n size then .error (.lpc msg_rindex_buf)
    else .ok ⟨[rd .owner (idx_rindex_buf size n) 1], .elem (idx_rindex_buf size n)⟩
  | .str =>
    if guard_rindex_str n size then .error (.lpc msg_rindex_str)
    else .ok ⟨[rd .owner (idx_rindex_str size n) 1], .elem (idx_rindex_str size n)⟩
  | .arr =>
    if guard_rindex_arr n size then .error (.lpc msg_rindex_arr)
    -- `arr->size - (int)n` is int arithmetic: leaving the range of int is undefined behaviour
    else if !inS32 (size - trunc32 n) then .error (.ub "rindex_arr")
    else .ok ⟨[rd .owner (idx_rindex_arr size n) 1], .elem (idx_rindex_arr size n)⟩

/-- the byte store of F_VOID_ASSIGN through a T_LVALUE_BYTE -/
def byteStoreOk (v : Int) : Bool := decide (v % 256 ≠ 0)

/-- second half of push_indexed_lvalue + F_VOID_ASSIGN once `ind` is computed: the guard and the store -/
def lindexCore (k : Kind) (onStack : Bool) (size ind v : Int) : R :=
  match k with
  | .str =>
    if guard_lindex_str ind size then .error (.lpc msg_lindex_str)
    else if !byteStoreOk v then .error (.lpc "*Strings cannot contain 0 bytes.")
    else .ok ⟨[wr .owner ind 1], .stored ind (v % 256)⟩
  | .buf =>
    if (if onStack then guard_sindex_buf ind size else guard_lindex_buf ind size) then
      .error (.lpc (if onStack then msg_sindex_buf else msg_lindex_buf))
    -- buffers accept a 0 byte when the NUL tests exempt them (REGENERATED `bufNulStoreAllowed`)
    else if !bufNulStoreAllowed && !byteStoreOk v then .error (.lpc "*Strings cannot contain 0 bytes.")
    else .ok ⟨[wr .owner ind 1], .stored ind (v % 256)⟩
  | .arr =>
    if (if onStack then guard_sindex_arr ind size else guard_lindex_arr ind size) then
      .error (.lpc (if onStack then msg_sindex_arr else msg_lindex_arr))
    else .ok ⟨[wr .owner ind 1], .stored ind v⟩

/-- push_indexed_lvalue(reverse) followed by F_VOID_ASSIGN of the number `v`.
    `onStack` = the second half of the C function: the indexed value is on the stack, not an lvalue. -/
def opLindex (k : Kind) (reverse onStack : Bool) (size : Int) (n v : Int) : R :=
  match k with
  | .str =>
    if onStack then .error (.lpc "*Illegal to make char lvalue from assigned string.")
    else
      -- ind = len - ind : size_t arithmetic, converted to int64_t (REGENERATED `rev_lindex_str`)
      lindexCore .str onStack size (if reverse then rev_lindex_str size n else n) v
  | .buf =>
    -- ind = LPC_INT_SUB (size, ind) : unsigned arithmetic, converted back (REGENERATED `rev_lindex_buf` / `rev_sindex_buf`)
    lindexCore .buf onStack size (if reverse then (if onStack then rev_sindex_buf size n else rev_lindex_buf size n) else n) v
  | .arr =>
    lindexCore .arr onStack size (if reverse then (if onStack then rev_sindex_arr size n else rev_lindex_arr size n) else n) v

/-- slice_array (p, from, to) for an array of `size` elements -/
def sliceArray (size : Int) (from0 to0 : Int) : Out :=
  let fromC := if guard_slice_from_neg from0 then 0 else from0
  let toC := if guard_slice_to_hi to0 size then size - 1 else to0
  if guard_slice_empty fromC toC then ⟨[], .slice 0 0⟩
  else ⟨[rd .owner fromC (toC - fromC + 1), wr (.fresh (toC - fromC + 1)) 0 (toC - fromC + 1)], .slice fromC (toC - fromC + 1)⟩

/-- f_range, T_ARRAY after `from` / `to` are computed: clamps while still 64 bits wide, then
    slice_array (v, (int)from, (int)to) -/
def rangeArrCore (size from1 to1 : Int) : Out :=
  let from2 := if guard_range_arr_from_neg from1 then 0 else from1
  let to2 := if guard_range_arr_to_hi to1 size then size - 1 else to1
  let to3 := if guard_range_arr_to_lo to2 then -1 else to2
  let from3 := if guard_range_arr_from_hi from2 size then size else from2
  sliceArray size (trunc32 from3) (trunc32 to3)

/-- f_extract_range, T_ARRAY -/
def erangeArrCore (size from1 : Int) : Out :=
  let from2 := if guard_erange_arr_from_neg from1 then 0 else from1
  let from3 := if guard_erange_arr_from_hi from2 size then size else from2
  sliceArray size (trunc32 from3) (trunc32 (size - 1))

/-- f_range (code): `c[n1..n2]`, bit 0x10 = first index counted from the end, bit 0x01 = second -/
def opRange (lim : Limits) (k : Kind) (r1 r2 : Bool) (size : Int) (n1 n2 : Int) : R :=
  match k with
  | .str =>
    let len := size
    let to1 := if r2 then rev_range_str_to len n2 else n2
    let to2 := if guard_range_str_to_neg to1 then to1 + len else to1
    let from1 := if r1 then rev_range_str_from len n1 else n1
    let from2 := if guard_range_str_from_neg from1 then from1 + len else from1
    let from3 := if guard_range_str_from_clamp from2 then 0 else from2
    if guard_range_str_empty to2 from3 len then .ok ⟨[], .slice 0 0⟩
    else if guard_range_str_tail to2 len then
      -- string_copy (res + from): reads up to and including the NUL
      .ok ⟨[rd .owner from3 (len - from3 + 1), wr (.fresh (len - from3)) 0 (len - from3 + 1)], .slice from3 (len - from3)⟩
    else
      -- new_string (to - from + 1); strncpy; tmp[to - from + 1] = 0
      .ok ⟨[rd .owner from3 (to2 - from3 + 1), wr (.fresh (to2 - from3 + 1)) 0 (to2 - from3 + 2)], .slice from3 (to2 - from3 + 1)⟩
  | .buf =>
    let len := size
    let to1 := if r2 then rev_range_buf_to len n2 else n2
    let to2 := if guard_range_buf_to_neg to1 then to1 + len else to1
    let from1 := if r1 then rev_range_buf_from len n1 else n1
    let from2 := if guard_range_buf_from_neg from1 then
        (if guard_range_buf_from_neg2 from1 len then 0 else from1 + len) else from1
    if guard_range_buf_empty to2 from2 len then .ok ⟨[], .slice 0 0⟩
    else
      let to3 := if guard_range_buf_to_hi to2 len then len - 1 else to2
      if guard_alloc_buffer (to3 - from2 + 1) lim.maxBuffer then .error (.lpc msg_alloc_buffer)
      else .ok ⟨[rd .owner from2 (to3 - from2 + 1), wr (.fresh (to3 - from2 + 1)) 0 (to3 - from2 + 1)], .slice from2 (to3 - from2 + 1)⟩
  | .arr =>
    let to1 := if r2 then rev_range_arr_to size n2 else n2
    let from1 := if r1 then rev_range_arr_from size n1 else n1
    .ok (rangeArrCore size from1 to1)

/-- f_extract_range (code): `c[n1..]` -/
def opErange (lim : Limits) (k : Kind) (r1 : Bool) (size : Int) (n1 : Int) : R :=
  match k with
  | .str =>
    let len := size
    let from1 := if r1 then rev_erange_str_from len n1 else n1
    let from2 := if guard_erange_str_from_neg from1 then
        (if guard_erange_str_from_neg2 from1 len then 0 else from1 + len) else from1
    if guard_erange_str_empty from2 len then .ok ⟨[], .slice 0 0⟩
    else .ok ⟨[rd .owner from2 (len - from2 + 1), wr (.fresh (len - from2)) 0 (len - from2 + 1)], .slice from2 (len - from2)⟩
  | .buf =>
    let len := size
    let from1 := if r1 then rev_erange_buf_from len n1 else n1
    let from2 := if guard_erange_buf_from_neg from1 then
        (if guard_erange_buf_from_neg2 from1 len then 0 else from1 + len) else from1
    let from3 := if guard_erange_buf_from_hi from2 len then len else from2
    if guard_alloc_buffer (len - from3) lim.maxBuffer then .error (.lpc msg_alloc_buffer)
    else .ok ⟨[rd .owner from3 (len - from3), wr (.fresh (len - from3)) 0 (len - from3)], .slice from3 (len - from3)⟩
  | .arr =>
    let from1 := if r1 then rev_erange_arr_from size n1 else n1
    .ok (erangeArrCore size from1)

/-- push_lvalue_range once the narrowed operands `i1 = (code & 0x10) ? size - (int)n1 : (int)n1` and `i2` (same for
    the 2nd operand) are named: pre-checks on the 64-bit operands, exact tests on the ints.  The second index is
    processed first, as in C; the result is `(ind1, ind2)` with ind2 already incremented. -/
def lrangeBoundsCore (sz n1 n2 i1 i2 : Int) : Except Err (Int × Int) :=
  if guard_lrange_ind2_pre n2 sz then .error (.lpc msg_lrange_ind2_pre)
  else if !inS32 i2 then .error (.ub "lrange_ind2")
  else if !inS32 (i2 + 1) then .error (.ub "lrange_ind2_inc")
  else if guard_lrange_ind2 i2 sz then .error (.lpc msg_lrange_ind2)
  else if guard_lrange_ind1_pre n1 sz then .error (.lpc msg_lrange_ind1_pre)
  else if !inS32 i1 then .error (.ub "lrange_ind1")
  else if guard_lrange_ind1 i1 sz then .error (.lpc msg_lrange_ind1)
  else .ok (i1, i2 + 1)

def lrangeBounds (r1 r2 : Bool) (sz : Int) (n1 n2 : Int) : Except Err (Int × Int) :=
  lrangeBoundsCore sz n1 n2 (if r1 then sz - trunc32 n1 else trunc32 n1) (if r2 then sz - trunc32 n2 else trunc32 n2)

/-- copy_lvalue_range / assign_lvalue_range of a same-kind container of `fsize` elements into [ind1, ind2) -/
def lrangeAssign (lim : Limits) (k : Kind) (sz ind1 ind2 fsize : Int) : R :=
  if fsize = ind2 - ind1 then
    -- same size: overwrite in place
    .ok ⟨[rd .rhs 0 fsize, wr .owner ind1 fsize], .spliced ind1 ind2 fsize false⟩
  else
    let nsz := sz - ind2 + ind1 + fsize
    let tail := sz - ind2
    match k with
    | .arr =>
      if guard_alloc_empty_array nsz lim.maxArray then .error (.lpc msg_alloc_empty_array)
      else .ok ⟨[rd .owner 0 ind1, wr (.fresh nsz) 0 ind1, rd .rhs 0 fsize, wr (.fresh nsz) ind1 fsize,
                 rd .owner ind2 tail, wr (.fresh nsz) (ind1 + fsize) tail], .spliced ind1 ind2 fsize true⟩
    | .str =>
      -- strncpy (tmp, dstr, ind1); strcpy (tmp, from); strncpy (tmp, dstr + ind2, size); *(tmp + size) = 0
      .ok ⟨(if ind1 ≥ 1 then [rd .owner 0 ind1, wr (.fresh nsz) 0 ind1] else []) ++
           [rd .rhs 0 (fsize + 1), wr (.fresh nsz) ind1 (fsize + 1)] ++
           (if tail ≥ 1 then [rd .owner ind2 tail, wr (.fresh nsz) (ind1 + fsize) (tail + 1)] else []),
           .spliced ind1 ind2 fsize true⟩
    | .buf =>
      if guard_alloc_buffer nsz lim.maxBuffer then .error (.lpc msg_alloc_buffer)
      else
      -- memcpy (new_item, from->u.buf->item, fsize)
      .ok ⟨(if ind1 ≥ 1 then [rd .owner 0 ind1, wr (.fresh nsz) 0 ind1] else []) ++
           [rd .rhs 0 fsize, wr (.fresh nsz) ind1 fsize] ++
           (if tail ≥ 1 then [rd .owner ind2 tail, wr (.fresh nsz) (ind1 + fsize) tail] else []),
           .spliced ind1 ind2 fsize true⟩

/-- `int size` of push_lvalue_range: `arr->size`, `(int)SVALUE_STRLEN`, `buf->size` narrowed to int -/
def lrangeSz (k : Kind) (size : Int) : Int :=
  match k with
  | .arr => size
  | .str => trunc32 size
  | .buf => trunc32 size

/-- push_lvalue_range (code) followed by copy_lvalue_range / assign_lvalue_range -/
def opLrange (lim : Limits) (k : Kind) (r1 r2 : Bool) (size : Int) (n1 n2 : Int) (fsize : Int) : R :=
  match lrangeBounds r1 r2 (lrangeSz k size) n1 n2 with
  | .error e => .error e
  | .ok (ind1, ind2) => lrangeAssign lim k (lrangeSz k size) ind1 ind2 fsize

/-! ### allocation geometry -/

/-- elements available from element 0 of a container of `n` elements: arrays exactly n; strings n + 1 (NUL);
    buffers n + tail padding of `buffer_t` (regenerated `bufTailPad`) -/
def allocOf (k : Kind) (n : Int) : Int :=
  match k with
  | .arr => n
  | .str => n + 1
  | .buf => n + bufTailPad

/-- bytes of the `buffer_t` header in front of `item` (ref, padding, size) -/
def bufHeader : Int := bufHeaderSize

def Access.inBounds (k : Kind) (size fsize : Int) (a : Access) : Prop :=
  0 ≤ a.width ∧ 0 ≤ a.off ∧
  match a.tgt with
  | .owner => a.off + a.width ≤ allocOf k size
  | .rhs => a.off + a.width ≤ allocOf k fsize
  | .rhsHdr => a.off + a.width ≤ bufHeader + allocOf .buf fsize
  | .fresh n => 0 ≤ n ∧ a.off + a.width ≤ allocOf k n

end NV.C01
