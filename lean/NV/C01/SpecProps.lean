/-
C01 - audit of the specification oracle: it accepts exactly the traces without a forbidden event, plus negative
examples for every clause.
-/
import NV.C01.Spec

namespace NV.C01

/-- the oracle returns no violation exactly when every event of the trace is clean (no sanitizer report, no crash, no
    undefined behaviour, no malformed line, no command without outcome, no re-entrancy mismatch) -/
theorem judgeEv_nil_iff_clean (cmds : List String) : ∀ (evs : List Ev) (k : Nat),
    judgeEv cmds k evs = [] ↔ evs.all clean = true := by
  intro evs
  induction evs with
  | nil => intro k; simp [judgeEv]
  | cons e rest ih =>
    intro k
    cases e with
    | result t =>
      simp only [judgeEv, List.all_cons, clean]
      by_cases h : (t = "r !noops" || t = "r !nofn" || t = "r !build") = true
      · simp [h]
      · simp only [h, Bool.false_eq_true, ↓reduceIte, List.nil_append, Bool.not_false, Bool.true_and]
        simp only [Bool.not_eq_true] at h
        simp [h, ih]
    | lpcError m => simp [judgeEv, clean, ih]
    | info t => simp [judgeEv, clean, ih]
    | ub w => simp [judgeEv, clean]
    | sanitizer w => simp [judgeEv, clean]
    | crash w => simp [judgeEv, clean]
    | malformed l => simp [judgeEv, clean]
    | reent t b f =>
      simp only [judgeEv, List.all_cons, clean]
      by_cases h : b > 0
      · have : (b == 0) = false := by simp; omega
        simp [h, this]
      · have hb : b = 0 := by omega
        simp [hb, ih]
    | holder t b f =>
      simp only [judgeEv, List.all_cons, clean]
      by_cases h : b > 0
      · have : (b == 0) = false := by simp; omega
        simp [h, this]
      · have hb : b = 0 := by omega
        simp [hb, ih]

/-! negative examples: one per clause of the oracle -/
example : judgeEv ["idx index arr 5 1 0 0"] 0 [.sanitizer "heap-buffer-overflow"] ≠ [] := by decide
example : judgeEv ["run p1 run"] 0 [.info "x", .sanitizer "stack-overflow"] ≠ [] := by decide
example : judgeEv ["idx index arr 5 1 0 0"] 0 [.crash "signal 11"] ≠ [] := by decide
example : judgeEv ["run p1 run"] 0 [.crash "timeout"] ≠ [] := by decide
example : judgeEv ["idx rn str 5 1 0 0"] 0 [.ub "signed-overflow"] ≠ [] := by decide
example : judgeEv ["idx index arr 5 1 0 0"] 0 [.result "r !noops"] ≠ [] := by decide
example : judgeEv ["idx index arr 5 1 0 0"] 0 [.result "r !nofn"] ≠ [] := by decide
example : judgeEv ["idx lnn arr 5 1 0 70000"] 0 [.lpcError "Illegal array size.", .result "r !build"] ≠ [] := by decide
example : judgeEv ["run p1 run"] 0 [.malformed "garbage"] ≠ [] := by decide
example : judgeEv ["run re0 run"] 0 [.reent 14 1 "p0.d1", .result "fz re0 run done"] ≠ [] := by decide
example : judgeEv ["run re0 run"] 0 [.reent 3 7 ""] ≠ [] := by decide
example : judgeEv ["run ep0 run"] 0 [.holder 12 1 "t3.h1", .result "fz ep0 run done"] ≠ [] := by decide
/-- a forbidden event after any number of good commands is still reported -/
example : (judgeEv ["idx index arr 5 1 0 0", "errlen 5 0", "run p run"] 0
    [.result "r i 1", .lpcError "abcde", .result "r errlen done", .sanitizer "SEGV"]).map (·.kind) = ["sanitizer"] := by decide
/-! positive examples -/
example : judgeEv ["idx index arr 5 9 0 0"] 0 [.lpcError "*Array index out of bounds.", .result "r !err"] = [] := by decide
example : judgeEv ["run re0 run"] 0 [.reent 14 0 "", .result "fz re0 run done"] = [] := by decide
example : judgeEv ["run ep0 run"] 0 [.holder 12 0 "", .result "fz ep0 run done"] = [] := by decide

end NV.C01
