/-
C01 — range-lvalue theorem: push_lvalue_range + copy_lvalue_range / assign_lvalue_range.
-/
import NV.C01.Props

namespace NV.C01
open NV.Gen.C01

/-- push_lvalue_range: the stored bounds lie inside [0, size] whatever the operands -/
theorem lrangeBoundsCore_ok (sz n1 n2 i1 i2 ind1 ind2 : Int)
    (h : lrangeBoundsCore sz n1 n2 i1 i2 = .ok (ind1, ind2)) : 0 ≤ ind1 ∧ ind1 ≤ sz ∧ 0 ≤ ind2 ∧ ind2 ≤ sz := by
  unfold lrangeBoundsCore at h
  by_cases c1 : guard_lrange_ind2_pre n2 sz = true
  · rw [if_pos c1] at h; cases h
  rw [if_neg c1] at h
  by_cases c2 : (!inS32 i2) = true
  · rw [if_pos c2] at h; cases h
  rw [if_neg c2] at h
  by_cases c3 : (!inS32 (i2 + 1)) = true
  · rw [if_pos c3] at h; cases h
  rw [if_neg c3] at h
  by_cases c4 : guard_lrange_ind2 i2 sz = true
  · rw [if_pos c4] at h; cases h
  rw [if_neg c4] at h
  by_cases c5 : guard_lrange_ind1_pre n1 sz = true
  · rw [if_pos c5] at h; cases h
  rw [if_neg c5] at h
  by_cases c6 : (!inS32 i1) = true
  · rw [if_pos c6] at h; cases h
  rw [if_neg c6] at h
  by_cases c7 : guard_lrange_ind1 i1 sz = true
  · rw [if_pos c7] at h; cases h
  rw [if_neg c7] at h
  cases h
  have e3 : inS32 (i2 + 1) = true := by simpa using c3
  have := (inS32_iff _).mp e3
  have a2 := g_lrange_ind2 i2 sz this.1 this.2 (not_true_to_false c4)
  have a1 := g_lrange_ind1 i1 sz (not_true_to_false c7)
  omega

theorem lrangeBounds_ok (r1 r2 : Bool) (sz n1 n2 ind1 ind2 : Int)
    (h : lrangeBounds r1 r2 sz n1 n2 = .ok (ind1, ind2)) : 0 ≤ ind1 ∧ ind1 ≤ sz ∧ 0 ≤ ind2 ∧ ind2 ≤ sz :=
  lrangeBoundsCore_ok sz n1 n2 _ _ ind1 ind2 h

/-- after the 64-bit pre-checks the narrowing `(int)n`, `size - (int)n` and `++ind2` are exact: push_lvalue_range
    has no undefined behaviour left (that part of the former known finding is repaired) -/
theorem lrangeBounds_no_ub (r1 r2 : Bool) (sz n1 n2 : Int) (h0 : 0 ≤ sz) (h1 : sz ≤ 2147483645) (s : String) :
    lrangeBounds r1 r2 sz n1 n2 ≠ .error (.ub s) := by
  unfold lrangeBounds lrangeBoundsCore
  by_cases c1 : guard_lrange_ind2_pre n2 sz = true
  · rw [if_pos c1]; simp
  rw [if_neg c1]
  have p2 := g_lrange_ind2_pre n2 sz h0 (by omega) (not_true_to_false c1)
  have t2 : trunc32 n2 = n2 := trunc32_id _ (by omega) (by omega)
  have s2 : inS32 (if r2 = true then sz - trunc32 n2 else trunc32 n2) = true := by
    simp only [t2, inS32_iff]; cases r2 <;> simp <;> omega
  have s3 : inS32 ((if r2 = true then sz - trunc32 n2 else trunc32 n2) + 1) = true := by
    simp only [t2, inS32_iff]; cases r2 <;> simp <;> omega
  rw [s2, s3]
  simp only [Bool.not_true, Bool.false_eq_true, ↓reduceIte]
  by_cases c4 : guard_lrange_ind2 (if r2 = true then sz - trunc32 n2 else trunc32 n2) sz = true
  · rw [if_pos c4]; simp
  rw [if_neg c4]
  by_cases c5 : guard_lrange_ind1_pre n1 sz = true
  · rw [if_pos c5]; simp
  rw [if_neg c5]
  have p1 := g_lrange_ind1_pre n1 sz h0 (by omega) (not_true_to_false c5)
  have t1 : trunc32 n1 = n1 := trunc32_id _ (by omega) (by omega)
  have s1 : inS32 (if r1 = true then sz - trunc32 n1 else trunc32 n1) = true := by
    simp only [t1, inS32_iff]; cases r1 <;> simp <;> omega
  rw [s1]
  simp only [Bool.not_true, Bool.false_eq_true, ↓reduceIte]
  by_cases c7 : guard_lrange_ind1 (if r1 = true then sz - trunc32 n1 else trunc32 n1) sz = true
  · rw [if_pos c7]; simp
  · rw [if_neg c7]; simp

set_option maxHeartbeats 2000000 in
/-- copy_lvalue_range / assign_lvalue_range: with bounds inside [0, size] every read of the old container and of the
    rhs and every write to the old or the freshly allocated container is inside its allocation -/
theorem lrangeAssign_in_bounds (lim : Limits) (k : Kind) (sz ind1 ind2 fsize : Int) (out : Out)
    (h0 : 0 ≤ sz) (f0 : 0 ≤ fsize) (b : 0 ≤ ind1 ∧ ind1 ≤ sz ∧ 0 ≤ ind2 ∧ ind2 ≤ sz)
    (h : lrangeAssign lim k sz ind1 ind2 fsize = .ok out) :
    ∀ a ∈ out.acc, a.inBounds k sz fsize := by
  unfold lrangeAssign at h
  cases k <;> simp only at h <;>
    (repeat' split at h) <;> cases h <;>
    (intro a ha
     simp [rd, wr] at ha
     (repeat' rcases ha with rfl | ha) <;>
       (try subst ha) <;> simp [Access.inBounds, allocOf, bufTailPad] at * <;> omega)

/-- `c[n1..n2] = rhs` (all four forms, all three kinds, in-place and reallocating paths): every access is inside its
    allocation, for every size within the C type ranges (strings / buffers below 2^31-1: `size` is an `int` there)
    and every int64 operand. -/
theorem lrange_access_in_bounds (lim : Limits) (k : Kind) (r1 r2 : Bool) (size n1 n2 fsize : Int) (out : Out)
    (hk : SizeOk k size) (hs : size ≤ 2147483646) (f0 : 0 ≤ fsize)
    (h : opLrange lim k r1 r2 size n1 n2 fsize = .ok out) :
    ∀ a ∈ out.acc, a.inBounds k size fsize := by
  obtain ⟨h0, _⟩ := hk
  have hsz : lrangeSz k size = size := by
    cases k <;> simp only [lrangeSz] <;> exact trunc32_id _ (by omega) (by omega)
  unfold opLrange at h
  rw [hsz] at h
  split at h
  · cases h
  · rename_i i1 i2 hb
    exact lrangeAssign_in_bounds lim k size i1 i2 fsize out h0 f0 (lrangeBounds_ok r1 r2 size n1 n2 i1 i2 hb) h

end NV.C01
