/-
C01 — range-lvalue theorem: push_lvalue_range + copy_lvalue_range / assign_lvalue_range.
-/
import NV.C01.Props

namespace NV.C01
open NV.Gen.C01

set_option maxHeartbeats 4000000 in
/-- `c[n1..n2] = rhs` (all four forms, all three kinds, in-place and reallocating paths): every read of the old
    container and of the rhs and every write to the old or the freshly allocated container is inside its allocation,
    for every size (within the C type ranges) and every int64 operand.  Sizes are bounded by 2^30 so that the C `int`
    expression `size - ind2 + ind1 + fsize` cannot wrap (a string that long cannot be built). -/
theorem lrange_access_in_bounds (lim : Limits) (k : Kind) (r1 r2 : Bool) (size n1 n2 fsize : Int) (out : Out)
    (hk : SizeOk k size) (hf : SizeOk k fsize) (hs30 : size ≤ 1073741823) (hf30 : fsize ≤ 1073741823)
    (h : opLrange lim k r1 r2 size n1 n2 fsize = .ok out) :
    ∀ a ∈ out.acc, a.inBounds k size fsize := by
  obtain ⟨h0, hk⟩ := hk
  obtain ⟨f0, hf⟩ := hf
  unfold opLrange at h
  cases k <;> simp only at hk hf <;>
  simp only [guard_lrange_ind2, guard_lrange_ind1, guard_alloc_empty_array, guard_alloc_buffer, inS32, trunc32, truncU64] at h <;>
  cases r1 <;> cases r2 <;> simp only [Bool.false_eq_true, ↓reduceIte] at h <;>
    (repeat' split at h) <;> cases h <;>
    (intro a ha
     simp [rd, wr] at ha
     (repeat' rcases ha with rfl | ha) <;>
       (try subst ha) <;> simp [Access.inBounds, allocOf, bufTailPad, bufHeader, bufHeaderSize] at * <;> omega)

end NV.C01
