/-
C01 model, part 3: height of the value stack (src/stack.c, src/interpret.h, src/frame.c).

`reset_interpreter` allocates `size` svalues and sets `end_of_stack = start + size - 5` (REGENERATED `endOfStack`).
Checked pushes (`CHECK_AND_PUSH`, `STACK_CHECK` in push_undefineds / push_some_svalues ...) test the REGENERATED
guards; the opcode cases F_PUSH / F_LOCAL / F_GLOBAL ... and the `push_svalue` macro do `*++sp = v` with no test.
A write at an index >= size is the explicit outcome `crash` (heap overflow of the calloc'ed stack).
Stack positions are indices relative to start_of_stack; `sp = -1` is the empty stack.
-/
import NV.Gen.C01

namespace NV.C01
open NV.Gen.C01

structure StackCfg where
  size : Int := 1000          -- StackSize
  maxDepth : Int := 50        -- MaxCallDepth
  deriving Repr

inductive SOp
  | pushC (n : Nat)           -- checked push of n values (CHECK_AND_PUSH / STACK_CHECK(n) then n stores)
  | pushU (n : Nat)           -- n unchecked stores `*++sp = v`
  | pop (n : Nat)
  | enter (locals : Nat)      -- push_control_stack + setup_variables: push_undefineds (locals)
  | leave
  deriving Repr, DecidableEq

inductive SErr
  | stackOverflow             -- LPC error "***Stack overflow!"
  | tooDeep                   -- LPC error "***Too deep recursion."
  | crash (idx : Int)         -- store outside the allocation
  deriving Repr, DecidableEq

structure SState where
  sp : Int := -1
  depth : Int := 0
  deriving Repr, DecidableEq

def stackEnd (cfg : StackCfg) : Int := endOfStack 0 cfg.size

def sstep (cfg : StackCfg) (s : SState) : SOp → Except SErr SState
  | .pushC n =>
    if guard_stack_push_undefineds s.sp n (stackEnd cfg) then .error .stackOverflow
    else if s.sp + n ≥ cfg.size then .error (.crash (s.sp + n))
    else .ok { s with sp := s.sp + n }
  | .pushU n =>
    if s.sp + n ≥ cfg.size then .error (.crash (max (s.sp + 1) cfg.size))
    else .ok { s with sp := s.sp + n }
  | .pop n => .ok { s with sp := s.sp - n }
  | .enter locals =>
    if s.depth ≥ cfg.maxDepth then .error .tooDeep
    else if guard_stack_push_undefineds s.sp locals (stackEnd cfg) then .error .stackOverflow
    else if s.sp + locals ≥ cfg.size then .error (.crash (s.sp + locals))
    else .ok { sp := s.sp + locals, depth := s.depth + 1 }
  | .leave => .ok { s with depth := s.depth - 1 }

def srun (cfg : StackCfg) : SState → List SOp → Except SErr SState
  | s, [] => .ok s
  | s, op :: rest =>
    match sstep cfg s op with
    | .ok s' => srun cfg s' rest
    | .error e => .error e

/-- the op script of the harness program `stackprog depth nargs`:
      int rec (int d, int a0 .. a{n-1}) { if (d <= 0) return 0; return 1 + rec (d - 1, a0, .., a{n-1}); }
      int go () { int x; x = 7; return rec (depth, x, .., x); }
    `frames0` control frames are in use when go() is entered. -/
def recLevel (nargs nlocals : Nat) : List SOp :=
  [.enter nlocals, .pushU 1, .pushC 1, .pop 1, .pushU nargs]

/-- `nlocals` extra local variables per level (pushed by push_undefineds in the frame set-up: checked) -/
def stackprogOps (depth nargs : Nat) (nlocals : Nat := 0) : List SOp :=
  [.enter 1, .pushC 1, .pushU nargs] ++ (List.replicate depth (recLevel nargs nlocals)).flatten ++ [.enter nlocals]

/-- every run of unchecked pushes between two checked operations pushes at most `slack` values -/
def burstOk (slack : Nat) : Nat → List SOp → Bool
  | _, [] => true
  | acc, .pushU n :: rest => decide (acc + n ≤ slack) && burstOk slack (acc + n) rest
  | _, .pushC _ :: rest => burstOk slack 0 rest
  | _, .enter _ :: rest => burstOk slack 0 rest
  | acc, _ :: rest => burstOk slack acc rest

def noUnchecked : List SOp → Bool
  | [] => true
  | .pushU _ :: _ => false
  | _ :: rest => noUnchecked rest

def isCrash : Except SErr SState → Bool
  | .error (.crash _) => true
  | _ => false

end NV.C01
