/-
C01 — efun_args_checked over the REGENERATED efun table and dispatch-check lists.
-/
import NV.C01.Props

namespace NV.C01
open NV.Gen.C01

set_option maxRecDepth 100000 in
/-- `efun_args_checked`, table form: for every efun of the regenerated table and every arity the compiler lets
    through (min_arg..max_arg; a varargs efun is always dispatched by F_EFUNV, whose checks do not depend on the
    arity), every argument position below min_arg is type-checked by the dispatcher against the mask of that same
    position, no check reads outside `instrs[].type[4]`, and one-byte efun opcodes are exactly-one-argument efuns. -/
theorem efun_args_checked : efuns.all efunOk = true := by decide

/-- per-efun reading of the table theorem -/
theorem efun_args_checked_mem (e : Efun) (he : e ∈ efuns) (n : Nat) (hn : n ∈ aritiesOf e) : covered e n = true := by
  have h := List.all_eq_true.mp efun_args_checked e he
  simp only [efunOk, Bool.and_eq_true, List.all_eq_true] at h
  exact h.1.2 n hn

/-- the F_EFUNV checks do not depend on the number of arguments on the stack -/
theorem efunv_checks_indep (e : Efun) (n m : Nat) (h1 : formOf e n = .efunV) (h2 : formOf e m = .efunV) :
    checksOf e n = checksOf e m := by
  simp [checksOf, h1, h2]

example : (efuns.filter (fun e => e.maxArg = -1)).length > 10 ∧ (efuns.filter (fun e => decide (e.minArg ≥ 3))).length > 5 := by
  decide

end NV.C01
