/-
C01 model, part 5: the SECOND efun dispatcher - call_function_pointer(), case FP_EFUN (lib/lpc/functional.c).

An efun pointer `(: efun, b1 .. bk :)` carries `bound` arguments; `ct` arguments are on the stack at call time.  The C
code (1) prepends the bound ones (merge_arg_lists: num_arg := bound + ct), (2) pushes a default last argument when
exactly one is missing and the efun has one, (3) takes `n = num_arg`, (4) reduces it to min_arg for >= 4 arguments and
varargs efuns, (5) runs CHECK_TYPES over j = 0 .. n-1, (6) calls the efun.  The ORDER of these statements is the
REGENERATED list `fpEfunOrder` and the model EXECUTES that list, so a reordering in the source (n taken before the
merge) is a different model - for which `fp_efun_args_checked` is false.
-/
import NV.C01.EfunCheck

namespace NV.C01
open NV.Gen.C01

structure FpState where
  numArg : Int
  n : Int
  deriving Repr, DecidableEq

/-- one statement of the FP_EFUN case -/
def fpStep (e : Efun) (bound : Int) (st : FpState) (stmt : String) : FpState :=
  if stmt = "merge" then { st with numArg := st.numArg + bound }
  else if stmt = "default" then
    (if st.numArg = e.minArg - 1 ∧ e.dflt ≠ 0 then { st with numArg := st.numArg + 1 } else st)
  else if stmt = "ncap" then { st with n := st.numArg }
  else if stmt = "nrule" then (if fpEfunUseMin st.n e.maxArg then { st with n := e.minArg } else st)
  else st

/-- the state when the CHECK_TYPES loop runs (`n` is 0 until the C code assigns it) -/
def fpFinal (e : Efun) (bound ct : Nat) : FpState :=
  fpEfunOrder.foldl (fpStep e bound) ⟨ct, 0⟩

/-- the checks of the loop: (argument position counted from 1, index into instrs[i].type[], argument number
    reported); the slot is converted to a position relative to the first argument `sp - num_arg + 1` -/
def fpChecks (e : Efun) (bound ct : Nat) : List (Int × Int × Int) :=
  let st := fpFinal e bound ct
  ((List.range (instrTypeSlots + 4)).filter (fun (j : Nat) => decide (fpEfunLoopStart ≤ (j : Int)) && fpEfunLoopCond (j : Int) st.n)).map
    (fun (j : Nat) => (fpEfunChkSlot 0 st.numArg (j : Int) - (0 - st.numArg + 1) + 1, fpEfunChkTypeIdx (j : Int), fpEfunChkArgNo (j : Int)))

/-- the arities that reach the loop: the C code raises "Too few / Too many arguments" otherwise -/
def fpAccepts (e : Efun) (numArg : Int) : Prop :=
  e.minArg ≤ numArg ∧ (e.maxArg = -1 ∨ numArg ≤ e.maxArg)

end NV.C01
