/-
C01 driver: runs the models on the case lines that the harness executes against the real driver (`model` mode) and
the specification oracle on an implementation trace (`judge` mode).

Case lines (shared with harness/c01/c01.c):
  idx <op> <kind> <size> <i> <j> <r>     op: index rindex nn rn nr rr ne re lindex lrindex sindex srindex
                                             lnn lrn lnr lrr alnn alrn alnr alrr;  kind: arr str buf map zero int
  errlen <n> <nl>
  badarg <hex>
  prog <name> <hex> / run <name> <fn>
  stackprog <depth> <nargs>
-/
import NV.Common.Proto
import NV.C01.IndexOps
import NV.C01.ErrBuf
import NV.C01.Stack
import NV.C01.Builders
import NV.C01.Spec

namespace NV.C01
open NV.Proto NV.Gen.C01

/-! ### container contents used by the harness (position determined) -/

def elemOf (k : Kind) (rhs : Bool) (p : Int) : Int :=
  match k with
  | .arr => if rhs then 1000000 + p else p
  | .str => (if rhs then 65 else 97) + p % 26
  | .buf => if rhs then (p * 13 + 5) % 256 else (p * 7 + 1) % 256

def contentOf (k : Kind) (rhs : Bool) (size : Int) : List Int :=
  (List.range size.toNat).map (fun (p : Nat) => elemOf k rhs (p : Int))

/-- value found at `off` of the owner, including the one-past-the-end positions that the guards accept
    (string NUL, zeroed buffer padding) -/
def readAt (k : Kind) (size off : Int) : Int :=
  if 0 ≤ off ∧ off < size then elemOf k false off else 0

def fnv (xs : List Int) : UInt64 :=
  xs.foldl (fun h x => (h ^^^ (UInt64.ofInt x)) * 1099511628211) 1469598103934665603

def kindName : Kind → String
  | .arr => "arr" | .str => "str" | .buf => "buf"

def summary (k : Kind) (xs : List Int) : String :=
  let head := ",".intercalate ((xs.take 6).map toString)
  s!"{kindName k} {xs.length} {(fnv xs).toNat} [{head}]"

/-- bytes of the rhs `buffer_t` seen by `memcpy (new_item, from->u.buf, fsize)`: ref (2 at that point: the local and
    the stack copy), padding, size, then the items -/
def rhsHeaderByte (fsize : Int) (t : Int) : Int :=
  if t = 0 then 2 else if t < 4 then 0
  else if t < 8 then (fsize / (256 ^ (t - 4).toNat)) % 256
  else elemOf .buf true (t - 8)

def resultLine (k : Kind) (size fsize : Int) : Res → String
  | .elem off => s!"r i {readAt k size off}"
  | .slice start len => "r " ++ summary k ((List.range len.toNat).map (fun (t : Nat) => elemOf k false (start + (t : Int))))
  | .stored off v => "r " ++ summary k ((contentOf k false size).set off.toNat v)
  | .spliced ind1 ind2 fs realloc =>
    let own := contentOf k false size
    let mid := contentOf k true fs
    "r " ++ summary k (own.take ind1.toNat ++ mid ++ own.drop ind2.toNat)

def trimNl (s : String) : String := (s.replace "\n" " ").trimAscii.toString

def parseKind : String → Option Kind
  | "arr" => some .arr | "str" => some .str | "buf" => some .buf
  | "aarr" => some .arr      -- array of reference-counted elements ({ code }): same index arithmetic, same codes
  | _ => none

def runIdxOp (lim : Limits) (op : String) (k : Kind) (size i j r : Int) : Option R :=
  match op with
  | "index" | "tindex" => some (opIndex k size i)
  | "trindex" => some (opRindex k size i)
  | "tne" => some (opErange lim k false size i)
  | "tre" => some (opErange lim k true size i)
  | "tnn" => some (opRange lim k false false size i r)
  | "trr" => some (opRange lim k true true size i r)
  | "rindex" => some (opRindex k size i)
  | "lindex" => some (opLindex k false false size i r)
  | "lrindex" => some (opLindex k true false size i r)
  | "sindex" => some (opLindex k false true size i r)
  | "srindex" => some (opLindex k true true size i r)
  | "nn" => some (opRange lim k false false size i j)
  | "rn" => some (opRange lim k true false size i j)
  | "nr" => some (opRange lim k false true size i j)
  | "rr" => some (opRange lim k true true size i j)
  | "ne" => some (opErange lim k false size i)
  | "re" => some (opErange lim k true size i)
  | "lnn" | "alnn" => some (opLrange lim k false false size i j r)
  | "lrn" | "alrn" => some (opLrange lim k true false size i j r)
  | "lnr" | "alnr" => some (opLrange lim k false true size i j r)
  | "lrr" | "alrr" => some (opLrange lim k true true size i j r)
  | _ => none

def isRangeLv (op : String) : Bool :=
  ["lnn", "lrn", "lnr", "lrr", "alnn", "alrn", "alnr", "alrr"].contains op

/-- events of one command; `none` in the second component = the process is gone (abort), stop the case -/
def cmdEvents (lim : Limits) (scfg : StackCfg) (line : String) : List Ev × Bool :=
  match toks line with
  | ["idx", op, kind, size, i, j, r] =>
    match size.toInt?, i.toInt?, j.toInt?, r.toInt? with
    | some size, some i, some j, some r =>
      match parseKind kind with
      | some k =>
        match runIdxOp lim op k size i j r with
        | some (.ok out) =>
          -- `aarr`: the elements are one-element arrays ({ code }), so an indexed element prints as such
          match kind == "aarr", out.res with
          | true, .elem off => ([.result ("r " ++ summary .arr [readAt k size off])], true)
          | _, _ => ([.result (resultLine k size r out.res)], true)
        | some (.error (.lpc m)) => ([.lpcError (trimNl m), .result "r !err"], true)
        | some (.error (.ub _)) => ([.ub "signed-overflow"], false)
        | some (.error (.fatal m)) => ([.crash ("fatal " ++ m)], false)
        | none => ([.malformed line], true)
      | none =>
        -- non-container operands: handled by the type dispatch of the opcode, no index arithmetic
        match kind, op with
        | "map", "index" => ([.result s!"r i {if 0 ≤ i ∧ i < size then 500 + i else 0}"], true)
        | "map", "lindex" => ([.result s!"r map {if 0 ≤ i ∧ i < size then size else size + 1}"], true)
        | "map", "rindex" => ([.lpcError "*Cannot index value of type 'mapping'.", .result "r !err"], true)
        | "zero", "index" | "zero", "rindex" => ([.lpcError "*Value being indexed is zero.", .result "r !err"], true)
        | "int", "index" | "int", "rindex" => ([.lpcError "*Cannot index value of type 'int'.", .result "r !err"], true)
        | _, _ => ([.malformed line], true)
    | _, _, _, _ => ([.malformed line], true)
  | ["errlen", n, nl] =>
    match n.toNat?, nl.toNat? with
    | some n, some nl =>
      let endsNl := nl ≠ 0 ∧ n > 0
      let (kept, _) := errDelivered n endsNl
      let txt := String.ofList ((List.range kept).map (fun p =>
        if endsNl ∧ p + 1 = n then ' ' else Char.ofNat (97 + p % 26)))
      ([.lpcError (trimNl txt), .result "r errlen done"], true)
    | _, _ => ([.malformed line], true)
  | ["badarg", hex] =>
    let bytes := (List.range (hex.length / 2)).filterMap (fun p =>
      let d (c : Char) : Option Nat :=
        if c.isDigit then some (c.toNat - 48) else if 'a' ≤ c ∧ c ≤ 'f' then some (c.toNat - 87) else none
      match d ((hex.toList.getD (2 * p) '0')), d ((hex.toList.getD (2 * p + 1) '0')) with
      | some a, some b => some (Char.ofNat (16 * a + b))
      | _, _ => none)
    let s := String.ofList bytes
    ([.lpcError (trimNl s!"Bad argument 1 to allocate(), Expected: int Got: \"{s}\"."), .result "r badarg !err"], true)
  | ["expl", mx, d, tl] =>
    match mx.toInt?, d.toNat?, tl.toNat? with
    | some mx, some d, some tl =>
      match explodePieces mx d (tl != 0) with
      | .ok out => ([.result s!"r expl size={out.alloc} filled={out.stores.eraseDups.length}"], true)
      | .error (.fatal m) => ([.crash ("fatal " ++ m)], false)
      | .error _ => ([.result "r expl !err"], true)
    | _, _, _ => ([.malformed line], true)
  | "prog" :: _ => ([], true)
  | "preload" :: _ => ([], true)          -- limit-edge family: load before the limits are lowered
  | "cfglim" :: _ => ([], true)           -- limit-edge family: small configured limits (programs only)
  | ["run", name, fn] => ([.result s!"fz {name} {fn} done"], true)
  | "stackprog" :: d :: n :: rest =>
    match d.toNat?, n.toNat?, (rest.head?.getD "0").toNat? with
    | some d, some n, some nl =>
      let pre := Ev.info s!"stack base 0 size {scfg.size}"
      match srun scfg { sp := -1, depth := 0 } (stackprogOps d n nl) with
      | .ok _ => ([pre, .result s!"r stackprog i {d}"], true)
      | .error (.crash _) => ([pre, .sanitizer "heap-buffer-overflow"], false)
      | .error .stackOverflow => ([pre, .lpcError "***Stack overflow!", .result "r stackprog !err"], true)
      -- "Too deep recursion": the master's error handler cannot run either (no control frame left), nothing is logged
      | .error _ => ([pre, .result "r stackprog !err"], true)
    | _, _, _ => ([.malformed line], true)
  | [] => ([], true)
  | _ => if line.startsWith "#" then ([], true) else ([.malformed line], true)

def parseEv (l : String) : Ev :=
  if l.startsWith "r " || l.startsWith "fz " then .result l
  else if l.startsWith "err " then .lpcError (l.drop 4).toString
  else if l.startsWith "caught " then .info l
  else if l.startsWith "ub " then .ub (l.drop 3).toString
  else if l.startsWith "sanitizer " then .sanitizer (l.drop 10).toString
  else if l.startsWith "crash " then .crash (l.drop 6).toString
  else if l.startsWith "stack " || l.startsWith "progs " then .info l
  else if l.startsWith "reent " then
    let kv (key : String) : String :=
      match (toks l).find? (·.startsWith (key ++ "=")) with
      | some t => (t.drop (key.length + 1)).toString
      | none => ""
    match (kv "tests").toNat?, (kv "bad").toNat? with
    | some t, some b => .reent t b (kv "first")
    | _, _ => .malformed l
  else if l.startsWith "holder " then
    let kv (key : String) : String :=
      match (toks l).find? (·.startsWith (key ++ "=")) with
      | some t => (t.drop (key.length + 1)).toString
      | none => ""
    match (kv "tests").toNat?, (kv "bad").toNat? with
    | some t, some b => .holder t b (kv "first")
    | _, _ => .malformed l
  else .malformed l

/-- `expect-abort <trace line>`: annotation carried by the witness inputs of OPEN KNOWN FINDINGS that need a whole
    program (the model has no LPC interpreter): the next `run` is known to abort the driver with that line. -/
def modelEventsAux (lim : Limits) (scfg : StackCfg) : Option String → List String → List Ev
  | _, [] => []
  | pending, l :: rest =>
    if l.startsWith "expect-abort " then modelEventsAux lim scfg (some (l.drop 13).toString) rest
    else if l.startsWith "reent-expect " then
      -- the next program runs this many re-entrancy tests and every result equals its LPC reference
      match ((l.drop 13).toString.trimAscii.toString).toNat? with
      | some n => Ev.reent n 0 "" :: modelEventsAux lim scfg pending rest
      | none => Ev.malformed l :: modelEventsAux lim scfg pending rest
    else if l.startsWith "holder-expect " then
      -- the next program runs this many error-path tests and every held value equals its independently built copy
      match ((l.drop 14).toString.trimAscii.toString).toNat? with
      | some n => Ev.holder n 0 "" :: modelEventsAux lim scfg pending rest
      | none => Ev.malformed l :: modelEventsAux lim scfg pending rest
    else
      match pending, l.startsWith "run " with
      | some t, true => [parseEv t]
      | _, _ =>
        let (evs, alive) := cmdEvents lim scfg l
        if alive then evs ++ modelEventsAux lim scfg pending rest else evs

def modelEvents (lim : Limits) (scfg : StackCfg) (lines : List String) : List Ev :=
  modelEventsAux lim scfg none lines

def render : Ev → String
  | .result l => l
  | .lpcError m => s!"err {(m.take 100).toString} len={m.length}"
  | .info t => t
  | .ub w => "ub " ++ w
  | .sanitizer w => "sanitizer " ++ w
  | .crash w => "crash " ++ w
  | .malformed l => "bad-line " ++ l
  | .reent t b f => s!"reent tests={t} bad={b}" ++ (if f.isEmpty then "" else " first=" ++ f)
  | .holder t b f => s!"holder tests={t} bad={b}" ++ (if f.isEmpty then "" else " first=" ++ f)

def runModel (lines : List String) : List String :=
  (modelEvents {} {} lines).map render

def runJudge (body : List String) : List String :=
  let (input, impl) := splitJudge body
  match judgeEv input 0 (impl.map parseEv) with
  | [] => ["ok"]
  | vs => vs.map (fun v => "bad " ++ v.render)

def main (mode : String) : IO Unit :=
  match mode with
  | "model" => serve runModel
  | "judge" => serve runJudge
  | _ => IO.eprintln s!"C01: unknown mode {mode}"

end NV.C01
