/-
C01 — error-buffer, value-stack, efun-dispatch and format-argument theorems.
-/
import NV.C01.Props

namespace NV.C01
open NV.Gen.C01

/-! ## errbuf_in_bounds -/

/-- vsnprintf is told a size that fits the buffer -/
theorem errbuf_vsn_fits : 0 < errVsnSize ∧ errVsnSize ≤ errBufSize := by decide

/-- after the clamp `len` leaves room for the newline and the NUL -/
theorem errLen_le (ret : Int) (hr : inS32 ret = true) :
    errLen ret + 2 ≤ errBufSize ∧ -2147483648 ≤ errLen ret := by
  have hr' := (inS32_iff ret).mp hr
  -- bridging facts over the REGENERATED clamp (no literal buffer size in this proof: a different `sizeof msg` re-proves)
  have hc : errClampTo + 2 ≤ (errBufSize : Int) ∧ -2147483648 ≤ errClampTo := by decide
  have hg : guard_error_clamp ret = decide (ret > errClampTo) := rfl
  unfold errLen
  rw [hg]
  by_cases h : ret > errClampTo <;> simp [h] <;> omega

/-- every index at which error() itself reads or writes `msg` is inside the buffer, for EVERY `int` that vsnprintf
    may return (C99 would-be length of any size, or a negative pre-C99 failure code) and every buffer content -/
theorem errbuf_in_bounds (ret c : Int) (hr : inS32 ret = true) :
    ∀ i ∈ errorTouches ret c, 0 ≤ i ∧ i < errBufSize := by
  have hl := errLen_le ret hr
  intro i hi
  unfold errorTouches at hi
  simp only at hi
  generalize errLen ret = len at hl hi
  simp only [guard_error_nl, errIdx, trunc32, errBufSize] at hi hl ⊢
  by_cases h1 : len > 0
  · simp [h1] at hi
    split at hi <;> simp at hi <;> omega
  · simp [h1] at hi

/-! ## value stack -/

/-- the slack between `end_of_stack` and the end of the allocation, from the regenerated geometry -/
theorem stack_slack (size : Int) : size - endOfStack 0 size = 5 := by
  simp only [endOfStack]; omega

/-- a checked push (CHECK_AND_PUSH, STACK_CHECK + stores, frame set-up) never stores outside the allocation -/
theorem stack_checked_push_safe (cfg : StackCfg) (s : SState) (n : Nat) :
    isCrash (sstep cfg s (.pushC n)) = false ∧ isCrash (sstep cfg s (.enter n)) = false := by
  constructor
  · simp only [sstep]
    split
    · rfl
    · rename_i g
      have := g_stack_check _ _ _ (not_true_to_false g)
      split
      · omega
      · rfl
  · simp only [sstep]
    split
    · rfl
    · split
      · rfl
      · rename_i g
        have := g_stack_check _ _ _ (not_true_to_false g)
        split
        · omega
        · rfl

/-- `stack_height_bounded`, partial form: when every run of unchecked pushes between two checked operations pushes
    at most 5 values (the slack), no store leaves the allocation - for every script, stack size and starting height
    below `end_of_stack`. -/
theorem stack_height_bounded_partial (cfg : StackCfg) :
    ∀ (ops : List SOp) (acc : Nat) (s : SState), burstOk 5 acc ops = true → s.sp + 5 < cfg.size + acc →
      isCrash (srun cfg s ops) = false := by
  intro ops
  induction ops with
  | nil => intro acc s _ _; rfl
  | cons op rest ih =>
    intro acc s hb hinv
    cases op with
    | pushU n =>
      simp only [burstOk, Bool.and_eq_true, decide_eq_true_eq] at hb
      by_cases hc : s.sp + (n : Int) ≥ cfg.size
      · omega
      · simp only [srun, sstep, hc, ↓reduceIte]
        exact ih (acc + n) _ hb.2 (by simp; omega)
    | pushC n =>
      simp only [burstOk] at hb
      by_cases g : guard_stack_push_undefineds s.sp n (stackEnd cfg) = true
      · simp [srun, sstep, g, isCrash]
      · have := g_stack_check _ _ _ (not_true_to_false g)
        have hc : ¬ (s.sp + (n : Int) ≥ cfg.size) := by omega
        simp only [srun, sstep, g, hc, ↓reduceIte, Bool.false_eq_true]
        exact ih 0 _ hb (by simp; omega)
    | pop n =>
      simp only [burstOk] at hb
      simp only [srun, sstep]
      exact ih acc _ hb (by simp; omega)
    | enter n =>
      simp only [burstOk] at hb
      by_cases hd : s.depth ≥ cfg.maxDepth
      · simp [srun, sstep, hd, isCrash]
      · by_cases g : guard_stack_push_undefineds s.sp n (stackEnd cfg) = true
        · simp [srun, sstep, hd, g, isCrash]
        · have := g_stack_check _ _ _ (not_true_to_false g)
          have hc : ¬ (s.sp + (n : Int) ≥ cfg.size) := by omega
          simp only [srun, sstep, hd, g, hc, ↓reduceIte, Bool.false_eq_true]
          exact ih 0 _ hb (by simp; omega)
    | leave =>
      simp only [burstOk] at hb
      simp only [srun, sstep]
      exact ih acc _ hb (by simpa using hinv)

/-- the push functions that the interpreter relies on for frame set-up and efun callbacks carry the check -/
theorem stack_push_fns_checked :
    ["push_undefineds", "push_some_svalues", "transfer_push_some_svalues", "push_number", "push_undefined", "push_object",
     "push_real", "copy_and_push_string", "share_and_push_string"].all
      (fun f => stackPushFns.contains (f, true)) = true := by decide

/-! ## no_user_text_as_format -/

/-- calls with a non-literal format that are justified:
    * wrappers that forward their own `fmt` parameter to a `v*printf` (error, debug_message, log_message,
      debug_message_with_src, outbuf_addv);
    * `error (regexp_error)` - the global is only ever set to string literals of lib/efuns/regexp.c by `regerror()`;
    * `sprintf_error` - `error (lbuf)` where lbuf was built from a literal table and an int ("%%s" is doubled there);
    * `string_print_formatted` - `snprintf (temp, sizeof temp, cheat, ..)`: `cheat` is rebuilt by the driver from the parsed,
      validated conversion (one `%`, flags, one conversion letter);
    * `yyerrorp` - compile-time messages (C02), called with literals. -/
def formatAllowList : List (String × String × String) :=
  [("lib/efuns/sprintf.c", "sprintf_error", "error"),
   ("lib/efuns/sprintf.c", "string_print_formatted", "snprintf"),
   ("lib/efuns/sscanf.c", "inter_sscanf", "error"),
   ("lib/logger/logger.c", "debug_message", "vsnprintf"),
   ("lib/logger/logger.c", "debug_message_with_src", "vsnprintf"),
   ("lib/logger/logger.c", "log_message", "vfprintf"),
   ("lib/lpc/array.c", "match_single_regexp", "error"),
   ("lib/lpc/array.c", "match_regexp", "error"),
   ("lib/lpc/array.c", "reg_assoc", "error"),
   ("lib/lpc/lex.c", "yyerrorp", "sprintf"),
   ("src/error_context.c", "error", "vsnprintf"),
   ("src/outbuf.c", "outbuf_addv", "vsprintf")]

/-- `no_user_text_as_format`: every call of a printf-style function (libc family + the driver's own variadic
    `(.., const char *fmt, ...)` functions, inventory REGENERATED by clang-query over all of src/ and lib/) whose
    format is not a string literal is on the justified allow-list.  `bad_argument -> error (msg)` is not. -/
theorem no_user_text_as_format : nonLiteralFormatCalls.all (fun c => formatAllowList.contains c) = true := by
  decide

end NV.C01
