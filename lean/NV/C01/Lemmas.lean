/-
C01 helper lemmas: soundness of every REGENERATED index / range guard (`NV.Gen.C01.guard_*`).
Each lemma has the form  "the guard did not fire  →  the index the C code uses next is inside the container".
They are closed by `omega` after unfolding the generated definition, so a source change that weakens a guard
(`>=` → `>`, a lost `< 0` disjunct, a changed cast) regenerates a definition for which the proof no longer closes.

Type-range hypotheses are those of the C operands: `unsigned short` array sizes, `unsigned int` buffer sizes,
`size_t` string lengths, `int` / `int64_t` indices.
-/
import NV.C01.IndexOps

namespace NV.C01
open NV.Gen.C01

theorem trunc32_range (x : Int) : -2147483648 ≤ trunc32 x ∧ trunc32 x ≤ 2147483647 := by
  unfold trunc32; omega

theorem trunc32_id (x : Int) (h1 : -2147483648 ≤ x) (h2 : x ≤ 2147483647) : trunc32 x = x := by
  unfold trunc32; omega

theorem trunc64_id (x : Int) (h1 : -9223372036854775808 ≤ x) (h2 : x ≤ 9223372036854775807) : trunc64 x = x := by
  unfold trunc64; omega

/-- the range of the C type `int64_t` (an LPC integer operand) -/
def InI64 (x : Int) : Prop := -9223372036854775808 ≤ x ∧ x ≤ 9223372036854775807

theorem trunc64_inI64 (x : Int) : InI64 (trunc64 x) := by
  unfold InI64 trunc64; omega

/-- the helper range_from_end (REGENERATED `rangeFromEnd`) always returns an int64 value -/
theorem rangeFromEnd_inI64 (len i : Int) : InI64 (rangeFromEnd len i) := by
  unfold rangeFromEnd
  split <;> exact trunc64_inI64 _

/-- `(int)len` of a non-negative length never exceeds the length -/
theorem trunc32_le_of_nonneg (x : Int) (h : 0 ≤ x) : trunc32 x ≤ x := by
  unfold trunc32; omega

theorem inS32_iff (x : Int) : inS32 x = true ↔ (-2147483648 ≤ x ∧ x ≤ 2147483647) := by
  simp [inS32]

theorem inS64_iff (x : Int) : inS64 x = true ↔ (-9223372036854775808 ≤ x ∧ x ≤ 9223372036854775807) := by
  simp [inS64]

/-! ### F_INDEX / F_RINDEX

The guards test the 64-bit operand `n`; the element accessed is `(int)n` (F_INDEX) or `size - (int)n` (F_RINDEX).
Each lemma concludes about the index that the C code uses. -/

theorem g_index_arr (n size : Int) (hs : 0 ≤ size) (hs2 : size ≤ 65535)
    (h1 : guard_index_arr_neg n = false) (h2 : guard_index_arr n size = false) :
    0 ≤ idx_index_arr n ∧ idx_index_arr n < size := by
  simp [guard_index_arr_neg, guard_index_arr, trunc64] at h1 h2
  unfold idx_index_arr trunc32; omega

theorem g_rindex_arr (n size : Int) (hs : 0 ≤ size) (hs2 : size ≤ 65535)
    (h : guard_rindex_arr n size = false) :
    0 ≤ idx_rindex_arr size n ∧ idx_rindex_arr size n < size ∧ inS32 (size - trunc32 n) = true := by
  simp [guard_rindex_arr, trunc64] at h
  simp only [inS32_iff]
  unfold idx_rindex_arr trunc32; omega

/-- strings: the index may equal the length (the NUL is read) -/
theorem g_index_str (n slen : Int) (hs : 0 ≤ slen) (hs2 : slen ≤ 2147483647)
    (h : guard_index_str n slen = false) : 0 ≤ idx_index_str n ∧ idx_index_str n ≤ slen := by
  simp [guard_index_str, trunc64] at h
  unfold idx_index_str trunc32; omega

theorem g_rindex_str (n slen : Int) (hs : 0 ≤ slen) (hs2 : slen ≤ 2147483647)
    (h : guard_rindex_str n slen = false) :
    0 ≤ idx_rindex_str slen n ∧ idx_rindex_str slen n ≤ slen := by
  simp [guard_rindex_str, trunc64] at h
  unfold idx_rindex_str trunc32 truncU64; omega

/-- buffers: the index is strictly below the size (the `>` that accepted i = size is repaired) -/
theorem g_index_buf (n size : Int) (hs : 0 ≤ size) (hs2 : size ≤ 2147483647)
    (h : guard_index_buf n size = false) : 0 ≤ idx_index_buf n ∧ idx_index_buf n < size := by
  simp [guard_index_buf, trunc64] at h
  unfold idx_index_buf trunc32; omega

theorem g_rindex_buf (n size : Int) (hs : 0 ≤ size) (hs2 : size ≤ 2147483647)
    (h : guard_rindex_buf n size = false) :
    0 ≤ idx_rindex_buf size n ∧ idx_rindex_buf size n < size := by
  simp [guard_rindex_buf, trunc64] at h
  unfold idx_rindex_buf trunc32 truncU32; omega

/-! ### push_indexed_lvalue -/

theorem g_lindex_str (ind len : Int) (hs : 0 ≤ len) (hs2 : len ≤ 9223372036854775807)
    (h : guard_lindex_str ind len = false) : 0 ≤ ind ∧ ind < len := by
  simp [guard_lindex_str, trunc64] at h; omega

theorem g_lindex_buf (ind size : Int) (hs : 0 ≤ size)
    (h : guard_lindex_buf ind size = false) : 0 ≤ ind ∧ ind < size := by
  simp [guard_lindex_buf, trunc64, trunc32] at h; omega

theorem g_sindex_buf (ind size : Int) (hs : 0 ≤ size)
    (h : guard_sindex_buf ind size = false) : 0 ≤ ind ∧ ind < size := by
  simp [guard_sindex_buf, trunc64, trunc32] at h; omega

theorem g_lindex_arr (ind size : Int) (hs : 0 ≤ size) (hs2 : size ≤ 65535)
    (h : guard_lindex_arr ind size = false) : 0 ≤ ind ∧ ind < size := by
  simp [guard_lindex_arr, trunc64] at h; omega

theorem g_sindex_arr (ind size : Int) (hs : 0 ≤ size) (hs2 : size ≤ 65535)
    (h : guard_sindex_arr ind size = false) : 0 ≤ ind ∧ ind < size := by
  simp [guard_sindex_arr, trunc64] at h; omega

/-! ### push_lvalue_range -/

/-- the 64-bit pre-check keeps the operand where `(int)n`, `size - (int)n` and `++ind2` are exact -/
theorem g_lrange_ind2_pre (n size : Int) (hs : 0 ≤ size) (hs2 : size ≤ 2147483646)
    (h : guard_lrange_ind2_pre n size = false) : -1 ≤ n ∧ n ≤ size + 1 := by
  unfold guard_lrange_ind2_pre trunc64 trunc32 at h
  simp only [Bool.or_eq_false_iff, decide_eq_false_iff_not] at h
  omega

theorem g_lrange_ind1_pre (n size : Int) (hs : 0 ≤ size) (hs2 : size ≤ 2147483647)
    (h : guard_lrange_ind1_pre n size = false) : 0 ≤ n ∧ n ≤ size := by
  simp [guard_lrange_ind1_pre, trunc64] at h; omega

theorem g_lrange_ind2 (i2 size : Int) (h0 : -2147483648 ≤ i2 + 1) (h1 : i2 + 1 ≤ 2147483647)
    (h : guard_lrange_ind2 i2 size = false) : 0 ≤ i2 + 1 ∧ i2 + 1 ≤ size := by
  unfold guard_lrange_ind2 at h
  rw [trunc32_id (i2 + 1) h0 h1] at h
  simp at h; omega

theorem g_lrange_ind1 (ind1 size : Int)
    (h : guard_lrange_ind1 ind1 size = false) : 0 ≤ ind1 ∧ ind1 ≤ size := by
  simp [guard_lrange_ind1] at h; omega

/-! ### class members -/

theorem g_member (i size : Int) (hi : 0 ≤ i) (hs : 0 ≤ size) (hs2 : size ≤ 65535)
    (h : guard_member i size = false) : i < size := by
  simp [guard_member, trunc32] at h; omega

theorem g_member_lv (i size : Int) (hi : 0 ≤ i) (hs : 0 ≤ size) (hs2 : size ≤ 65535)
    (h : guard_member_lv i size = false) : i < size := by
  simp [guard_member_lv, trunc32] at h; omega

/-! ### slice_array -/

theorem g_slice (size from0 to0 : Int) (hs : 0 ≤ size) (hs2 : size ≤ 65535) :
    let fromC := if guard_slice_from_neg from0 then 0 else from0
    let toC := if guard_slice_to_hi to0 size then size - 1 else to0
    guard_slice_empty fromC toC = false → 0 ≤ fromC ∧ fromC ≤ toC ∧ toC < size := by
  simp only [guard_slice_from_neg, guard_slice_to_hi, guard_slice_empty, trunc32]
  intro h
  by_cases h1 : from0 < 0 <;> by_cases h2 : to0 ≥ (size + 2147483648) % 4294967296 - 2147483648 <;>
    simp [h1, h2] at h ⊢ <;> omega

/-- the 64-bit clamps of f_range in front of slice_array leave values that survive `(int)` unchanged -/
theorem g_range_arr_clamps (size from1 to1 : Int) (hs : 0 ≤ size) (hs2 : size ≤ 65535) :
    let from2 := if guard_range_arr_from_neg from1 then 0 else from1
    let to2 := if guard_range_arr_to_hi to1 size then size - 1 else to1
    let to3 := if guard_range_arr_to_lo to2 then -1 else to2
    let from3 := if guard_range_arr_from_hi from2 size then size else from2
    0 ≤ from3 ∧ from3 ≤ size ∧ -1 ≤ to3 ∧ to3 < size := by
  simp only [guard_range_arr_from_neg, guard_range_arr_to_hi, guard_range_arr_to_lo, guard_range_arr_from_hi, trunc64, trunc32]
  by_cases h1 : from1 < 0 <;> by_cases h2 : to1 ≥ size <;> by_cases h3 : to1 < -1 <;> by_cases h4 : from1 > size <;>
    simp [h1, h2, h3, h4] <;> (try split) <;> omega

theorem g_erange_arr_clamps (size from1 : Int) (hs : 0 ≤ size) (hs2 : size ≤ 65535) :
    let from2 := if guard_erange_arr_from_neg from1 then 0 else from1
    let from3 := if guard_erange_arr_from_hi from2 size then size else from2
    0 ≤ from3 ∧ from3 ≤ size := by
  simp only [guard_erange_arr_from_neg, guard_erange_arr_from_hi, trunc64]
  by_cases h1 : from1 < 0 <;> by_cases h4 : from1 > size <;> simp [h1, h4] <;> (try split) <;> omega

/-! ### value stack -/

theorem g_stack_check (sp num size : Int)
    (h : guard_stack_push_undefineds sp num (endOfStack 0 size) = false) : sp + num < size - 5 := by
  simp [guard_stack_push_undefineds, endOfStack] at h; omega

theorem g_stack_check_some (sp num size : Int)
    (h : guard_stack_push_some_svalues sp num (endOfStack 0 size) = false) : sp + num < size - 5 := by
  simp [guard_stack_push_some_svalues, endOfStack] at h; omega

/-- merge_arg_lists (bound arguments of a function pointer): after the test, `sp += num_arr_arg` stays below the
    slack (repaired: was an unchecked push of a run-time count) -/
theorem g_stack_check_merge (sp num size : Int)
    (h : guard_stack_merge_arg_lists sp num (endOfStack 0 size) = false) : sp + num < size - 5 := by
  simp [guard_stack_merge_arg_lists, endOfStack] at h; omega

theorem g_stack_check_transfer (sp num size : Int)
    (h : guard_stack_transfer_push sp num (endOfStack 0 size) = false) : sp + num < size - 5 := by
  simp [guard_stack_transfer_push, endOfStack] at h; omega

theorem g_stack_push_number (sp size : Int)
    (h : guard_stack_push_number sp (endOfStack 0 size) = false) : sp + 1 < size - 5 := by
  simp [guard_stack_push_number, endOfStack] at h; omega

/-! ### allocation size checks -/

theorem g_alloc_array (n cfg : Int) (hc : 0 ≤ cfg) (hc2 : cfg ≤ 2147483647)
    (h : guard_alloc_empty_array n cfg = false) : n ≤ cfg := by
  simp [guard_alloc_empty_array, truncU64] at h; omega

theorem g_alloc_array_n (n cfg : Int) (hc : 0 ≤ cfg) (hc2 : cfg ≤ 2147483647)
    (h : guard_alloc_array n cfg = false) : n ≤ cfg := by
  simp [guard_alloc_array, truncU64] at h; omega

theorem g_alloc_buffer (n cfg : Int) (hc : 0 ≤ cfg) (hc2 : cfg ≤ 2147483647)
    (h : guard_alloc_buffer n cfg = false) : n ≤ cfg := by
  simp [guard_alloc_buffer, truncU64] at h; omega

end NV.C01
