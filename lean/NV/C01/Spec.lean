/-
C01 specification oracle.  It knows nothing about the implementation's data structures: it reads the canonical
trace of one case (what each command left behind) and reports every event that the property forbids:

  * a sanitizer report (out-of-bounds read/write, use after free, NULL dereference, stack/heap overflow),
  * the process dying (signal, non-zero exit, timeout),
  * C undefined behaviour observed by UBSan (signed overflow in index arithmetic),
  * a command that produced neither a value nor an LPC error,
  * a generated self-checking program reporting a mismatch (re-entrant callbacks; values held across an efun error).

Every command of a case leaves exactly one result line (`r ...` or `fz ...`), so the command that was executing when
a forbidden event happened is identified by counting result lines.
-/
namespace NV.C01

inductive Ev
  | result (text : String)          -- a command finished: value summary or `!err` (LPC error)
  | lpcError (msg : String)         -- the master's error handler saw this message
  | info (text : String)
  | ub (what : String)              -- UBSan: undefined behaviour
  | sanitizer (what : String)       -- ASan / UBSan report of a memory-safety violation
  | crash (what : String)           -- the driver process died
  | malformed (line : String)
  | reent (tests bad : Nat) (first : String)   -- re-entrant callback program: results compared with LPC references
  | holder (tests bad : Nat) (first : String)  -- error-path program: a value still held by a second holder after an
                                               -- efun raised an error is compared with an independently built copy
  deriving Repr, DecidableEq

structure Violation where
  kind : String
  what : String
  cmd : String
  deriving Repr, DecidableEq

def isResult : Ev → Bool
  | .result _ => true
  | _ => false

/-- the command kinds that leave a result line -/
def producesResult (cmd : String) : Bool :=
  cmd.startsWith "idx " || cmd.startsWith "errlen " || cmd.startsWith "badarg " || cmd.startsWith "run " ||
  cmd.startsWith "stackprog " || cmd.startsWith "expl "

/-- short description of a command for verdict lines: its first three words (the whole line for `stackprog`) -/
def cmdTag (cmd : String) : String :=
  let ws := (cmd.splitOn " ").filter (· ≠ "")
  " ".intercalate (if cmd.startsWith "stackprog " then ws else ws.take 3)

def cmdAt (cmds : List String) (k : Nat) : String :=
  match (cmds.filter producesResult)[k]? with
  | some c => cmdTag c
  | none => "?"

/-- walk the events, counting finished commands -/
def judgeEv (cmds : List String) : Nat → List Ev → List Violation
  | _, [] => []
  | k, .result t :: rest =>
    (if t = "r !noops" || t = "r !nofn" || t = "r !build" then [⟨"no-outcome", t, cmdAt cmds k⟩] else []) ++ judgeEv cmds (k + 1) rest
  | k, .ub w :: rest => ⟨"ub-signed-overflow", w, cmdAt cmds k⟩ :: judgeEv cmds k rest
  | k, .sanitizer w :: rest => ⟨"sanitizer", w, cmdAt cmds k⟩ :: judgeEv cmds k rest
  | k, .crash w :: rest => ⟨"crash", w, cmdAt cmds k⟩ :: judgeEv cmds k rest
  | k, .malformed l :: rest => ⟨"malformed-trace", l, cmdAt cmds k⟩ :: judgeEv cmds k rest
  | k, .reent t b f :: rest =>
    (if b > 0 then [⟨"reentrant-callback-mismatch", s!"bad={b}/{t} first={f}", cmdAt cmds k⟩] else []) ++ judgeEv cmds k rest
  | k, .holder t b f :: rest =>
    (if b > 0 then [⟨"holder-corrupted-after-efun-error", s!"bad={b}/{t} first={f}", cmdAt cmds k⟩] else []) ++ judgeEv cmds k rest
  | k, _ :: rest => judgeEv cmds k rest

def Violation.render (v : Violation) : String :=
  s!"{v.kind} {v.what} cmd={v.cmd}"

/-- a trace without forbidden events has no violations -/
def clean : Ev → Bool
  | .ub _ | .sanitizer _ | .crash _ | .malformed _ => false
  | .reent _ b _ => b == 0
  | .holder _ b _ => b == 0
  | .result t => !(t = "r !noops" || t = "r !nofn" || t = "r !build")
  | _ => true

end NV.C01
