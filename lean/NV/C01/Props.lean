/-
C01 — property theorems (see notes/C01.md for the list and what each one carries).

PARTIAL property: these theorems cover the bounds / bookkeeping LOGIC of the interpreter - index and range
arithmetic, error-buffer arithmetic, value-stack checks, dispatch-time type checks, format-argument inventory -
over the REGENERATED guards and tables of `NV.Gen.C01`.  Heap safety of efun bodies is observed by sanitizer runs only.
-/
import NV.C01.IndexOps
import NV.C01.ErrBuf
import NV.C01.Stack
import NV.C01.EfunCheck
import NV.C01.Spec
import NV.C01.Lemmas

namespace NV.C01
open NV.Gen.C01

/-- C type ranges of the size operand: `unsigned short` array size, `size_t` string length (a string longer than
    2^31-1 cannot be built: MaxStringLength is an int), `unsigned int` buffer size -/
def SizeOk (k : Kind) (size : Int) : Prop :=
  0 ≤ size ∧ match k with
  | .arr => size ≤ 65535
  | .str => size ≤ 2147483647
  | .buf => size ≤ 2147483647

theorem not_true_to_false {b : Bool} (h : ¬ b = true) : b = false := by
  cases b <;> simp_all

/-! ## index_access_in_bounds -/

/-- one-access outcome: used by the index theorems -/
theorem one_access_in_bounds (k : Kind) (size off : Int) (rw : Rw) (hlo : 0 ≤ off) (hhi : off + 1 ≤ allocOf k size) :
    ∀ a ∈ [(⟨.owner, off, 1, rw⟩ : Access)], a.inBounds k size 0 := by
  intro a ha
  simp at ha; subst ha
  simp [Access.inBounds]; omega

/-- F_INDEX: every access of `c[n]` lies inside the allocation of the container (strings: the NUL counts), for every
    size and every int64 operand. -/
theorem index_access_in_bounds (k : Kind) (size n : Int) (out : Out) (hk : SizeOk k size)
    (h : opIndex k size n = .ok out) : ∀ a ∈ out.acc, a.inBounds k size 0 := by
  obtain ⟨h0, hk⟩ := hk
  unfold opIndex at h
  cases k with
  | arr =>
    simp only at h hk
    split at h
    · cases h
    · split at h
      · cases h
      · rename_i g1 g2
        cases h
        have := g_index_arr _ _ h0 hk (not_true_to_false g1) (not_true_to_false g2)
        exact one_access_in_bounds _ _ _ _ this.1 (by simp [allocOf]; omega)
  | str =>
    simp only at h hk
    split at h
    · cases h
    · rename_i g1
      cases h
      have := g_index_str _ _ h0 hk (not_true_to_false g1)
      exact one_access_in_bounds _ _ _ _ this.1 (by simp [allocOf]; omega)
  | buf =>
    simp only at h hk
    split at h
    · cases h
    · rename_i g1
      cases h
      have := g_index_buf _ _ h0 hk (not_true_to_false g1)
      exact one_access_in_bounds _ _ _ _ this.1 (by simp [allocOf, bufTailPad]; omega)

/-- F_RINDEX -/
theorem rindex_access_in_bounds (k : Kind) (size n : Int) (out : Out) (hk : SizeOk k size)
    (h : opRindex k size n = .ok out) : ∀ a ∈ out.acc, a.inBounds k size 0 := by
  obtain ⟨h0, hk⟩ := hk
  unfold opRindex at h
  cases k with
  | arr =>
    simp only at h hk
    split at h
    · cases h
    · split at h
      · cases h
      · rename_i g1 g2
        cases h
        have := g_rindex_arr _ _ h0 hk (not_true_to_false g1)
        exact one_access_in_bounds _ _ _ _ this.1 (by simp [allocOf]; omega)
  | str =>
    simp only at h hk
    split at h
    · cases h
    · rename_i g1
      cases h
      have := g_rindex_str _ _ h0 hk (not_true_to_false g1)
      exact one_access_in_bounds _ _ _ _ this.1 (by simp [allocOf]; omega)
  | buf =>
    simp only at h hk
    split at h
    · cases h
    · rename_i g1
      cases h
      have := g_rindex_buf _ _ h0 hk (not_true_to_false g1)
      exact one_access_in_bounds _ _ _ _ this.1 (by simp [allocOf, bufTailPad]; omega)

/-- after its guard F_RINDEX on arrays never overflows `int` (the former undefined behaviour is gone) -/
theorem rindex_arr_no_ub (size n : Int) (hk : SizeOk .arr size) (s : String) : opRindex .arr size n ≠ .error (.ub s) := by
  obtain ⟨h0, hk⟩ := hk
  simp only at hk
  unfold opRindex
  simp only
  split
  · simp
  · rename_i g1
    have := g_rindex_arr _ _ h0 hk (not_true_to_false g1)
    simp [this.2.2]

theorem lindexCore_in_bounds (k : Kind) (onStack : Bool) (size ind v : Int) (out : Out) (hk : SizeOk k size)
    (h : lindexCore k onStack size ind v = .ok out) :
    ∀ a ∈ out.acc, a.inBounds k size 0 ∧ a.off < size := by
  obtain ⟨h0, hk⟩ := hk
  unfold lindexCore at h
  cases k with
  | arr =>
    simp only at hk
    cases onStack <;> simp only [Bool.false_eq_true, ↓reduceIte] at h <;>
    · split at h
      · cases h
      · rename_i g2
        cases h
        intro a ha
        simp [wr] at ha; subst ha
        have : 0 ≤ ind ∧ ind < size := by
          first
            | exact g_lindex_arr _ _ h0 hk (not_true_to_false g2)
            | exact g_sindex_arr _ _ h0 hk (not_true_to_false g2)
        simp [Access.inBounds, allocOf]; omega
  | str =>
    simp only at h hk
    split at h
    · cases h
    · split at h
      · cases h
      · rename_i g1 g2
        cases h
        intro a ha
        simp [wr] at ha; subst ha
        have := g_lindex_str _ _ h0 (by omega) (not_true_to_false g1)
        simp [Access.inBounds, allocOf]; omega
  | buf =>
    simp only at hk
    cases onStack <;> simp only [Bool.false_eq_true, ↓reduceIte] at h <;>
    · split at h
      · cases h
      · split at h
        · cases h
        · rename_i g2 g3
          cases h
          intro a ha
          simp [wr] at ha; subst ha
          have : 0 ≤ ind ∧ ind < size := by
            first
              | exact g_lindex_buf _ _ h0 (not_true_to_false g2)
              | exact g_sindex_buf _ _ h0 (not_true_to_false g2)
          simp [Access.inBounds, allocOf, bufTailPad]; omega

/-- push_indexed_lvalue (both halves) + the store: the written element lies inside the container, and - the
    *logical* bound - strictly below its size, for all three kinds, every size and every int64 operand. -/
theorem lindex_access_in_bounds (k : Kind) (rev onStack : Bool) (size n v : Int) (out : Out) (hk : SizeOk k size)
    (h : opLindex k rev onStack size n v = .ok out) :
    ∀ a ∈ out.acc, a.inBounds k size 0 ∧ a.off < size := by
  unfold opLindex at h
  cases k <;> cases rev <;> cases onStack <;> simp only [Bool.false_eq_true, ↓reduceIte] at h <;>
    first
      | cases h
      | exact lindexCore_in_bounds _ _ _ _ _ _ hk h
      | (split at h
         · cases h
         · exact lindexCore_in_bounds _ _ _ _ _ _ hk h)

/-- the *logical* bound `off < size` for rvalue indexing (F_INDEX and F_RINDEX) of arrays and - since the buffer
    guards were repaired (`>=`) - of buffers -/
theorem index_logical_bound (k : Kind) (hkk : k = .arr ∨ k = .buf) (size n : Int) (out : Out) (hk : SizeOk k size) :
    (opIndex k size n = .ok out ∨ opRindex k size n = .ok out) → ∀ a ∈ out.acc, 0 ≤ a.off ∧ a.off < size := by
  obtain ⟨h0, hk⟩ := hk
  rcases hkk with rfl | rfl <;> simp only at hk <;> rintro (h | h)
  · unfold opIndex at h
    simp only at h
    split at h
    · cases h
    · split at h
      · cases h
      · rename_i g1 g2
        cases h
        intro a ha
        simp [rd] at ha; subst ha
        exact g_index_arr _ _ h0 hk (not_true_to_false g1) (not_true_to_false g2)
  · unfold opRindex at h
    simp only at h
    split at h
    · cases h
    · split at h
      · cases h
      · rename_i g1 g2
        cases h
        intro a ha
        simp [rd] at ha; subst ha
        have := g_rindex_arr _ _ h0 hk (not_true_to_false g1)
        exact ⟨this.1, this.2.1⟩
  · unfold opIndex at h
    simp only at h
    split at h
    · cases h
    · rename_i g1
      cases h
      intro a ha
      simp [rd] at ha; subst ha
      exact g_index_buf _ _ h0 hk (not_true_to_false g1)
  · unfold opRindex at h
    simp only at h
    split at h
    · cases h
    · rename_i g1
      cases h
      intro a ha
      simp [rd] at ha; subst ha
      exact g_rindex_buf _ _ h0 hk (not_true_to_false g1)

theorem index_logical_bound_arr (size n : Int) (out : Out) (hk : SizeOk .arr size) :
    (opIndex .arr size n = .ok out ∨ opRindex .arr size n = .ok out) → ∀ a ∈ out.acc, 0 ≤ a.off ∧ a.off < size :=
  index_logical_bound .arr (Or.inl rfl) size n out hk

theorem index_logical_bound_buf (size n : Int) (out : Out) (hk : SizeOk .buf size) :
    (opIndex .buf size n = .ok out ∨ opRindex .buf size n = .ok out) → ∀ a ∈ out.acc, 0 ≤ a.off ∧ a.off < size :=
  index_logical_bound .buf (Or.inr rfl) size n out hk

/-- strings: the rvalue index may equal the length (the terminating NUL is read, `s[strlen(s)] == 0`) -/
theorem index_logical_bound_str (size n : Int) (out : Out) (hk : SizeOk .str size) :
    (opIndex .str size n = .ok out ∨ opRindex .str size n = .ok out) → ∀ a ∈ out.acc, 0 ≤ a.off ∧ a.off ≤ size := by
  obtain ⟨h0, hk⟩ := hk
  simp only at hk
  rintro (h | h)
  · unfold opIndex at h
    simp only at h
    split at h
    · cases h
    · rename_i g1
      cases h
      intro a ha
      simp [rd] at ha; subst ha
      exact g_index_str _ _ h0 hk (not_true_to_false g1)
  · unfold opRindex at h
    simp only at h
    split at h
    · cases h
    · rename_i g1
      cases h
      intro a ha
      simp [rd] at ha; subst ha
      exact g_rindex_str _ _ h0 hk (not_true_to_false g1)

end NV.C01
