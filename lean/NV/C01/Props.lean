import NV.C01.IndexOps
import NV.C01.ErrBuf
import NV.C01.Stack
import NV.C01.EfunCheck
import NV.C01.Spec
namespace NV.C01
end NV.C01
