/-
C01 model, part 7: the table search of F_SWITCH (lib/lpc/operator.c f_switch, sorted tables of string / integer
labels; the direct-lookup format `i == 14` is guarded by an explicit range test and not part of this model).

Units: table ENTRIES (one entry = SWITCH_CASE_SIZE bytes: key pointer + 2-byte address).  The C code keeps
  l = table + k * SIZE          (current entry k)
  d = e * SIZE                  (step: e is a power of two, or 0 = "d < SWITCH_CASE_SIZE": last probe)
and starts with k = 2^i - 1 (`off_tab[i]`), d = (off_tab[i] + SIZE) >> 1, i.e. e = 2^(i-1) (0 for i = 0), where `i` is
the table-size code the COMPILER stored (icode.c: the largest i with 2^i <= table_size).

The step is represented by its measure m:  e = 0 for m = 0,  e = 2^(m-1) otherwise;  `d >>= 1` is m - 1.
Comparison results are DATA: an arbitrary oracle `cmp : entry → Int` (negative: s < r, positive: s > r, 0: equal).
-/
namespace NV.C01

/-- the step in entries for measure m -/
def swStep (m : Nat) : Int := if m = 0 then 0 else 2 ^ (m - 1)

/-- `while (l >= end_tab) { d >>= 1; if (d < SIZE) { d = 0; break; } l -= d; }` entered with k >= n and step measure m.
    Returns (k, m) at loop exit (m = 0: the `break`). -/
def swFixup (n : Int) : Nat → Int → Int × Nat
  | 0, k => (k, 0)
  | m + 1, k =>
    -- d >>= 1
    if m = 0 then (k, 0)                       -- d < SWITCH_CASE_SIZE: d = 0; break
    else
      let k' := k - swStep m
      if k' ≥ n then swFixup n m k' else (k', m)

/-- what one run of the `for (;;)` loop reads: the probed entries, in order; `Option` = left the table -/
def swLoop (n : Int) (cmp : Int → Int) : Nat → Nat → Int → List Int
  | 0, _, _ => []
  | fuel + 1, m, k =>
    let d := cmp k
    if d = 0 then [k]                                          -- found
    else if d < 0 then
      if m = 0 then [k]                                        -- range test on the neighbour / default
      else k :: swLoop n cmp fuel (m - 1) (k - swStep m)       -- l -= d; d >>= 1
    else
      if m = 0 then [k]
      else
        let k1 := k + swStep m                                 -- l += d
        let (k2, m2) := if k1 ≥ n then swFixup n m k1 else (k1, m)
        if k2 = n then [k]                                     -- l == end_tab: default
        else k :: swLoop n cmp fuel (m2 - 1) k2                -- d >>= 1

/-- icode.c: `while ((power_of_two << 1) <= table_size) { power_of_two <<= 1; i++; }` -/
def swCodeAux (n : Nat) : Nat → Nat → Nat → Nat
  | 0, _, i => i
  | fuel + 1, p, i => if 2 * p ≤ n then swCodeAux n fuel (2 * p) (i + 1) else i

def swCode (n : Nat) : Nat := swCodeAux n n 1 0

/-- all probes of f_switch in a table of n entries with size code i: start at entry 2^i - 1, step measure i -/
def swSearch (n : Int) (i : Nat) (cmp : Int → Int) : List Int :=
  swLoop n cmp (i + 2) i (2 ^ i - 1)

end NV.C01
