/-
C01 - every data-dependent index of subtract_array / alist_sort / intersect_array stays inside its table, for every
table size an array can have and EVERY sequence of comparison results.
-/
import NV.C01.Search

namespace NV.C01
open NV.Gen.C01

/-- loop invariant of the binary search: 0 <= l <= o <= h < size; the probe is inside the table, and with
    h - l + 1 <= fuel the loop ends by itself -/
theorem bsLoop_ok (cmp : Int → Int) (size : Int) (hs : size ≤ 65535) :
    ∀ (fuel : Nat) (l h o : Int), 0 ≤ l → l ≤ o → o ≤ h → h < size → h - l + 1 ≤ fuel →
      (∀ p ∈ (bsLoop cmp fuel l h o).1, 0 ≤ p ∧ p < size) ∧ (bsLoop cmp fuel l h o).2 = true := by
  intro fuel
  induction fuel with
  | zero => intro l h o h0 h1 h2 h3 h4; omega
  | succ f ih =>
    intro l h o h0 h1 h2 h3 h4
    unfold bsLoop
    simp only
    by_cases hd : cmp o = 0
    · rw [if_pos hd]
      exact ⟨by intro p hp; simp at hp; omega, rfl⟩
    · rw [if_neg hd]
      generalize hl' : (if cmp o < 0 then l else bsLNext o) = l'
      generalize hh' : (if cmp o < 0 then bsHNext o else h) = h'
      by_cases hdone : bsDone l' h' = true
      · rw [if_pos hdone]
        exact ⟨by intro p hp; simp at hp; omega, rfl⟩
      · rw [if_neg hdone]
        simp only [bsDone, decide_eq_true_eq] at hdone
        have key : 0 ≤ l' ∧ l' ≤ bsMid l' h' ∧ bsMid l' h' ≤ h' ∧ h' < size ∧ h' - l' + 1 ≤ f := by
          unfold bsLNext bsHNext trunc32 at *
          unfold bsMid trunc32
          split at hl' <;> split at hh' <;> omega
        obtain ⟨k0, k1, k2, k3, k4⟩ := key
        have r := ih _ _ _ k0 k1 k2 k3 k4
        refine ⟨?_, r.2⟩
        intro p hp
        simp only [List.mem_cons] at hp
        rcases hp with rfl | hp
        · omega
        · exact r.1 p hp

/-- `subtract_array_probes_in_bounds`: for every subtrahend size 1..65535 and every comparison oracle, each probe
    `svt + o` of the binary search lies in `svt[0 .. size)`, and the loop ends by itself within size + 1 rounds -/
theorem subtract_array_probes_in_bounds (size : Int) (h1 : 1 ≤ size) (hs : size ≤ 65535) (cmp : Int → Int) :
    (∀ p ∈ (bsearch size cmp).1, 0 ≤ p ∧ p < size) ∧ (bsearch size cmp).2 = true := by
  unfold bsearch
  apply bsLoop_ok cmp size hs
  · unfold bsLInit; omega
  · unfold bsLInit bsOInit bsHInit trunc32; omega
  · unfold bsOInit bsHInit trunc32; omega
  · unfold bsHInit trunc32; omega
  · unfold bsLInit bsHInit trunc32; omega

/-- sift-up: the parent of a node 1 <= curix < size is a smaller node of the table -/
theorem heap_parent_in_bounds (size curix : Int) (h1 : 1 ≤ curix) (h2 : curix < size) (hs : size ≤ 65535) :
    0 ≤ heapParent curix ∧ heapParent curix < curix := by
  unfold heapParent trunc32; omega

theorem siftUpPath_in_bounds (size : Int) (hs : size ≤ 65535) : ∀ (fuel : Nat) (curix : Int), 1 ≤ curix → curix < size →
    ∀ p ∈ siftUpPath fuel curix, 0 ≤ p ∧ p < size := by
  intro fuel
  induction fuel with
  | zero => intro c _ _ p hp; simp [siftUpPath] at hp
  | succ f ih =>
    intro c h1 h2 p hp
    have hb := heap_parent_in_bounds size c h1 h2 hs
    unfold siftUpPath at hp
    simp only at hp
    split at hp
    · simp at hp; omega
    · simp at hp
      rcases hp with rfl | hp
      · omega
      · exact ih _ (by omega) (by omega) p hp

/-- sift-down: every index of sv_tab[] read in one step, and the node moved to, is inside the table -/
theorem heap_children_guarded (size curix : Int) (sel : Bool) (h0 : 0 ≤ curix) (h2 : curix < size) (hs : size ≤ 65535) :
    (∀ p ∈ (siftDownReads size curix sel).1, 0 ≤ p ∧ p < size) ∧
    (∀ c, (siftDownReads size curix sel).2 = some c → curix < c ∧ c < size) := by
  have e1 : heapChild1 curix = 2 * curix + 1 := by unfold heapChild1 trunc32; omega
  have e2 : heapChild2 (2 * curix + 1) = 2 * curix + 2 := by unfold heapChild2 trunc32; omega
  unfold siftDownReads
  simp only [e1, e2]
  refine ⟨?_, ?_⟩
  · intro p hp
    by_cases g2 : 2 * curix + 2 < size <;> by_cases g1 : 2 * curix + 1 < size <;> cases sel <;>
      simp [g2, g1] at hp <;> omega
  · intro c hc
    by_cases g2 : 2 * curix + 2 < size <;> by_cases g1 : 2 * curix + 1 < size <;> cases sel <;>
      simp [g2, g1] at hc <;> omega

/-- intersect_array: the merge pointer never leaves the sorted copy of the first operand -/
theorem isect_pointer_in_bounds (i a1s : Int) (h0 : 0 ≤ i) (h1 : i < a1s) (hs : a1s ≤ 65535) :
    ∀ j, isectAdvance i a1s = some j → 0 ≤ j ∧ j < a1s := by
  intro j hj
  unfold isectAdvance isectExhausted trunc32 at hj
  by_cases hc : (i + 1 + 2147483648) % 4294967296 - 2147483648 ≥ a1s
  · simp [hc] at hj
  · simp [hc] at hj; omega

/-- non-vacuity: searching 7 in a table of 10 with "always greater" probes 4, 7, 8, 9 and ends -/
example : bsearch 10 (fun _ => 1) = ([4, 7, 8, 9], true) := by decide
example : bsearch 1 (fun _ => -1) = ([0], true) := by decide
example : (siftDownReads 10 1 true).1 = [4, 3, 4] := by decide

end NV.C01
