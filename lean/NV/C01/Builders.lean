/-
C01 model, part 5: array builders that write by index.  `explode_string` (lib/lpc/array.c):

    count the delimiters -> num (+1: the last piece);  if (num > MAX) num = MAX;  ret = allocate_empty_array (num);
    limit = MAX - 1;
    for (...; *p && num < limit; ) at every delimiter { if (num >= ret->size) fatal (..); ret->item[num] = piece; num++; }
    ret->item[num] = last piece;

Clamp, allocation argument, loop bound, loop condition, fatal guard and both store indices are the REGENERATED
`NV.Gen.C01.guard_explode_* / explode*`, so a change of the loop bound (`MAX - 1` -> `MAX`) changes the definitions the
theorems are about.  The scan itself is abstracted to what matters for the indices: `d` = delimiters found (the fill
loop finds the same ones as the counting loop), `tail` = text follows the last delimiter.
-/
import NV.C01.IndexOps

namespace NV.C01
open NV.Gen.C01

structure ExplodeOut where
  alloc : Int               -- elements of the allocated result
  stores : List Int         -- indices written, in order
  deriving Repr, DecidableEq

/-- the fill loop over the `r` delimiters still ahead: (num after the loop, indices stored so far - newest first) -/
def explodeLoop (limit size : Int) : Nat → Int → List Int → Except Err (Int × List Int)
  | 0, num, acc => .ok (num, acc)
  | r + 1, num, acc =>
    if !guard_explode_loop num limit then .ok (num, acc)          -- loop condition `num < limit` is false
    else if guard_explode_fatal num size then .error (.fatal "Index out of bounds in explode!")
    else explodeLoop limit size r (num + 1) (explodeLoopIdx num :: acc)

def explodePieces (maxArr : Int) (d : Nat) (tail : Bool) : Except Err ExplodeOut :=
  let num0 : Int := (d : Int) + (if explodeReversible || tail then 1 else 0)
  let num1 := if guard_explode_clamp num0 maxArr then explodeClampTo maxArr else num0
  let alloc := explodeAlloc num1
  match explodeLoop (explodeLimit maxArr) alloc d 0 [] with
  | .error e => .error e
  | .ok (num, acc) =>
    -- last piece: always (reversible) / when text is left: after the last delimiter, or delimiters were left unprocessed
    let last := if explodeReversible || tail || decide (num < d) then [explodeLastIdx num] else []
    .ok ⟨alloc, acc.reverse ++ last⟩

/-! ### add_array (p, r): `res = p->size + r->size`, size check, allocation of `res`, p copied to [0, psize), r to
    [psize, psize + rsize) -/

structure Fill where
  alloc : Int
  writes : List (Int × Int)      -- (first index, count)
  deriving Repr, DecidableEq

def addArray (maxArr psize rsize : Int) : Except Err Fill :=
  let res := addArrayRes psize rsize
  if guard_add_array res maxArr then .error (.lpc msg_add_array)
  else .ok ⟨res, [(0, psize), (psize, rsize)]⟩

/-! ### implode_string (arr, del): `num` strings of total length `size`, separated by `del` (del_len bytes):
    new_string (size + (num - 1) * del_len) gives that many bytes + 1 for the NUL; the fill loop writes every string,
    `del` in front of all but the first, and the NUL. -/

def implode (maxStr size num delLen : Int) : Except Err Fill :=
  if guard_implode size num delLen maxStr then .error (.lpc msg_implode)
  else .ok ⟨implodeAlloc size num delLen + 1, [(0, size + (num - 1) * delLen), (size + (num - 1) * delLen, 1)]⟩

end NV.C01
