/-
C01 - write_buffer() / read_buffer() (lib/lpc/buffer.c): the byte range handed to memcpy lies inside the buffer.
`writeBufferRange` / `readBufferRange` are REGENERATED from the clang AST (the `if`s that move `start` / `len` or
`return 0`, in source order, with the C integer types: `(size_t)start + theLength` wraps like the C expression).
-/
import NV.Gen.C01

namespace NV.C01
open NV.Gen.C01

/-- `write_buffer_range_in_bounds`: for every buffer size (unsigned int), every int64 start offset and every payload
    length a C object can have (< 2^32: SVALUE_STRLEN, buf->size, sizeof (int)): when the function reaches its memcpy,
    the destination range [start, start + theLength) is inside the buffer -/
theorem write_buffer_range_in_bounds (size start len o l : Int) (hs0 : 0 ≤ size) (hs1 : size ≤ 4294967295)
    (h1 : -9223372036854775808 ≤ start) (h2 : start ≤ 9223372036854775807) (hl0 : 0 ≤ len) (hl1 : len ≤ 4294967295)
    (h : writeBufferRange size start len = some (o, l)) : 0 ≤ o ∧ o + l ≤ size ∧ l = len := by
  unfold writeBufferRange trunc64 truncU64 at h
  simp only at h
  (repeat' split at h) <;> simp at * <;> omega

/-- read_buffer(): the scan / copy range [start, start + len) is inside the buffer, for every requested length below
    2^63 (a NEGATIVE LPC length is converted to a size_t >= 2^63: then `(size_t)start + len` wraps, the clamp does not
    fire and the scan is only stopped by the zero bytes of the buffer_t tail padding - outside this theorem, see notes) -/
theorem read_buffer_range_in_bounds (size start len o l : Int) (hs0 : 0 ≤ size) (hs1 : size ≤ 4294967295)
    (h1 : -9223372036854775808 ≤ start) (h2 : start ≤ 9223372036854775807) (hl0 : 0 ≤ len) (hl1 : len ≤ 9223372036854775807)
    (h : readBufferRange size start len = some (o, l)) : 0 ≤ o ∧ 0 ≤ l ∧ o + l ≤ size ∧ o < size := by
  unfold readBufferRange trunc64 truncU64 at h
  simp only at h
  (repeat' split at h) <;> simp at * <;> omega

/-- non-vacuity; the seeded change's input is rejected: 8-byte buffer, start -12, 4-byte payload -/
example : writeBufferRange 8 (-12) 4 = none := by decide
example : writeBufferRange 8 (-4) 4 = some (4, 4) := by decide
example : writeBufferRange 8 5 4 = none := by decide
example : readBufferRange 8 (-3) 0 = some (5, 3) := by decide
example : readBufferRange 8 2 100 = some (2, 6) := by decide

end NV.C01
