/-
C01 model, part 4: the dispatch-time type checks of efun calls (eval_instruction, cases F_EFUN0..3, F_EFUNV and the
one-byte efun opcodes) over the REGENERATED efun table `NV.Gen.C01.efuns` and the REGENERATED lists of CHECK_TYPES
calls `dispatch_*`.  Which opcode form the compiler emits is `formOf` (lib/lpc/program/icode.c, NODE_EFUN).
-/
import NV.Gen.C01

namespace NV.C01
open NV.Gen.C01

inductive Form | onearg | efunN (n : Nat) | efunV
  deriving Repr, DecidableEq

/-- icode.c: `if (f < ONEARG_MAX) ins_byte(f) else if (nargs < 4 && max_arg != -1) F_EFUN0+nargs else F_EFUNV` -/
def formOf (e : Efun) (nargs : Nat) : Form :=
  if e.op < onearg_max then .onearg
  else if nargs < 4 ∧ e.maxArg ≠ -1 then .efunN nargs
  else .efunV

def dispatchN : Nat → List (Nat × Nat × Nat)
  | 0 => dispatch_efun0
  | 1 => dispatch_efun1
  | 2 => dispatch_efun2
  | 3 => dispatch_efun3
  | _ => []

/-- the checks performed for a call with `nargs` arguments on the stack:
    (argument position counted from the first argument, index into instrs[].type[]) -/
def checksOf (e : Efun) (nargs : Nat) : List (Nat × Nat) :=
  match formOf e nargs with
  | .onearg => dispatch_default.map (fun c => (1 - c.1, c.2.1))               -- st_num_arg = 1
  | .efunN n => (dispatchN n).map (fun c => (n - c.1, c.2.1))                 -- st_num_arg = n
  | .efunV =>
    -- for (i = 1; i <= min_arg; i++) CHECK_TYPES (sp - st_num_arg + i, type[i - 1], i)
    if dispatch_efunv_loop then (List.range e.minArg.toNat).map (fun i => (i + 1, i)) else []

/-- arities the compiler lets through (validate_efun_call) -/
def accepts (e : Efun) (nargs : Nat) : Bool :=
  decide (e.minArg ≤ nargs) && (decide (e.maxArg = -1) || decide ((nargs : Int) ≤ e.maxArg))

/-- every argument position below min_arg is checked against the mask of the same position, and no check reads
    outside `type[instrTypeSlots]` -/
def covered (e : Efun) (nargs : Nat) : Bool :=
  (List.range e.minArg.toNat).all (fun i => (checksOf e nargs).contains (i + 1, i)) &&
  (checksOf e nargs).all (fun c => decide (c.2 < instrTypeSlots) && decide (1 ≤ c.1) && decide (c.1 ≤ nargs))

/-- the finitely many arities that matter: a varargs efun always uses F_EFUNV, whose checks do not depend on the
    arity; otherwise min_arg .. max_arg -/
def aritiesOf (e : Efun) : List Nat :=
  if e.maxArg = -1 then [e.minArg.toNat]
  else (List.range (e.maxArg.toNat + 1)).filter (fun n => decide (e.minArg ≤ n))

def efunOk (e : Efun) : Bool :=
  decide (0 ≤ e.minArg) && (aritiesOf e).all (covered e) &&
  -- one-byte opcodes are dispatched with st_num_arg = 1: they must be exactly-one-argument efuns
  (if e.op < onearg_max then decide (e.minArg = 1) && decide (e.maxArg = 1) else true)

end NV.C01
