/-
C01 - the oracle clause `ub-signed-overflow` for the modelled opcodes, closed at the level of the model: NO index /
reverse-index / range / range-lvalue opcode case has an undefined-behaviour outcome, for every kind, every size a C
container can have and every operand.  (The driver turns exactly the `.ub` outcomes of these functions into `Ev.ub`
events, so the model trace of an `idx` command never contains the event the clause forbids.)
-/
import NV.C01.PropsWrap
import NV.C01.PropsLrange

namespace NV.C01
open NV.Gen.C01

theorem opIndex_no_ub (k : Kind) (size n : Int) (s : String) : opIndex k size n ≠ .error (.ub s) := by
  unfold opIndex
  cases k <;> simp only <;> (repeat' split) <;> simp

theorem opRindex_no_ub (k : Kind) (size n : Int) (hk : SizeOk k size) (s : String) : opRindex k size n ≠ .error (.ub s) := by
  cases k
  · exact rindex_arr_no_ub size n hk s
  · unfold opRindex; simp only; split <;> simp
  · unfold opRindex; simp only; split <;> simp

theorem lrangeAssign_no_ub (lim : Limits) (k : Kind) (sz i1 i2 f : Int) (s : String) :
    lrangeAssign lim k sz i1 i2 f ≠ .error (.ub s) := by
  unfold lrangeAssign
  cases k <;> simp only <;> (repeat' split) <;> simp

theorem opLrange_no_ub (lim : Limits) (k : Kind) (r1 r2 : Bool) (size n1 n2 f : Int) (hk : SizeOk k size)
    (h2 : size ≤ 2147483645) (s : String) : opLrange lim k r1 r2 size n1 n2 f ≠ .error (.ub s) := by
  have hsz : 0 ≤ lrangeSz k size ∧ lrangeSz k size ≤ 2147483645 := by
    obtain ⟨h0, _⟩ := hk
    unfold lrangeSz
    cases k <;> simp only <;> (try unfold trunc32) <;> omega
  have hb := lrangeBounds_no_ub r1 r2 (lrangeSz k size) n1 n2 hsz.1 hsz.2 s
  unfold opLrange
  split
  · rename_i e he
    intro hc
    simp only [Except.error.injEq] at hc
    subst hc
    exact hb he
  · exact lrangeAssign_no_ub lim k _ _ _ f s

/-- `model_ops_no_ub`: the oracle clause "no C undefined behaviour in index arithmetic", for every modelled opcode case -/
theorem model_ops_no_ub (lim : Limits) (k : Kind) (r1 r2 onStack : Bool) (size n1 n2 v f : Int) (hk : SizeOk k size)
    (h2 : size ≤ 2147483645) (s : String) :
    opIndex k size n1 ≠ .error (.ub s) ∧ opRindex k size n1 ≠ .error (.ub s) ∧
    opLindex k r1 onStack size n1 v ≠ .error (.ub s) ∧ opRange lim k r1 r2 size n1 n2 ≠ .error (.ub s) ∧
    opErange lim k r1 size n1 ≠ .error (.ub s) ∧ opLrange lim k r1 r2 size n1 n2 f ≠ .error (.ub s) :=
  ⟨opIndex_no_ub k size n1 s, opRindex_no_ub k size n1 hk s, lindex_arith_defined k r1 onStack size n1 v s,
   range_arith_defined lim k r1 r2 size n1 n2 s, erange_arith_defined lim k r1 size n1 s,
   opLrange_no_ub lim k r1 r2 size n1 n2 f hk h2 s⟩

end NV.C01
