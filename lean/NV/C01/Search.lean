/-
C01 model, part 6: the data-dependent indices of the array builders (lib/lpc/array.c).

* subtract_array(): binary search of every minuend element in the sorted subtrahend table `svt[0 .. size)`.  The
  comparison results are DATA: the model takes them from an arbitrary oracle `cmp : probe index → d` and lists the probed
  indices.  Every arithmetic step is the REGENERATED `bs*` definition.
* alist_sort() / intersect_array(): heap indices - parent of a sift-up step, children of a sift-down step - are the
  REGENERATED `heapParent / heapChild1 / heapChild2`; a child is only used behind `child < size`.
* intersect_array(): the merge pointer `i` into the sorted first operand advances behind `++i >= a1s`.
-/
import NV.Gen.C01

namespace NV.C01
open NV.Gen.C01

/-- the `while ((d = alist_cmp (source, svt + o)))` loop: probes `o`; d = 0 ends it (found), otherwise the bounds move
    and `l > h` ends it (not found).  `fuel` bounds the recursion; `bsearch_fuel_enough` shows size + 1 suffices. -/
def bsLoop (cmp : Int → Int) : Nat → Int → Int → Int → List Int × Bool
  | 0, _, _, _ => ([], false)                        -- out of fuel (never happens: theorem)
  | fuel + 1, l, h, o =>
    let d := cmp o
    if d = 0 then ([o], true)
    else
      let h' := if d < 0 then bsHNext o else h
      let l' := if d < 0 then l else bsLNext o
      if bsDone l' h' then ([o], true)
      else
        let r := bsLoop cmp fuel l' h' (bsMid l' h')
        (o :: r.1, r.2)

/-- all probes of one search in a table of `size` elements; second component: the loop ended by itself -/
def bsearch (size : Int) (cmp : Int → Int) : List Int × Bool :=
  bsLoop cmp (size.toNat + 1) bsLInit (bsHInit size) (bsOInit (bsHInit size))

/-- sift-up from `curix` (> 0): the parents visited (`do { parix = ..; ... } while ((curix = parix))`) -/
def siftUpPath : Nat → Int → List Int
  | 0, _ => []
  | fuel + 1, curix =>
    let p := heapParent curix
    if p = 0 then [p] else p :: siftUpPath fuel p

/-- one sift-down step at `curix` in a table of `size`: the indices of sv_tab[] that are read (child2 and child1 only
    behind their `< size` guard; `sel` says which child wins when both are usable) -/
def siftDownReads (size curix : Int) (sel : Bool) : List Int × Option Int :=
  let c1 := heapChild1 curix
  let c2 := heapChild2 c1
  let r2 := if c2 < size then [c2, c1] else []          -- sv_tab[child2].type, sv_tab[child1].type / alist_cmp
  let c := if c2 < size ∧ sel then c2 else c1
  if c < size then (r2 ++ [c], some c) else (r2, none)

/-- intersect_array: the merge pointer after a `> 0` comparison: `if (++i >= a1s) goto settle_business` -/
def isectAdvance (i a1s : Int) : Option Int :=
  if isectExhausted i a1s then none else some (i + 1)

end NV.C01
