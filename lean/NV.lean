-- root of the NV library: models, specifications and property theorems
import NV.Common.Proto
import NV.Gen.C10
import NV.C10.Model
import NV.C10.Spec
import NV.C10.Drive
import NV.C10.Props
