"""Generic decision procedure of one check run (DESIGN.md 2.5), shared by all properties.

 A  regenerate NV/Gen/<P>.lean from the source            failure => tie broken
 B  lake build of the property theorems, audit            failure => obligation broken
 C  build the repository + harness, run corpus, boundary and generated cases through the implementation
    and the executable model, diff canonical traces       difference => correspondence broken
    the specification oracle (`judge`, the same Lean function the theorems are about) runs on every
    implementation trace                                  bad verdict => violation with that case as replay
 D  if A/B/C broke but no case failed yet: search (more cases, mutations around the differing case);
    a failing case => VIOLATION with replay; none => VIOLATION ... no-failing-input-found
 E  open known findings: replay, print KNOWN-FINDING lines
 F  evidence/<P>.json
"""
import hashlib
import json
import os
import re
import sys
import time
import traceback

from . import engine as E
from . import extract as X


class Prop:
    """base class of a property plugin (props/cNN.py defines `PROP = <subclass>()`)"""
    id = None
    title = ""
    lean_modules = []          # modules holding the property theorems (built and audited)
    theorems = []              # fully qualified theorem names (obligations)
    witness_theorems = []      # Lean-checked counterexamples of full statements (known findings)
    consts = []                # (leanName, C expression) -> NV/Gen/<id>.lean
    const_headers = []
    const_prelude = ""
    quick_n = 200
    thorough_n = 3000
    search_n = 1500
    design_ref = ""
    trusted = []               # extra trusted-base lines
    not_covered = []
    rule = ""

    # ---- hooks a plugin implements --------------------------------------
    def prepare(self, ctx):
        """build harness(es); may stash things on self"""
        raise NotImplementedError

    def gen_extra(self, ctx, bdir):
        """additional generated Lean (guards, tables); returns extra text for the Gen file"""
        return ""

    def boundary(self):
        return []

    def generate(self, rng, n, tier):
        return []

    def mutate_around(self, case, rng, n):
        """cases near `case` for the search stage; default: fresh generated cases"""
        return self.generate(rng, n, "search")

    def run_impl(self, ctx, cases):
        raise NotImplementedError

    def run_model(self, ctx, cases):
        return E.nvdrive(self.id, "model", E.cases_text(cases))

    def run_judge(self, ctx, cases, impl):
        js = []
        for c in cases:
            js.append(E.Case(c.id, c.lines + ["--"] + impl.get(c.id, ["crash missing"])))
        return E.nvdrive(self.id, "judge", E.cases_text(js))

    def canon(self, lines):
        return [l.rstrip() for l in lines if l.strip() != ""]

    def nontrivial_key(self, case, out):
        """hashable key identifying a distinct non-trivial case, or None when trivial"""
        body = [l for l in out if not l.startswith("bad-line")]
        if len(body) < 2:
            return None
        return hashlib.sha1("\n".join(body).encode()).hexdigest()

    def extra_checks(self, ctx, tier, rng):
        """property specific additional stages; returns list of problem dicts"""
        return []

    def histogram(self, cases, impl):
        return {}


class Ctx:
    def __init__(self, prop, tier, seed):
        self.prop = prop
        self.tier = tier
        self.seed = seed
        self.rundir = os.path.join(E.WORK, "run", "%s-%d" % (prop.id, os.getpid()))
        os.makedirs(self.rundir, exist_ok=True)
        self.bdir = None


def load_known(pid):
    paths = [os.path.join(E.VERIF, "KNOWN_FINDINGS.jsonl")]
    kd = os.path.join(E.VERIF, "known")
    if os.path.isdir(kd):
        paths += [os.path.join(kd, f) for f in sorted(os.listdir(kd)) if f.endswith(".jsonl")]
    out = []
    for path in paths:
        if not os.path.exists(path):
            continue
        for line in open(path):
            line = line.strip()
            if not line or line.startswith("#"):
                continue
            try:
                d = json.loads(line)
            except ValueError:
                continue
            if d.get("property") == pid:
                out.append(d)
    return out


def load_corpus(pid):
    d = os.path.join(E.VERIF, "corpus", pid)
    cases = []
    if os.path.isdir(d):
        for fn in sorted(os.listdir(d)):
            if fn.endswith(".case"):
                lines = [l.rstrip("\n") for l in open(os.path.join(d, fn))]
                lines = [l for l in lines if l and not l.startswith("case ") and l != "end"]
                cases.append(E.Case("corpus-" + fn[:-5], lines, {"origin": "corpus"}))
    return cases


def restore_committed_gen(pid):
    """put the last committed lean/NV/Gen/<pid>.lean back (True when that changed the file)"""
    import subprocess
    rel = "lean/NV/Gen/%s.lean" % pid
    r = subprocess.run(["git", "-C", E.VERIF, "show", "HEAD:" + rel], capture_output=True, text=True)
    path = os.path.join(E.VERIF, rel)
    if r.returncode != 0 or not r.stdout or (os.path.exists(path) and open(path).read() == r.stdout):
        return False
    open(path, "w").write(r.stdout)
    return True


def write_replay(prop, seed, kind, case, expected, observed, extra=None):
    d = os.path.join(E.VERIF, "replays")
    os.makedirs(d, exist_ok=True)
    n = 0
    while True:
        path = os.path.join(d, "%s-%d-%d.json" % (prop.id, seed, n))
        if not os.path.exists(path):
            break
        n += 1
    doc = {"property": prop.id, "kind": kind, "seed": seed,
           "case": case.lines if case else None,
           "expected": expected, "observed": observed,
           "cmd": "./check %s --replay %s" % (prop.id, path)}
    if extra:
        doc.update(extra)
    with open(path, "w") as f:
        json.dump(doc, f, indent=1)
    return path


def classify(verdict_lines, known):
    """split judge verdict lines into (new, known_hits)"""
    new, hits = [], []
    for v in verdict_lines:
        if v == "ok":
            continue
        matched = None
        for k in known:
            if k.get("status") == "open" and re.search(k["signature"], v):
                matched = k
                break
        if matched:
            hits.append((matched, v))
        else:
            new.append(v)
    return new, hits


def shrink(prop, ctx, case, kind_of, budget=40):
    """delta-debugging style shrinking with a wall-clock budget: remove chunks of lines (halves, quarters, ...
    single lines) as long as the judge keeps reporting a verdict of the same kind.  Plugins may veto candidates
    (prop.shrink_ok) or switch shrinking off (prop.no_shrink)."""
    if getattr(prop, "no_shrink", False) or E.slow_tree():
        return case   # on a tree that hangs every candidate would cost a time-out
    deadline = time.time() + float(os.environ.get("NV_SHRINK_SECONDS", "90"))
    want = kind_of
    cur = case
    n = len(cur.lines)
    chunk = max(1, n // 2)
    rounds = 0
    while chunk >= 1 and time.time() < deadline and rounds < 200:
        rounds += 1
        cands = []
        i = 0
        while i < len(cur.lines):
            lines = cur.lines[:i] + cur.lines[i + chunk:]
            if lines and (not hasattr(prop, "shrink_ok") or prop.shrink_ok(lines)):
                cands.append(E.Case("s%d" % i, lines))
            i += chunk
        cands = cands[:64]
        if not cands:
            chunk //= 2
            continue
        try:
            impl = {k: prop.canon(v) for k, v in prop.run_impl(ctx, cands).items()}
            jd = prop.run_judge(ctx, cands, impl)
        except Exception:
            break
        better = None
        for c in cands:
            v = jd.get(c.id, [])
            if any(x.startswith("bad ") and len(x.split()) > 1 and x.split()[1] == want for x in v):
                better = c
                break
        if better is None:
            if chunk == 1:
                break
            chunk //= 2
        else:
            cur = E.Case(case.id, better.lines, case.meta)
            chunk = min(chunk, max(1, len(cur.lines) // 2))
    return cur


def evaluate(prop, ctx, cases, known):
    """run impl, model and judge on cases; returns dict with results"""
    impl = {k: prop.canon(v) for k, v in prop.run_impl(ctx, cases).items()}
    # cases the harness did not run because the tree hangs (engine.run_harness / vh.c `notrun slow-tree`) carry no
    # verdict: they are neither compared nor judged (the cases that did time out are)
    skipped = [c for c in cases if impl.get(c.id) == E.NOTRUN]
    if skipped:
        E.log("slow tree: %d of %d cases were not run" % (len(skipped), len(cases)))
        cases = [c for c in cases if impl.get(c.id) != E.NOTRUN]
    model = {k: prop.canon(v) for k, v in prop.run_model(ctx, cases).items()}
    jd = prop.run_judge(ctx, cases, impl)
    res = {"impl": impl, "model": model, "judge": jd, "violations": [], "known": [], "diffs": []}
    for c in cases:
        v = jd.get(c.id, ["bad judge-missing"])
        new, hits = classify(v, known)
        if new:
            res["violations"].append((c, new))
        for k, line in hits:
            res["known"].append((k, c, line))
        if impl.get(c.id) != model.get(c.id):
            res["diffs"].append(c)
    return res


def first_diff(a, b):
    for i in range(max(len(a), len(b))):
        x = a[i] if i < len(a) else "<end>"
        y = b[i] if i < len(b) else "<end>"
        if x != y:
            return i, x, y
    return None


def run_check(prop, tier, seed, replay=None):
    t0 = time.time()
    ctx = Ctx(prop, tier, seed)
    rng = E.Rng(seed)
    known = load_known(prop.id)
    problems = []          # broken ties / obligations: dicts {kind, name, detail}
    out_lines = []
    ev = {"property_id": prop.id, "tier": tier, "seed": seed, "level": "proof", "violations": 0}
    cov = {}

    def say(s):
        print(s)
        sys.stdout.flush()

    # ---- repository build (needed by A for config.h) ------------------------
    try:
        ctx.bdir = E.repo_build("asan")
    except E.BuildError as e:
        say("BUILD-ERROR: the repository working tree does not build: %s" % str(e)[-800:])
        return 2

    # ---- A: regenerate Gen ---------------------------------------------------
    try:
        if prop.consts:
            extra = prop.gen_extra(ctx, ctx.bdir)
            ctx.gen_vals = X.gen_consts(prop.id, ctx.bdir, prop.consts, prop.const_headers, prop.const_prelude, extra)
    except X.TieBroken as e:
        problems.append({"kind": "tie-broken", "name": e.site, "detail": str(e)})

    # ---- B: theorems ---------------------------------------------------------
    obligations = list(prop.theorems) + list(prop.witness_theorems)
    discharged = 0
    axioms = {}
    ok, out = E.lean_build(prop.lean_modules + ["nvdrive"])
    if not ok:
        errs = re.findall(r"error: ([^\n]*\.lean:\d+:\d+: [^\n]*)", out)
        # which theorems are in failing modules: conservative - all of this property's modules that failed
        failed_mods = sorted(set(re.findall(r"✖ \[\d+/\d+\] Building ([\w.]+)", out)))
        problems.append({"kind": "obligation-broken", "name": ",".join(failed_mods) or "lake build",
                         "detail": "\n".join(errs[:10]) or out[-1500:]})
        # the model driver is needed for everything else
        ok2, out2 = E.lean_build(["nvdrive"])
        if not ok2 and restore_committed_gen(prop.id):
            # the executable model does not elaborate over the regenerated NV/Gen: fall back to the last committed
            # Gen file for the MODEL only, so that the search stage still runs (the oracle judges the implementation's
            # traces; the broken obligation is already recorded and is reported whatever the search finds)
            problems.append({"kind": "tie-broken", "name": "model-over-regenerated-Gen",
                             "detail": "nvdrive does not build over the regenerated NV/Gen/%s.lean; the committed one is "
                                       "used for the search stage\n%s" % (prop.id, out2[-800:])})
            ok2, out2 = E.lean_build(["nvdrive"])
        if not ok2:
            path = write_replay(prop, seed, "obligation-broken", None, "model builds against regenerated NV/Gen",
                                out2[-2000:], {"theorem": "nvdrive (model no longer elaborates over NV/Gen)"})
            say("VIOLATION property=%s replay=%s no-failing-input-found" % (prop.id, path))
            write_evidence(prop, ev, {"obligations": len(obligations), "discharged": 0}, t0, 1, problems)
            return 1
    else:
        bad = E.forbidden_scan()
        if bad:
            problems.append({"kind": "obligation-broken", "name": "forbidden-construct", "detail": "\n".join(bad[:10])})
        if obligations:
            for mod in prop.lean_modules:
                pass
            res, missing, aout = E.axiom_audit_multi(prop.lean_modules, obligations)
            axioms = res
            for t in obligations:
                if t in res and set(res[t]) <= E.ACCEPTED_AXIOMS:
                    discharged += 1
                else:
                    problems.append({"kind": "obligation-broken", "name": t,
                                     "detail": "missing or depends on unaccepted axioms: %s" % res.get(t)})

    # ---- C: implementation side ---------------------------------------------
    try:
        prop.prepare(ctx)
    except E.BuildError as e:
        problems.append({"kind": "tie-broken", "name": "harness-build", "detail": str(e)[-1500:]})
        path = write_replay(prop, seed, "tie-broken", None, "harness builds against the source", str(e)[-2000:],
                            {"site": "harness-build"})
        say("VIOLATION property=%s replay=%s no-failing-input-found" % (prop.id, path))
        write_evidence(prop, ev, {"obligations": len(obligations), "discharged": discharged}, t0, 1, problems)
        return 1

    if replay:
        doc = json.load(open(replay))
        if not doc.get("case"):
            # a broken obligation / tie without a failing input: replaying it = running the check again
            replay = None
    if replay:
        cases = [E.Case("replay", doc.get("case") or [])]
    else:
        cases = load_corpus(prop.id)
        for k in known:
            if k.get("input"):
                cases.append(E.Case("known-%s" % k.get("id", len(cases)), k["input"], {"origin": "known", "known": k}))
        cases += prop.boundary()
        n = prop.quick_n if tier == "quick" else prop.thorough_n
        cases += prop.generate(rng, n, tier)
        # unique ids
        seen = set()
        for i, c in enumerate(cases):
            if c.id in seen:
                c.id = "%s-%d" % (c.id, i)
            seen.add(c.id)

    res = evaluate(prop, ctx, cases, known)
    problems += prop.extra_checks(ctx, tier, rng)

    status = 0
    viol = res["violations"]
    if replay:
        c = cases[0]
        say("--- implementation trace")
        for l in res["impl"].get(c.id, []):
            say("  " + l)
        say("--- model trace")
        for l in res["model"].get(c.id, []):
            say("  " + l)
        say("--- judge: " + "; ".join(res["judge"].get(c.id, [])))

    # ---- D: search ------------------------------------------------------------
    if not viol and (problems or res["diffs"]) and not replay:
        E.log("search stage: %d problems, %d differing cases" % (len(problems), len(res["diffs"])))
        more = []
        for c in res["diffs"][:5]:
            more += prop.mutate_around(c, rng, prop.search_n // 10)
        more += prop.generate(rng, prop.search_n, "search")
        for i, c in enumerate(more):
            c.id = "search-%d" % i
        if more:
            res2 = evaluate(prop, ctx, more, known)
            viol = res2["violations"]
            res["known"] += res2["known"]
            cases += more
            for k in ("impl", "model", "judge"):
                res[k].update(res2[k])
            res["diffs"] += res2["diffs"]

    if viol:
        c, vs = viol[0]
        kind = vs[0].split()[1] if len(vs[0].split()) > 1 else "bad"
        small = shrink(prop, ctx, c, kind) if not replay else c
        trace = res["impl"].get(c.id, [])
        if small is not c:
            try:
                r3 = evaluate(prop, ctx, [small], known)
                trace = r3["impl"].get(small.id, [])
                vs = r3["judge"].get(small.id, vs)
            except Exception:
                pass
        path = write_replay(prop, seed, "impl-violation", small, "judge = ok", vs,
                            {"impl_trace": trace[:200], "all_violating_cases": len(viol)})
        say("VIOLATION property=%s replay=%s" % (prop.id, path))
        for v in vs[:5]:
            say("  " + v)
        status = 1
    elif problems or res["diffs"]:
        obs = {"problems": problems}
        case = None
        if res["diffs"]:
            case = res["diffs"][0]
            fd = first_diff(res["impl"].get(case.id, []), res["model"].get(case.id, []))
            obs["first_difference"] = {"line": fd[0], "impl": fd[1], "model": fd[2]} if fd else None
            obs["differing_cases"] = len(res["diffs"])
        kind = problems[0]["kind"] if problems else "correspondence-broken"
        name = problems[0]["name"] if problems else "correspondence %s model vs implementation" % prop.id
        path = write_replay(prop, seed, kind, case, "theorems check and model = implementation on every case", obs,
                            {"theorem": name})
        say("VIOLATION property=%s replay=%s no-failing-input-found" % (prop.id, path))
        say("  broken: %s" % name)
        status = 1

    # ---- E: known findings ---------------------------------------------------
    printed = set()
    for k, c, line in res["known"]:
        key = k.get("id") or k["signature"]
        if key in printed:
            continue
        printed.add(key)
        say("KNOWN-FINDING: property=%s %s" % (prop.id, k["what"]))

    # ---- F: evidence ---------------------------------------------------------
    keys = set()
    for c in cases:
        k = prop.nontrivial_key(c, res["impl"].get(c.id, []))
        if k is not None:
            keys.add(k)
    samples = []
    for c in cases[:0] + [c for c in cases if c.meta.get("origin") != "corpus"][:2]:
        samples.append({"case": c.lines[:40], "impl_trace": res["impl"].get(c.id, [])[:40]})
    cov.update({
        "obligations": len(obligations), "discharged": discharged,
        "checker_cmd": "cd lean && lake build %s  (+ #print axioms on each obligation; thorough: leanchecker)" % " ".join(prop.lean_modules),
        "trusted_base": ["Lean 4.33 kernel", "axioms: " + ", ".join(sorted(set(a for v in axioms.values() for a in v)) or ["none"]),
                         "nvlib/extract.py (constants translator)", "correspondence harness (differential testing; agreement only on generated cases)",
                         "Lean compiler/runtime for the nvdrive executable"] + list(prop.trusted),
        "theorems": obligations, "axioms_per_theorem": axioms,
        "evaluations": len(cases), "distinct_nontrivial": len(keys),
        "traces_validated_against_impl": len(cases) - len(res["diffs"]),
        "correspondence_differences": len(res["diffs"]),
        "judge_violations": len(viol), "known_finding_hits": len(res["known"]),
        "rule": prop.rule, "samples": samples, "histogram": prop.histogram(cases, res["impl"]),
        "not_covered": prop.not_covered, "problems": problems,
    })
    if tier == "thorough" and not problems:
        cov["leanchecker"] = E.leanchecker(prop.lean_modules)
        if not all(v == "ok" for v in cov["leanchecker"].values()):
            say("VIOLATION property=%s replay=%s no-failing-input-found" % (
                prop.id, write_replay(prop, seed, "obligation-broken", None, "leanchecker accepts the modules", cov["leanchecker"], {"theorem": "leanchecker"})))
            status = 1
    write_evidence(prop, ev, cov, t0, 1 if status else 0, problems)
    try:
        import shutil
        shutil.rmtree(ctx.rundir, ignore_errors=True)
    except Exception:
        pass
    return status


def write_evidence(prop, ev, cov, t0, violations, problems):
    ev = dict(ev)
    ev["coverage"] = cov
    ev["wall_s"] = round(time.time() - t0, 2)
    ev["violations"] = violations
    ev["assumptions"] = ["theorems are about the Lean model; the tie to the C source is the regenerated NV/Gen constants and the correspondence run reported here",
                         "libc / kernel behaviour, the C compiler and code outside the modelled functions are not verified"] + list(prop.not_covered)
    # evidence of runs against another tree (NV_REPO = a scratch worktree with a seeded change) must not replace
    # the evidence of /repo itself: such runs set NV_EVIDENCE_DIR
    evdir = os.environ.get("NV_EVIDENCE_DIR") or os.path.join(E.VERIF, "evidence")
    os.makedirs(evdir, exist_ok=True)
    with open(os.path.join(evdir, prop.id + ".json"), "w") as f:
        json.dump(ev, f, indent=1, default=str)
