"""Shared machinery of the neolith verification checks (see DESIGN.md section 2).

Everything here is technique-neutral plumbing: build the repository working tree
(ASan+UBSan, hooks on), build harnesses against it, regenerate NV/Gen from the
source, build/audit the Lean library, run model (nvdrive) and implementation on
the same case files, diff, judge, search, shrink, report, write evidence.
"""
import fcntl
import glob
import hashlib
import json
import os
import re
import shutil
import subprocess
import sys
import time

VERIF = os.path.dirname(os.path.dirname(os.path.abspath(__file__)))
REPO = os.environ.get("NV_REPO", "/repo")
WORK = os.environ.get("NV_WORK", os.path.join(VERIF, ".work"))
LEAN = os.path.join(VERIF, "lean")
GUARD = "NEOLITH_VERIF"
NCPU = os.cpu_count() or 4

ACCEPTED_AXIOMS = {"propext", "Classical.choice", "Quot.sound"}
FORBIDDEN = re.compile(
    r"\bsorry\b|\badmit\b|^\s*axiom\s|native_decide|bv_decide|implemented_by|\bunsafe\s|maxHeartbeats\s+0\b"
)


def log(msg):
    sys.stderr.write("[nv] %s\n" % msg)
    sys.stderr.flush()


class Lock:
    """inter-process lock so concurrent checks do not run two builds in one tree"""

    def __init__(self, name):
        os.makedirs(WORK, exist_ok=True)
        self.path = os.path.join(WORK, name + ".lock")

    def __enter__(self):
        self.f = open(self.path, "w")
        fcntl.flock(self.f, fcntl.LOCK_EX)
        return self

    def __exit__(self, *a):
        fcntl.flock(self.f, fcntl.LOCK_UN)
        self.f.close()


def run(cmd, cwd=None, env=None, input=None, timeout=None, check=False):
    e = dict(os.environ)
    if env:
        e.update(env)
    p = subprocess.run(cmd, cwd=cwd, env=e, input=input, capture_output=True, text=True,
                       timeout=timeout, errors="replace")
    if check and p.returncode != 0:
        raise RuntimeError("command failed (%d): %s\n%s\n%s" % (p.returncode, cmd, p.stdout[-4000:], p.stderr[-4000:]))
    return p


def repo_key():
    return hashlib.sha1(os.path.realpath(REPO).encode()).hexdigest()[:10]


# ---------------------------------------------------------------------------
# repository build

SAN_FLAGS = {
    "asan": "-fsanitize=address,undefined -fno-sanitize-recover=undefined -fsanitize-recover=pointer-overflow -fno-omit-frame-pointer -g -O1",
    "tsan": "-fsanitize=thread -fno-omit-frame-pointer -g -O1",
    "plain": "-g -O1",
}


class BuildError(Exception):
    pass


def repo_build(kind="asan", hooks=True):
    """cmake+ninja build of REPO's working tree; returns the build dir.  Incremental."""
    bdir = os.path.join(WORK, "build-%s-%s%s" % (kind, repo_key(), "" if hooks else "-nohook"))
    flags = SAN_FLAGS[kind] + (" -D%s" % GUARD if hooks else "")
    with Lock("build-" + os.path.basename(bdir)):
        t0 = time.time()
        if not os.path.exists(os.path.join(bdir, "build.ninja")):
            p = run(["cmake", "-G", "Ninja", "-S", REPO, "-B", bdir, "-DBUILD_TESTING=OFF",
                     "-DCMAKE_BUILD_TYPE=None",
                     "-DCMAKE_C_FLAGS=" + flags, "-DCMAKE_CXX_FLAGS=" + flags])
            if p.returncode != 0:
                raise BuildError("cmake configure failed:\n" + p.stdout[-3000:] + p.stderr[-3000:])
        p = run(["cmake", "--build", bdir, "-j", str(NCPU)], env={"ASAN_OPTIONS": "detect_leaks=0"})
        if p.returncode != 0:
            raise BuildError("repository build failed:\n" + p.stdout[-6000:] + p.stderr[-3000:])
        log("repo build (%s) ok in %.1fs" % (kind, time.time() - t0))
    return bdir


def include_flags(bdir):
    dirs = [bdir, REPO, "src", "lib", "lib/lpc", "lib/efuns", "lib/rc", "lib/port", "lib/logger",
            "lib/misc", "lib/async", "lib/socket"]
    out = []
    for d in dirs:
        out.append("-I" + (d if os.path.isabs(d) else os.path.join(REPO, d)))
    out.append("-I" + os.path.join(bdir, "lib/efuns"))
    out.append("-I" + os.path.join(bdir, "lib/lpc"))
    out.append("-I" + os.path.join(VERIF, "harness/common"))
    return out


def link_inputs(bdir, exclude_objs=()):
    objs = sorted(glob.glob(os.path.join(bdir, "src/CMakeFiles/stem.dir/*.o")))
    objs = [o for o in objs if os.path.basename(o) not in exclude_objs]
    libs = sorted(glob.glob(os.path.join(bdir, "lib/*/lib*.a")))
    return objs + ["-Wl,--start-group"] + libs + ["-Wl,--end-group", "-lm", "-lcrypt", "-lpthread", "-lstdc++"]


def compile_harness(name, sources, kind="asan", exclude_objs=(), extra=(), with_common=True, hooks=True, cxx=False):
    """build harness `name` from source files against the current repo build"""
    bdir = repo_build(kind, hooks)
    outdir = os.path.join(WORK, "harness-" + repo_key())
    os.makedirs(outdir, exist_ok=True)
    exe = os.path.join(outdir, "%s-%s" % (name, kind))
    srcs = list(sources)
    if with_common:
        srcs.append(os.path.join(VERIF, "harness/common/vh.c"))
    cc = "g++" if cxx else "gcc"
    cmd = [cc] + SAN_FLAGS[kind].split() + (["-D" + GUARD] if hooks else []) + \
        ["-DHAVE_CONFIG_H", "-D_GNU_SOURCE", "-w"] + include_flags(bdir) + list(extra) + \
        srcs + link_inputs(bdir, exclude_objs) + ["-o", exe]
    with Lock("harness-" + name):
        p = run(cmd)
    if p.returncode != 0:
        raise BuildError("harness %s failed to build:\n%s" % (name, (p.stdout + p.stderr)[-6000:]))
    return exe


def make_mudlib(rundir, master="/master.c", port=0, extra_conf=""):
    """fresh copy of harness/mudlib under rundir; returns the conf path"""
    mud = os.path.join(rundir, "mudlib")
    if os.path.exists(mud):
        shutil.rmtree(mud)
    shutil.copytree(os.path.join(VERIF, "harness/mudlib"), mud)
    conf = os.path.join(rundir, "verif.conf")
    with open(os.path.join(VERIF, "harness/mudlib/base.conf.in")) as f:
        t = f.read()
    t = t.replace("@MUDLIB@", mud).replace("@MASTER@", master).replace("@PORT@", str(port or 4000))
    with open(conf, "w") as f:
        f.write(t + extra_conf + "\n")
    return conf


# ---------------------------------------------------------------------------
# case files

class Case:
    def __init__(self, cid, lines, meta=None):
        self.id = str(cid)
        self.lines = list(lines)
        self.meta = meta or {}

    def text(self):
        return "case %s\n%s\nend\n" % (self.id, "\n".join(self.lines))


def cases_text(cases):
    return "".join(c.text() for c in cases)


def parse_cases_output(text):
    """`case id` ... `end` blocks -> {id: [lines]}"""
    out = {}
    cur = None
    for line in text.splitlines():
        if line.startswith("case "):
            cur = line[5:].strip()
            out[cur] = []
        elif line == "end":
            cur = None
        elif cur is not None:
            out[cur].append(line)
    return out


# a tree on which the harness hangs must not make a check run for hours: after one harness wall-clock limit (or a harness
# that reports `notrun slow-tree` itself after several per-case timeouts) later batches are not run; the cases already
# run carry the verdict (`crash timeout` ...), the others are dropped by check.evaluate
_SLOW = {"walls": 0, "notrun": 0}
NOTRUN = ["notrun slow-tree"]


def slow_tree():
    return _SLOW["walls"] >= 1 or _SLOW["notrun"] > 0


def run_harness(exe, conf, cases, rundir, timeout=900, args=()):
    os.makedirs(rundir, exist_ok=True)
    if slow_tree():
        return {c.id: list(NOTRUN) for c in cases}
    env = {"ASAN_OPTIONS": "detect_leaks=0:abort_on_error=0:allocator_may_return_null=1",
           "UBSAN_OPTIONS": "print_stacktrace=0"}
    class _P:
        pass
    try:
        p = run([exe, "--conf", conf, "--scratch", rundir] + list(args), input=cases_text(cases), env=env,
                timeout=timeout, cwd=rundir)
    except subprocess.TimeoutExpired as te:
        # a broken tree can make every case run into its per-case timeout: keep what was produced, the cases that
        # did not run are reported as crashes (a verdict, not a traceback)
        p = _P()
        out = te.stdout or ""
        p.stdout = out.decode(errors="replace") if isinstance(out, bytes) else out
        p.stderr = "harness wall-clock limit of %ss reached" % timeout
        p.returncode = -9
        subprocess.run(["pkill", "-9", "-f", exe], capture_output=True)
        _SLOW["walls"] += 1
    res = parse_cases_output(p.stdout)
    _SLOW["notrun"] += sum(1 for v in res.values() if [l.strip() for l in v if l.strip()] == NOTRUN)
    if p.returncode != 0 or len(res) != len(cases):
        missing = [c.id for c in cases if c.id not in res]
        for m in missing:
            # after a wall-clock limit only the first missing case is a verdict (it was running); the rest never ran
            res[m] = ["crash harness-process rc=%d" % p.returncode] if (p.returncode != -9 or m == missing[0]) else list(NOTRUN)
        log("harness rc=%d, %d/%d cases returned; stderr tail: %s" % (p.returncode, len(res) - len(missing), len(cases), p.stderr[-500:]))
    return res


# ---------------------------------------------------------------------------
# Lean side

def lake_env():
    return {"LEAN_NUM_THREADS": str(NCPU)}


def lean_build(targets):
    """lake build of the given targets; returns (ok, output)"""
    with Lock("lake"):
        run([sys.executable, os.path.join(VERIF, "tools/gen_main.py")])
        p = run(["lake", "build"] + list(targets), cwd=LEAN, env=lake_env())
    return p.returncode == 0, p.stdout + p.stderr


def nvdrive_exe():
    return os.path.join(LEAN, ".lake/build/bin/nvdrive")


def nvdrive(prop, mode, text, timeout=1800):
    p = run([nvdrive_exe(), prop, mode], input=text, timeout=timeout)
    if p.returncode != 0:
        raise RuntimeError("nvdrive %s %s failed rc=%d: %s" % (prop, mode, p.returncode, p.stderr[-2000:]))
    return parse_cases_output(p.stdout)


def forbidden_scan():
    """grep the library for constructs we promise not to use; comments are stripped first"""
    hits = []
    for path in glob.glob(os.path.join(LEAN, "**/*.lean"), recursive=True):
        if "/.lake/" in path:
            continue
        src = open(path, errors="replace").read()
        src = re.sub(r"/-.*?-/", lambda m: "\n" * m.group(0).count("\n"), src, flags=re.S)
        for i, line in enumerate(src.splitlines(), 1):
            code = line.split("--", 1)[0]
            if FORBIDDEN.search(code):
                hits.append("%s:%d: %s" % (os.path.relpath(path, VERIF), i, line.strip()))
    return hits


def axiom_audit(module, theorems):
    """#print axioms for each theorem; returns {thm: [axioms]} ; raises on failure to elaborate"""
    os.makedirs(os.path.join(WORK, "audit"), exist_ok=True)
    f = os.path.join(WORK, "audit", module.replace(".", "_") + ".lean")
    with open(f, "w") as fh:
        fh.write("import %s\n" % module)
        for t in theorems:
            fh.write("#print axioms %s\n" % t)
    p = run(["lake", "env", "lean", f], cwd=LEAN, env=lake_env())
    out = p.stdout + p.stderr
    res = {}
    # output format: 'X' depends on axioms: [a, b]   |  'X' does not depend on any axioms
    for m in re.finditer(r"'([^']+)' depends on axioms: \[([^\]]*)\]", out, flags=re.S):
        res[m.group(1)] = [a.strip() for a in m.group(2).replace("\n", " ").split(",") if a.strip()]
    for m in re.finditer(r"'([^']+)' does not depend on any axioms", out):
        res[m.group(1)] = []
    missing = [t for t in theorems if t not in res]
    return res, missing, out


# ---------------------------------------------------------------------------
# PRNG: one splitmix64 stream per run

class Rng:
    def __init__(self, seed):
        # scramble the seed first: with a plain multiple of the increment, neighbouring seeds would yield the
        # same stream shifted by one draw
        z = (seed + 0x632BE59BD9B4E019) & 0xFFFFFFFFFFFFFFFF
        z = ((z ^ (z >> 30)) * 0xBF58476D1CE4E5B9) & 0xFFFFFFFFFFFFFFFF
        z = ((z ^ (z >> 27)) * 0x94D049BB133111EB) & 0xFFFFFFFFFFFFFFFF
        self.s = (z ^ (z >> 31)) & 0xFFFFFFFFFFFFFFFF

    def next(self):
        self.s = (self.s + 0x9E3779B97F4A7C15) & 0xFFFFFFFFFFFFFFFF
        z = self.s
        z = ((z ^ (z >> 30)) * 0xBF58476D1CE4E5B9) & 0xFFFFFFFFFFFFFFFF
        z = ((z ^ (z >> 27)) * 0x94D049BB133111EB) & 0xFFFFFFFFFFFFFFFF
        return z ^ (z >> 31)

    def below(self, n):
        return self.next() % n if n > 0 else 0

    def range(self, lo, hi):
        return lo + self.below(hi - lo + 1)

    def choice(self, xs):
        return xs[self.below(len(xs))]

    def chance(self, num, den):
        return self.below(den) < num

    def weighted(self, pairs):
        tot = sum(w for _, w in pairs)
        r = self.below(tot)
        for x, w in pairs:
            if r < w:
                return x
            r -= w
        return pairs[-1][0]

    def shuffle(self, xs):
        xs = list(xs)
        for i in range(len(xs) - 1, 0, -1):
            j = self.below(i + 1)
            xs[i], xs[j] = xs[j], xs[i]
        return xs


def axiom_audit_multi(modules, theorems):
    """#print axioms for theorems living in any of `modules`"""
    os.makedirs(os.path.join(WORK, "audit"), exist_ok=True)
    f = os.path.join(WORK, "audit", "audit-%d.lean" % os.getpid())
    with open(f, "w") as fh:
        for m in modules:
            fh.write("import %s\n" % m)
        for t in theorems:
            fh.write("#print axioms %s\n" % t)
    p = run(["lake", "env", "lean", f], cwd=LEAN, env=lake_env())
    out = p.stdout + p.stderr
    os.unlink(f)
    res = {}
    for m in re.finditer(r"'([^']+)' depends on axioms: \[([^\]]*)\]", out, flags=re.S):
        res[m.group(1)] = [a.strip() for a in m.group(2).replace("\n", " ").split(",") if a.strip()]
    for m in re.finditer(r"'([^']+)' does not depend on any axioms", out):
        res[m.group(1)] = []
    missing = [t for t in theorems if t not in res]
    return res, missing, out


def leanchecker(modules):
    """independent re-check of the compiled .olean of each module"""
    res = {}
    for m in modules:
        p = run(["lake", "env", "leanchecker", m], cwd=LEAN, env=lake_env(), timeout=1800)
        res[m] = "ok" if p.returncode == 0 else (p.stdout + p.stderr)[-500:]
    return res
