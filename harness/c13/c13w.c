/* C13 harness, console worker side: lib/async/console_worker.c is included textually so that the static thread
 * procedure console_worker_proc_posix() is reachable unchanged.  It is run in the calling thread, one read() per call:
 *   - read()/select() on STDIN are interposed while a run is active: read hands over the scripted stdin bytes,
 *     at most the length the code asked for (like a pipe holding a long pasted line);
 *   - async_worker_should_stop() is replaced: stop after one blob has been enqueued (or when stdin is exhausted);
 *   - async_queue_enqueue() is wrapped: the blob really enqueued is logged (`cl <hex>`), its NUL terminator checked,
 *     then the real queue takes it; async_runtime_post_completion() is a no-op (the caller runs process_io() next).
 */
#define _GNU_SOURCE
#include <config.h>
#include <stddef.h>
#include <stdint.h>
#include <stdbool.h>
#include <sys/types.h>
#include <sys/select.h>
#include <sys/syscall.h>
#include <unistd.h>
#include <stdio.h>
#include <stdlib.h>
#include <string.h>

#include "lib/async/async_queue.h"
#include "lib/async/async_worker.h"
#include "lib/async/async_runtime.h"

static const unsigned char *w_data = 0;
static size_t w_len = 0, w_pos = 0;
static int w_active = 0, w_blobs = 0;
void vh_out (const char *fmt, ...);

static async_worker_t *c13w_current (void) { return 0; }
static bool c13w_should_stop (async_worker_t *w) { (void) w; return w_blobs > 0 || w_pos >= w_len; }
static bool c13w_enqueue (async_queue_t *q, const void *data, size_t size);
static int c13w_post (async_runtime_t *rt, uintptr_t key, uintptr_t data) { (void) rt; (void) key; (void) data; return 0; }

#define async_worker_current c13w_current
#define async_worker_should_stop c13w_should_stop
#define async_queue_enqueue c13w_enqueue
#define async_runtime_post_completion c13w_post
#include "lib/async/console_worker.c"
#undef async_queue_enqueue
#undef async_worker_current
#undef async_worker_should_stop
#undef async_runtime_post_completion

static bool c13w_enqueue (async_queue_t *q, const void *data, size_t size)
{
  static const char d[] = "0123456789abcdef";
  const unsigned char *p = (const unsigned char *) data;
  w_blobs++;
  if (size == 0 || p[size - 1] != 0)
    vh_out ("crash console worker enqueued a blob without its terminator (size %lu)", (unsigned long) size);
  size_t n = size ? size - 1 : 0;
  char *h = (char *) malloc (n * 2 + 2);
  for (size_t i = 0; i < n; i++)
    {
      h[2 * i] = d[p[i] >> 4];
      h[2 * i + 1] = d[p[i] & 15];
    }
  h[2 * n] = 0;
  /* not through vh_out(): its line buffer is shorter than a full blob in hex */
  fprintf (stderr, "VL cl %s\n", n ? h : "-");
  fflush (stderr);
  free (h);
  bool ok = async_queue_enqueue (q, data, size);
  if (!ok)
    vh_out ("crash console line queue refused a blob of %lu bytes", (unsigned long) size);
  return ok;
}

ssize_t read (int fd, void *buf, size_t len)
{
  if (w_active && fd == STDIN_FILENO)
    {
      size_t n = w_len - w_pos < len ? w_len - w_pos : len;
      /* exact-size heap copy first: a read that fills the whole length asked for */
      memcpy (buf, w_data + w_pos, n);
      w_pos += n;
      return (ssize_t) n;
    }
  return (ssize_t) syscall (SYS_read, fd, buf, len);
}

int select (int nfds, fd_set *r, fd_set *w, fd_set *e, struct timeval *tv)
{
  if (w_active)
    return 1;			/* stdin is readable */
  return (int) syscall (SYS_select, nfds, r, w, e, tv);
}

/* one pass of the worker over the scripted stdin bytes starting at *pos: at most one blob is enqueued */
int c13w_run_once (async_queue_t *q, const unsigned char *data, size_t len, size_t *pos)
{
  console_worker_context_t ctx;
  memset (&ctx, 0, sizeof ctx);
  ctx.line_queue = q;
  ctx.console_type = CONSOLE_TYPE_PIPE;
  ctx.completion_key = CONSOLE_COMPLETION_KEY;
  w_data = data;
  w_len = len;
  w_pos = *pos;
  w_blobs = 0;
  w_active = 1;
  console_worker_proc_posix (&ctx);
  w_active = 0;
  *pos = w_pos;
  return w_blobs;
}
