/* C13 harness (unit style): src/comm.c is included textually so that the static functions
 * get_user_data / copy_chars / get_user_command / first_cmd_in_buf / cmd_in_buf / next_cmd_in_buf /
 * telnet_neg / add_console_line are reachable unchanged.  The executable is linked against the other
 * stem objects (comm.c.o excluded).
 *
 *  - the interactive_t is built by hand exactly like new_interactive() does, in an allocation that ends
 *    at the end of sb_buf (offsetof(sb_buf)+sizeof(sb_buf) bytes, filled with 0xA5 first) so that ASan
 *    sees any access behind the sub-negotiation buffer;
 *  - recv()/send() are interposed in this executable: recv on the user's fd hands over the scripted
 *    socket queue truncated to the length the code asked for (logged as `ask`), send logs the reply bytes;
 *  - `apply` inside comm.c is renamed to c13_apply, which logs what the user object would receive
 *    (process_input / terminal_type / window_size / telnet_suboption) in hex;
 *  - after every step the buffer indices are checked explicitly and logged.
 *
 * case language (the same lines drive `nvdrive C13 model`):
 *   port telnet|ascii|binary|console     create the connection (first line of a case)
 *   iflag single                         set SINGLE_CHAR (a get_char() is pending)
 *   iflag line                           clear SINGLE_CHAR
 *   send <hex>                           the client sends these bytes (socket queue), no read event
 *   read                                 one read event: get_user_data()
 *   chunk <hex>                          send + read
 *   extract                              one get_user_command() with the command turn granted
 *   drain                                extract until no command is returned
 *   finish                               until the socket queue is empty: read, drain  (bounded)
 *   line <hex>                           console: add_console_line() with these bytes (+ NUL)
 *   getchar [noecho]                     the user object calls get_char("gc_cb", [I_NOECHO]): real get_char() -> set_call()
 *                                        (SINGLE_CHAR on, telnet option messages, CMD_IN_BUF for typed-ahead characters)
 *   inputto [noecho]                     the user object calls input_to("gc_cb", [I_NOECHO])
 *   serve                                one get_user_command(); if it returned a line and an input_to / get_char is
 *                                        pending: the real call_function_interactive() (single-char mode ends, telnet
 *                                        option messages, reframe_single_char_input), as process_user_command() does
 *   wpipe <hex>                          console: these bytes arrive on the stdin pipe: the real console worker procedure
 *                                        (lib/async/console_worker.c, harness/c13/c13w.c) reads them, one read() per blob,
 *                                        enqueues into the real line queue; after each blob the real process_io() console
 *                                        branch dequeues and calls add_console_line()
 *   snoop on                             another user snoops this one: every telnet read is forwarded to the snooper's
 *                                        receive_snoop() - one more callback (ordinal shared with the others); `dest` =
 *                                        the snooper destructs the snooped user
 *   cb <k> err|dest                      the k-th callback into the user object (0-based, counted over the
 *                                        connection) raises an LPC error / destructs the user object
 *
 * Callbacks: the arguments are logged, then the scripted outcome happens exactly as LPC code would cause it:
 * `error()` (longjmp to the innermost error context) or `destruct_object()`.  get_user_data() runs inside an
 * error context like the one backend() provides around process_io(); leaving it through an error prints `err`.
 */
#define _GNU_SOURCE
#include <config.h>
#include <dlfcn.h>
#include <stddef.h>
#include <sys/types.h>
#include <sys/socket.h>

struct svalue_s;
struct object_s;
struct svalue_s *c13_apply (const char *fun, struct object_s *ob, int num_arg, int where);
struct svalue_s *c13_safe_apply (const char *fun, struct object_s *ob, int num_arg, int where);
#define apply c13_apply
#define safe_apply c13_safe_apply
#include "src/comm.c"
#undef apply
#undef safe_apply
extern svalue_t *apply (const char *, object_t *, int, int);	/* the real one (src/apply.c) */

#include "vh.h"

/* ---- scripted socket ------------------------------------------------------ */
static int c13_fd = -1;		/* fd of the user under test */
static unsigned char *sockq = 0;	/* bytes sent by the client and not yet read */
static size_t sockq_len = 0, sockq_cap = 0;
static unsigned char txbuf[65536];
static size_t tx_len = 0;
static interactive_t *c13_ip = 0;
static object_t *c13_ob = 0;
static int c13_closed = 0;

static void hex (char *out, const unsigned char *p, size_t n)
{
  static const char d[] = "0123456789abcdef";
  for (size_t i = 0; i < n; i++)
    {
      *out++ = d[p[i] >> 4];
      *out++ = d[p[i] & 15];
    }
  *out = 0;
}

/* transition probe (`ccprobe`): callbacks are collected here instead of being printed */
static char *cc_cap = 0;
static size_t cc_cap_len = 0;

static void out_hex (const char *tag, const unsigned char *p, size_t n)
{
  char *b = (char *) malloc (n * 2 + 1);
  hex (b, p, n);
  if (cc_cap && !strncmp (tag, "cb ", 3))
    {
      cc_cap_len += sprintf (cc_cap + cc_cap_len, "%s%c:%s", cc_cap_len ? "," : "", tag[3], n ? b : "-");
      free (b);
      return;
    }
  if (n > 3000)
    {
      /* not through vh_out(): its line buffer is shorter than a long blob in hex */
      fprintf (stderr, "VL %s %s\n", tag, b);
      fflush (stderr);
    }
  else if (n)
    vh_out ("%s %s", tag, b);
  else
    vh_out ("%s -", tag);
  free (b);
}

ssize_t recv (int fd, void *buf, size_t len, int flags)
{
  if (fd == c13_fd && c13_fd >= 0)
    {
      vh_out ("ask %lu", (unsigned long) len);
      if (sockq_len == 0)
        {
          vh_out ("wouldblock");
          errno = EWOULDBLOCK;
          return -1;
        }
      size_t n = len < sockq_len ? len : sockq_len;
      /* hand the bytes over through an exact-size heap copy: reading more than asked is visible to ASan */
      memcpy (buf, sockq, n);
      out_hex ("rx", sockq, n);
      memmove (sockq, sockq + n, sockq_len - n);
      sockq_len -= n;
      return (ssize_t) n;
    }
  static ssize_t (*real) (int, void *, size_t, int) = 0;
  if (!real)
    real = (ssize_t (*)(int, void *, size_t, int)) dlsym (RTLD_NEXT, "recv");
  return real (fd, buf, len, flags);
}

ssize_t send (int fd, const void *buf, size_t len, int flags)
{
  if (fd == c13_fd && c13_fd >= 0)
    {
      if (tx_len + len <= sizeof txbuf)
        {
          memcpy (txbuf + tx_len, buf, len);
          tx_len += len;
        }
      return (ssize_t) len;
    }
  static ssize_t (*real) (int, const void *, size_t, int) = 0;
  if (!real)
    real = (ssize_t (*)(int, const void *, size_t, int)) dlsym (RTLD_NEXT, "send");
  return real (fd, buf, len, flags);
}

/* ---- what the user object receives ---------------------------------------- */
#define C13_MAXCB 4096
static unsigned char cb_outcome[C13_MAXCB];	/* 0 ok, 1 err, 2 dest */
static int cb_count = 0;

/* the scripted outcome of the callback that has just received its arguments */
static void cb_done (struct object_s *ob)
{
  int k = cb_count++;
  int what = k < C13_MAXCB ? cb_outcome[k] : 0;
  if (what == 1)
    error ("C13 scripted error in callback %d\n", k);
  if (what == 2)
    destruct_object ((object_t *) ob);
}

static svalue_t *(*real_apply) (const char *, object_t *, int, int) = apply;

static object_t *c13_snooper = 0;
/* add_message() announces its own snoop forwarding through the NEOLITH_VERIF hook (phase 1): those receive_snoop()
 * calls (echo of CR LF, telnet replies - the output side, property C14) always succeed here and are not logged;
 * the callback scripted by `cb` lines is the input-side one of get_user_data() */
static int c13_output_snoop = 0;
static void c13_am_hook (object_t * who, const char *text, int vmessage, int phase)
{
  (void) who; (void) text; (void) vmessage;
  if (phase == 1)
    c13_output_snoop = 1;
}

struct svalue_s *c13_apply (const char *fun, struct object_s *ob, int num_arg, int where)
{
  if (c13_snooper && ob == (struct object_s *) c13_snooper && !strcmp (fun, APPLY_RECEIVE_SNOOP) && num_arg == 1
      && sp->type == T_STRING)
    {
      if (c13_output_snoop)
        {
          c13_output_snoop = 0;
          pop_n_elems (num_arg);
          return 0;
        }
      out_hex ("snoop", (unsigned char *) sp->u.string, strlen (sp->u.string));
      pop_n_elems (num_arg);
      cb_done ((struct object_s *) c13_ob);	/* `dest`: the snooper destructs the user it snoops */
      return 0;
    }
  if (ob == c13_ob)
    {
      if (!strcmp (fun, APPLY_PROCESS_INPUT) && num_arg == 1)
        {
          if (sp->type == T_STRING)
            out_hex ("input", (unsigned char *) sp->u.string, SVALUE_STRLEN (sp));
          else if (sp->type == T_BUFFER)
            out_hex ("input", sp->u.buf->item, sp->u.buf->size);
          else
            vh_out ("input ?");
          pop_n_elems (num_arg);
          cb_done (ob);
          return 0;
        }
      if (!strcmp (fun, APPLY_TERMINAL_TYPE) && num_arg == 1 && sp->type == T_STRING)
        {
          out_hex ("cb ttype", (unsigned char *) sp->u.string, strlen (sp->u.string));
          pop_n_elems (num_arg);
          cb_done (ob);
          return 0;
        }
      if (!strcmp (fun, APPLY_TELNET_SUBOPTION) && num_arg == 1 && sp->type == T_STRING)
        {
          out_hex ("cb subopt", (unsigned char *) sp->u.string, strlen (sp->u.string));
          pop_n_elems (num_arg);
          cb_done (ob);
          return 0;
        }
      if (!strcmp (fun, APPLY_WINDOW_SIZE) && num_arg == 2)
        {
          if (cc_cap)
            cc_cap_len += sprintf (cc_cap + cc_cap_len, "%sn:%ld:%ld", cc_cap_len ? "," : "", (long) (sp - 1)->u.number, (long) sp->u.number);
          else
            vh_out ("cb naws %ld %ld", (long) (sp - 1)->u.number, (long) sp->u.number);
          pop_n_elems (num_arg);
          cb_done (ob);
          return 0;
        }
    }
  return real_apply (fun, ob, num_arg, where);
}

/* safe_apply() of src/apply.c, with the apply routed through c13_apply */
struct svalue_s *c13_safe_apply (const char *fun, struct object_s *ob, int num_arg, int where)
{
  svalue_t *ret;
  error_context_t econ;
  if (!save_context (&econ))
    {
      pop_n_elems (num_arg);
      return 0;
    }
  econ.save_sp = sp - num_arg;
  if (!setjmp (econ.context))
    {
      if (!(((object_t *) ob)->flags & O_DESTRUCTED))
        ret = c13_apply (fun, ob, num_arg, where);
      else
        {
          pop_n_elems (num_arg);
          ret = 0;
        }
    }
  else
    {
      restore_context (&econ);
      ret = 0;
    }
  pop_context (&econ);
  return ret;
}

/* ---- the connection -------------------------------------------------------- */
static int port_kind = 0;	/* connection_type */

static void make_user (int kind)
{
  char cmd[64] = "clone u1 /c13/user";
  vh_generic (cmd);
  c13_ob = vh_obj ("u1");
  if (!c13_ob)
    {
      vh_out ("crash no-user-object");
      _exit (0);
    }
  int sv[2];
  if (socketpair (AF_UNIX, SOCK_STREAM, 0, sv) < 0)
    {
      vh_out ("crash socketpair");
      _exit (0);
    }
  size_t size = offsetof (interactive_t, sb_buf) + sizeof (((interactive_t *) 0)->sb_buf);
  interactive_t *ip = (interactive_t *) DXALLOC (size, TAG_INTERACTIVE, "c13");
  memset (ip, 0xA5, size);	/* DXALLOC does not clear: adversarial fill */
  /* slots: #0 is the console user */
  max_users = 2;
  all_users = CALLOCATE (2, interactive_t *, TAG_USERS, "c13");
  all_users[0] = all_users[1] = 0;
  /* exactly the initialisation of new_interactive() */
  ip->default_err_message.s = 0;
  ip->ob = c13_ob;
  ip->input_to = 0;
  ip->iflags = 0;
  ip->text[0] = '\0';
  ip->text_end = 0;
  ip->text_start = 0;
  ip->snoop_on = 0;
  ip->snoop_by = 0;
  ip->last_time = current_time;
#ifdef TRACE
  ip->trace_level = 0;
  ip->trace_prefix = 0;
#endif
#ifdef OLD_ED
  ip->ed_buffer = 0;
#endif
  ip->message_producer = 0;
  ip->message_consumer = 0;
  ip->message_length = 0;
  ip->state = TS_DATA;
  ip->out_of_band = 0;
  ip->prompt = 0;
  ip->fd = sv[0];
  ip->connection_type = kind;
  memset (&ip->addr, 0, sizeof ip->addr);
#ifdef F_QUERY_IP_PORT
  ip->local_port = 0;
#endif
  c13_ob->interactive = ip;
  c13_ob->flags |= O_ONCE_INTERACTIVE;
  add_ref (c13_ob, "c13");
  if (kind == CONSOLE_USER)
    {
      all_users[0] = ip;
      c13_ob->flags |= O_CONSOLE_USER;
    }
  else
    all_users[1] = ip;
  total_users++;
  num_user++;
  c13_fd = sv[0];
  c13_ip = ip;
  port_kind = kind;
}

static int alive (void)
{
  if (c13_closed)
    return 0;
  if (!c13_ob || c13_ob->interactive != c13_ip)
    {
      c13_closed = 1;
      return 0;
    }
  return 1;
}

/* log what was sent to the client and the buffer indices; explicit index check */
static void after_step (void)
{
  if (c13_ob && c13_ob->interactive == c13_ip && !(c13_ip->iflags & (NET_DEAD | CLOSING)))
    flush_message (c13_ip);
  if (tx_len)
    {
      out_hex ("tx", txbuf, tx_len);
      tx_len = 0;
    }
  if (!alive ())
    {
      vh_out ("closed");
      return;
    }
  interactive_t *ip = c13_ip;
  long s = (long) ip->text_start, e = (long) ip->text_end;
  if (s < 0 || s > e || e > MAX_TEXT - 1)
    {
      vh_out ("crash text-index %ld %ld", s, e);
      _exit (0);
    }
  /* sb_pos is uninitialised (0xA5 fill) until the first IAC SB, like in new_interactive() */
  long sbp = (ip->sb_pos == (int) 0xA5A5A5A5) ? 0 : (long) ip->sb_pos;
  vh_out ("st %ld %ld %d %ld %d", s, e, ip->state, sbp,
          ip->iflags & (CMD_IN_BUF | USING_TELNET | USING_LINEMODE | SINGLE_CHAR));
}

static void do_read (void)
{
  if (!alive ())
    return;
  /* the recovery point backend() provides around process_io() */
  error_context_t econ;
  save_context (&econ);
  if (!setjmp (econ.context))
    {
      eval_cost = CONFIG_INT (__MAX_EVAL_COST__);
      get_user_data (c13_ip, 0);
      pop_context (&econ);
    }
  else
    {
      restore_context (&econ);
      pop_context (&econ);
      vh_out ("err");
    }
  after_step ();
}

static int do_extract (void)
{
  if (!alive ())
    return 0;
  c13_ip->iflags |= HAS_CMD_TURN;	/* backend grants one turn per cycle */
  char *cmd = get_user_command ();
  if (cmd)
    out_hex ("cmd", (unsigned char *) cmd, strlen (cmd));
  else
    vh_out ("nocmd");
  after_step ();
  return cmd != 0;
}


/* get_char() / input_to() called by the user object (telnet port): the real efun back ends in src/simulate.c, which
 * call the real set_call() of the included comm.c */
static void do_setcall (int single, int flags)
{
  if (!alive ())
    return;
  object_t *scg = command_giver, *sco = current_object;
  error_context_t econ;
  svalue_t fun;
  fun.type = T_STRING;
  fun.subtype = STRING_CONSTANT;
  fun.u.string = "gc_cb";
  save_context (&econ);
  if (!setjmp (econ.context))
    {
      command_giver = c13_ob;
      current_object = c13_ob;
      int ok = single ? get_char (&fun, flags, 0, 0) : input_to (&fun, flags, 0, 0);
      vh_out ("setcall %d", ok);
      pop_context (&econ);
    }
  else
    {
      restore_context (&econ);
      pop_context (&econ);
      vh_out ("err");
    }
  command_giver = scg;
  current_object = sco;
  after_step ();
}

static void do_serve (void)
{
  if (!alive ())
    return;
  c13_ip->iflags |= HAS_CMD_TURN;
  char *cmd = get_user_command ();
  if (cmd)
    out_hex ("cmd", (unsigned char *) cmd, strlen (cmd));
  else
    vh_out ("nocmd");
  if (cmd && alive () && c13_ip->input_to)
    {
      object_t *scg = command_giver, *sco = current_object;
      error_context_t econ;
      save_context (&econ);
      if (!setjmp (econ.context))
        {
          command_giver = c13_ob;
          current_object = 0;
          eval_cost = CONFIG_INT (__MAX_EVAL_COST__);
          call_function_interactive (c13_ip, cmd);
          pop_context (&econ);
        }
      else
        {
          restore_context (&econ);
          pop_context (&econ);
          vh_out ("err");
        }
      command_giver = scg;
      current_object = sco;
    }
  after_step ();
}

static size_t unhex (const char *s, unsigned char **out)
{
  size_t n = strlen (s) / 2;
  unsigned char *b = (unsigned char *) malloc (n + 1);
  for (size_t i = 0; i < n; i++)
    {
      unsigned v;
      sscanf (s + 2 * i, "%2x", &v);
      b[i] = (unsigned char) v;
    }
  *out = b;
  return n;
}

static void do_send (const char *h)
{
  unsigned char *b;
  size_t n = (h[0] == '-') ? (b = (unsigned char *) malloc (1), 0) : unhex (h, &b);
  if (sockq_len + n > sockq_cap)
    {
      sockq_cap = (sockq_len + n) * 2 + 64;
      sockq = (unsigned char *) realloc (sockq, sockq_cap);
    }
  memcpy (sockq + sockq_len, b, n);
  sockq_len += n;
  free (b);
}


/* console input through the real worker procedure and the real console branch of process_io() */
extern int c13w_run_once (async_queue_t *q, const unsigned char *data, size_t len, size_t *pos);

static void do_wpipe (const char *h)
{
  unsigned char *b;
  size_t n = (h[0] == '-') ? (b = (unsigned char *) malloc (1), 0) : unhex (h, &b);
  /* exact-size copy of the scripted stdin content */
  unsigned char *data = (unsigned char *) malloc (n ? n : 1);
  memcpy (data, b, n);
  free (b);
  if (!g_console_queue)
    g_console_queue = async_queue_create (256, CONSOLE_MAX_LINE, ASYNC_QUEUE_DROP_OLDEST);	/* as init_console_user() does */
  size_t pos = 0;
  int guard = 0;
  while (pos < n && alive () && ++guard < 64)
    {
      if (!c13w_run_once (g_console_queue, data, n, &pos))
        break;
      memset (&g_io_events[0], 0, sizeof g_io_events[0]);
      g_io_events[0].completion_key = CONSOLE_COMPLETION_KEY;
      g_num_io_events = 1;
      process_io ();
      g_num_io_events = 0;
      after_step ();
    }
  free (data);
}

/* ---- transition probe -------------------------------------------------------
 * `ccprobe <ts> <cr> <single> <sbpos> <fill> <prefix-hex>`: for EVERY byte value 0..255 put the decoder into the
 * given configuration (ip->state = ts | cr-bit, SINGLE_CHAR, sb_pos, sb_buf = prefix padded with `fill` up to sb_pos,
 * zero behind, telnet_sb_lm_mode[4] = MODE_ACK) and run the real copy_chars() on that one byte.  One line per byte:
 *   r <byte> <state'> <sb_pos'> <iflags'> <lm_mode'> <out> <tx> <sb_buf changes i:v,..> <callbacks>
 * props/c13.py turns the lines into the table NV.Gen.C13.ccTable (state x byte range -> state, actions); the
 * bridging lemma NV.C13.cc_table_tie compares the model's ccByte with every entry. */
static void do_ccprobe (const char *args)
{
  unsigned ts, cr, single, sbpos, fill;
  char pre[512] = "", sbp[32] = "";
  if (sscanf (args, "%u %u %u %31s %u %500s", &ts, &cr, &single, sbp, &fill, pre) < 5)
    {
      vh_out ("crash ccprobe-args");
      return;
    }
  /* sb_pos: a number, `S` = SB_SIZE, `S-1` */
  sbpos = !strcmp (sbp, "S") ? SB_SIZE : !strcmp (sbp, "S-1") ? SB_SIZE - 1 : (unsigned) atoi (sbp);
  vh_out ("cfg %u %u %u %u %u %s", ts, cr ? 1 : 0, single ? 1 : 0, sbpos, fill, pre[0] ? pre : "-");
  unsigned char *pb;
  size_t pn = (pre[0] == '-' || !pre[0]) ? (pb = (unsigned char *) malloc (1), 0) : unhex (pre, &pb);
  interactive_t *ip = c13_ip;
  unsigned char before[sizeof (ip->sb_buf)];
  char cap[1024];
  for (int b = 0; b < 256; b++)
    {
      if (!alive ())
        {
          vh_out ("closed");
          break;
        }
      memset (ip->sb_buf, 0, sizeof (ip->sb_buf));
      for (size_t i = 0; i < sbpos && i < sizeof (ip->sb_buf); i++)
        ip->sb_buf[i] = i < pn ? pb[i] : (unsigned char) fill;
      memcpy (before, ip->sb_buf, sizeof before);
      ip->sb_pos = (int) sbpos;
      ip->state = (int) (ts | (cr ? TS_CR_SEEN : 0));
      ip->iflags = single ? SINGLE_CHAR : 0;
      telnet_sb_lm_mode[4] = MODE_ACK;
      ip->text_start = ip->text_end = 0;
      ip->text[0] = 0;
      tx_len = 0;
      cap[0] = 0;
      cc_cap = cap;
      cc_cap_len = 0;
      /* exact-size heap buffers: one input byte, at most three stored bytes */
      unsigned char *from = (unsigned char *) malloc (1), *to = (unsigned char *) malloc (3);
      from[0] = (unsigned char) b;
      size_t n = copy_chars (from, to, 1, ip);
      cc_cap = 0;
      if (n == (size_t) -1 || !alive ())
        {
          vh_out ("r %d dead", b);
          free (from);
          free (to);
          break;
        }
      flush_message (ip);
      char oh[16], *th = (char *) malloc (tx_len * 2 + 2), dh[sizeof (ip->sb_buf) * 10 + 8];
      hex (oh, to, n <= 3 ? n : 3);
      hex (th, txbuf, tx_len);
      size_t dl = 0;
      dh[0] = 0;
      for (size_t i = 0; i < sizeof (ip->sb_buf); i++)
        if (ip->sb_buf[i] != before[i])
          dl += sprintf (dh + dl, "%s%lu:%u", dl ? "," : "", (unsigned long) i, (unsigned) ip->sb_buf[i]);
      vh_out ("r %d %d %d %d %d %s %s %s %s", b, ip->state, ip->sb_pos,
              ip->iflags & (CMD_IN_BUF | USING_TELNET | USING_LINEMODE | SINGLE_CHAR), (int) (unsigned char) telnet_sb_lm_mode[4],
              n ? oh : "-", tx_len ? th : "-", dl ? dh : "-", cap[0] ? cap : "-");
      if (n > 3)
        vh_out ("crash ccprobe: one input byte stored %lu bytes", (unsigned long) n);
      tx_len = 0;
      free (th);
      free (from);
      free (to);
    }
  free (pb);
}

/* `edprobe`: for every byte value b the real telnet_neg() on "ab<b>c" and on "<b>c" (editing bytes), and the real
 * add_console_line() on the blob "a<b>c" (bytes converted into the command terminator).  One line per byte:
 *   e <b> <telnet_neg("ab<b>c")> <telnet_neg("<b>c")> <text after add_console_line("a<b>c")>
 * props/c13.py derives NV.Gen.C13.tnEditBytes / consoleNulBytes from it (bridging lemma NV.C13.edit_bytes_tie). */
static void do_edprobe (void)
{
  for (int b = 1; b < 256; b++)
    {
      char in1[8] = { 'a', 'b', (char) b, 'c', 0 }, in2[8] = { (char) b, 'c', 0 };
      char *o1 = (char *) malloc (8), *o2 = (char *) malloc (8);
      memset (o1, 0x5a, 8);
      memset (o2, 0x5a, 8);
      telnet_neg (o1, in1);
      telnet_neg (o2, in2);
      c13_ip->text_start = c13_ip->text_end = 0;
      c13_ip->text[0] = 0;
      c13_ip->iflags &= ~CMD_IN_BUF;
      char blob[4] = { 'a', (char) b, 'c', 0 };
      add_console_line (c13_ip, blob, 4);
      char h1[32], h2[32], h3[32];
      hex (h1, (unsigned char *) o1, strlen (o1));
      hex (h2, (unsigned char *) o2, strlen (o2));
      hex (h3, (unsigned char *) c13_ip->text, c13_ip->text_end <= 8 ? c13_ip->text_end : 8);
      vh_out ("e %d %s %s %s", b, h1[0] ? h1 : "-", h2[0] ? h2 : "-", h3[0] ? h3 : "-");
      free (o1);
      free (o2);
    }
  c13_ip->text_start = c13_ip->text_end = 0;
  c13_ip->text[0] = 0;
  c13_ip->iflags &= ~CMD_IN_BUF;
}

/* `xprobe`: small-scope exhaustive run of the real cmd_in_buf / first_cmd_in_buf / next_cmd_in_buf: every buffer
 * content over the alphabet {NUL, 'a'} of length L <= 5 (followed by one NUL and 0xA5 garbage), every
 * text_start <= text_end <= L (bytes between text_end and L are stale data), line mode and SINGLE_CHAR.  One line each:
 *   x <single> <L> <bits> <start> <end> <cmd_in_buf> <ret+1> <start'> <end'> <text'[0..8) code> <strlen(ret)> <start''> <end''> <text''[0..8) code>
 * (ret = offset returned by first_cmd_in_buf, 0 = NULL; the last four belong to next_cmd_in_buf, called when ret != NULL
 * as get_user_command does; text codes are base-4 numbers, digit 0 = NUL, 1 = 'a', 2 = 0xA5, 3 = anything else). */
static unsigned long x_code (const char *t)
{
  unsigned long c = 0;
  for (int i = 7; i >= 0; i--)
    {
      unsigned char b = (unsigned char) t[i];
      c = c * 4 + (b == 0 ? 0 : b == 'a' ? 1 : b == 0xA5 ? 2 : 3);
    }
  return c;
}

static void x_setup (interactive_t *ip, int single, int L, int bits, int st, int en)
{
  memset (ip->text, 0xA5, 16);
  for (int i = 0; i < L; i++)
    ip->text[i] = (bits >> i) & 1 ? 'a' : 0;
  ip->text[L] = 0;
  ip->text_start = st;
  ip->text_end = en;
  ip->iflags = single ? SINGLE_CHAR : 0;
}

static void do_xprobe (void)
{
  interactive_t *ip = c13_ip;
  for (int single = 0; single < 2; single++)
    for (int L = 0; L <= 5; L++)
      for (int bits = 0; bits < (1 << L); bits++)
        for (int en = 0; en <= L; en++)
          for (int st = 0; st <= en; st++)
            {
              x_setup (ip, single, L, bits, st, en);
              int cib = cmd_in_buf (ip);
              x_setup (ip, single, L, bits, st, en);
              char *ret = first_cmd_in_buf (ip);
              long s1 = (long) ip->text_start, e1 = (long) ip->text_end;
              unsigned long t1 = x_code (ip->text), t2 = 0;
              long n = 0, s2 = 0, e2 = 0;
              if (ret)
                {
                  n = (long) strlen (ret);
                  next_cmd_in_buf (ip);
                  s2 = (long) ip->text_start;
                  e2 = (long) ip->text_end;
                  t2 = x_code (ip->text);
                }
              vh_out ("x %d %d %d %d %d %d %ld %ld %ld %lu %ld %ld %ld %lu", single, L, bits, st, en, cib,
                      ret ? (long) (ret - ip->text) + 1 : 0L, s1, e1, t1, n, s2, e2, t2);
            }
  ip->text_start = ip->text_end = 0;
  ip->text[0] = 0;
  ip->iflags = 0;
}

static int c13_cmd (char *line)
{
  if (!strncmp (line, "port ", 5))
    {
      const char *k = line + 5;
      int kind = !strcmp (k, "telnet") ? PORT_TELNET : !strcmp (k, "ascii") ? PORT_ASCII :
        !strcmp (k, "binary") ? PORT_BINARY : !strcmp (k, "console") ? CONSOLE_USER : -1;
      if (kind < 0 || c13_ip)
        return 0;
      make_user (kind);
      after_step ();
      return 1;
    }
  if (!strncmp (line, "cb ", 3))
    {
      int k = -1;
      char what[16] = "";
      if (sscanf (line + 3, "%d %15s", &k, what) == 2 && k >= 0 && k < C13_MAXCB)
        cb_outcome[k] = !strcmp (what, "err") ? 1 : !strcmp (what, "dest") ? 2 : 0;
      return 1;
    }
  if (!c13_ip)
    return 0;
  if (!strncmp (line, "send ", 5))
    {
      do_send (line + 5);
      return 1;
    }
  if (!alive ())		/* connection closed earlier: nothing is executed any more */
    return !strcmp (line, "snoop on") || !strncmp (line, "wpipe ", 6) || !strncmp (line, "getchar", 7) || !strncmp (line, "inputto", 7) || !strcmp (line, "serve") || !strcmp (line, "iflag single") || !strcmp (line, "iflag line") || !strcmp (line, "read") || !strncmp (line, "chunk ", 6)
      || !strcmp (line, "extract") || !strcmp (line, "drain") || !strcmp (line, "finish") || !strncmp (line, "line ", 5);
  if (!strcmp (line, "xprobe"))
    {
      do_xprobe ();
      return 1;
    }
  if (!strcmp (line, "edprobe"))
    {
      do_edprobe ();
      return 1;
    }
  if (!strncmp (line, "ccprobe ", 8))
    {
      do_ccprobe (line + 8);
      return 1;
    }
  if (!strncmp (line, "getchar", 7) || !strncmp (line, "inputto", 7))
    {
      if (port_kind != PORT_TELNET)
        return 0;
      do_setcall (line[0] == 'g', strstr (line, "noecho") ? I_NOECHO : 0);
      return 1;
    }
  if (!strcmp (line, "serve"))
    {
      do_serve ();
      return 1;
    }
  if (!strcmp (line, "snoop on"))
    {
      if (port_kind != PORT_TELNET)
        return 0;
      if (!c13_snooper)
        {
          char cmd[64] = "clone u2 /c13/user";
          vh_generic (cmd);
          c13_snooper = vh_obj ("u2");
          interactive_t *ip2 = (interactive_t *) DXALLOC (sizeof (interactive_t), TAG_INTERACTIVE, "c13 snooper");
          memset (ip2, 0, sizeof (interactive_t));
          ip2->ob = c13_snooper;
          ip2->fd = -1;
          ip2->snoop_on = c13_ip;
          c13_ip->snoop_by = ip2;	/* what new_set_snoop() does */
          verif_add_message_hook = c13_am_hook;
        }
      after_step ();
      return 1;
    }
  if (!strncmp (line, "wpipe ", 6))
    {
      if (port_kind != CONSOLE_USER)
        return 0;
      do_wpipe (line + 6);
      return 1;
    }
  if (!strcmp (line, "iflag single"))
    {
      if (alive ())
        c13_ip->iflags |= SINGLE_CHAR;
      after_step ();
      return 1;
    }
  if (!strcmp (line, "iflag line"))
    {
      /* back to line mode, as process_user_command() does when a get_char() callback asks for a line */
      if (alive ())
        c13_ip->iflags &= ~SINGLE_CHAR;
      after_step ();
      return 1;
    }
  if (!strcmp (line, "read"))
    {
      do_read ();
      return 1;
    }
  if (!strncmp (line, "chunk ", 6))
    {
      do_send (line + 6);
      do_read ();
      return 1;
    }
  if (!strcmp (line, "extract"))
    {
      do_extract ();
      return 1;
    }
  if (!strcmp (line, "drain"))
    {
      int guard = 0;
      while (do_extract ())
        if (++guard >= 1100)
          {
            /* more commands than the buffer can hold: the extraction does not make progress */
            vh_out ("crash livelock: drain returned %d commands", guard);
            _exit (0);
          }
      return 1;
    }
  if (!strcmp (line, "finish"))
    {
      int guard = 0;
      while (sockq_len > 0 && alive () && ++guard < 20000)
        {
          size_t before = sockq_len;
          do_read ();
          int g2 = 0;
          /* nothing read and nothing to extract: every further round would be the same (only a tree that holds reads
           * back without a pending command gets here; the judge reports the unread bytes as `stalled`) */
          if (sockq_len == before && !do_extract ())
            break;
          while (do_extract ())
            if (++g2 >= 1100)
              {
                vh_out ("crash livelock: drain returned %d commands", g2);
                _exit (0);
              }
        }
      return 1;
    }
  if (!strncmp (line, "line ", 5))
    {
      unsigned char *b;
      size_t n = (line[5] == '-') ? (b = (unsigned char *) calloc (1, 1), 0) : unhex (line + 5, &b);
      if (alive ())
        {
          /* exact-size, NUL-terminated copy as the console worker enqueues it */
          char *copy = (char *) malloc (n + 1);
          memcpy (copy, b, n);
          copy[n] = 0;
          out_hex ("cl", b, n);
          add_console_line (c13_ip, copy, n + 1);
          free (copy);
        }
      free (b);
      after_step ();
      return 1;
    }
  return 0;
}

int main (int argc, char **argv)
{
  return vh_main (argc, argv, c13_cmd);
}
