/* vh.c - common harness layer (see vh.h) */
#include "vh.h"
#include <unistd.h>
#include <fcntl.h>
#include <errno.h>
#include <locale.h>
#include <signal.h>
#include <sys/types.h>
#include <sys/wait.h>
#include <sys/resource.h>

#ifdef __cplusplus
extern "C" {
#endif
#include "lpc/compiler.h"
#ifdef __cplusplus
}
#endif

#define VH_MAXOBJ 256
static struct { char oid[32]; object_t *ob; } vh_objs[VH_MAXOBJ];
static int vh_nobj = 0;
static int vh_case_timeout = 30;
/* a tree on which cases hang (a driver that spins) must not make a check run for hours or fill memory: after this
 * many case timeouts the remaining cases of the batch are reported as `notrun slow-tree` (the engine drops them);
 * a child may write at most VH_MAX_OUT bytes to one file and at most VH_MAX_RELAY trace bytes are relayed */
static int vh_max_timeouts = 3;
static int vh_timeouts = 0;
#define VH_MAX_OUT (256L * 1024 * 1024)
#define VH_MAX_RELAY (16L * 1024 * 1024)

object_t *vh_obj (const char *oid)
{
  for (int i = 0; i < vh_nobj; i++)
    if (!strcmp (vh_objs[i].oid, oid))
      return vh_objs[i].ob;
  return 0;
}

void vh_setobj (const char *oid, object_t * ob)
{
  for (int i = 0; i < vh_nobj; i++)
    if (!strcmp (vh_objs[i].oid, oid))
      {
        vh_objs[i].ob = ob;
        return;
      }
  if (vh_nobj < VH_MAXOBJ)
    {
      snprintf (vh_objs[vh_nobj].oid, sizeof vh_objs[vh_nobj].oid, "%s", oid);
      vh_objs[vh_nobj++].ob = ob;
      if (ob)
        add_ref (ob, "vh_setobj");	/* keep the struct alive after destruct */
    }
}

const char *vh_oid_of (object_t * ob)
{
  for (int i = 0; i < vh_nobj; i++)
    if (vh_objs[i].ob == ob)
      return vh_objs[i].oid;
  return "?";
}

void vh_out (const char *fmt, ...)
{
  char msg[8000];
  va_list ap;
  va_start (ap, fmt);
  vsnprintf (msg, sizeof msg, fmt, ap);
  va_end (ap);
  for (char *p = msg; *p; p++)
    if (*p == '\n' || *p == '\r')
      *p = ' ';
  fprintf (stderr, "VL %s\n", msg);
  fflush (stderr);
}

int vh_split (char *line, char **tok, int max)
{
  int n = 0;
  char *p = line;
  while (*p && n < max)
    {
      while (*p == ' ')
        p++;
      if (!*p)
        break;
      tok[n++] = p;
      while (*p && *p != ' ')
        p++;
      if (*p)
        *p++ = 0;
    }
  return n;
}

static int cmp_str (const void *a, const void *b)
{
  return strcmp (*(char *const *) a, *(char *const *) b);
}

static void sv_rec (char **out, size_t * left, svalue_t * sv, int depth);

static void emit (char **out, size_t * left, const char *s)
{
  size_t n = strlen (s);
  if (n >= *left)
    n = *left ? *left - 1 : 0;
  memcpy (*out, s, n);
  *out += n;
  *left -= n;
  **out = 0;
}

static void sv_rec (char **out, size_t * left, svalue_t * sv, int depth)
{
  char tmp[64];
  if (depth > 8)
    {
      emit (out, left, "...");
      return;
    }
  switch (sv->type)
    {
    case T_NUMBER:
      snprintf (tmp, sizeof tmp, "%lld", (long long) sv->u.number);
      emit (out, left, tmp);
      break;
    case T_REAL:
      snprintf (tmp, sizeof tmp, "%.6g", sv->u.real);
      emit (out, left, "f:");
      emit (out, left, tmp);
      break;
    case T_STRING:
      emit (out, left, "\"");
      for (const char *p = sv->u.string; *p; p++)
        {
          unsigned char c = (unsigned char) *p;
          if (c < 32 || c == '"' || c == '\\' || c >= 127)
            {
              snprintf (tmp, sizeof tmp, "\\x%02x", c);
              emit (out, left, tmp);
            }
          else
            {
              tmp[0] = c;
              tmp[1] = 0;
              emit (out, left, tmp);
            }
        }
      emit (out, left, "\"");
      break;
    case T_OBJECT:
      if (sv->u.ob->flags & O_DESTRUCTED)
        emit (out, left, "0");
      else
        {
          emit (out, left, "ob:");
          emit (out, left, vh_oid_of (sv->u.ob));
        }
      break;
    case T_ARRAY:
      emit (out, left, "({");
      for (int i = 0; i < sv->u.arr->size; i++)
        {
          if (i)
            emit (out, left, ",");
          sv_rec (out, left, &sv->u.arr->item[i], depth + 1);
        }
      emit (out, left, "})");
      break;
    case T_MAPPING:
      {
        /* sorted "k:v" strings */
        mapping_t *m = sv->u.map;
        int cnt = 0, cap = 16;
        char **items = (char **) malloc (sizeof (char *) * cap);
        for (int i = 0; i <= (int) m->table_size; i++)
          for (mapping_node_t * n = m->table[i]; n; n = n->next)
            {
              char *b = (char *) malloc (2048), *o = b;
              size_t l = 2048;
              *b = 0;
              sv_rec (&o, &l, &n->values[0], depth + 1);
              emit (&o, &l, ":");
              sv_rec (&o, &l, &n->values[1], depth + 1);
              if (cnt == cap)
                items = (char **) realloc (items, sizeof (char *) * (cap *= 2));
              items[cnt++] = b;
            }
        qsort (items, cnt, sizeof (char *), cmp_str);
        emit (out, left, "([");
        for (int i = 0; i < cnt; i++)
          {
            if (i)
              emit (out, left, ",");
            emit (out, left, items[i]);
            free (items[i]);
          }
        free (items);
        emit (out, left, "])");
        break;
      }
    case T_FUNCTION:
      emit (out, left, "<fn>");
      break;
    case T_BUFFER:
      emit (out, left, "<buf>");
      break;
    case T_CLASS:
      emit (out, left, "<class>");
      break;
    default:
      snprintf (tmp, sizeof tmp, "<t%d>", sv->type);
      emit (out, left, tmp);
    }
}

void vh_sv (char *buf, size_t n, svalue_t * sv)
{
  char *o = buf;
  size_t l = n;
  if (n)
    *buf = 0;
  if (!sv)
    {
      emit (&o, &l, "<null>");
      return;
    }
  sv_rec (&o, &l, sv, 0);
}

int vh_apply_str (object_t * ob, const char *fn, int nargs, char **args, char *res, size_t nres)
{
  error_context_t econ;
  volatile int rc = 0;
  svalue_t *ret;
  char *shared = make_shared_string (fn);
  if (res && nres)
    *res = 0;
  if (!save_context (&econ))
    return 1;
  if (!setjmp (econ.context))
    {
      for (int i = 0; i < nargs; i++)
        copy_and_push_string (args[i]);
      eval_cost = CONFIG_INT (__MAX_EVAL_COST__);
      ret = apply (shared, ob, nargs, ORIGIN_DRIVER);
      if (!ret)
        rc = 2;
      else if (res)
        vh_sv (res, nres, ret);
      pop_context (&econ);
    }
  else
    {
      restore_context (&econ);
      pop_context (&econ);
      rc = 1;
    }
  free_string (shared);
  return rc;
}

void vh_init (const char *conf)
{
  error_context_t econ;
  setlocale (LC_ALL, "C.UTF-8");
  debug_set_log_with_date (0);
  init_stem (0, 0, conf);
  init_config (conf);
  debug_set_log_with_date (0);
  if (chdir (CONFIG_STR (__MUD_LIB_DIR__)) == -1)
    {
      perror ("chdir mudlib");
      exit (3);
    }
  init_strings (CONFIG_INT (__SHARED_STRING_HASH_TABLE_SIZE__) > 0 ? CONFIG_INT (__SHARED_STRING_HASH_TABLE_SIZE__) : 8192,
                CONFIG_INT (__MAX_STRING_LENGTH__));
  init_lpc_compiler (CONFIG_INT (__MAX_LOCAL_VARIABLES__), CONFIG_STR (__INCLUDE_DIRS__));
  setup_simulate ();
  eval_cost = CONFIG_INT (__MAX_EVAL_COST__);
  current_time = VH_T0;
  save_context (&econ);
  if (setjmp (econ.context))
    {
      restore_context (&econ);
      pop_context (&econ);
      fprintf (stderr, "vh_init: error in mudlib startup\n");
      exit (3);
    }
  init_simul_efun (CONFIG_STR (__SIMUL_EFUN_FILE__));
  init_master (CONFIG_STR (__MASTER_FILE__));
  pop_context (&econ);
}

/* ---- generic commands ---------------------------------------------------
 *  time <t>                     current_time = VH_T0 + t
 *  load <oid> <path>            load_object
 *  clone <oid> <path>           clone_object
 *  apply <oid> <fn> [args...]   apply with string args; prints "r <oid> <fn> <value>|!err|!nofn"
 *  vapply <oid> <fn> [args...]  same, result not printed
 *  destruct <oid>
 *  cfgint <index> <value>       config_int[index] = value
 */
int vh_generic (char *line)
{
  char *tok[64];
  char copy[8192];
  snprintf (copy, sizeof copy, "%s", line);
  int n = vh_split (copy, tok, 64);
  if (n == 0)
    return 1;
  if (!strcmp (tok[0], "time") && n == 2)
    {
      current_time = VH_T0 + atol (tok[1]);
      return 1;
    }
  if ((!strcmp (tok[0], "load") || !strcmp (tok[0], "clone")) && n == 3)
    {
      error_context_t econ;
      object_t *volatile ob = 0;
      save_context (&econ);
      if (!setjmp (econ.context))
        {
          eval_cost = CONFIG_INT (__MAX_EVAL_COST__);
          if (tok[0][0] == 'l')
            ob = load_object (tok[2], 0);
          else
            {
              object_t *save = current_object;
              if (!current_object)
                current_object = master_ob;
              ob = clone_object (tok[2], 0);
              current_object = save;
            }
          pop_context (&econ);
        }
      else
        {
          restore_context (&econ);
          pop_context (&econ);
          ob = 0;
        }
      if (ob)
        {
          char *a[1] = { tok[1] };
          vh_setobj (tok[1], ob);
          vh_apply_str (ob, "set_oid", 1, a, 0, 0);
        }
      else
        vh_out ("r %s %s !fail", tok[0], tok[1]);
      return 1;
    }
  if ((!strcmp (tok[0], "apply") || !strcmp (tok[0], "vapply")) && n >= 3)
    {
      char res[4096];
      object_t *ob = vh_obj (tok[1]);
      if (!ob)
        {
          vh_out ("r %s %s !noobj", tok[1], tok[2]);
          return 1;
        }
      if (ob->flags & O_DESTRUCTED)
        {
          vh_out ("r %s %s !destructed", tok[1], tok[2]);
          return 1;
        }
      int rc = vh_apply_str (ob, tok[2], n - 3, tok + 3, res, sizeof res);
      if (rc == 1)
        vh_out ("r %s %s !err", tok[1], tok[2]);
      else if (rc == 2)
        vh_out ("r %s %s !nofn", tok[1], tok[2]);
      else if (tok[0][0] == 'a')
        vh_out ("r %s %s %s", tok[1], tok[2], res);
      return 1;
    }
  if (!strcmp (tok[0], "destruct") && n == 2)
    {
      error_context_t econ;
      object_t *ob = vh_obj (tok[1]);
      if (!ob || (ob->flags & O_DESTRUCTED))
        return 1;
      save_context (&econ);
      if (!setjmp (econ.context))
        {
          destruct_object (ob);
          pop_context (&econ);
        }
      else
        {
          restore_context (&econ);
          pop_context (&econ);
          vh_out ("r destruct %s !err", tok[1]);
        }
      return 1;
    }
  if (!strcmp (tok[0], "cfgint") && n == 3)
    {
      int idx = atoi (tok[1]);
      if (idx >= 0 && idx < NUM_CONFIG_INTS)
        config_int[idx] = atoi (tok[2]);
      return 1;
    }
  return 0;
}

/* ---- case loop ---------------------------------------------------------- */

static char *read_line (FILE * f)
{
  static char *buf = 0;
  static size_t cap = 0;
  ssize_t n = getline (&buf, &cap, f);
  if (n < 0)
    return 0;
  while (n > 0 && (buf[n - 1] == '\n' || buf[n - 1] == '\r'))
    buf[--n] = 0;
  return buf;
}

static void relay_output (const char *path, const char *keep)
{
  FILE *f = fopen (path, "r");
  FILE *k = keep ? fopen (keep, "w") : 0;
  char *line = 0;
  size_t cap = 0;
  ssize_t n;
  char summary[512] = "";
  if (!f)
    return;
  long relayed = 0;
  while ((n = getline (&line, &cap, f)) >= 0)
    {
      if (k)
        fputs (line, k);
      if (!strncmp (line, "VL ", 3))
        {
          if (relayed <= VH_MAX_RELAY)
            {
              fputs (line + 3, stdout);
              relayed += n;
              if (relayed > VH_MAX_RELAY)
                fputs ("trace-truncated\n", stdout);
            }
        }
      else if (!summary[0] && (strstr (line, "ERROR: AddressSanitizer") || strstr (line, "runtime error:")
                               || strstr (line, "ERROR: LeakSanitizer")))
        {
          snprintf (summary, sizeof summary, "%s", line);
          for (char *p = summary; *p; p++)
            if (*p == '\n')
              *p = 0;
        }
    }
  if (summary[0])
    {
      /* strip addresses / pids so the line is canonical */
      char canon[512];
      char *o = canon;
      for (char *p = summary; *p && o < canon + sizeof canon - 1; p++)
        {
          if (p[0] == '0' && p[1] == 'x')
            {
              p += 2;
              while ((*p >= '0' && *p <= '9') || (*p >= 'a' && *p <= 'f'))
                p++;
              p--;
              *o++ = '@';
            }
          else if (p[0] == '=' && p[1] == '=')
            {
              p += 2;
              while (*p >= '0' && *p <= '9')
                p++;
              if (p[0] == '=' && p[1] == '=')
                p += 1;
              else
                p--;
            }
          else
            *o++ = *p;
        }
      *o = 0;
      printf ("sanitizer %s\n", canon);
    }
  free (line);
  fclose (f);
  if (k)
    fclose (k);
}

int vh_main (int argc, char **argv, vh_handler_t extra)
{
  const char *conf = 0, *scratch = "/tmp";
  const char *keepdir = 0;
  for (int i = 1; i < argc; i++)
    {
      if (!strcmp (argv[i], "--conf") && i + 1 < argc)
        conf = argv[++i];
      else if (!strcmp (argv[i], "--scratch") && i + 1 < argc)
        scratch = argv[++i];
      else if (!strcmp (argv[i], "--keep-stderr") && i + 1 < argc)
        keepdir = argv[++i];
      else if (!strcmp (argv[i], "--timeout") && i + 1 < argc)
        vh_case_timeout = atoi (argv[++i]);
      else if (!strcmp (argv[i], "--max-timeouts") && i + 1 < argc)
        vh_max_timeouts = atoi (argv[++i]);
    }
  if (!conf)
    {
      fprintf (stderr, "usage: %s --conf <file> [--scratch dir] [--keep-stderr dir]\n", argv[0]);
      return 2;
    }
  signal (SIGPIPE, SIG_IGN);
  vh_init (conf);

  char *line;
  while ((line = read_line (stdin)))
    {
      if (strncmp (line, "case ", 5))
        continue;
      char id[128];
      snprintf (id, sizeof id, "%s", line + 5);
      /* collect the case */
      char **cmds = 0;
      int ncmd = 0, cap = 0;
      while ((line = read_line (stdin)) && strcmp (line, "end"))
        {
          if (ncmd == cap)
            cmds = (char **) realloc (cmds, sizeof (char *) * (cap = cap ? cap * 2 : 64));
          cmds[ncmd++] = strdup (line);
        }
      if (vh_max_timeouts > 0 && vh_timeouts >= vh_max_timeouts)
        {
          printf ("case %s\nnotrun slow-tree\nend\n", id);
          fflush (stdout);
          for (int i = 0; i < ncmd; i++)
            free (cmds[i]);
          free (cmds);
          continue;
        }
      char outpath[512];
      snprintf (outpath, sizeof outpath, "%s/vh-%d.out", scratch, (int) getpid ());
      fflush (stdout);
      pid_t pid = fork ();
      if (pid == 0)
        {
          int fd = open (outpath, O_WRONLY | O_CREAT | O_TRUNC, 0644);
          dup2 (fd, 2);
          close (fd);
          alarm (vh_case_timeout);
          {
            struct rlimit rl;
            if (getrlimit (RLIMIT_FSIZE, &rl) == 0 && (rl.rlim_cur == RLIM_INFINITY || rl.rlim_cur > (rlim_t) VH_MAX_OUT))
              {
                rl.rlim_cur = (rlim_t) VH_MAX_OUT;
                setrlimit (RLIMIT_FSIZE, &rl);
              }
          }
          for (int i = 0; i < ncmd; i++)
            {
              if (cmds[i][0] == '#' || !cmds[i][0])
                continue;
              if (extra && extra (cmds[i]))
                continue;
              if (!vh_generic (cmds[i]))
                vh_out ("badcmd %s", cmds[i]);
            }
          fflush (stderr);
          _exit (0);
        }
      int status = 0;
      waitpid (pid, &status, 0);
      printf ("case %s\n", id);
      char keep[600];
      if (keepdir)
        snprintf (keep, sizeof keep, "%s/%s.stderr", keepdir, id);
      relay_output (outpath, keepdir ? keep : 0);
      if (WIFSIGNALED (status))
        {
          if (WTERMSIG (status) == SIGALRM)
            {
              printf ("crash timeout\n");
              vh_timeouts++;
            }
          else
            printf ("crash signal %d\n", WTERMSIG (status));
        }
      else if (WIFEXITED (status) && WEXITSTATUS (status) != 0)
        printf ("crash exit %d\n", WEXITSTATUS (status));
      printf ("end\n");
      fflush (stdout);
      unlink (outpath);
      for (int i = 0; i < ncmd; i++)
        free (cmds[i]);
      free (cmds);
    }
  return 0;
}
