/* vh.h - common in-process harness layer for the neolith verification checks.
 *
 * A harness binary links the real driver objects ("stem" + libs) built from
 * the repository working tree.  It initialises the driver once (like
 * src/main.c / tests fixtures), then reads cases from stdin:
 *
 *     case <id>
 *     <command line>*
 *     end
 *
 * Every case runs in a forked child (fresh copy of the initialised driver,
 * crash isolation).  Everything the child prints through vh_out() or that LPC
 * code prints with debug_message("VL ...") is the canonical case output.  The
 * parent prints
 *
 *     case <id>
 *     <output line>*
 *     [crash <reason>]
 *     end
 */
#ifndef VH_H
#define VH_H

#ifdef HAVE_CONFIG_H
#include <config.h>
#endif
#include <stdio.h>
#include <stdlib.h>
#include <string.h>
#include <setjmp.h>
#include <stdarg.h>

#ifdef __cplusplus
extern "C" {
#endif
#include "src/std.h"
#include "lib/rc/rc.h"
#include "src/comm.h"
#include "src/simul_efun.h"
#include "src/backend.h"
#include "src/simulate.h"
#include "src/apply.h"
#include "src/error_context.h"
#include "src/stralloc.h"
#include "lpc/types.h"
#include "lpc/object.h"
#include "lpc/otable.h"
#include "lpc/array.h"
#include "lpc/mapping.h"
#include "lpc/include/origin.h"
#ifdef __cplusplus
}
#endif

/* virtual epoch: all times printed are relative to this */
#define VH_T0 1000000000L

typedef int (*vh_handler_t) (char *line);	/* 1 = handled, 0 = unknown command */

#ifdef __cplusplus
extern "C" {
#endif

/* initialise the driver; conf is the path of a config file whose MudlibDir is absolute */
void vh_init (const char *conf);
/* case loop; `extra` is tried first for every command line, then vh_generic */
int vh_main (int argc, char **argv, vh_handler_t extra);
/* print one canonical output line (no newline in fmt) */
void vh_out (const char *fmt, ...);
/* generic commands (see vh.c) */
int vh_generic (char *line);

/* object registry: harness-level names -> objects */
object_t *vh_obj (const char *oid);
void vh_setobj (const char *oid, object_t * ob);
const char *vh_oid_of (object_t * ob);

/* canonical text of an svalue (ints, strings, arrays, mappings sorted, objects by oid) */
void vh_sv (char *buf, size_t n, svalue_t * sv);

/* apply fn on ob with string arguments inside an error context.
 * returns 0 ok (result canonicalised into res), 1 LPC error, 2 no such function */
int vh_apply_str (object_t * ob, const char *fn, int nargs, char **args, char *res, size_t nres);

/* split helper: returns number of tokens, modifies line */
int vh_split (char *line, char **tok, int max);

#ifdef __cplusplus
}
#endif

/* error-context helper for harness code that calls into the driver */
#define VH_TRY(econ)  save_context (&(econ)); if (!setjmp ((econ).context)) {
#define VH_CATCH(econ) pop_context (&(econ)); } else { restore_context (&(econ)); pop_context (&(econ));
#define VH_END }

#endif
