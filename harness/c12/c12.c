/* C12 harness (system style): the REAL backend() loop is stepped through the guarded cycle hook
 * (src/backend.c, verif_backend_cycle_hook); users are real loopback TCP clients of the real listening port.
 *
 * case lines (executed from inside the hook, i.e. between two backend cycles):
 *   script u<k> =<text> <op>;<op>...   what user k does when it executes command <text>
 *   conn                               a new client connects (the k-th `conn` of the case is user u<k>)
 *   send u<k> <data>                   client k sends bytes (`~` = CR LF, everything else literal)
 *   close u<k>                         client k closes its socket
 *   cycle                              one iteration of the backend loop
 *   run                                last line: start backend() and execute the lines above
 *
 * canonical output: `begin n`, `poll n block|now` (what timeout backend handed to the poller), the LPC lines of
 * harness/mudlib/c12/user.c (logon/cmd/ecmd/kick/drop/force/gc/it), echoed `send`/`close` lines for actions that
 * were really performed, and `end n max=<max_users> <slot>:<user>:<iflags & (HAS_CMD_TURN|CMD_IN_BUF|SINGLE_CHAR)>...` after
 * every cycle.  An iteration left by an uncaught LPC error (script op `err`) never reaches the hook: it is seen through
 * the second poll of the hook period and logged as `abort n` followed by `begin n+1`.
 *
 * libc interposition: bind() -> ephemeral port (parallel checks must not collide);
 *                     epoll_wait() -> records whether backend asked to block, then polls with timeout 0.
 */
#include "vh.h"
#include <unistd.h>
#include <fcntl.h>
#include <errno.h>
#include <poll.h>
#include <sys/socket.h>
#include <sys/ioctl.h>
#include <sys/epoll.h>
#include <sys/syscall.h>
#include <netinet/in.h>
#include <arpa/inet.h>
#include "src/main.h"

extern int (*verif_backend_cycle_hook) (void);

#define MAXCL 400
#define MAXLN 20000
static char *lines[MAXLN];
static int nlines = 0, curline = 0;
static int cycle_no = 0;
static int port = 0;
static int in_cycle = 0;
static int polled = 0;		/* backend() has polled in the running iteration */

static int cfd[MAXCL];		/* client socket of u<k>, -1 = closed / never opened */
static interactive_t *cip[MAXCL];	/* server side of u<k> once accepted */
static int unread[MAXCL];	/* bytes sent since the last cycle */
static int nclients = 0, naccepted = 0;

/* fresh heap memory is filled with a non-zero pattern (all of it, not only the first page), so that a field of
 * interactive_t that new_interactive() forgets to initialise shows up as wrong flags instead of as a lucky zero */
const char *__asan_default_options (void)
{
  return "max_malloc_fill_size=1048576:malloc_fill_byte=165";
}

/* ---- interposed libc ------------------------------------------------------ */
int bind (int fd, const struct sockaddr *addr, socklen_t len)
{
  struct sockaddr_in sin;
  if (addr && addr->sa_family == AF_INET && len >= sizeof sin)
    {
      memcpy (&sin, addr, sizeof sin);
      sin.sin_port = 0;
      sin.sin_addr.s_addr = htonl (INADDR_LOOPBACK);
      return (int) syscall (SYS_bind, fd, &sin, (socklen_t) sizeof sin);
    }
  return (int) syscall (SYS_bind, fd, addr, len);
}

/* sort key of a reported event: the context pointer the driver registered */
static long ev_key (void *ctx)
{
  if ((char *) ctx >= (char *) &external_port[0] && (char *) ctx < (char *) &external_port[5])
    return 0;
  for (int i = 0; i < max_users; i++)
    if (all_users && (void *) all_users[i] == ctx)
      return 1 + i;
  return 1000000;
}

int epoll_wait (int epfd, struct epoll_event *ev, int maxev, int timeout)
{
  if (in_cycle)
    {
      if (polled)
        {
          /* a second poll without the hook in between: the previous iteration was left by longjmp (uncaught
           * error in a command) and the while(1) loop of backend() has restarted */
          vh_out ("abort %d", cycle_no);
          cycle_no++;
          vh_out ("begin %d", cycle_no);
        }
      polled = 1;
      vh_out ("poll %d %s", cycle_no, timeout == 0 ? "now" : "block");
    }
  int n = (int) syscall (SYS_epoll_pwait, epfd, ev, maxev, 0, (void *) 0, (size_t) 8);
  /* The order in which the kernel reports ready descriptors is unspecified.  Make it deterministic (any order is a
   * legal epoll result): listening ports first, then the users in slot order, everything else last - so that a
   * connect and a disconnect inside one process_io() can be compared with the model (accept, then the users in table
   * order). */
  for (int a = 1; a < n; a++)
    {
      struct epoll_event e = ev[a];
      long ka = ev_key (e.data.ptr);
      int b = a - 1;
      while (b >= 0 && ev_key (ev[b].data.ptr) > ka)
        {
          ev[b + 1] = ev[b];
          b--;
        }
      ev[b + 1] = e;
    }
  return n;
}

/* ---- helpers -------------------------------------------------------------- */
static int slot_of (interactive_t * ip)
{
  if (!ip)
    return -1;
  for (int i = 0; i < max_users; i++)
    if (all_users[i] == ip)
      return i;
  return -1;
}

static int uid_of (interactive_t * ip)
{
  for (int k = 1; k <= naccepted; k++)
    if (cip[k] == ip)
      return k;
  return 0;
}

static void drain_clients (void)
{
  char buf[4096];
  for (int k = 1; k <= nclients; k++)
    if (cfd[k] >= 0)
      while (recv (cfd[k], buf, sizeof buf, MSG_DONTWAIT) > 0)
        ;
}

static void wait_readable (int fd, int want_bytes)
{
  for (int tries = 0; tries < 2000; tries++)
    {
      int n = 0;
      struct pollfd p = { fd, POLLIN | POLLRDHUP, 0 };
      if (want_bytes > 0)
        {
          if (ioctl (fd, FIONREAD, &n) == 0 && n >= want_bytes)
            return;
        }
      else if (poll (&p, 1, 0) > 0)
        return;
      usleep (500);
    }
  vh_out ("harness-sync-timeout");
}

/* users of the table whose descriptor is ready for the next poll round: unread data, or the client has closed */
static int ready_count (void)
{
  int n = 0;
  for (int k = 1; k <= naccepted; k++)
    if (slot_of (cip[k]) >= 0 && (unread[k] > 0 || cfd[k] < 0))
      n++;
  return n;
}

/* harness discipline: the poller hands out at most READY_MAX + 2 events per round; never let more descriptors get
 * ready than one process_io() will see (the model has the same guard) */
#ifndef C12_MAX_EVENTS
#error "C12_MAX_EVENTS (MAX_EVENTS of lib/async/async_runtime_epoll.c) must be passed by props/c12.py"
#endif
#define READY_MAX (C12_MAX_EVENTS - 2)

static int parse_uid (const char *s)
{
  if (s[0] != 'u')
    return 0;
  int k = atoi (s + 1);
  return (k >= 1 && k < MAXCL) ? k : 0;
}

static void act (char *line)
{
  char copy[8192];
  char *tok[8];
  snprintf (copy, sizeof copy, "%s", line);
  int n = vh_split (copy, tok, 8);
  if (n == 0 || tok[0][0] == '#')
    return;
  drain_clients ();
  if (!strcmp (tok[0], "conn") && n == 1)
    {
      struct sockaddr_in sin;
      if (nclients + 1 >= MAXCL)
        return;
      int k = ++nclients;
      cfd[k] = socket (AF_INET, SOCK_STREAM, 0);
      memset (&sin, 0, sizeof sin);
      sin.sin_family = AF_INET;
      sin.sin_port = htons (port);
      sin.sin_addr.s_addr = htonl (INADDR_LOOPBACK);
      if (connect (cfd[k], (struct sockaddr *) &sin, sizeof sin) != 0)
        {
          vh_out ("harness-connect-failed %d", errno);
          close (cfd[k]);
          cfd[k] = -1;
          return;
        }
      vh_out ("conn u%d", k);
      wait_readable (external_port[0].fd, 0);
      return;
    }
  if (!strcmp (tok[0], "send") && n == 3)
    {
      int k = parse_uid (tok[1]);
      char data[4096];
      int len = 0;
      if (!k || k > naccepted || cfd[k] < 0 || slot_of (cip[k]) < 0)
        return;			/* not (or no longer) a connected user: nothing is sent */
      {
        /* harness discipline: never more than MAX_TEXT / 16 unread bytes per user when backend() polls - that is the
         * least get_user_data() ever asks recv() for, so one read takes everything (the model has the same guard) */
        int raw = 0;
        for (char *p = tok[2]; *p; p++)
          raw += (*p == '~') ? 2 : 1;
        if (unread[k] + raw > MAX_TEXT / 16)
          return;
        if (unread[k] == 0 && ready_count () >= READY_MAX)
          return;
        if (strchr (tok[2], '!'))
          return;			/* `!` shell escapes are outside the model: such data is never sent */
      }
      for (char *p = tok[2]; *p && len < (int) sizeof data - 2; p++)
        if (*p == '~')
          {
            data[len++] = '\r';
            data[len++] = '\n';
          }
        else
          data[len++] = *p;
      if (send (cfd[k], data, len, MSG_NOSIGNAL) != len)
        {
          vh_out ("harness-send-failed u%d", k);
          return;
        }
      unread[k] += len;
      vh_out ("send u%d %s", k, tok[2]);
      wait_readable (cip[k]->fd, unread[k]);
      return;
    }
  if (!strcmp (tok[0], "close") && n == 2)
    {
      int k = parse_uid (tok[1]);
      if (!k || k > naccepted || cfd[k] < 0)
        return;
      int present = slot_of (cip[k]) >= 0;
      if (unread[k] == 0 && ready_count () >= READY_MAX)
        return;
      int sfd = present ? cip[k]->fd : -1;
      close (cfd[k]);
      cfd[k] = -1;
      if (present)
        {
          vh_out ("close u%d", k);
          wait_readable (sfd, 0);
        }
      return;
    }
  vh_out ("badcmd %s", line);
}

static void print_end (void)
{
  char buf[16000];
  int o = snprintf (buf, sizeof buf, "end %d max=%d", cycle_no, max_users);
  for (int i = 0; i < max_users && o < (int) sizeof buf - 64; i++)
    if (all_users[i])
      {
        interactive_t *ip = all_users[i];
        o += snprintf (buf + o, sizeof buf - o, " %d:u%d:%d", i, uid_of (ip),
                       (int) (ip->iflags & (HAS_CMD_TURN | CMD_IN_BUF | SINGLE_CHAR)));
      }
  vh_out ("%s", buf);
}

static int hook (void)
{
  if (cycle_no == 0)
    {
      struct sockaddr_in sin;
      socklen_t sl = sizeof sin;
      if (getsockname (external_port[0].fd, (struct sockaddr *) &sin, &sl) != 0)
        {
          vh_out ("harness-no-port");
          return 1;
        }
      port = ntohs (sin.sin_port);
    }
  else
    {
      /* a user first seen now was accepted in this cycle; its number is the one the master gave it (accept
       * order) - a user accepted AND removed inside one cycle is never seen here but still uses up a number */
      for (int i = 0; i < max_users; i++)
        if (all_users[i] && !uid_of (all_users[i]) && all_users[i]->ob)
          {
            char res[64];
            int k = 0;
            if (vh_apply_str (all_users[i]->ob, "query_oid", 0, 0, res, sizeof res) == 0 && res[0] == '"' && res[1] == 'u')
              k = atoi (res + 2);
            if (k >= 1 && k < MAXCL)
              {
                cip[k] = all_users[i];
                if (k > naccepted)
                  naccepted = k;
              }
          }
      print_end ();
    }
  in_cycle = 0;
  /* what a client sent and the driver has not read: normally nothing; get_user_data() holds a read back while the text
   * buffer is full of commands typed ahead */
  for (int k = 1; k <= nclients; k++)
    {
      int n = 0;
      unread[k] = 0;
      if (k <= naccepted && slot_of (cip[k]) >= 0 && ioctl (cip[k]->fd, FIONREAD, &n) == 0 && n > 0)
        unread[k] = n;
    }
  while (curline < nlines)
    {
      char *l = lines[curline++];
      if (!strcmp (l, "cycle"))
        {
          drain_clients ();
          cycle_no++;
          in_cycle = 1;
          polled = 0;
          vh_out ("begin %d", cycle_no);
          return 0;
        }
      act (l);
    }
  return 1;
}

static void run_case (void)
{
  /* scripts first: they are static for the case */
  error_context_t econ;
  object_t *volatile reg = 0;
  save_context (&econ);
  if (!setjmp (econ.context))
    {
      eval_cost = CONFIG_INT (__MAX_EVAL_COST__);
      reg = load_object ("/c12/reg", 0);
      pop_context (&econ);
    }
  else
    {
      restore_context (&econ);
      pop_context (&econ);
    }
  if (!reg)
    {
      vh_out ("harness-no-reg");
      return;
    }
  int w = 0;
  for (int i = 0; i < nlines; i++)
    {
      if (!strncmp (lines[i], "script ", 7))
        {
          char copy[8192];
          char *tok[8];
          snprintf (copy, sizeof copy, "%s", lines[i]);
          int n = vh_split (copy, tok, 8);
          if (n == 4)
            vh_apply_str (reg, "set_script", 3, tok + 1, 0, 0);
          else
            vh_out ("badcmd %s", lines[i]);
        }
      else
        lines[w++] = lines[i];
    }
  nlines = w;
  for (int k = 0; k < MAXCL; k++)
    cfd[k] = -1;
  g_main_options->timer_flags = 0;	/* no wall-clock timer: cycles are driven by the hook only */
  verif_backend_cycle_hook = hook;
  backend ();
}

static int c12_cmd (char *line)
{
  if (!strcmp (line, "run"))
    {
      run_case ();
      nlines = 0;
      return 1;
    }
  if (nlines < MAXLN)
    lines[nlines++] = strdup (line);
  return 1;
}

int main (int argc, char **argv)
{
  return vh_main (argc, argv, c12_cmd);
}
