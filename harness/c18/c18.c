/* C18 harness (system style): runtime errors are reported at the right file and line with a correct trace.
 *
 * commands (besides the generic ones of vh.c):
 *   file <path> <tok>...     write an LPC source file below the mudlib directory; tokens are concatenated:
 *                              n<k>   k newline characters            c<k>  k comment lines "//\n"
 *                              h<hex> raw bytes                       s<k>  k filler statements "  x_ = x_ + 1;\n"
 *   dump <oid>               dump the line tables of the object's program and of every inherited program
 *   tick <dt>                current_time += dt; the driver's call_heart_beat() (heart beats, then call_outs)
 *   reset <oid>              the driver's reset_object()
 *   unload <oid>             destruct the object (so that the next `load` compiles or loads the saved binary)
 *
 * canonical output produced here:
 *   ev <prog> <tok>...       line-number bookkeeping events of one finished compilation (hook in icode.c/compiler.c)
 *                              b | s:<line>:<addr>:<block> | r:<line>:<addr>:<block> (replayed by __INIT placement) | f:<fileid>:<lines> | a:<fileid>:<name> | i:<base>:<size> | e:<psize>
 *   nv <prog> <tok>...       what i_generate_node saw, in order: n:<line>:<addr>:<block>:<count> a visited parse node (+ count-1
 *                            following visits with the same line and block that did not call switch_to_line),
 *                            x:<line>:<addr>:<block> a switch_to_line call not made for a node, i:<base>:<size> __INIT placement
 *   sw <prog> <line>:<addr>:<block>...   the switch_to_line calls made for node visits
 *   fn <prog> <name>,...     function table of a program (index order)
 *   tab <prog> psize=<n> hdr=<file_info[0]>:<file_info[1]> fi=<count>:<file>,... li=<len>:<line16>,... files=<id>:<name>,...
 *                            the real file_info / line_info tables (raw unsigned 16 bit values) and the program size
 *   tra <prog> <cnt>*<fileid>:<firstline>|<cnt>*- ...   the real translate_absolute_line() for EVERY absolute line 0..total+2
 *   dec <prog> <cnt>*<text> ...   run-length list of the real get_line_number() answer for EVERY offset 0..psize
 *   cs caught=<c> err=<text> n=<k> <kind>:<tableindex>:<prog>:<ob>:<pcoff> ... cur=<prog>:<ob>:<pcoff>
 *                            raw control stack and registers at the moment of the error (hook in error_context.c)
 *                            every entry may carry :<num_arg>:<num_local> of the frame it opens (-1 = not a function / literal)
 *   dt ret=<0|obj> <line>|<line>...   the real dump_trace (0) on that control stack: log text, colour codes removed, blanks
 *                            as `~`; ret = its return value (object whose heart_beat() is on the stack)
 *   dta <F|A|L>...|... inner=<num_arg>:<num_local>:<sp - fp>   the real dump_trace (DUMP_WITH_ARGS | DUMP_WITH_LOCALVARS): which lines follow each frame line
 *                            (F frame, A "arguments:", L "local variables:")
 *   ce <file>:<line>:<text>  a compile-time error / warning as the compiler reported it (master log_error)
 * and the verification master (mudlib/c18/master.c) logs   eh caught=.. error=.. file=.. line=.. program=.. object=.. trace=..
 */
#include "vh.h"
#include <sys/stat.h>
#include <errno.h>
#include "src/interpret.h"
#include "lpc/program.h"
#include "lpc/compiler.h"
#include "lpc/lex.h"
#include "lpc/program/binaries.h"
#include "lib/efuns/call_out.h"
#include "lpc/functional.h"
#include "rc/rc.h"
#include "src/simulate.h"

/* libc interposition: the driver's clock is virtual (call_heart_beat() reads time() into current_time; with the wall
 * clock the call_out wheel would be swept second by second from VH_T0 to today) */
static time_t c18_now = VH_T0;
time_t time (time_t * t)
{
  if (t)
    *t = c18_now;
  return c18_now;
}

void verif_tick (void);		/* src/backend.c (NEOLITH_VERIF): the driver's call_heart_beat(), which also runs the call_outs */

extern void (*verif_line_hook) (int kind, long a, long b, long c, const char *s);
extern void (*verif_error_hook) (const char *err, int catch_flag);

/* ---- growing text buffer ------------------------------------------------ */
typedef struct { char *s; size_t n, cap; } tbuf_t;

static void tb_add (tbuf_t * t, const char *fmt, ...)
{
  char tmp[1200];
  va_list ap;
  va_start (ap, fmt);
  int k = vsnprintf (tmp, sizeof tmp, fmt, ap);
  va_end (ap);
  if (k < 0)
    return;
  if (k >= (int) sizeof tmp)
    k = sizeof tmp - 1;
  if (t->n + k + 1 > t->cap)
    {
      t->cap = (t->cap + k + 1) * 2;
      t->s = (char *) realloc (t->s, t->cap);
    }
  memcpy (t->s + t->n, tmp, k);
  t->n += k;
  t->s[t->n] = 0;
}

static void tb_flush (tbuf_t * t)
{
  if (t->n)
    {
      for (size_t i = 0; i < t->n; i++)
        if (t->s[i] == '\n' || t->s[i] == '\r')
          t->s[i] = ' ';
      fprintf (stderr, "VL %s\n", t->s);
      fflush (stderr);
    }
  t->n = 0;
  if (t->s)
    t->s[0] = 0;
}

/* ---- compiler events ---------------------------------------------------- */
static tbuf_t evb;
/* parse nodes visited by i_generate_node: one entry per visit that reached switch_to_line or that differs in (line, block)
 * from the visit before it; visits with the same line and block that did NOT call switch_to_line are counted into the
 * entry in front of them.  swb = the switch_to_line calls made from node visits (kind 's'), in order */
static tbuf_t nvb, swb;
static long nv_line, nv_addr, nv_block, nv_count;
static int nv_have = 0, nv_in = 0, nv_cur_switched = 0;
static long nv_cur_line, nv_cur_addr, nv_cur_block;

static void nv_flush (void)
{
  if (nv_have)
    tb_add (&nvb, " n:%ld:%ld:%ld:%ld", nv_line, nv_addr, nv_block, nv_count);
  nv_have = 0;
}

static void line_hook (int kind, long a, long b, long c, const char *s)
{
  switch (kind)
    {
    case 'b':
      evb.n = 0;
      tb_add (&evb, "b");
      nvb.n = swb.n = 0;
      nv_have = nv_in = 0;
      break;
    case 'n':
      /* a visit; whether it switches is known at 'N' */
      nv_cur_line = a;
      nv_cur_addr = b;
      nv_cur_block = c;
      nv_cur_switched = 0;
      nv_in = 1;
      break;
    case 'N':
      if (nv_in)
        {
          if (!nv_cur_switched && nv_have && nv_cur_line == nv_line && nv_cur_block == nv_block)
            nv_count++;		/* same line and block as the entry in front, no switch_to_line: counted into it */
          else
            {
              nv_flush ();
              nv_line = nv_cur_line;
              nv_addr = nv_cur_addr;
              nv_block = nv_cur_block;
              nv_count = 1;
              nv_have = 1;
            }
          nv_in = 0;
        }
      break;
    case 's':
      tb_add (&evb, " s:%ld:%ld:%ld", a, b, c);
      if (nv_in)
        {
          nv_cur_switched = 1;
          tb_add (&swb, " %ld:%ld:%ld", a, b, c);
        }
      else
        {
          nv_flush ();
          tb_add (&nvb, " x:%ld:%ld:%ld", a, b, c);	/* switch_to_line not called for a node visit */
        }
      break;
    case 'r':
      tb_add (&evb, " r:%ld:%ld:%ld", a, b, c);
      break;
    case 'f':
      if (c)
        tb_add (&evb, " f:%ld:%ld", a, b);
      break;
    case 'a':
      tb_add (&evb, " a:%ld:%s", a, s ? s : "?");
      break;
    case 'i':
      tb_add (&evb, " i:%ld:%ld", a, b);
      nv_flush ();
      tb_add (&nvb, " i:%ld:%ld", a, b);
      break;
    case 'e':
      {
        tb_add (&evb, " e:%ld", a);
        fprintf (stderr, "VL ev %s %s\n", s ? s : "?", evb.s);
        nv_flush ();
        fprintf (stderr, "VL nv %s%s\n", s ? s : "?", nvb.n ? nvb.s : " -");
        fprintf (stderr, "VL sw %s%s\n", s ? s : "?", swb.n ? swb.s : " -");
        fflush (stderr);
        evb.n = nvb.n = swb.n = 0;
        break;
      }
    }
}

/* ---- table dump ---------------------------------------------------------- */
#define MAXDUMPED 64
static const program_t *dumped[MAXDUMPED];
static int ndumped = 0;

static void dump_prog (const program_t * prog, int force)
{
  tbuf_t t = { 0, 0, 0 };
  if (!prog || !prog->name || !strcmp (prog->name, "<function>"))
    return;			/* fake_prog of function-pointer frames: find_line answers "" / 0 */
  for (int i = 0; i < ndumped; i++)
    if (dumped[i] == prog && !force)
      return;
  if (ndumped < MAXDUMPED)
    dumped[ndumped++] = prog;

  tb_add (&t, "fn %s ", prog->name);
  for (int i = 0; i < (int) prog->num_functions_defined; i++)
    tb_add (&t, "%s%s", i ? "," : "", prog->function_table[i].name);
  if (!prog->num_functions_defined)
    tb_add (&t, "-");
  tb_flush (&t);

  if (!prog->line_info || !prog->file_info)
    {
      tb_add (&t, "tab %s psize=%d none", prog->name, (int) prog->program_size);
      tb_flush (&t);
    }
  else
    {
      unsigned short *fi = prog->file_info;
      int lnoff = fi[1];
      int total = fi[0];
      unsigned char *li = (unsigned char *) (fi + lnoff);
      unsigned char *li_end = ((unsigned char *) fi) + total;
      {
        /* fi[0] is the size of both tables in bytes stored in an unsigned short: with more than 64 KB of tables it
         * has wrapped.  The runs cover the whole program (switch_to_line (-1) flushes the last bytes), so their
         * real end is where the run lengths add up to program_size */
        long acc = 0;
        unsigned char *q = li;
        while (acc < (long) prog->program_size && q < li + 3L * 70000)
          {
            acc += q[0];
            q += 3;
          }
        if (q > li_end)
          li_end = q;
      }
      int seen[512], nseen = 0;
      tb_add (&t, "tab %s psize=%d hdr=%d:%d fi=", prog->name, (int) prog->program_size, (int) fi[0], (int) fi[1]);
      for (int i = 2; i + 1 < lnoff; i += 2)
        tb_add (&t, "%s%d:%d", i > 2 ? "," : "", (int) fi[i], (int) fi[i + 1]);
      if (lnoff <= 2)
        tb_add (&t, "-");
      tb_add (&t, " li=");
      if (li >= li_end)
        tb_add (&t, "-");
      for (unsigned char *p = li; p + 2 < li_end; p += 3)
        {
          unsigned short v;
          memcpy (&v, p + 1, 2);
          tb_add (&t, "%s%d:%d", p > li ? "," : "", (int) p[0], (int) v);
        }
      tb_add (&t, " files=");
      for (int i = 2; i + 1 < lnoff; i += 2)
        {
          int id = fi[i + 1], dup = 0;
          for (int k = 0; k < nseen; k++)
            if (seen[k] == id)
              dup = 1;
          if (dup || nseen >= 512)
            continue;
          seen[nseen++] = id;
          tb_add (&t, "%s%d:%s", nseen > 1 ? "," : "", id,
                  (id >= 1 && id <= (int) prog->num_strings && prog->strings[id - 1]) ? prog->strings[id - 1] : "?");
        }
      if (!nseen)
        tb_add (&t, "-");
      tb_flush (&t);
    }

  /* the real translate_absolute_line on EVERY absolute line 0 .. total+2 (segment boundaries included, whether or
   * not code was generated under the line); consecutive lines that map to consecutive lines of one file are
   * printed as <count>*<file id>:<first line>, lines the function rejects as <count>*- */
  if (prog->line_info && prog->file_info && prog->file_info[1] > 2)
    {
      unsigned short *fi = prog->file_info;
      int lnoff = fi[1];
      long total = 0;
      int have = 0, cnt = 0, pf = 0, pl = 0, pbad = 0;
      for (int i = 2; i + 1 < lnoff; i += 2)
        total += fi[i];
      tb_add (&t, "tra %s", prog->name);
      for (long a = 0; a <= total + 2; a++)
        {
          int f = 0, l = 0;
          int bad = translate_absolute_line ((int) a, &fi[2], (lnoff - 2) * sizeof (short), &f, &l) != 0;
          if (have && bad == pbad && (bad || (f == pf && l == pl + cnt)))
            {
              cnt++;
              continue;
            }
          if (have)
            {
              if (pbad)
                tb_add (&t, " %d*-", cnt);
              else
                tb_add (&t, " %d*%d:%d", cnt, pf, pl);
            }
          have = 1;
          cnt = 1;
          pf = f;
          pl = l;
          pbad = bad;
        }
      if (have)
        {
          if (pbad)
            tb_add (&t, " %d*-", cnt);
          else
            tb_add (&t, " %d*%d:%d", cnt, pf, pl);
        }
      tb_flush (&t);
    }

  /* the real decoder on every offset */
  {
    static char prev[PATH_MAX + 64], cur[PATH_MAX + 64];
    int cnt = 0;
    prev[0] = 0;
    tb_add (&t, "dec %s", prog->name);
    for (int off = 0; off <= (int) prog->program_size; off++)
      {
        char *r = get_line_number (prog->program + off, prog);
        snprintf (cur, sizeof cur, "%s", r);
        for (char *q = cur; *q; q++)
          if (*q == ' ')
            *q = '_';
        if (cnt && strcmp (cur, prev))
          {
            tb_add (&t, " %d*%s", cnt, prev);
            cnt = 0;
          }
        strcpy (prev, cur);
        cnt++;
      }
    if (cnt)
      tb_add (&t, " %d*%s", cnt, prev);
    tb_flush (&t);
  }
  free (t.s);
}

static void dump_prog_rec (const program_t * prog, int force, int depth)
{
  if (!prog || depth > 8)
    return;
  for (int i = 0; i < (int) prog->num_inherited; i++)
    dump_prog_rec (prog->inherit[i].prog, force, depth + 1);
  dump_prog (prog, force);
}

/* ---- error time dump ------------------------------------------------------ */
static void canon_text (char *dst, size_t n, const char *src)
{
  size_t o = 0;
  if (*src == '*')
    src++;
  for (; *src && *src != '\n' && o + 1 < n; src++)
    dst[o++] = (*src == ' ' || *src == '\t' || (unsigned char) *src < 32) ? '_' : *src;
  dst[o] = 0;
}

static long pcoff (const program_t * prog, const char *p)
{
  if (!prog || !p)
    return -1;
  long d = (long) (p - prog->program);
  if (d < 0 || d > 0x7fffffff)
    return -2;
  return d;
}

extern FILE *current_log_file;	/* lib/logger/logger.c: where log_message (NULL, ...) writes */

static void tb_adds (tbuf_t * t, const char *s, size_t k)
{
  if (t->n + k + 1 > t->cap)
    {
      t->cap = (t->cap + k + 1) * 2;
      t->s = (char *) realloc (t->s, t->cap);
    }
  memcpy (t->s + t->n, s, k);
  t->n += k;
  t->s[t->n] = 0;
}

/* run the driver's dump_trace (how) with the log redirected into memory; returns the text (malloc) */
static char *capture_dump_trace (int how, char **ret)
{
  char *mem = 0;
  size_t msz = 0;
  FILE *save = current_log_file;
  FILE *mf = open_memstream (&mem, &msz);
  if (!mf)
    return 0;
  current_log_file = mf;
  *ret = dump_trace (how);
  current_log_file = save;
  fclose (mf);
  return mem;
}

/* num_arg / num_local of the frame a control stack element opens, read the way dump_trace / get_svalue_trace do */
static void frame_counts (const control_stack_t * p, const program_t * prog, int *na, int *nl)
{
  *na = -1;
  *nl = -1;
  switch (p->framekind & FRAME_MASK)
    {
    case FRAME_FUNCTION:
      if (prog && prog != &fake_prog && p->fr.table_index >= 0 && p->fr.table_index < (int) prog->num_functions_defined)
        {
          compiler_function_t *cfp = &prog->function_table[p->fr.table_index];
          runtime_function_u *fe = FIND_FUNC_ENTRY (prog, cfp->runtime_index);
          *na = fe->def.num_arg;
          *nl = fe->def.num_local;
        }
      break;
    case FRAME_FUNP:
      if (p->fr.funp)
        {
          *na = p->fr.funp->f.functional.num_arg;
          *nl = p->fr.funp->f.functional.num_local;
        }
      break;
    }
}

/* sp - fp of the innermost frame (0 outside any frame: the pointers are not meaningful there and not canonical) */
static long c18_room (void)
{
  return (csp >= control_stack && fp && sp) ? (long) (sp - fp) : 0;
}

static void error_hook (const char *err, int caught)
{
  tbuf_t t = { 0, 0, 0 };
  char e[200];
  const control_stack_t *p;
  canon_text (e, sizeof e, err);
  tb_add (&t, "cs caught=%d err=%s n=%d", caught, e, (int) (csp - control_stack) + 1);
  for (p = control_stack; p <= csp; p++)
    {
      int kind = p->framekind & FRAME_MASK, na, nl;
      frame_counts (p, p < csp ? p[1].prog : current_prog, &na, &nl);
      tb_add (&t, " %d:%d:%s:%s:%ld:%d:%d", kind, kind == FRAME_FUNCTION ? p->fr.table_index : 0,
              p->prog ? p->prog->name : "-", p->ob ? p->ob->name : "-", pcoff (p->prog, p->pc), na, nl);
    }
  tb_add (&t, " cur=%s:%s:%ld room=%ld", current_prog ? current_prog->name : "-",
          current_object ? current_object->name : "-", pcoff (current_prog, pc), c18_room ());
  tb_flush (&t);
  for (p = control_stack; p <= csp; p++)
    dump_prog (p->prog, 0);
  dump_prog (current_prog, 0);
  /* the driver's textual trace of the same control stack: dump_trace (0), colour codes removed */
  {
    char *ret = 0;
    char *txt = capture_dump_trace (0, &ret);
    tb_add (&t, "dt ret=%s ", ret ? ret : "0");
    if (!txt || !*txt)
      tb_add (&t, "-");
    for (char *q = txt; q && *q; q++)
      {
        if (*q == 27 && q[1] == '[')
          {
            while (*q && *q != 'm')
              q++;
            if (!*q)
              break;
            continue;
          }
        if (*q == '\t')
          continue;
        char c = *q == ' ' ? '~' : (*q == '\n' ? (q[1] ? '|' : 0) : *q);
        if (c)
          tb_adds (&t, &c, 1);
      }
    free (txt);
    tb_flush (&t);
    /* with arguments and local variables: only WHICH lines are printed is canonical (values are not modelled) */
    txt = capture_dump_trace (DUMP_WITH_ARGS | DUMP_WITH_LOCALVARS, &ret);
    tb_add (&t, "dta ");
    if (!txt || !*txt)
      tb_add (&t, "-");
    for (char *q = txt, *ln = txt; q && *q; q++)
      if (*q == '\n')
        {
          int first = (ln == txt);
          char c = !strncmp (ln, "\t\targuments:", 12) ? 'A' : !strncmp (ln, "\t\tlocal variables:", 18) ? 'L' : 'F';
          if (c == 'F' && !first)
            tb_adds (&t, "|", 1);
          tb_adds (&t, &c, 1);
          ln = q + 1;
        }
    free (txt);
    {
      /* what the test for an innermost frame that is still being set up looks at: its counts and sp - fp */
      int na = -1, nl = -1;
      if (csp >= control_stack)	/* an error outside any frame (e.g. a program that does not load) has no innermost frame */
        frame_counts (csp, current_prog, &na, &nl);
      tb_add (&t, " inner=%d:%d:%ld", na, nl, c18_room ());
    }
    tb_flush (&t);
  }
  free (t.s);
}

/* ---- commands ---------------------------------------------------------------- */
static int hexval (int c)
{
  if (c >= '0' && c <= '9')
    return c - '0';
  if (c >= 'a' && c <= 'f')
    return c - 'a' + 10;
  if (c >= 'A' && c <= 'F')
    return c - 'A' + 10;
  return -1;
}

static void mkdirs (char *path)
{
  for (char *p = path + 1; *p; p++)
    if (*p == '/')
      {
        *p = 0;
        mkdir (path, 0755);
        *p = '/';
      }
}

static int cmd_file (char *line)
{
  /* file <path> tok... ; cwd is the mudlib directory */
  char *p = line + 5;
  char path[512];
  int n = 0;
  while (*p == ' ')
    p++;
  while (*p && *p != ' ' && n < (int) sizeof path - 2)
    path[n++] = *p++;
  path[n] = 0;
  char *rel = path;
  while (*rel == '/')
    rel++;
  if (strstr (rel, ".."))
    {
      vh_out ("badfile %s", path);
      return 1;
    }
  char tmp[512];
  snprintf (tmp, sizeof tmp, "%s", rel);
  mkdirs (tmp);
  FILE *f = fopen (rel, "w");
  if (!f)
    {
      vh_out ("badfile %s errno=%d", path, errno);
      return 1;
    }
  while (*p)
    {
      while (*p == ' ')
        p++;
      if (!*p)
        break;
      char k = *p++;
      if (k == 'h')
        {
          while (hexval (p[0]) >= 0 && hexval (p[1]) >= 0)
            {
              fputc (hexval (p[0]) * 16 + hexval (p[1]), f);
              p += 2;
            }
        }
      else
        {
          long cnt = strtol (p, &p, 10);
          for (long i = 0; i < cnt; i++)
            fputs (k == 'n' ? "\n" : k == 'c' ? "//\n" : "  x_ = x_ + 1;\n", f);
        }
      while (*p && *p != ' ')
        p++;
    }
  fclose (f);
  return 1;
}

static int c18_cmd (char *line)
{
  static int inited = 0;
  if (!inited)
    {
      inited = 1;
      /* every case starts from a clean tree: sources and saved binaries of earlier cases are removed
       * (cwd is the mudlib directory of this run; cases run one after the other) */
      if (system ("rm -rf c18/*/ bin/c18") != 0)
        vh_out ("cleanup failed");
      verif_line_hook = line_hook;
      verif_error_hook = error_hook;
    }
  if (!strncmp (line, "file ", 5))
    return cmd_file (line);
  if (!strncmp (line, "mode ", 5))
    return 1;			/* which driver configuration the case runs under: read by the plugin (props/c18.py run_impl) */
  if (!strncmp (line, "expect ", 7) || !strcmp (line, "expect") || !strncmp (line, "expectce ", 9))
    return 1;			/* generator's record: read by the specification oracle only */
  if (!strncmp (line, "dump ", 5))
    {
      object_t *ob = vh_obj (line + 5);
      if (!ob || (ob->flags & O_DESTRUCTED) || !ob->prog)
        vh_out ("dump %s !noobj", line + 5);
      else
        dump_prog_rec (ob->prog, 1, 0);
      return 1;
    }
  if (!strncmp (line, "tick ", 5))
    {
      /* advance the clock and let the driver run heart beats and call_outs (frames created by the driver itself) */
      error_context_t econ;
      c18_now += atol (line + 5);
      current_time = c18_now;
      save_context (&econ);
      if (!setjmp (econ.context))
        {
          eval_cost = CONFIG_INT (__MAX_EVAL_COST__);
          verif_tick ();
          pop_context (&econ);
        }
      else
        {
          restore_context (&econ);
          pop_context (&econ);
          vh_out ("r tick !err");
        }
      return 1;
    }
  if (!strncmp (line, "reset ", 6))
    {
      error_context_t econ;
      object_t *ob = vh_obj (line + 6);
      if (!ob || (ob->flags & O_DESTRUCTED))
        {
          vh_out ("r reset %s !noobj", line + 6);
          return 1;
        }
      save_context (&econ);
      if (!setjmp (econ.context))
        {
          eval_cost = CONFIG_INT (__MAX_EVAL_COST__);
          reset_object (ob);
          pop_context (&econ);
        }
      else
        {
          restore_context (&econ);
          pop_context (&econ);
          vh_out ("r reset %s !err", line + 6);
        }
      return 1;
    }
  if (!strncmp (line, "unload ", 7))
    {
      char cmd[200];
      snprintf (cmd, sizeof cmd, "destruct %s", line + 7);
      vh_generic (cmd);
      /* destructed objects keep their program until the end of the backend cycle */
      remove_destructed_objects ();
      return 1;
    }
  return 0;
}

int main (int argc, char **argv)
{
  return vh_main (argc, argv, c18_cmd);
}
