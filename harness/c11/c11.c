/* C11 harness: the real heart-beat machinery of src/backend.c driven tick by tick.
 *
 *   script o<k> <key> <ops>   store a heart_beat script in /c11/reg (read back by the LPC objects)
 *   do o<k> <op>              apply do_op(<op>) in o<k>            (top-level operation)
 *   tflags <n>                MAIN_OPTION (timer_flags) = n (bit TIMER_FLAG_HEARTBEAT decides whether a tick runs a round)
 *   tick                      one timer tick: the real call_heart_beat() through the hook verif_tick(),
 *                             wrapped in the same error recovery as backend() (save_context / setjmp /
 *                             restore_context), so an error in a heart_beat abandons the round as in the real loop
 *
 * time() is interposed: it returns a virtual clock (2 s per tick).  The only caller with a NULL argument that
 * LPC code can reach is the efun uptime(); the harness uses it to emulate the timer thread firing in the middle
 * of a round (heart_beat_flag = 1).  Only heart beats run in a tick (timer_flags = TIMER_FLAG_HEARTBEAT).
 */
#include "vh.h"
#include <time.h>
#include "src/main.h"
#include "lib/efuns/replace_program.h"

extern void verif_tick (void);
extern int heart_beat_flag;

static long c11_ticks = 0;
static int c11_ready = 0;

time_t time (time_t * t)
{
  time_t now = (time_t) (VH_T0 + 2 * c11_ticks);
  if (t)
    *t = now;
  else if (c11_ready)
    heart_beat_flag = 1;	/* uptime(): "the timer fired now" */
  return now;
}

static object_t *c11_vreg (void)
{
  return vh_obj ("reg");
}

static void c11_setup (void)
{
  char l0[] = "load o0 /c11/obj";
  char l1[] = "load o1 /c11/nohb";
  char l2[] = "load reg /c11/reg";
  MAIN_OPTION (timer_flags) = TIMER_FLAG_HEARTBEAT;
  vh_generic (l2);
  vh_generic (l0);
  vh_generic (l1);
  c11_ready = 1;
}

/* objects cloned by LPC code are only known to the LPC registry: look the oid up there.
 * returns the object, or 0 with *known telling whether the oid ever existed */
static object_t *c11_lookup (char *oid, int *known)
{
  error_context_t econ;
  object_t *volatile res = 0;
  object_t *reg = c11_vreg ();
  *known = 0;
  if (!reg)
    return 0;
  save_context (&econ);
  if (!setjmp (econ.context))
    {
      svalue_t *ret;
      char *fn = make_shared_string ("known");
      copy_and_push_string (oid);
      ret = apply (fn, reg, 1, ORIGIN_DRIVER);
      free_string (fn);
      if (ret && ret->type == T_NUMBER && ret->u.number)
        *known = 1;
      fn = make_shared_string ("get");
      copy_and_push_string (oid);
      ret = apply (fn, reg, 1, ORIGIN_DRIVER);
      free_string (fn);
      if (ret && ret->type == T_OBJECT && !(ret->u.ob->flags & O_DESTRUCTED))
        res = ret->u.ob;
      pop_context (&econ);
    }
  else
    {
      restore_context (&econ);
      pop_context (&econ);
    }
  return res;
}

static void c11_do (char *oid, char *op)
{
  int known = 0;
  object_t *ob = c11_lookup (oid, &known);
  char *a[1] = { op };
  if (!ob)
    {
      vh_out ("r %s do_op %s", oid, known ? "!destructed" : "!noobj");
      return;
    }
  if (vh_apply_str (ob, "do_op", 1, a, 0, 0) == 1)
    vh_out ("r %s do_op !err", oid);
}

/* harness-level id of an object (through the LPC registry) */
static const char *c11_oid_of (object_t * ob)
{
  static char buf[64];
  error_context_t econ;
  object_t *reg = c11_vreg ();
  snprintf (buf, sizeof buf, "?");
  if (!reg)
    return buf;
  save_context (&econ);
  if (!setjmp (econ.context))
    {
      svalue_t *ret;
      char *fn = make_shared_string ("oid_of");
      push_object (ob);
      ret = apply (fn, reg, 1, ORIGIN_DRIVER);
      free_string (fn);
      if (ret && ret->type == T_STRING)
        snprintf (buf, sizeof buf, "%s", ret->u.string);
      pop_context (&econ);
    }
  else
    {
      restore_context (&econ);
      pop_context (&econ);
    }
  return buf;
}

static void c11_tick (void)
{
  error_context_t econ;
  replace_ob_t *r;
  c11_ticks++;
  /* top of the backend() loop: remove_destructed_objects() swaps the programs queued by replace_program() */
  current_interactive = 0;
  eval_cost = CONFIG_INT (__MAX_EVAL_COST__);
  for (r = obj_list_replace; r; r = r->next)
    if (!(r->ob->flags & O_DESTRUCTED))
      vh_out ("rpdone %s", c11_oid_of (r->ob));
  remove_destructed_objects ();
  /* the harness echoes the configuration it set itself: without TIMER_FLAG_HEARTBEAT no round is expected */
  if (MAIN_OPTION (timer_flags) & TIMER_FLAG_HEARTBEAT)
    vh_out ("tickbegin");
  else
    vh_out ("tickbegin off");
  save_context (&econ);
  if (setjmp (econ.context))
    {
      restore_context (&econ);
      pop_context (&econ);
      vh_out ("tickabort");
      return;
    }
  verif_tick ();
  pop_context (&econ);
  vh_out ("tickend");
}

static int c11_cmd (char *line)
{
  if (!c11_ready)
    c11_setup ();
  if (!strcmp (line, "tick"))
    {
      c11_tick ();
      return 1;
    }
  if (!strncmp (line, "tflags ", 7))
    {
      int n = atoi (line + 7);
      if (n < 0 || n > 7)
        return 0;
      MAIN_OPTION (timer_flags) = n;
      vh_out ("tflags %d", n);
      return 1;
    }
  if (!strncmp (line, "script ", 7))
    {
      char copy[8192], *tok[8];
      snprintf (copy, sizeof copy, "%s", line);
      if (vh_split (copy, tok, 8) == 4)
        {
          object_t *reg = c11_vreg ();
          if (!reg || vh_apply_str (reg, "set_script", 3, tok + 1, 0, 0))
            vh_out ("badcmd %s", line);
        }
      else
        vh_out ("badcmd %s", line);
      return 1;
    }
  if (!strncmp (line, "do ", 3))
    {
      char copy[8192], *tok[8];
      snprintf (copy, sizeof copy, "%s", line);
      if (vh_split (copy, tok, 8) != 3)
        return 0;
      c11_do (tok[1], tok[2]);
      return 1;
    }
  return 0;
}

int main (int argc, char **argv)
{
  return vh_main (argc, argv, c11_cmd);
}
