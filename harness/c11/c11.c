/* C11 harness: the real heart-beat machinery of src/backend.c driven tick by tick.
 *
 *   script o<k> <key> <ops>   store a heart_beat script in /c11/reg (read back by the LPC objects)
 *   do o<k> <op>              apply do_op(<op>) in o<k>            (top-level operation)
 *   cotick o<k>:<ops> ...     schedule call_outs (delay 1) whose callbacks run <ops>, then one tick with TIMER_FLAG_CALLOUT
 *   tflags <n>                MAIN_OPTION (timer_flags) = n (bit TIMER_FLAG_HEARTBEAT decides whether a tick runs a round)
 *   tick                      one timer tick: the real call_heart_beat() through the hook verif_tick(),
 *                             wrapped in the same error recovery as backend() (save_context / setjmp /
 *                             restore_context), so an error in a heart_beat abandons the round as in the real loop
 *
 * time() is interposed: it returns a virtual clock (2 s per tick).  The only caller with a NULL argument that
 * LPC code can reach is the efun uptime(); the harness uses it to emulate the timer thread firing in the middle
 * of a round (heart_beat_flag = 1).  Only heart beats run in a tick (timer_flags = TIMER_FLAG_HEARTBEAT).
 */
#include "vh.h"
#include <time.h>
#include "src/main.h"
#include "lib/efuns/replace_program.h"

extern int heart_beat_flag;

extern object_t *verif_restrict_destruct (void);	/* existing accessor (NEOLITH_VERIF) */

/* between top-level operations restrict_destruct must be 0: it is set only while a move_or_destruct() apply runs and every
   way out (return, error) puts it back.  A left-over value makes later destructs fail: reported as an unexpected line. */
static void c11_check_restrict (void)
{
  if (verif_restrict_destruct ())
    vh_out ("restrict_destruct-left-set");
}

static long c11_ticks = 0;
static int c11_ready = 0;

time_t time (time_t * t)
{
  time_t now = (time_t) (VH_T0 + 2 * c11_ticks);
  if (t)
    *t = now;
  else if (c11_ready)
    heart_beat_flag = 1;	/* uptime(): "the timer fired now" */
  return now;
}

static object_t *c11_vreg (void)
{
  return vh_obj ("reg");
}

static void c11_setup (void)
{
  char l0[] = "load o0 /c11/obj";
  char l1[] = "load o1 /c11/nohb";
  char l2[] = "load reg /c11/reg";
  MAIN_OPTION (timer_flags) = TIMER_FLAG_HEARTBEAT;
  vh_generic (l2);
  vh_generic (l0);
  vh_generic (l1);
  c11_ready = 1;
}

/* objects cloned by LPC code are only known to the LPC registry: look the oid up there.
 * returns the object, or 0 with *known telling whether the oid ever existed */
static object_t *c11_lookup (char *oid, int *known)
{
  error_context_t econ;
  object_t *volatile res = 0;
  object_t *reg = c11_vreg ();
  *known = 0;
  if (!reg)
    return 0;
  save_context (&econ);
  if (!setjmp (econ.context))
    {
      svalue_t *ret;
      char *fn = make_shared_string ("known");
      copy_and_push_string (oid);
      ret = apply (fn, reg, 1, ORIGIN_DRIVER);
      free_string (fn);
      if (ret && ret->type == T_NUMBER && ret->u.number)
        *known = 1;
      fn = make_shared_string ("get");
      copy_and_push_string (oid);
      ret = apply (fn, reg, 1, ORIGIN_DRIVER);
      free_string (fn);
      if (ret && ret->type == T_OBJECT && !(ret->u.ob->flags & O_DESTRUCTED))
        res = ret->u.ob;
      pop_context (&econ);
    }
  else
    {
      restore_context (&econ);
      pop_context (&econ);
    }
  return res;
}

static void c11_do (char *oid, char *op)
{
  int known = 0;
  object_t *ob = c11_lookup (oid, &known);
  char *a[1] = { op };
  if (!ob)
    {
      vh_out ("r %s do_op %s", oid, known ? "!destructed" : "!noobj");
      return;
    }
  if (vh_apply_str (ob, "do_op", 1, a, 0, 0) == 1)
    vh_out ("r %s do_op !err", oid);
  c11_check_restrict ();
}

/* harness-level id of an object (through the LPC registry) */
static const char *c11_oid_of (object_t * ob)
{
  static char buf[64];
  error_context_t econ;
  object_t *reg = c11_vreg ();
  snprintf (buf, sizeof buf, "?");
  if (!reg)
    return buf;
  save_context (&econ);
  if (!setjmp (econ.context))
    {
      svalue_t *ret;
      char *fn = make_shared_string ("oid_of");
      push_object (ob);
      ret = apply (fn, reg, 1, ORIGIN_DRIVER);
      free_string (fn);
      if (ret && ret->type == T_STRING)
        snprintf (buf, sizeof buf, "%s", ret->u.string);
      pop_context (&econ);
    }
  else
    {
      restore_context (&econ);
      pop_context (&econ);
    }
  return buf;
}

/* ---- one `tick` = one pass of the REAL backend() loop -----------------------------------------------------------------
 * backend() is entered anew for every tick (its start-up code: clear_state(), save_context(), one call_heart_beat() with
 * timer_flags = 0 - no round, see lemma startup_call_absorbed), then the loop runs: eval_cost reset,
 * remove_destructed_objects() [wrapped at link level only to PRINT the pending program swaps], do_comm_polling() [wrapped:
 * the poll point; the first one of a tick delivers the timer tick exactly as heartbeat_timer_callback() does and installs
 * the configured timer_flags], `if (HEART_BEAT_FLAG()) call_heart_beat ()`, the cycle hook, which leaves the loop.
 * An uncaught error in a heart_beat longjmps to backend()'s own recovery point (restore_context) and the loop goes round
 * again: that second pass (no tick pending) ends at the hook.  Nothing of the recovery is reproduced by the harness. */
extern int (*verif_backend_cycle_hook) (void);
extern void backend (void);
void __real_remove_destructed_objects (void);

static int c11_tflags = TIMER_FLAG_HEARTBEAT;
static int c11_polls = 0, c11_rdo = 0, c11_in_tick = 0;

void __wrap_remove_destructed_objects (void)
{
  replace_ob_t *r;
  if (c11_in_tick)
    {
      if (++c11_rdo >= 2)
        vh_out ("tickabort");	/* the loop is at its top again without having reached the hook: the pass was left by an error */
      for (r = obj_list_replace; r; r = r->next)
        if (!(r->ob->flags & O_DESTRUCTED))
          vh_out ("rpdone %s", c11_oid_of (r->ob));
    }
  __real_remove_destructed_objects ();
}

#define C11_MAXPASS 5		/* further passes with a round inside one `tick` (mirrored by the model: morePasses) */
static int c11_round_in_pass = 0;
static int c11_tickend_printed = 0;	/* `tickend` already printed in front of the call_out dispatch */

int __wrap_do_comm_polling (struct timeval *timeout)
{
  (void) timeout;
  if (!c11_in_tick)
    return 0;
  c11_round_in_pass = 0;
  c11_tickend_printed = 0;
  if (++c11_polls == 1)
    {
      MAIN_OPTION (timer_flags) = c11_tflags;
      heart_beat_flag = 1;	/* the timer tick: what heartbeat_timer_callback() stores */
    }
  else if (heart_beat_flag && c11_polls >= C11_MAXPASS + 2)
    {
      /* the (emulated) timer fired during every abandoned round so far: the harness stops delivering ticks here */
      heart_beat_flag = 0;
      vh_out ("passlimit");
    }
  if (heart_beat_flag)
    {
      /* backend() is about to call call_heart_beat(); the harness echoes the configuration it set itself: without
         TIMER_FLAG_HEARTBEAT no round is expected */
      c11_round_in_pass = 1;
      if (c11_tflags & TIMER_FLAG_HEARTBEAT)
        vh_out ("tickbegin");
      else
        vh_out ("tickbegin off");
    }
  return 0;
}

/* call_heart_beat() -> call_out(): the round is over when the dispatch of the call_outs begins */
void __real_call_out (void);

void __wrap_call_out (void)
{
  if (c11_in_tick && c11_round_in_pass && !c11_tickend_printed)
    {
      vh_out ("tickend");
      c11_tickend_printed = 1;
    }
  __real_call_out ();
}

static int c11_hook (void)
{
  return 1;
}

static void c11_tick (void)
{
  c11_ticks++;
  c11_polls = c11_rdo = 0;
  external_port[0].port = 0;	/* no listening socket */
  MAIN_OPTION (console_mode) = 0;
  MAIN_OPTION (timer_flags) = 0;	/* no timer thread; the start-up call_heart_beat() runs no round */
  verif_backend_cycle_hook = c11_hook;
  c11_in_tick = 1;
  /* backend()'s start-up call_heart_beat() runs while timer_flags is still 0: a tick without round (echoed here, the
     model executes it: heart_beat_flag = 0, num_hb_to_do = num_hb_objs, current_heart_beat = 0) */
  vh_out ("tickbegin off");
  vh_out ("tickend");
  backend ();
  c11_in_tick = 0;
  verif_backend_cycle_hook = 0;
  MAIN_OPTION (timer_flags) = c11_tflags;
  if (c11_round_in_pass && !c11_tickend_printed)
    vh_out ("tickend");		/* the pass that reached the hook had called call_heart_beat() */
  /* command_giver after the pass (cleared after every heart_beat call, restored by restore_context after an error) */
  vh_out ("cg %s", command_giver ? c11_oid_of (command_giver) : "-");
  c11_check_restrict ();
}

static int c11_cmd (char *line)
{
  if (!c11_ready)
    c11_setup ();
  if (!strcmp (line, "tick"))
    {
      c11_tick ();
      return 1;
    }
  if (!strncmp (line, "cotick", 6) && (line[6] == 0 || line[6] == ' '))
    {
      /* cotick o<k>:<ops> ...  schedule call_out ("co", 1, <ops>) in the named objects (through their LPC function sched),
         then one tick with TIMER_FLAG_CALLOUT set for its duration: call_heart_beat() dispatches them after the round */
      char copy[8192], *tok[64];
      int n, saved = c11_tflags;
      snprintf (copy, sizeof copy, "%s", line);
      n = vh_split (copy, tok, 64);
      for (int i = 1; i < n; i++)
        {
          char *colon = strchr (tok[i], ':');
          int known = 0;
          object_t *ob;
          char *a[1];
          if (!colon)
            return 0;
          *colon = 0;
          ob = c11_lookup (tok[i], &known);
          a[0] = colon + 1;
          if (ob)
            vh_apply_str (ob, "sched", 1, a, 0, 0);
        }
      c11_tflags |= TIMER_FLAG_CALLOUT;
      c11_tick ();
      MAIN_OPTION (timer_flags) = c11_tflags = saved;
      return 1;
    }
  if (!strncmp (line, "tflags ", 7))
    {
      int n = atoi (line + 7);
      if (n < 0 || n > 7)
        return 0;
      MAIN_OPTION (timer_flags) = c11_tflags = n;
      vh_out ("tflags %d", n);
      return 1;
    }
  if (!strncmp (line, "script ", 7))
    {
      char copy[8192], *tok[8];
      snprintf (copy, sizeof copy, "%s", line);
      if (vh_split (copy, tok, 8) == 4)
        {
          object_t *reg = c11_vreg ();
          if (!reg || vh_apply_str (reg, "set_script", 3, tok + 1, 0, 0))
            vh_out ("badcmd %s", line);
        }
      else
        vh_out ("badcmd %s", line);
      return 1;
    }
  if (!strncmp (line, "do ", 3))
    {
      char copy[8192], *tok[8];
      snprintf (copy, sizeof copy, "%s", line);
      if (vh_split (copy, tok, 8) != 3)
        return 0;
      c11_do (tok[1], tok[2]);
      return 1;
    }
  return 0;
}

int main (int argc, char **argv)
{
  return vh_main (argc, argv, c11_cmd);
}
