/* C15 harness.
 *
 * unit style  (pure functions of the path filter, called directly; lex.c is #included so that the static
 *              inc_lexically_normal / inc_open are reachable):
 *   ulp  <alpha> <len> <from> <count>          legal_path on the strings no. from..from+count-1 of that length
 *   ucvp <policy> <alpha> <len> <from> <count> check_valid_path (real master apply; policy as below)
 *   usn  <alpha> <len> <from> <count>          strip_name
 *   uinc [base] <alpha> <len> <from> <count>   inc_lexically_normal + the paths inc_open tries to open
 *   ulp1 [s] | ucvp1 <policy> [s] | usn1 [s] | uinc1 [base] [name]      the same for one explicit string
 *   uil <alpha> <len> <from> <count> | uil1 [list]   set_inc_list (list): the stored search path ("-" = entry dropped)
 * system style (file efuns called from LPC, libc file functions interposed and logged):
 *   policy deny|allow|echo|fixed=[str]|raise|raiseon=[path]|odd=[array|emptyarray|float|float0|object|neg|two]
 *                                              master policy for valid_read / valid_write
 *   fx <efun> [a] [b]                          fresh fixture, then /c15/obj->do_efun (efun, a, b)
 *   es [file] c1,c2,...                       fresh fixture, editing session (see ed_session ())
 *   inc [basefile] [name]                      fresh fixture, basefile := `#include "name"`, load it
 *   inca / incm [basefile] [name]              the same with `#include <name>` / `#define VHDR "name"` + `#include VHDR`
 *   inh [basefile] [name]                      fresh fixture, basefile := `inherit "name";`, load it
 *   ld [name]                                  fresh fixture, load_object (name)
 *   ldb [name]                                 (after `binaries on`) #pragma save_binary source, loaded twice
 *
 * output lines:  lp [s] 0|1 / cvp <verdict> [s] -> [r]|none / sn [s] -> [r]|none /
 *                inc [base] [name] -> [normal] tries [t]... /
 *                call <efun> <who> [a]... / valid_read|valid_write [path] <who> <op> -> 0|1|=[str] (from the master) /
 *                fs <libc function> r|w [path]      (efuns get_dir1 / stat1 = get_dir (a, -1) / stat (a, -1);
 *                `fs stat-entry` = a stat () made while the directory stream of the efun is open, sorted)
 */
#include "vh.h"
#include <dlfcn.h>
#include <fcntl.h>
#include <errno.h>
#include <dirent.h>
#include <unistd.h>
#include <sys/stat.h>
#include <sys/types.h>

#include "lib/efuns/file_utils.h"
#include "lib/efuns/ed.h"
extern interactive_t *create_test_interactive (object_t * ob);

/* no symbolizer: it would open /proc/self/exe etc. through the interposed functions while a case is armed */
const char *__asan_default_options (void) { return "symbolize=0"; }
const char *__ubsan_default_options (void) { return "symbolize=0"; }

/* ---- libc interposition ---------------------------------------------------------------------- */
static int fs_armed = 0;	/* 1: log, 2: log and fail with ENOENT without touching anything, 3: log unsafe paths only */
#define MAXREC 64
static char fs_rec[MAXREC][1100];
static int fs_nrec = 0;
static int fs_recording = 0;	/* collect instead of printing (unit style inc_open) */

/* get_dir (path, -1): the stat () calls issued while the directory stream the efun opened is still open are
 * per-entry calls in readdir order (the kernel's): they are collected and printed SORTED as `fs stat-entry`
 * when the stream is closed (or the call ends) */
static char **root_keep;
static int root_nkeep;
static int dir_open = 0;
static char *ent_rec[1024];
static int ent_n = 0;

static int ent_cmp (const void *a, const void *b)
{
  return strcmp (*(char *const *) a, *(char *const *) b);
}

static void fs_log (const char *fn, int w, const char *path);
static void ent_flush (void)
{
  int n = ent_n;
  dir_open = 0;
  ent_n = 0;
  qsort (ent_rec, n, sizeof ent_rec[0], ent_cmp);
  for (int i = 0; i < n; i++)
    {
      /* the mudlib root also holds the framework's own files (other properties' directories, master.c ...): a
         per-entry call on one of those - "./<name>", <name> present before the first case and not part of the
         fixture - is not logged (the model only knows the fixture) */
      const char *nm = ent_rec[i];
      int skip = 0;
      if (nm[0] == '.' && nm[1] == '/' && !strchr (nm + 2, '/') && strcmp (nm + 2, "include")
	  && strcmp (nm + 2, ".") && strcmp (nm + 2, ".."))
	for (int k = 0; k < root_nkeep; k++)
	  if (!strcmp (root_keep[k], nm + 2))
	    skip = 1;
      if (!skip)
	fs_log ("stat-entry", 0, nm);
      free (ent_rec[i]);
    }
}

static int path_unsafe (const char *p)
{				/* absolute, or a ".." component */
  if (!p || p[0] == '/')
    return 1;
  for (const char *q = p; q; q = strchr (q, '/'), q = q ? q + 1 : 0)
    if (q[0] == '.' && q[1] == '.' && (q[2] == '/' || q[2] == 0))
      return 1;
  return 0;
}

static long fs_quiet_count = 0;

static void fs_log (const char *fn, int w, const char *path)
{
  if (!fs_armed)
    return;
  if (fs_armed == 3)
    {				/* saved-binary runs: only calls on unsafe paths are printed */
      fs_quiet_count++;
      if (!path_unsafe (path))
	return;
    }
  if (dir_open > 0 && !fs_recording && !strcmp (fn, "stat") && ent_n < 1024)
    {
      ent_rec[ent_n++] = strdup (path ? path : "(null)");
      return;
    }
  if (fs_recording)
    {
      if (fs_nrec < MAXREC)
	snprintf (fs_rec[fs_nrec++], sizeof fs_rec[0], "%s", path ? path : "(null)");
      return;
    }
  int save = fs_armed;
  fs_armed = 0;			/* vh_out itself must not be logged */
  vh_out ("fs %s %s [%s]", fn, w ? "w" : "r", path ? path : "(null)");
  fs_armed = save;
}

#define REAL(ret, name, proto) \
  static ret (*real_##name) proto = 0; \
  static void init_##name (void) { if (!real_##name) real_##name = (ret (*) proto) dlsym (RTLD_NEXT, #name); }

REAL (int, open, (const char *, int, ...))
REAL (int, open64, (const char *, int, ...))
REAL (int, openat, (int, const char *, int, ...))
REAL (int, creat, (const char *, mode_t))
REAL (FILE *, fopen, (const char *, const char *))
REAL (FILE *, fopen64, (const char *, const char *))
REAL (FILE *, freopen, (const char *, const char *, FILE *))
REAL (int, stat, (const char *, struct stat *))
REAL (int, lstat, (const char *, struct stat *))
REAL (int, stat64, (const char *, struct stat64 *))
REAL (int, lstat64, (const char *, struct stat64 *))
REAL (int, __xstat, (int, const char *, struct stat *))
REAL (int, __lxstat, (int, const char *, struct stat *))
REAL (int, unlink, (const char *))
REAL (int, remove, (const char *))
REAL (int, rename, (const char *, const char *))
REAL (int, mkdir, (const char *, mode_t))
REAL (int, rmdir, (const char *))
REAL (DIR *, opendir, (const char *))
REAL (int, closedir, (DIR *))
REAL (int, link, (const char *, const char *))
REAL (int, symlink, (const char *, const char *))
REAL (int, access, (const char *, int))
REAL (int, chmod, (const char *, mode_t))
REAL (int, truncate, (const char *, off_t))
REAL (int, chdir, (const char *))
REAL (ssize_t, readlink, (const char *, char *, size_t))

#define FAILMODE (fs_armed == 2)
/* safety net for runs against a broken (mutated) driver: a modifying call whose path is absolute or climbs
 * more than one level is logged but NOT performed (the run directory is the parent of the mudlib root) */
static int fs_refuse (const char *p)
{
  return fs_armed && p && (p[0] == '/' || strstr (p, "../..") != 0);
}
#define REFUSE(p, v) do { if (fs_refuse (p)) { errno = EACCES; return v; } } while (0)
#define ENOENT_RET(v) do { errno = ENOENT; return v; } while (0)

static int open_w (int flags)
{
  return (flags & (O_WRONLY | O_RDWR | O_CREAT | O_TRUNC | O_APPEND)) != 0;
}

int open (const char *path, int flags, ...)
{
  mode_t mode = 0;
  va_list ap;
  va_start (ap, flags);
  if (flags & (O_CREAT | O_TMPFILE))
    mode = va_arg (ap, mode_t);
  va_end (ap);
  init_open ();
  fs_log ("open", open_w (flags), path);
  if (FAILMODE)
    ENOENT_RET (-1);
  if (open_w (flags))
    REFUSE (path, -1);
  return real_open (path, flags, mode);
}

int open64 (const char *path, int flags, ...)
{
  mode_t mode = 0;
  va_list ap;
  va_start (ap, flags);
  if (flags & (O_CREAT | O_TMPFILE))
    mode = va_arg (ap, mode_t);
  va_end (ap);
  init_open64 ();
  fs_log ("open", open_w (flags), path);
  if (FAILMODE)
    ENOENT_RET (-1);
  if (open_w (flags))
    REFUSE (path, -1);
  return real_open64 (path, flags, mode);
}

int openat (int dirfd, const char *path, int flags, ...)
{
  mode_t mode = 0;
  va_list ap;
  va_start (ap, flags);
  if (flags & (O_CREAT | O_TMPFILE))
    mode = va_arg (ap, mode_t);
  va_end (ap);
  init_openat ();
  fs_log ("openat", open_w (flags), path);
  if (FAILMODE)
    ENOENT_RET (-1);
  if (open_w (flags))
    REFUSE (path, -1);
  return real_openat (dirfd, path, flags, mode);
}

int creat (const char *path, mode_t mode)
{
  init_creat ();
  fs_log ("creat", 1, path);
  if (FAILMODE)
    ENOENT_RET (-1);
  REFUSE (path, -1);
  return real_creat (path, mode);
}

static int fmode_w (const char *m)
{
  return m && (m[0] != 'r' || strchr (m, '+'));
}

FILE *fopen (const char *path, const char *mode)
{
  init_fopen ();
  fs_log ("fopen", fmode_w (mode), path);
  if (FAILMODE)
    ENOENT_RET (0);
  if (fmode_w (mode))
    REFUSE (path, 0);
  return real_fopen (path, mode);
}

FILE *fopen64 (const char *path, const char *mode)
{
  init_fopen64 ();
  fs_log ("fopen", fmode_w (mode), path);
  if (FAILMODE)
    ENOENT_RET (0);
  if (fmode_w (mode))
    REFUSE (path, 0);
  return real_fopen64 (path, mode);
}

FILE *freopen (const char *path, const char *mode, FILE * f)
{
  init_freopen ();
  if (path)
    fs_log ("freopen", fmode_w (mode), path);
  return real_freopen (path, mode, f);
}

int stat (const char *path, struct stat *st)
{
  init_stat ();
  fs_log ("stat", 0, path);
  if (FAILMODE)
    ENOENT_RET (-1);
  return real_stat (path, st);
}

int lstat (const char *path, struct stat *st)
{
  init_lstat ();
  fs_log ("lstat", 0, path);
  if (FAILMODE)
    ENOENT_RET (-1);
  return real_lstat (path, st);
}

int stat64 (const char *path, struct stat64 *st)
{
  init_stat64 ();
  fs_log ("stat", 0, path);
  if (FAILMODE)
    ENOENT_RET (-1);
  return real_stat64 (path, st);
}

int lstat64 (const char *path, struct stat64 *st)
{
  init_lstat64 ();
  fs_log ("lstat", 0, path);
  if (FAILMODE)
    ENOENT_RET (-1);
  return real_lstat64 (path, st);
}

int __xstat (int ver, const char *path, struct stat *st)
{
  init___xstat ();
  fs_log ("stat", 0, path);
  if (FAILMODE)
    ENOENT_RET (-1);
  return real___xstat (ver, path, st);
}

int __lxstat (int ver, const char *path, struct stat *st)
{
  init___lxstat ();
  fs_log ("lstat", 0, path);
  if (FAILMODE)
    ENOENT_RET (-1);
  return real___lxstat (ver, path, st);
}

int unlink (const char *path)
{
  init_unlink ();
  fs_log ("unlink", 1, path);
  if (FAILMODE)
    ENOENT_RET (-1);
  REFUSE (path, -1);
  return real_unlink (path);
}

int remove (const char *path)
{
  init_remove ();
  fs_log ("remove", 1, path);
  if (FAILMODE)
    ENOENT_RET (-1);
  REFUSE (path, -1);
  return real_remove (path);
}

int rename (const char *from, const char *to)
{
  init_rename ();
  fs_log ("rename", 1, from);
  fs_log ("rename-to", 1, to);
  if (FAILMODE)
    ENOENT_RET (-1);
  REFUSE (from, -1);
  REFUSE (to, -1);
  return real_rename (from, to);
}

int mkdir (const char *path, mode_t mode)
{
  init_mkdir ();
  fs_log ("mkdir", 1, path);
  if (FAILMODE)
    ENOENT_RET (-1);
  REFUSE (path, -1);
  return real_mkdir (path, mode);
}

int rmdir (const char *path)
{
  init_rmdir ();
  fs_log ("rmdir", 1, path);
  if (FAILMODE)
    ENOENT_RET (-1);
  REFUSE (path, -1);
  return real_rmdir (path);
}

DIR *opendir (const char *path)
{
  init_opendir ();
  fs_log ("opendir", 0, path);
  if (FAILMODE)
    ENOENT_RET (0);
  DIR *d = real_opendir (path);
  if (d && fs_armed && !fs_recording)
    dir_open++;
  return d;
}

int closedir (DIR * d)
{
  init_closedir ();
  if (fs_armed && dir_open > 0 && --dir_open == 0)
    ent_flush ();
  return real_closedir (d);
}

int link (const char *from, const char *to)
{
  init_link ();
  fs_log ("link", 1, from);
  fs_log ("link-to", 1, to);
  if (FAILMODE)
    ENOENT_RET (-1);
  REFUSE (from, -1);
  REFUSE (to, -1);
  return real_link (from, to);
}

int symlink (const char *from, const char *to)
{
  init_symlink ();
  fs_log ("symlink", 1, from);
  fs_log ("symlink-to", 1, to);
  if (FAILMODE)
    ENOENT_RET (-1);
  REFUSE (from, -1);
  REFUSE (to, -1);
  return real_symlink (from, to);
}

int access (const char *path, int mode)
{
  init_access ();
  fs_log ("access", 0, path);
  if (FAILMODE)
    ENOENT_RET (-1);
  return real_access (path, mode);
}

int chmod (const char *path, mode_t mode)
{
  init_chmod ();
  fs_log ("chmod", 1, path);
  if (FAILMODE)
    ENOENT_RET (-1);
  REFUSE (path, -1);
  return real_chmod (path, mode);
}

int truncate (const char *path, off_t len)
{
  init_truncate ();
  fs_log ("truncate", 1, path);
  if (FAILMODE)
    ENOENT_RET (-1);
  REFUSE (path, -1);
  return real_truncate (path, len);
}

int chdir (const char *path)
{
  init_chdir ();
  fs_log ("chdir", 1, path);
  return real_chdir (path);
}

ssize_t readlink (const char *path, char *buf, size_t n)
{
  init_readlink ();
  fs_log ("readlink", 0, path);
  if (FAILMODE)
    ENOENT_RET (-1);
  return real_readlink (path, buf, n);
}

/* ---- the real lexer, for its static include-path functions ------------------------------------ */
#include "lib/lpc/lex.c"

/* ---- helpers ----------------------------------------------------------------------------------- */
static char *unbr (char *tok)
{				/* "[text]" -> "text" (in place) */
  size_t n = strlen (tok);
  if (n >= 2 && tok[0] == '[' && tok[n - 1] == ']')
    {
      tok[n - 1] = 0;
      return tok + 1;
    }
  return tok;
}

static void nth_string (const char *alpha, int len, long idx, char *out)
{
  int k = (int) strlen (alpha);
  for (int i = len - 1; i >= 0; i--)
    {
      out[i] = alpha[idx % k];
      idx /= k;
    }
  out[len] = 0;
}

static object_t *the_obj (void)
{
  object_t *ob = vh_obj ("o1");
  if (!ob)
    {
      char line[] = "load o1 /c15/obj";
      vh_generic (line);
      ob = vh_obj ("o1");
    }
  return ob;
}

/* current policy as the harness knows it (to print the verdict of the unit-style cvp lines) */
static char pol_kind[16] = "allow";
static char pol_str[4200] = "";

static void set_policy (const char *tok, int quiet)
{
  char kind[16], *a[3], q[2];
  char tmp[4300];
  snprintf (tmp, sizeof tmp, "%s", tok);
  char *eq = strchr (tmp, '=');
  pol_str[0] = 0;
  if (eq)
    {
      *eq = 0;
      snprintf (pol_str, sizeof pol_str, "%s", unbr (eq + 1));
    }
  snprintf (kind, sizeof kind, "%s", tmp);
  snprintf (pol_kind, sizeof pol_kind, "%s", kind);
  q[0] = quiet ? '1' : '0';
  q[1] = 0;
  a[0] = kind;
  a[1] = pol_str;
  a[2] = q;
  vh_apply_str (master_ob, "set_policy", 3, a, 0, 0);
}

static void verdict_text (const char *s, char *out, size_t n)
{
  if (!strcmp (pol_kind, "deny"))
    snprintf (out, n, "0");
  else if (!strcmp (pol_kind, "allow"))
    snprintf (out, n, "1");
  else if (!strcmp (pol_kind, "echo"))
    snprintf (out, n, "=[%s]", s);
  else if (!strcmp (pol_kind, "ro") || !strcmp (pol_kind, "ropath"))
    snprintf (out, n, "1");	/* the unit-style call asks with writeflg = 0 */
  else if (!strcmp (pol_kind, "wo"))
    snprintf (out, n, "0");
  else if (!strcmp (pol_kind, "raise"))
    snprintf (out, n, "raise");
  else if (!strcmp (pol_kind, "raiseon"))
    snprintf (out, n, "%s", strcmp (s, pol_str) ? "1" : "raise");
  else if (!strcmp (pol_kind, "odd"))
    snprintf (out, n, "odd:%s", pol_str);
  else
    snprintf (out, n, "=[%s]", pol_str);
}

/* ---- unit style --------------------------------------------------------------------------------- */
static void u_lp (const char *s)
{
  vh_out ("lp [%s] %d", s, legal_path (s) ? 1 : 0);
}

static void u_cvp (const char *s)
{
  error_context_t econ;
  char v[4400];
  char *volatile r = 0;
  volatile int err = 0;
  object_t *ob = the_obj ();
  verdict_text (s, v, sizeof v);
  save_context (&econ);
  if (!setjmp (econ.context))
    {
      r = check_valid_path (s, ob, "unit", 0);
      pop_context (&econ);
    }
  else
    {
      restore_context (&econ);
      pop_context (&econ);
      err = 1;
    }
  if (err)
    vh_out ("cvp %s [%s] -> !err", v, s);
  else if (r)
    vh_out ("cvp %s [%s] -> [%s]", v, s, r);
  else
    vh_out ("cvp %s [%s] -> none", v, s);
}

static void u_sn (const char *s)
{
  char buf[PATH_MAX - 2];
  if (strip_name (s, buf, sizeof buf))
    vh_out ("sn [%s] -> [%s]", s, buf);
  else
    vh_out ("sn [%s] -> none", s);
}

static void u_inc (const char *base, const char *name)
{
  static char nbuf[4096], obuf[4096];
  char line[8000];
  size_t o;
  char *save_cf = current_file;
  inc_lexically_normal (base, name, nbuf);
  /* the real inc_open with every open() failing: the list of paths it tries */
  current_file = (char *) base;
  fs_nrec = 0;
  fs_recording = 1;
  fs_armed = 2;
  (void) inc_open (obuf, name);
  fs_armed = 0;
  fs_recording = 0;
  current_file = save_cf;
  o = snprintf (line, sizeof line, "inc [%s] [%s] -> [%s] tries", base, name, nbuf);
  for (int i = 0; i < fs_nrec && o < sizeof line - 1200; i++)
    o += snprintf (line + o, sizeof line - o, " [%s]", fs_rec[i]);
  vh_out ("%s", line);
}

/* set_inc_list (list): the entries it stores ("-" = dropped), then the previous search path is put back */
static void u_il (const char *list)
{
  char **old = inc_list;
  int oldn = inc_list_size;
  char line[8000];
  size_t o;
  inc_list = 0;
  inc_list_size = 0;
  set_inc_list (list);
  o = snprintf (line, sizeof line, "il [%s] ->", list);
  for (int i = 0; i < inc_list_size && o < sizeof line - 1200; i++)
    o += snprintf (line + o, sizeof line - o, inc_list[i] ? " [%s]" : " -", inc_list[i]);
  vh_out ("%s", line);
  if (inc_list)
    reset_inc_list ();
  inc_list = old;
  inc_list_size = oldn;
}

/* ---- fixture -------------------------------------------------------------------------------------
 * mudlib root:  a/ (dir)  a/a (file)  a/aa/ (dir)  a/a.c (LPC)  aa (file)  aa.c (LPC)  a.c (LPC)
 *               d/ (dir)  d/f.txt  d/obj.c (LPC)  d/sub/ (dir)  d/inc.h   include/a  include/std.h
 * parent of the mudlib root (must never be touched): outside.txt  x.c  a (file)
 */
/* root_keep / root_nkeep: declared above */

static void rm_rf (const char *path)
{
  struct stat st;
  init_lstat ();
  init_opendir ();
  init_unlink ();
  init_rmdir ();
  if (real_lstat (path, &st) == -1)
    return;
  if (S_ISDIR (st.st_mode))
    {
      DIR *d = real_opendir (path);
      struct dirent *de;
      if (d)
	{
	  while ((de = readdir (d)))
	    {
	      char sub[PATH_MAX];
	      if (!strcmp (de->d_name, ".") || !strcmp (de->d_name, ".."))
		continue;
	      snprintf (sub, sizeof sub, "%s/%s", path, de->d_name);
	      rm_rf (sub);
	    }
	  closedir (d);
	}
      real_rmdir (path);
    }
  else
    real_unlink (path);
}

static void put_file (const char *path, const char *text)
{
  init_open ();
  int fd = real_open (path, O_WRONLY | O_CREAT | O_TRUNC, 0644);
  if (fd >= 0)
    {
      if (write (fd, text, strlen (text)) < 0)
	perror ("put_file");
      close (fd);
    }
}

static void mk_dirs_for (const char *path)
{				/* create the directories leading to the file `path` */
  char tmp[PATH_MAX];
  init_mkdir ();
  snprintf (tmp, sizeof tmp, "%s", path);
  for (char *p = tmp + 1; *p; p++)
    if (*p == '/')
      {
	*p = 0;
	real_mkdir (tmp, 0755);
	*p = '/';
      }
}

static void snapshot_root (const char *dir)
{
  init_opendir ();
  DIR *d = real_opendir (dir);
  struct dirent *de;
  int cap = 64;
  root_keep = (char **) malloc (sizeof (char *) * cap);
  while (d && (de = readdir (d)))
    {
      if (root_nkeep == cap)
	root_keep = (char **) realloc (root_keep, sizeof (char *) * (cap *= 2));
      root_keep[root_nkeep++] = strdup (de->d_name);
    }
  if (d)
    closedir (d);
}

static void fixture (void)
{
  int save = fs_armed;
  fs_armed = 0;
  init_opendir ();
  init_mkdir ();
  /* remove everything at the root that was not there when the harness started */
  DIR *d = real_opendir (".");
  struct dirent *de;
  char *victims[256];
  int nv = 0;
  while (d && (de = readdir (d)))
    {
      int keep = 0;
      for (int i = 0; i < root_nkeep; i++)
	if (!strcmp (root_keep[i], de->d_name))
	  keep = 1;
      if (!keep && nv < 256)
	victims[nv++] = strdup (de->d_name);
    }
  if (d)
    closedir (d);
  for (int i = 0; i < nv; i++)
    {
      rm_rf (victims[i]);
      free (victims[i]);
    }
  real_mkdir ("a", 0755);
  put_file ("a/a", "// x\n");
  real_mkdir ("a/aa", 0755);
  put_file ("a/a.c", "void f () { }\n");
  put_file ("aa", "// x\n");
  put_file ("aa.c", "void f () { }\n");
  put_file ("a.c", "void f () { }\n");
  real_mkdir ("d", 0755);
  put_file ("d/f.txt", "// x\n");
  put_file ("d/obj.c", "void f () { }\n");
  real_mkdir ("d/sub", 0755);
  put_file ("d/inc.h", "// x\n");
  put_file ("include/a", "// x\n");
  put_file ("include/std.h", "// x\n");
  put_file ("../outside.txt", "// outside\n");
  put_file ("../x.c", "void f () { }\n");
  put_file ("../a", "// outside\n");
  fs_armed = save;
}

/* ---- system style -------------------------------------------------------------------------------- */
static void do_load (const char *file, int mode)
{
  error_context_t econ;
  object_t *volatile ob = 0;
  save_context (&econ);
  fs_armed = mode;
  if (!setjmp (econ.context))
    {
      eval_cost = CONFIG_INT (__MAX_EVAL_COST__);
      reset_load_object_limits ();
      ob = load_object (file, 0);
      pop_context (&econ);
    }
  else
    {
      restore_context (&econ);
      pop_context (&econ);
      ob = 0;
    }
  fs_armed = 0;
  if (ob && !(ob->flags & O_DESTRUCTED))
    {
      save_context (&econ);
      if (!setjmp (econ.context))
	{
	  destruct_object (ob);
	  pop_context (&econ);
	}
      else
	{
	  restore_context (&econ);
	  pop_context (&econ);
	}
    }
}

static void sys_load (const char *kind, const char *file, const char *a0, const char *a1)
{
  if (a1)
    vh_out ("call %s - [%s] [%s]", kind, a0, a1);
  else
    vh_out ("call %s - [%s]", kind, a0);
  do_load (file, 1);
}

static void ed_do (object_t * ob, const char *cmd0, const char *arg)
{
  error_context_t econ;
  char cmd[4300];
  if (!ob->interactive || !ob->interactive->ed_buffer)
    return;
  snprintf (cmd, sizeof cmd, "%s%s", cmd0, arg);	/* ed_cmd () appends to its argument */
  save_context (&econ);
  if (!setjmp (econ.context))
    {
      command_giver = ob;
      ed_cmd (cmd);
      pop_context (&econ);
    }
  else
    {
      restore_context (&econ);
      pop_context (&econ);
    }
}

/* an editing session: ed (file) and then the commands c1,c2,... (a:<text> | e[:name] | E[:name] | f[:name] |
 * r[:name] | w[:name] | W[:name] | x | q | Q | D:name = net-dead, the master names the save file); every command that is executed is announced as
 * `call ed <who> [<command>] [<argument>]`; a silent "Q" ends whatever is left of the session */
static void ed_session (object_t * ob, const char *file, char *cmds)
{
  char *a[3];
  char *save, *c;
  if (!ob->interactive)
    create_test_interactive (ob);
#ifdef O_IS_WIZARD
  ob->flags |= O_IS_WIZARD;	/* unrestricted ed: file names are allowed in commands */
#endif
  fs_armed = 1;
  if (!ob->interactive->ed_buffer)
    {
      vh_out ("call ed /c15/obj [ed] [%s]", file);
      a[0] = (char *) "ed";
      a[1] = (char *) file;
      a[2] = (char *) "";
      command_giver = ob;
      vh_apply_str (ob, "do_efun", 3, a, 0, 0);
    }
  for (c = strtok_r (cmds, ",", &save); c; c = strtok_r (0, ",", &save))
    {
      char *arg = strchr (c, ':');
      if (arg)
	*arg++ = 0;
      else
	arg = (char *) "";
      if (!ob->interactive || !ob->interactive->ed_buffer)
	break;
      vh_out ("call ed /c15/obj [%s] [%s]", c, arg);
      if (!strcmp (c, "D"))
	{
	  /* the editing user goes net-dead: save_ed_buffer () writes the buffer where the master's
	     get_ed_buffer_save_file_name () says (here: <arg>) and the session is over */
	  error_context_t econ;
	  char *a1[1];
	  a1[0] = arg;
	  vh_apply_str (master_ob, "set_dead_name", 1, a1, 0, 0);
	  save_context (&econ);
	  if (!setjmp (econ.context))
	    {
	      command_giver = ob;
	      save_ed_buffer (ob);
	      pop_context (&econ);
	    }
	  else
	    {
	      restore_context (&econ);
	      pop_context (&econ);
	    }
	}
      else if (!strcmp (c, "a"))
	{
	  ed_do (ob, "a", "");
	  ed_do (ob, "", arg);
	  ed_do (ob, ".", "");
	}
      else if (arg[0])
	{
	  char pre[8];
	  snprintf (pre, sizeof pre, "%s ", c);
	  ed_do (ob, pre, arg);
	}
      else
	ed_do (ob, c, "");
    }
  ed_do (ob, "Q", "");
  fs_armed = 0;
  command_giver = 0;
}

static int c15_cmd (char *line)
{
  char copy[8192];
  char *tok[16];
  static char sbuf[4200];
  if (!strcmp (line, "master absent"))
    {
      /* this case must run with the master that has no valid_read / valid_write (props/c15.py picks the conf) */
      int has = function_exists ("valid_read", master_ob, 0) != 0;
      vh_out (has ? "master present" : "master absent");
      return 1;
    }
  if (!strcmp (line, "binaries on"))
    {
      /* this case must run with SaveBinaryDir configured (props/c15.py picks the conf) */
      vh_out (CONFIG_STR (__SAVE_BINARIES_DIR__) ? "binaries on" : "binaries off");
      return 1;
    }
  if (!strncmp (line, "ldb ", 4))
    {
      /* ldb [name]: fresh fixture, <strip_name (name)>.c := `#pragma save_binary` source (when that is a safe path),
         load it (the binary is saved), destruct, load it again (the binary is loaded).  Only libc calls on UNSAFE
         paths are printed (binaries.c belongs to another property: its exact call sequence is not pinned here),
         then whether SaveBinaryDir/<name>.b exists. */
      char nbuf[PATH_MAX - 2], src[PATH_MAX + 8], bin[PATH_MAX + 64];
      struct stat st;
      char *name;
      int saved = 0;
      snprintf (copy, sizeof copy, "%s", line + 4);
      name = unbr (copy);
      fixture ();
      rm_rf ("bin");
      nbuf[0] = 0;
      if (strip_name (name, nbuf, sizeof nbuf))
	{
	  snprintf (src, sizeof src, "%s.c", nbuf);
	  if (!path_unsafe (src))
	    {
	      mk_dirs_for (src);
	      put_file (src, "#pragma save_binary\nvoid g () { }\n");
	    }
	}
      vh_out ("call binary - [%s]", name);
      fs_quiet_count = 0;
      do_load (name, 3);
      do_load (name, 3);
      init_stat ();
      snprintf (bin, sizeof bin, "bin/%s.b", nbuf);
      if (nbuf[0] && real_stat (bin, &st) == 0)
	saved = 1;
      vh_out ("binary [%s] saved=%d", name, saved);
      if (saved && fs_quiet_count == 0)
	vh_out ("binary !no-libc-call-observed");
      return 1;
    }
  if (strncmp (line, "u", 1) && strncmp (line, "policy ", 7) && strncmp (line, "fx ", 3)
      && strncmp (line, "inc ", 4) && strncmp (line, "inca ", 5) && strncmp (line, "incm ", 5)
      && strncmp (line, "inh ", 4) && strncmp (line, "ld ", 3)
      && strncmp (line, "es ", 3))
    return 0;
  snprintf (copy, sizeof copy, "%s", line);
  int n = vh_split (copy, tok, 16);
  if (n < 2)
    return 0;

  if (!strcmp (tok[0], "policy") && n == 2)
    {
      set_policy (tok[1], 0);
      return 1;
    }
  if (!strcmp (tok[0], "ulp1") && n == 2)
    {
      u_lp (unbr (tok[1]));
      return 1;
    }
  if (!strcmp (tok[0], "usn1") && n == 2)
    {
      u_sn (unbr (tok[1]));
      return 1;
    }
  if (!strcmp (tok[0], "ucvp1") && n == 3)
    {
      set_policy (tok[1], 1);
      u_cvp (unbr (tok[2]));
      return 1;
    }
  if (!strcmp (tok[0], "uil1") && n == 2)
    {
      u_il (unbr (tok[1]));
      return 1;
    }
  if (!strcmp (tok[0], "uil") && n == 5)
    {
      int len = atoi (tok[2]);
      long from = atol (tok[3]), cnt = atol (tok[4]);
      if (len < 0 || len > 4000)
	return 0;
      for (long i = from; i < from + cnt; i++)
	{
	  nth_string (tok[1], len, i, sbuf);
	  u_il (sbuf);
	}
      return 1;
    }
  if (!strcmp (tok[0], "uinc1") && n == 3)
    {
      u_inc (unbr (tok[1]), unbr (tok[2]));
      return 1;
    }
  if ((!strcmp (tok[0], "ulp") || !strcmp (tok[0], "usn")) && n == 5)
    {
      int len = atoi (tok[2]);
      long from = atol (tok[3]), cnt = atol (tok[4]);
      if (len < 0 || len > 4000)
	return 0;
      for (long i = from; i < from + cnt; i++)
	{
	  nth_string (tok[1], len, i, sbuf);
	  if (tok[0][1] == 'l')
	    u_lp (sbuf);
	  else
	    u_sn (sbuf);
	}
      return 1;
    }
  if ((!strcmp (tok[0], "ucvp") || !strcmp (tok[0], "uinc")) && n == 6)
    {
      int len = atoi (tok[3]);
      long from = atol (tok[4]), cnt = atol (tok[5]);
      char *base = 0;
      if (len < 0 || len > 4000)
	return 0;
      if (tok[0][1] == 'c')
	set_policy (tok[1], 1);
      else
	base = unbr (tok[1]);
      for (long i = from; i < from + cnt; i++)
	{
	  nth_string (tok[2], len, i, sbuf);
	  if (base)
	    u_inc (base, sbuf);
	  else
	    u_cvp (sbuf);
	}
      return 1;
    }
  if (!strcmp (tok[0], "es") && (n == 2 || n == 3))
    {
      object_t *ob = the_obj ();
      char none[1] = "";
      if (!ob)
	return 1;
      fixture ();
      ed_session (ob, unbr (tok[1]), n == 3 ? tok[2] : none);
      return 1;
    }
  if (!strcmp (tok[0], "fx") && n >= 3 && n <= 4)
    {
      char *a[3];
      object_t *ob = the_obj ();
      if (!ob)
	{
	  vh_out ("r fx !noobj");
	  return 1;
	}
      a[0] = tok[1];
      a[1] = unbr (tok[2]);
      a[2] = n == 4 ? unbr (tok[3]) : (char *) "";
      fixture ();
      if (!strcmp (a[0], "ed"))
	;			/* ed_session () announces every command itself */
      else if (n == 4)
	vh_out ("call %s /c15/obj [%s] [%s]", a[0], a[1], a[2]);
      else
	vh_out ("call %s /c15/obj [%s]", a[0], a[1]);
      if (!strcmp (a[0], "ed"))
	{
	  /* ed (a) by an interactive user, then the editor command "w b" when b is given (and a silent "Q") */
	  char cmds[4300];
	  if (a[2][0])
	    snprintf (cmds, sizeof cmds, "w:%s", a[2]);
	  else
	    cmds[0] = 0;
	  ed_session (ob, a[1], cmds);
	  return 1;
	}
      fs_armed = 1;
      vh_apply_str (ob, "do_efun", 3, a, 0, 0);
      if (ent_n || dir_open)
	ent_flush ();
      fs_armed = 0;
      return 1;
    }
  if ((!strcmp (tok[0], "inc") || !strcmp (tok[0], "inca") || !strcmp (tok[0], "incm") || !strcmp (tok[0], "inh")) && n == 3)
    {
      char text[4096];
      char *base = unbr (tok[1]), *name = unbr (tok[2]);
      fixture ();
      int save = fs_armed;
      fs_armed = 0;
      mk_dirs_for (base);
      if (!strcmp (tok[0], "inca"))	/* #include <name> */
	snprintf (text, sizeof text, "#include <%s>\nvoid g () { }\n", name);
      else if (!strcmp (tok[0], "incm"))	/* #include MACRO */
	snprintf (text, sizeof text, "#define VHDR \"%s\"\n#include VHDR\nvoid g () { }\n", name);
      else if (tok[0][2] == 'c')
	snprintf (text, sizeof text, "#include \"%s\"\nvoid g () { }\n", name);
      else
	snprintf (text, sizeof text, "inherit \"%s\";\nvoid g () { }\n", name);
      put_file (base, text);
      fs_armed = save;
      sys_load (tok[0][2] == 'c' ? "include" : "inherit", base, base, name);
      return 1;
    }
  if (!strcmp (tok[0], "ld") && n == 2)
    {
      char *name = unbr (tok[1]);
      fixture ();
      sys_load ("load", name, name, 0);
      return 1;
    }
  return 0;
}

int main (int argc, char **argv)
{
  /* remember what the mudlib root contains before any case ran (everything else is removed by fixture ()) */
  for (int i = 1; i + 1 < argc; i++)
    if (!strcmp (argv[i], "--conf"))
      {
	init_fopen ();
	FILE *f = real_fopen (argv[i + 1], "r");
	char l[PATH_MAX + 64], dir[PATH_MAX];
	while (f && fgets (l, sizeof l, f))
	  if (sscanf (l, "MudlibDir %s", dir) == 1)
	    snapshot_root (dir);
	if (f)
	  fclose (f);
      }
  if (!root_keep)
    {
      fprintf (stderr, "c15: cannot list the mudlib directory\n");
      return 2;
    }
  return vh_main (argc, argv, c15_cmd);
}
