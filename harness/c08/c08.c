/* C08 harness (system style): the scripted LPC objects of harness/mudlib/c08 perform load / clone / move_object /
 * destruct / enable_commands / set_living_name from the top level and from their create / init / move_or_destruct
 * hooks.  After EVERY top-level step the walker below traverses the REAL structures - the object hash table chains
 * (static in lib/lpc/otable.c, hence the #include), obj_list, obj_list_destruct, every object's super / contains /
 * next_inv links, the living hash - and reports every inconsistency as a `W ...` line; `snap` prints them as a
 * canonical snapshot, `probe` logs the LPC-visible view (master->probe()).
 *
 *   script o<k> <hook> <ops>     master->add_script("o<k>:<hook>", ops)
 *   t <op>                       master->top(op) inside an error context
 *   snap | probe | gc            gc = remove_destructed_objects()
 */
#include "lib/lpc/otable.c"
#include "vh.h"
#include <time.h>
#include "src/main.h"

extern void verif_tick (void);

/* call_heart_beat() reads the clock: keep the virtual epoch (the harness never moves current_time) */
time_t time (time_t * t)
{
  if (t)
    *t = (time_t) VH_T0;
  return (time_t) VH_T0;
}

extern object_t *obj_list, *obj_list_destruct;
extern object_t **hashed_living;
extern object_t *simul_efun_ob;
int whashstr (const char *, int);

#define MAXID 4096
static object_t *tab[MAXID];
static int ntab = 2;

static svalue_t *c08_apply (const char *fn, int nargs, char **args, int *err)
{
  error_context_t econ;
  svalue_t *volatile ret = 0;
  char *shared = make_shared_string (fn);
  *err = 0;
  save_context (&econ);
  if (!setjmp (econ.context))
    {
      for (int i = 0; i < nargs; i++)
        copy_and_push_string (args[i]);
      eval_cost = CONFIG_INT (__MAX_EVAL_COST__);
      ret = apply (shared, master_ob, nargs, ORIGIN_DRIVER);
      pop_context (&econ);
    }
  else
    {
      restore_context (&econ);
      pop_context (&econ);
      *err = 1;
      ret = 0;
    }
  free_string (shared);
  return ret;
}

/* refresh tab[] from the master's registry (the mapping nodes are read directly: no LPC fetch, no scrubbing) */
static void load_tab (void)
{
  int err;
  svalue_t *r = c08_apply ("tab", 0, 0, &err);
  tab[0] = simul_efun_ob;
  tab[1] = master_ob;
  if (!r || r->type != T_MAPPING)
    {
      vh_out ("W no-registry");
      return;
    }
  mapping_t *m = r->u.map;
  for (int i = 0; i <= (int) m->table_size; i++)
    for (mapping_node_t * n = m->table[i]; n; n = n->next)
      {
        if (n->values[0].type != T_STRING || n->values[1].type != T_OBJECT)
          continue;
        int id = atoi (n->values[0].u.string + 1);
        if (id < 2 || id >= MAXID)
          continue;
        if (!tab[id])
          add_ref (n->values[1].u.ob, "c08 tab");	/* keep the structure readable after destruct2 */
        tab[id] = n->values[1].u.ob;
        if (id >= ntab)
          ntab = id + 1;
      }
}

static int id_of (object_t * ob)
{
  for (int i = 0; i < ntab; i++)
    if (tab[i] == ob)
      return i;
  return -1;
}

static const char *oidstr (object_t * ob, char *buf)
{
  int id;
  if (!ob)
    return "0";
  id = id_of (ob);
  if (id >= 0)
    sprintf (buf, "o%d", id);
  else
    snprintf (buf, 200, "?%s", ob->name ? ob->name : "");
  return buf;
}

#define LIMIT 200000

static void join (char *out, size_t n, object_t * first, int which)
{
  /* which: 0 next_inv, 1 next_hash, 2 next_all, 3 next_hashed_living */
  size_t len = 0;
  int cnt = 0;
  char b[256];
  out[0] = 0;
  for (object_t * o = first; o; cnt++)
    {
      if (cnt > 2 * ntab + 8)
        {			/* longer than every object twice: a cycle */
          if (len + 5 < n)
            strcpy (out + len, ",...");
          break;
        }
      const char *s = oidstr (o, b);
      size_t l = strlen (s);
      if (len + l + 2 >= n)
        break;
      if (cnt)
        out[len++] = ',';
      memcpy (out + len, s, l);
      len += l;
      out[len] = 0;
      o = which == 0 ? o->next_inv : which == 1 ? o->next_hash : which == 2 ? o->next_all : o->next_hashed_living;
    }
}

static int lhash (const char *s)
{
  return whashstr (s, 20) % CONFIG_INT (__LIVING_HASH_TABLE_SIZE__);
}

/* the walker: structural consistency of the real registries; prints only violations */
static void walk_check (void)
{
  char b[256], b2[256];
  int n_ot = 0, n_ol = 0, cnt;
  load_tab ();
  for (int h = 0; h < otable_size; h++)
    {
      cnt = 0;
      for (object_t * o = obj_table[h]; o; o = o->next_hash)
        {
          if (++cnt > LIMIT)
            {
              vh_out ("W ot-cycle bucket=%d", h);
              break;
            }
          n_ot++;
          if (o->flags & O_DESTRUCTED)
            vh_out ("W ot-destructed %s", oidstr (o, b));
          if ((ObjHash (o->name)) != h)
            vh_out ("W ot-wrong-bucket %s", oidstr (o, b));
          if (id_of (o) < 0)
            vh_out ("W ot-unknown %s", oidstr (o, b));
          for (object_t * q = o->next_hash; q; q = q->next_hash)
            if (!strcmp (q->name, o->name))
              {
                vh_out ("W ot-dup-name %s %s", oidstr (o, b), oidstr (q, b2));
                break;
              }
        }
    }
  cnt = 0;
  for (object_t * o = obj_list; o; o = o->next_all)
    {
      if (++cnt > LIMIT)
        {
          vh_out ("W ol-cycle");
          break;
        }
      n_ol++;
      if (o->flags & O_DESTRUCTED)
        vh_out ("W ol-destructed %s", oidstr (o, b));
      if (id_of (o) < 0)
        vh_out ("W ol-unknown %s", oidstr (o, b));
      int found = 0;
      for (object_t * q = obj_table[ObjHash (o->name)]; q; q = q->next_hash)
        if (q == o)
          found++;
      if (found != 1)
        vh_out ("W live-object-not-in-name-table %s times=%d", oidstr (o, b), found);
    }
  if (n_ot != n_ol)
    vh_out ("W ot-ol-count ot=%d ol=%d", n_ot, n_ol);
  if (n_ot != objs_in_table)
    vh_out ("W objs_in_table counter=%d chains=%d", objs_in_table, n_ot);
  cnt = 0;
  for (object_t * o = obj_list_destruct; o; o = o->next_all)
    {
      if (++cnt > LIMIT)
        {
          vh_out ("W dl-cycle");
          break;
        }
      if (!(o->flags & O_DESTRUCTED))
        vh_out ("W dl-live %s", oidstr (o, b));
    }
  for (int i = 0; i < ntab; i++)
    {
      object_t *o = tab[i];
      if (!o)
        continue;
      if (o->flags & O_DESTRUCTED)
        {
          if (o->super || o->contains || o->next_inv)
            vh_out ("W destructed-linked o%d", i);
          if (o->flags & O_ENABLE_COMMANDS)
            vh_out ("W destructed-enabled o%d", i);
          if (o->living_name)
            vh_out ("W destructed-living o%d", i);
          if (o->sent)
            vh_out ("W destructed-has-sentences o%d", i);
          continue;
        }
      int inl = 0;
      for (object_t * q = obj_list; q && inl < LIMIT; q = q->next_all)
        if (q == o)
          {
            inl = -1;
            break;
          }
        else
          inl++;
      if (inl != -1)
        vh_out ("W live-not-in-obj_list o%d", i);
      if (o->super)
        {
          int times = 0;
          cnt = 0;
          if (o->super->flags & O_DESTRUCTED)
            vh_out ("W env-destructed o%d", i);
          for (object_t * q = o->super->contains; q && cnt < LIMIT; q = q->next_inv, cnt++)
            if (q == o)
              times++;
          if (times != 1)
            vh_out ("W not-in-inventory-of-its-environment o%d times=%d", i, times);
        }
      else if (o->next_inv)
        vh_out ("W next_inv-without-env o%d", i);
      cnt = 0;
      for (object_t * q = o->contains; q; q = q->next_inv)
        {
          if (++cnt > LIMIT)
            {
              vh_out ("W inventory-cycle o%d", i);
              break;
            }
          if (q->super != o)
            vh_out ("W inventory-member-has-other-environment o%d member=%s", i, oidstr (q, b));
          if (q->flags & O_DESTRUCTED)
            vh_out ("W inventory-has-destructed o%d member=%s", i, oidstr (q, b));
        }
      cnt = 0;
      for (object_t * q = o->super; q; q = q->super)
        if (++cnt > ntab + 2)
          {
            vh_out ("W environment-cycle o%d", i);
            break;
          }
      if (o->living_name)
        {
          int times = 0;
          for (object_t * q = hashed_living[lhash (o->living_name)]; q; q = q->next_hashed_living)
            if (q == o)
              times++;
          if (times != 1)
            vh_out ("W living-not-in-hash o%d times=%d", i, times);
        }
    }
  for (int h = 0; h < CONFIG_INT (__LIVING_HASH_TABLE_SIZE__); h++)
    {
      cnt = 0;
      for (object_t * o = hashed_living[h]; o; o = o->next_hashed_living)
        {
          if (++cnt > LIMIT)
            {
              vh_out ("W lv-cycle bucket=%d", h);
              break;
            }
          if (o->flags & O_DESTRUCTED)
            vh_out ("W lv-destructed %s", oidstr (o, b));
          if (!o->living_name || lhash (o->living_name) != h)
            vh_out ("W lv-wrong-bucket %s", oidstr (o, b));
        }
    }
}

static char big[1 << 20];

static void snap (void)
{
  char b[256];
  load_tab ();
  for (int i = 0; i < ntab; i++)
    {
      object_t *o = tab[i];
      if (!o)
        {
          vh_out ("S o%d missing", i);
          continue;
        }
      if (o->flags & O_DESTRUCTED)
        {
          vh_out ("S o%d D%s%s%s%s%s", i, o->super ? " super" : "", (o->contains || o->next_inv) ? " contains" : "",
                  (o->flags & O_ENABLE_COMMANDS) ? " ec" : "", o->living_name ? " living" : "", o->sent ? " sent" : "");
          continue;
        }
      join (big, sizeof big, o->contains, 0);
      {
        /* the sentence list: verb:owner;... */
        static char sb[1 << 16];
        size_t len = 0;
        int cnt = 0;
        sb[0] = 0;
        for (sentence_t * st = o->sent; st && cnt < 2000; st = st->next, cnt++)
          {
            char b2[256];
            len += snprintf (sb + len, sizeof sb - len - 1, "%s%s:%s", cnt ? ";" : "", st->verb ? st->verb : "?",
                             oidstr (st->ob, b2));
            if (len > sizeof sb - 400)
              break;
          }
        if (!cnt)
          strcpy (sb, "-");
        vh_out ("S o%d %s env=%s inv=%s ec=%d cl=%d ln=%s sent=%s", i, o->name, oidstr (o->super, b), big,
                (o->flags & O_ENABLE_COMMANDS) ? 1 : 0, (o->flags & O_CLONE) ? 1 : 0,
                o->living_name ? o->living_name : "0", sb);
      }
    }
  for (int h = 0; h < otable_size; h++)
    if (obj_table[h])
      {
        join (big, sizeof big, obj_table[h], 1);
        vh_out ("S ot %d %s", h, big);
      }
  join (big, sizeof big, obj_list, 2);
  vh_out ("S ol %s", big);
  join (big, sizeof big, obj_list_destruct, 2);
  vh_out ("S dl %s", big);
  for (int h = 0; h < CONFIG_INT (__LIVING_HASH_TABLE_SIZE__); h++)
    if (hashed_living[h])
      {
        join (big, sizeof big, hashed_living[h], 3);
        vh_out ("S lv %d %s", h, big);
      }
}

static int c08_cmd (char *line)
{
  char copy[8192];
  char *tok[8];
  int err;
  snprintf (copy, sizeof copy, "%s", line);
  int n = vh_split (copy, tok, 8);
  if (n == 4 && !strcmp (tok[0], "script"))
    {
      char key[128];
      char *a[2];
      snprintf (key, sizeof key, "%s:%s", tok[1], tok[2]);
      a[0] = key;
      a[1] = tok[3];
      c08_apply ("add_script", 2, a, &err);
      return 1;
    }
  if (n == 2 && !strcmp (tok[0], "t"))
    {
      char *a[1] = { tok[1] };
      if (!master_ob || (master_ob->flags & O_DESTRUCTED))
        {			/* (destruct_object reloads a destructed master: not reachable) */
          vh_out ("r top !nomaster");
          return 1;
        }
      c08_apply ("top", 1, a, &err);
      if (err)
        vh_out ("r top !err");
      walk_check ();
      return 1;
    }
  if (n == 1 && !strcmp (tok[0], "tick"))
    {
      /* one timer tick: the real call_heart_beat() (heart beats only), with backend()'s error recovery */
      error_context_t econ;
      MAIN_OPTION (timer_flags) = TIMER_FLAG_HEARTBEAT;
      save_context (&econ);
      if (!setjmp (econ.context))
        {
          verif_tick ();
          pop_context (&econ);
        }
      else
        {
          restore_context (&econ);
          pop_context (&econ);
          vh_out ("r tick !err");
        }
      walk_check ();
      return 1;
    }
  if (n == 1 && !strcmp (tok[0], "snap"))
    {
      snap ();
      return 1;
    }
  if (n == 1 && !strcmp (tok[0], "probe"))
    {
      c08_apply ("probe", 0, 0, &err);
      if (err)
        vh_out ("r probe !err");
      walk_check ();
      return 1;
    }
  if (n == 1 && !strcmp (tok[0], "gc"))
    {
      command_giver = 0;	/* as backend()'s clear_state() does before remove_destructed_objects() */
      remove_destructed_objects ();
      walk_check ();
      return 1;
    }
  return 0;
}

int main (int argc, char **argv)
{
  return vh_main (argc, argv, c08_cmd);
}
