/* C09 harness (system style, hook H1): runs the REAL backend() of src/backend.c in the forked case child.
 *
 * The outside world is scripted, one `step` line per backend cycle:
 *   - `epoll_wait` is wrapped (-Wl,--wrap): every call is the poll point of one backend cycle; the wrapper prints
 *     the cycle marker, performs the external events of the next step (loopback TCP clients connect / send /
 *     close, console input through a pipe on stdin, timer tick exactly as heartbeat_timer_callback() does it:
 *     heart_beat_flag = 1 + async_runtime_wakeup) and then calls the real epoll_wait;
 *   - `time` is wrapped: virtual clock, advanced by `tick:<dt>`;
 *   - `platform_timer_start` is wrapped: the real 2 s timer thread is never started (deterministic ticks);
 *   - verif_backend_cycle_hook (H1) leaves the loop when the script is exhausted.
 *
 * case lines:   preload ok,err,..|epilog-err (preload_objects() with scripted master epilog()/preload())
 *               mode net|console        meh ok|raise|recurse        script <oid> <kind> <ops>
 *               clone <oid> /c09/obj    vapply <oid> do_ops <ops>   step <action>...     run
 * actions:      tick[:<dt>] conn:<c> send:<c>:<text> close:<c> reset:<c> cin:<text> idle   ('/' in text = newline)
 *               several actions in one step = several events reported by ONE poll, delivered in the order written
 */
#include "vh.h"
#include <unistd.h>
#include <fcntl.h>
#include <errno.h>
#include <poll.h>
#include <sys/epoll.h>
#include <sys/socket.h>
#include <sys/stat.h>
#include <netinet/in.h>
#include <arpa/inet.h>
#include <netinet/tcp.h>
#include "src/main.h"
#include "port/timer.h"
#include "async/async_runtime.h"
#include "call_out.h"

extern int (*verif_backend_cycle_hook) (void);
extern int heart_beat_flag;

/* ---- virtual time ------------------------------------------------------ */
static long vclock = VH_T0;
time_t __wrap_time (time_t * t)
{
  if (t)
    *t = (time_t) vclock;
  return (time_t) vclock;
}

timer_error_t __wrap_platform_timer_start (platform_timer_t * timer, unsigned long interval_us, timer_callback_t cb)
{
  (void) timer; (void) interval_us; (void) cb;
  return TIMER_OK;
}

/* ---- script ------------------------------------------------------------ */
#define MAXSTEP 512
#define MAXCLI 64
static char *steps[MAXSTEP];
static int nsteps = 0, step_idx = 0, cycle_no = 0, trail = 0;
static int console = 0;
static int cons_w = -1;
static char cons_out[512];
static int port = 0;

static struct { int used, fd, lport, closed_by_script; char buf[16384]; int len; } cli[MAXCLI];

static void cli_drain (int k)
{
  if (!cli[k].used || cli[k].fd < 0)
    return;
  for (;;)
    {
      char tmp[4096];
      ssize_t n = recv (cli[k].fd, tmp, sizeof tmp, MSG_DONTWAIT);
      if (n <= 0)
        break;
      if (cli[k].len + n < (int) sizeof cli[k].buf)
        {
          memcpy (cli[k].buf + cli[k].len, tmp, n);
          cli[k].len += n;
        }
    }
}

/* driver-side fd of client k (matched by the peer port stored in the interactive), -1 if none */
static int driver_fd (int k)
{
  if (!all_users)
    return -1;
  for (int i = 0; i < max_users; i++)
    if (all_users[i] && ntohs (all_users[i]->addr.sin_port) == cli[k].lport && all_users[i]->connection_type != CONSOLE_USER)
      return all_users[i]->fd;
  return -1;
}

/* packet timing only: without this the last small segment of a reply waits ~40 ms for a delayed ACK (Nagle) */
static void nodelay_all (void)
{
  int one = 1;
  for (int i = 1; all_users && i < max_users; i++)
    if (all_users[i] && all_users[i]->connection_type != CONSOLE_USER)
      setsockopt (all_users[i]->fd, IPPROTO_TCP, TCP_NODELAY, &one, sizeof one);
}

static void wait_readable (int fd)
{
  struct pollfd p = { fd, POLLIN | POLLHUP | POLLERR, 0 };
  if (fd >= 0)
    poll (&p, 1, 3000);
}

/* '/' = end of line: CR LF on a telnet connection, LF on the console */
static void text_of (const char *src, char *dst, size_t n, int crlf)
{
  size_t i = 0;
  for (; *src && i + 2 < n; src++)
    if (*src == '/')
      {
        if (crlf)
          dst[i++] = '\r';
        dst[i++] = '\n';
      }
    else
      dst[i++] = *src;
  dst[i] = 0;
}

static void do_action (char *a, int *tick, long *dt)
{
  char txt[4096];
  if (!strncmp (a, "tick", 4))
    {
      *tick = 1;
      *dt = (a[4] == ':') ? atol (a + 5) : 2;
    }
  else if (!strncmp (a, "conn:c", 6))
    {
      int k = atoi (a + 6);
      struct sockaddr_in sa;
      socklen_t sl = sizeof sa;
      if (k < 0 || k >= MAXCLI)
        return;
      memset (&sa, 0, sizeof sa);
      sa.sin_family = AF_INET;
      sa.sin_port = htons (port);
      sa.sin_addr.s_addr = htonl (INADDR_LOOPBACK);
      cli[k].fd = socket (AF_INET, SOCK_STREAM, 0);
      cli[k].used = 1;
      cli[k].len = 0;
      cli[k].closed_by_script = 0;
      if (connect (cli[k].fd, (struct sockaddr *) &sa, sizeof sa) < 0)
        {
          vh_out ("harness connect failed %d", errno);
          return;
        }
      getsockname (cli[k].fd, (struct sockaddr *) &sa, &sl);
      cli[k].lport = ntohs (sa.sin_port);
      wait_readable (external_port[0].fd);
    }
  else if (!strncmp (a, "send:c", 6))
    {
      int k = atoi (a + 6);
      char *p = strchr (a + 6, ':');
      if (k < 0 || k >= MAXCLI || !cli[k].used || cli[k].fd < 0 || !p)
        return;
      text_of (p + 1, txt, sizeof txt, 1);
      if (send (cli[k].fd, txt, strlen (txt), MSG_NOSIGNAL) > 0)
        wait_readable (driver_fd (k));
    }
  else if (!strncmp (a, "close:c", 7))
    {
      int k = atoi (a + 7);
      int dfd;
      if (k < 0 || k >= MAXCLI || !cli[k].used || cli[k].fd < 0)
        return;
      dfd = driver_fd (k);
      cli_drain (k);
      close (cli[k].fd);
      cli[k].fd = -1;
      cli[k].closed_by_script = 1;
      wait_readable (dfd);
    }
  else if (!strncmp (a, "reset:c", 7))
    {
      /* abortive close: SO_LINGER 0 makes close() send RST; the driver's socket reports EPOLLERR | EPOLLHUP */
      int k = atoi (a + 7);
      int dfd;
      struct linger lg = { 1, 0 };
      if (k < 0 || k >= MAXCLI || !cli[k].used || cli[k].fd < 0)
        return;
      dfd = driver_fd (k);
      cli_drain (k);
      setsockopt (cli[k].fd, SOL_SOCKET, SO_LINGER, &lg, sizeof lg);
      close (cli[k].fd);
      cli[k].fd = -1;
      cli[k].closed_by_script = 1;
      wait_readable (dfd);
    }
  else if (!strncmp (a, "cin:", 4))
    {
      if (cons_w >= 0)
        {
          text_of (a + 4, txt, sizeof txt, 0);
          if (write (cons_w, txt, strlen (txt)) > 0)
            wait_readable (async_runtime_get_event_loop_handle (g_runtime));
        }
    }
}

int __real_epoll_wait (int epfd, struct epoll_event *ev, int max, int tmo);

/* ---- deterministic order of the events of one poll ------------------------
 * The kernel reports ready descriptors in the order they became ready, which the script cannot control.  The
 * wrapper therefore sorts the events the real epoll_wait() returned into the order of the step's actions:
 *   conn:   -> the listening port            send:/close: -> that client's connection record (epoll data.ptr)
 *   cin:    -> the doorbell (eventfd: console completions), else the tick's wake-up rings the same doorbell
 * Events of no action of this step (level-triggered left-overs) keep their relative order after the scripted ones. */
#define MAXRANK 64
static struct { void *ptr; int is_doorbell; } rank_key[MAXRANK];
static int nrank = 0;

static void *driver_ip (int k)
{
  if (!all_users || k < 0 || k >= MAXCLI || !cli[k].used)
    return 0;
  for (int i = 1; i < max_users; i++)
    if (all_users[i] && ntohs (all_users[i]->addr.sin_port) == cli[k].lport && all_users[i]->connection_type != CONSOLE_USER)
      return all_users[i];
  return 0;
}

static void note_rank (const char *a)
{
  if (nrank >= MAXRANK)
    return;
  rank_key[nrank].ptr = 0;
  rank_key[nrank].is_doorbell = 0;
  if (!strncmp (a, "conn:c", 6))
    rank_key[nrank].ptr = &external_port[0];
  else if (!strncmp (a, "send:c", 6))
    rank_key[nrank].ptr = driver_ip (atoi (a + 6));
  else if (!strncmp (a, "close:c", 7) || !strncmp (a, "reset:c", 7))
    rank_key[nrank].ptr = driver_ip (atoi (a + 7));
  else if (!strncmp (a, "cin:", 4))
    rank_key[nrank].is_doorbell = 1;
  nrank++;
}

static int rank_of (struct epoll_event *e)
{
  int bell = async_runtime_get_event_loop_handle (g_runtime);
  int tick_rank = MAXRANK;
  for (int i = 0; i < nrank; i++)
    {
      if (rank_key[i].is_doorbell && e->data.fd == bell)
        return i;
      if (rank_key[i].ptr && e->data.ptr == rank_key[i].ptr)
        return i;
    }
  return tick_rank;
}

static void sort_events (struct epoll_event *ev, int n)
{
  for (int i = 1; i < n; i++)
    {
      struct epoll_event x = ev[i];
      int r = rank_of (&x), j = i - 1;
      while (j >= 0 && rank_of (&ev[j]) > r)
        {
          ev[j + 1] = ev[j];
          j--;
        }
      ev[j + 1] = x;
    }
}

int __wrap_epoll_wait (int epfd, struct epoll_event *ev, int max, int tmo)
{
  int tick = 0, n;
  long dt = 0;
  (void) tmo;
  cycle_no++;
  vh_out ("cycle %d", cycle_no);
  nodelay_all ();
  if (step_idx < nsteps)
    {
      char copy[4096], *tok[32];
      int io = 0;
      snprintf (copy, sizeof copy, "%s", steps[step_idx++]);
      int nt = vh_split (copy, tok, 32);
      /* the connection records the step's actions refer to are looked up BEFORE anything happens: these are the
       * context pointers the kernel hands back.  A step without I/O actions keeps the previous order: events a
       * longjmp out of process_io() left unprocessed are reported again by this poll. */
      for (int i = 0; i < nt; i++)
        if (strncmp (tok[i], "tick", 4) && strcmp (tok[i], "idle"))
          io = 1;
      if (io)
        {
          nrank = 0;
          for (int i = 0; i < nt; i++)
            note_rank (tok[i]);
        }
      for (int i = 0; i < nt; i++)
        do_action (tok[i], &tick, &dt);
    }
  if (tick)
    {
      /* exactly what heartbeat_timer_callback() does, with the virtual clock advanced first */
      vclock += dt;
      heart_beat_flag = 1;
      async_runtime_wakeup (g_runtime);
    }
  n = __real_epoll_wait (epfd, ev, max, 0);
  if (n > 1)
    sort_events (ev, n);
  return n;
}

static int cycle_hook (void)
{
  if (step_idx >= nsteps && ++trail > 2)
    return 1;
  return 0;
}

/* ---- canonical client output ------------------------------------------ */
static void canon_out (const char *name, const unsigned char *b, int n)
{
  char out[8000];
  int o = 0;
  for (int i = 0; i < n && o < (int) sizeof out - 2; i++)
    {
      unsigned char c = b[i];
      if (c == 255)
        {			/* IAC */
          if (i + 1 < n && b[i + 1] >= 251 && b[i + 1] <= 254)
            i += 2;
          else if (i + 1 < n && b[i + 1] == 250)
            {
              while (i + 1 < n && !(b[i] == 255 && b[i + 1] == 240))
                i++;
              i++;
            }
          else
            i += 1;
          continue;
        }
      if (c == '\r')
        continue;
      if (c == '\n')
        c = '|';
      else if (c == ' ')
        c = '_';
      else if (c < 32 || c > 126)
        c = '?';
      out[o++] = c;
    }
  out[o] = 0;
  vh_out ("out %s %s", name, out);
}

static int pick_port (void)
{
  for (int a = 0; a < 200; a++)
    {
      int p = 20000 + (int) (((long) getpid () * 13 + a * 101) % 30000);
      int s = socket (AF_INET, SOCK_STREAM, 0), one = 1;
      struct sockaddr_in sa;
      memset (&sa, 0, sizeof sa);
      sa.sin_family = AF_INET;
      sa.sin_port = htons (p);
      sa.sin_addr.s_addr = INADDR_ANY;
      setsockopt (s, SOL_SOCKET, SO_REUSEADDR, &one, sizeof one);
      if (bind (s, (struct sockaddr *) &sa, sizeof sa) == 0)
        {
          close (s);
          return p;
        }
      close (s);
    }
  return 4000;
}

static void run_backend (void)
{
  port = pick_port ();
  external_port[0].port = port;
  MAIN_OPTION (console_mode) = console;
  MAIN_OPTION (timer_flags) = TIMER_FLAG_HEARTBEAT | TIMER_FLAG_CALLOUT | TIMER_FLAG_RESET;
  verif_backend_cycle_hook = cycle_hook;
  if (console)
    {
      int pp[2];
      if (pipe (pp) < 0)
        _exit (9);
      dup2 (pp[0], STDIN_FILENO);
      close (pp[0]);
      cons_w = pp[1];
      snprintf (cons_out, sizeof cons_out, "/tmp/c09-cons-%d.out", (int) getpid ());
      int fd = open (cons_out, O_WRONLY | O_CREAT | O_TRUNC, 0600);
      fflush (stdout);
      dup2 (fd, STDOUT_FILENO);
      close (fd);
    }
  int mref0 = master_ob->ref, sref0 = simul_efun_ob ? simul_efun_ob->ref : 0;
  vh_out ("start");
  backend ();
  vh_out (g_proceeding_shutdown ? "exit shutdown" : "exit loop");
  /* main() calls do_shutdown() next, which flushes pending output of every user before closing the sockets
   * (simulate.c); do that part here, the harness process does not run do_shutdown() (it exits the process) */
  for (int i = 1; all_users && i < max_users; i++)
    if (all_users[i] && !(all_users[i]->iflags & CLOSING))
      flush_message (all_users[i]);
  /* final observations */
  {
    char res[4096];
    object_t *reg = vh_obj ("reg");
    if (reg && vh_apply_str (reg, "hb_report", 0, 0, res, sizeof res) == 0)
      vh_out ("hbs %s", res);
  }
  /* a pending call_out holds a reference on the command_giver of the task that scheduled it - and that can be the
   * master object (new_interactive() leaves command_giver = master_ob behind, a later net_dead() inherits it):
   * cancel what is still pending, so that the counts below see connection set-up only */
  for (object_t * ob = obj_list; ob; ob = ob->next_all)
    remove_all_call_out (ob);
  /* reference counts of the two vital objects relative to the start of backend(): connection set-up takes an
   * extra reference on master_ob and must give it back on every path (accepted, rejected, failing connect()) */
  vh_out ("refs %d %d", master_ob->ref - mref0, (simul_efun_ob ? simul_efun_ob->ref : 0) - sref0);
  {
    int n = 0;
    for (int i = 0; all_users && i < max_users; i++)
      if (all_users[i])
        n++;
    vh_out ("slots %d", n);
    {
      char idx[1024] = "";
      size_t o = 0;
      for (int i = 0; all_users && i < max_users && o < sizeof idx - 12; i++)
        if (all_users[i])
          o += snprintf (idx + o, sizeof idx - o, " %d", i);
      vh_out ("slotidx%s", idx);
    }
  }
  for (int k = 0; k < MAXCLI; k++)
    if (cli[k].used && !cli[k].closed_by_script)
      {
        char name[16];
        struct pollfd p = { cli[k].fd, POLLIN, 0 };
        poll (&p, 1, 30);
        cli_drain (k);
        snprintf (name, sizeof name, "c%d", k);
        canon_out (name, (unsigned char *) cli[k].buf, cli[k].len);
      }
  if (console)
    {
      unsigned char b[16384];
      int fd = open (cons_out, O_RDONLY);
      int n = fd >= 0 ? (int) read (fd, b, sizeof b) : 0;
      if (fd >= 0)
        close (fd);
      unlink (cons_out);
      canon_out ("console", b, n > 0 ? n : 0);
    }
  fflush (stderr);
  _exit (0);
}

static int c09_cmd (char *line)
{
  char copy[8192], *tok[8];
  if (!strncmp (line, "step", 4) && (line[4] == ' ' || !line[4]))
    {
      if (nsteps < MAXSTEP)
        steps[nsteps++] = strdup (line[4] ? line + 5 : "");
      return 1;
    }
  if (!strcmp (line, "run"))
    {
      run_backend ();
      return 1;
    }
  snprintf (copy, sizeof copy, "%s", line);
  int n = vh_split (copy, tok, 8);
  if (n == 2 && !strcmp (tok[0], "mode"))
    {
      console = !strcmp (tok[1], "console");
      return 1;
    }
  if (n == 2 && !strcmp (tok[0], "meh"))
    {
      char *a[1] = { tok[1] };
      object_t *reg = vh_obj ("reg");
      if (reg)
        vh_apply_str (reg, "set_meh", 1, a, 0, 0);
      return 1;
    }
  if (n == 2 && !strcmp (tok[0], "preload"))
    {
      /* main() calls preload_objects() before backend(): epilog() names the files, preload() loads each */
      char *a[2] = { "preload", tok[1] };
      object_t *reg = vh_obj ("reg");
      if (reg)
        vh_apply_str (reg, "set_script", 2, a, 0, 0);
      preload_objects (0);
      return 1;
    }
  if (n == 4 && !strcmp (tok[0], "script"))
    {
      char key[256];
      char *a[2] = { key, tok[3] };
      object_t *reg = vh_obj ("reg");
      snprintf (key, sizeof key, "%s:%s", tok[1], tok[2]);
      if (reg)
        vh_apply_str (reg, "set_script", 2, a, 0, 0);
      return 1;
    }
  return 0;
}

int main (int argc, char **argv)
{
  return vh_main (argc, argv, c09_cmd);
}
