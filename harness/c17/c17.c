/* C17 harness.
 *
 * Unit style for the table algorithms: this translation unit #includes lib/lpc/program/binaries.c, so the static
 * functions sort_function_table / locate_out / locate_in / patch_in / check_times are called directly on synthetic
 * tables (commands usort / ureloc / upatch / utimes).
 *
 * System style for whole programs: load_binary / save_binary of this translation unit are the real ones, renamed, behind
 * thin logging wrappers (no source change): every load_binary call prints its decision, every save prints the include
 * list and gives the new binary the virtual time of the case.  Commands file / mtime / now / intern / restart / calls /
 * reload drive histories of compile / edit / touch / reload steps and print a structural dump of every loaded program.
 */
#define load_binary c17_real_load_binary
#define save_binary c17_real_save_binary
#include "lib/lpc/program/binaries.c"
#undef load_binary
#undef save_binary

#include "vh.h"
#include <unistd.h>
#include <fcntl.h>
#include <dirent.h>
#include <errno.h>
#include <sys/stat.h>
#include <sys/time.h>
#include <sys/wait.h>
#include "lpc/program.h"
#include "src/interpret.h"

program_t *load_binary (const char *name);
void save_binary (program_t * prog, mem_block_t * includes, mem_block_t * patches);

#define REAL_T 1500000000L	/* any mtime above this was written by the wall clock */
static long vnow = 1000;	/* virtual clock for files written by the driver */

/* ---- remembered per program: patch list of the last save ------------------ */
#define MAXP 64
static struct { char name[256]; unsigned short patch[256]; int npatch; int known; int from_binary; } P[MAXP];
static int nP = 0;

static int pslot (const char *name, int create)
{
  for (int i = 0; i < nP; i++)
    if (!strcmp (P[i].name, name))
      return i;
  if (!create || nP == MAXP)
    return -1;
  snprintf (P[nP].name, sizeof P[nP].name, "%s", name);
  P[nP].npatch = 0;
  P[nP].known = 0;
  P[nP].from_binary = 0;
  return nP++;
}

static void bin_path (char *out, size_t n, const char *progname)
{
  const char *d = CONFIG_STR (__SAVE_BINARIES_DIR__);
  if (!d)
    d = "";
  if (*d == '/')
    d++;
  snprintf (out, n, "%s/%s", d, progname);
  size_t l = strlen (out);
  if (l)
    out[l - 1] = 'b';
}

/* Virtual times of the case language (mtime / now / the sv lines) are VH_T0 + t on the file system and in current_time,
   so that the driver's own clock (object load times) and the files live on one time line and current_time never moves
   backwards; everything printed is the virtual value again. */
static int set_mtime (const char *path, long t);
static int set_vmtime (const char *path, long t)
{
  return set_mtime (path, VH_T0 + t);
}

static int set_mtime (const char *path, long t)
{
  struct timespec ts[2];
  ts[0].tv_sec = t;
  ts[0].tv_nsec = 0;
  ts[1] = ts[0];
  return utimensat (AT_FDCWD, path, ts, 0);
}

static int no_binaries = 0;	/* reference compile (reloadf): binaries are neither read nor written */

program_t *load_binary (const char *name)
{
  program_t *p;
  inherit_file = 0;
  if (no_binaries)
    return 0;
  p = c17_real_load_binary (name);
  if (p)
    vh_out ("lb %s use", name);
  else if (inherit_file)
    vh_out ("lb %s needs %s", name, inherit_file);
  else
    vh_out ("lb %s stale", name);
  if (p || !inherit_file)
    {
      /* where the dump will find the patch list of the program that is about to be in memory: in the binary when the
         program came from it; otherwise only a save_binary() call of the coming compile can tell (a binary that is
         still on disk then is a leftover of an older compile) */
      int s = pslot (name, 1);
      if (s >= 0)
        {
          P[s].known = 0;
          P[s].from_binary = p != 0;
        }
    }
  return p;
}

void save_binary (program_t * prog, mem_block_t * includes, mem_block_t * patches)
{
  char path[512], incs[2048];
  struct stat st;
  if (!no_binaries)
    c17_real_save_binary (prog, includes, patches);
  bin_path (path, sizeof path, prog->name);
  {
    /* the patch list of the program just compiled (also when the master refuses the save or save_binary() declines) */
    int s = pslot (prog->name, 1);
    if (s >= 0)
      {
        int n = (int) (patches->current_size / sizeof (short));
        if (n > 256)
          n = 256;
        P[s].npatch = n;
        P[s].known = 1;
        P[s].from_binary = 0;
        for (int i = 0; i < n; i++)
          P[s].patch[i] = ((unsigned short *) patches->block)[i];
      }
  }
  if (no_binaries)
    return;
  if (stat (path, &st) == 0 && st.st_mtime > REAL_T)
    {
      int s = pslot (prog->name, 1);
      size_t o = 0;
      incs[0] = 0;
      for (char *q = includes->block; q && q < includes->block + includes->current_size; q += strlen (q) + 1)
        o += snprintf (incs + o, sizeof incs - o, "%s%s", o ? "," : "", q);
      set_vmtime (path, vnow);
      vh_out ("sv %s %ld inc=%s", prog->name, vnow, incs[0] ? incs : "-");
      vnow++;
      if (s >= 0)
        {
          int n = (int) (patches->current_size / sizeof (short));
          if (n > 256)
            n = 256;
          P[s].npatch = n;
          P[s].known = 1;
          for (int i = 0; i < n; i++)
            P[s].patch[i] = ((unsigned short *) patches->block)[i];
        }
    }
  else
    vh_out ("sv %s notwritten", prog->name);
}

/* ---- helpers --------------------------------------------------------------- */
static uint64_t fnv (const unsigned char *p, size_t n)
{
  uint64_t h = 1469598103934665603ULL;
  for (size_t i = 0; i < n; i++)
    {
      h ^= p[i];
      h *= 1099511628211ULL;
    }
  return h;
}

static void hexs (char *out, size_t n, const char *s)
{
  size_t o = 0;
  if (!*s)
    {
      snprintf (out, n, "-");
      return;
    }
  for (; *s && o + 3 < n; s++)
    o += snprintf (out + o, n - o, "%02x", (unsigned char) *s);
}

static int unhex (const char *h, char *out, size_t n)
{
  size_t o = 0;
  if (!strcmp (h, "-"))
    {
      out[0] = 0;
      return 0;
    }
  while (h[0] && h[1] && o + 1 < n)
    {
      unsigned v;
      sscanf (h, "%2x", &v);
      out[o++] = (char) v;
      h += 2;
    }
  out[o] = 0;
  return (int) o;
}

static int cmp_ptr (const void *a, const void *b)
{
  uintptr_t x = *(const uintptr_t *) a, y = *(const uintptr_t *) b;
  return x < y ? -1 : x > y;
}

static int rank_of (uintptr_t * sorted, int n, uintptr_t v)
{
  for (int i = 0; i < n; i++)
    if (sorted[i] == v)
      return i;
  return -1;
}

static int mkdirs_for (const char *path)
{
  char tmp[1024];
  snprintf (tmp, sizeof tmp, "%s", path);
  for (char *p = tmp + 1; *p; p++)
    if (*p == '/')
      {
        *p = 0;
        mkdir (tmp, 0775);
        *p = '/';
      }
  return 0;
}

static void rm_rf (const char *path)
{
  struct stat st;
  if (lstat (path, &st) == -1)
    return;
  if (S_ISDIR (st.st_mode))
    {
      DIR *d = opendir (path);
      struct dirent *e;
      if (d)
        {
          while ((e = readdir (d)))
            {
              char sub[1024];
              if (!strcmp (e->d_name, ".") || !strcmp (e->d_name, ".."))
                continue;
              snprintf (sub, sizeof sub, "%s/%s", path, e->d_name);
              rm_rf (sub);
            }
          closedir (d);
        }
      rmdir (path);
    }
  else
    unlink (path);
}

/* path given with or without a leading slash, relative to the mudlib; must stay below it */
static const char *rel (const char *p)
{
  while (*p == '/')
    p++;
  if (strstr (p, "..") || !*p)
    return 0;
  return p;
}

/* patch list of a program as stored in its saved binary (what the driver itself will use); -1 if there is no binary */
static int patches_from_binary (const char *progname, unsigned short *out, int max)
{
  char path[512];
  unsigned char *d;
  long size, o = 0;
  int n = -1;
  FILE *f;
  bin_path (path, sizeof path, progname);
  if (!(f = fopen (path, "rb")))
    return -1;
  fseek (f, 0, SEEK_END);
  size = ftell (f);
  fseek (f, 0, SEEK_SET);
  d = (unsigned char *) malloc (size + 8);
  if (fread (d, 1, size, f) != (size_t) size)
    size = 0;
  fclose (f);
#define U16(v) do { if (o + 2 > size) goto done; memcpy (&(v), d + o, 2); o += 2; } while (0)
#define SKIPN(cnt) do { for (int k_ = 0; k_ < (int) (cnt); k_++) { unsigned short l_; U16 (l_); o += l_; } } while (0)
  {
    unsigned short len;
    uint32_t psize;
    program_t hdr;
    o = 4 + 4 + 8;
    U16 (len);
    o += len;			/* include list */
    U16 (len);
    o += len;			/* program name */
    if (o + 4 > size)
      goto done;
    memcpy (&psize, d + o, 4);
    o += 4;
    if (psize < sizeof (program_t) || o + (long) psize > size)
      goto done;
    memcpy (&hdr, d + o, sizeof hdr);
    o += psize;
    SKIPN (hdr.num_inherited);
    SKIPN (hdr.num_strings);
    SKIPN (hdr.num_variables_defined);
    SKIPN (hdr.num_functions_defined);
    U16 (len);
    o += len;			/* line numbers */
    U16 (len);
    if (o + len > size)
      goto done;
    n = len / 2;
    if (n > max)
      n = max;
    memcpy (out, d + o, n * 2);
  }
done:
  free (d);
  return n;
}

/* ---- structural dump --------------------------------------------------------- */
static void dump_prog (const char *tag, program_t * p)
{
  char buf[8000];
  int n = p->num_functions_defined;
  compressed_offset_table_t *c = p->function_compressed;
  int f_def = c->first_defined, f_ov = c->first_overload;
  int n_ov = f_def - c->num_compressed, n_real = f_def - c->num_deleted;
  int n_slots = n_real + (p->num_functions_total - f_def);
  size_t o;

  vh_out ("D %s hdr flags=%d psize=%d nfd=%d nft=%d nstr=%d nvt=%d nvd=%d ninh=%d ncls=%d hb=%d ts=%d size=%d", tag,
          p->flags, p->program_size, n, p->num_functions_total, p->num_strings, p->num_variables_total,
          p->num_variables_defined, p->num_inherited, p->num_classes, p->heart_beat, p->type_start ? 1 : 0, p->total_size);

  /* compiler function table, in table order, with the rank of the name pointer */
  {
    uintptr_t *ptrs = (uintptr_t *) calloc (n + 1, sizeof (uintptr_t));
    int nat = p->type_start ? (int) (((char *) p->type_start - (char *) p->argument_types) / 2) : 0;
    for (int i = 0; i < n; i++)
      ptrs[i] = (uintptr_t) p->function_table[i].name;
    qsort (ptrs, n, sizeof (uintptr_t), cmp_ptr);
    for (int i = 0; i < n; i++)
      {
        compiler_function_t *f = &p->function_table[i];
        char args[512] = "-";
        int ts = -1;
        if (p->type_start)
          {
            ts = p->type_start[i];
            if (ts != INDEX_START_NONE)
              {
                runtime_function_u *r = FIND_FUNC_ENTRY (p, f->runtime_index);
                int na = r->def.num_arg;
                o = 0;
                args[0] = 0;
                for (int k = 0; k < na; k++)
                  {
                    if (ts + k < nat)
                      o += snprintf (args + o, sizeof args - o, "%s%d", k ? "," : "", p->argument_types[ts + k]);
                    else
                      o += snprintf (args + o, sizeof args - o, "%soob", k ? "," : "");
                  }
                if (!na)
                  snprintf (args, sizeof args, "none");
              }
          }
        vh_out ("D %s cf %d %s %d %d %d %d %d %s", tag, i, f->name, rank_of (ptrs, n, (uintptr_t) f->name), f->type,
                f->runtime_index, f->address, ts, args);
      }
    free (ptrs);
  }
  /* compressed offset table header and raw runtime slots */
  o = 0;
  buf[0] = 0;
  for (int i = 0; i < n_ov; i++)
    o += snprintf (buf + o, sizeof buf - o, "%s%d", i ? "," : "", c->index[i]);
  vh_out ("D %s ct %d %d %d %d %s", tag, f_def, f_ov, c->num_compressed, c->num_deleted, n_ov > 0 ? buf : "-");
  o = 0;
  buf[0] = 0;
  for (int i = 0; i < n_slots; i++)
    o += snprintf (buf + o, sizeof buf - o, "%s%d:%d:%d", i ? "," : "", p->function_offsets[i].def.num_arg,
                   p->function_offsets[i].def.num_local, p->function_offsets[i].def.f_index);
  vh_out ("D %s ro %s", tag, n_slots > 0 ? buf : "-");
  o = 0;
  buf[0] = 0;
  for (int i = 0; i < p->num_functions_total; i++)
    o += snprintf (buf + o, sizeof buf - o, "%s%d", i ? "," : "", p->function_flags[i]);
  vh_out ("D %s fl %s", tag, p->num_functions_total ? buf : "-");
  /* strings, variables, inherits, classes */
  for (int i = 0; i < p->num_strings; i++)
    {
      hexs (buf, sizeof buf, p->strings[i]);
      vh_out ("D %s st %d %s", tag, i, buf);
    }
  for (int i = 0; i < p->num_variables_defined; i++)
    vh_out ("D %s va %d %s %d", tag, i, p->variable_table[i], p->variable_types[i]);
  for (int i = 0; i < p->num_inherited; i++)
    vh_out ("D %s in %d %s %d %d %d", tag, i, p->inherit[i].prog->name, p->inherit[i].function_index_offset,
            p->inherit[i].variable_index_offset, p->inherit[i].type_mod);
  {
    int nm = 0;
    for (int i = 0; i < p->num_classes; i++)
      {
        vh_out ("D %s cl %d %d %d %d %d", tag, i, p->classes[i].name, p->classes[i].type, p->classes[i].size,
                p->classes[i].index);
        if (p->classes[i].index + p->classes[i].size > nm)
          nm = p->classes[i].index + p->classes[i].size;
      }
    for (int i = 0; i < nm; i++)
      vh_out ("D %s cm %d %d %d", tag, i, p->class_members[i].name, p->class_members[i].type);
  }
  /* line information: one block <size><offset><file info><line info> */
  if (p->file_info)
    {
      int end = p->file_info[1];
      vh_out ("D %s li %d %d %016llx", tag, p->file_info[0], p->file_info[1],
              (unsigned long long) fnv ((unsigned char *) p->file_info, p->file_info[0]));
      /* decoded file info: <lines>:<file name> runs; line info separately */
      o = 0;
      buf[0] = 0;
      for (int i = 2; i + 1 < end && o + 300 < sizeof buf; i += 2)
        {
          int id = p->file_info[i + 1];
          o += snprintf (buf + o, sizeof buf - o, "%s%d:%s", i > 2 ? "," : "", p->file_info[i],
                         (id > 0 && id <= p->num_strings) ? p->strings[id - 1] : "?");
        }
      vh_out ("D %s fi %s", tag, o ? buf : "-");
      if (p->line_info)
        vh_out ("D %s ln %d %016llx", tag, (int) (p->file_info[0] - end * 2),
                (unsigned long long) fnv (p->line_info, p->file_info[0] - end * 2));
      /* what the error reporter would say for the first instruction of every function */
      {
        /* in name order: the table order depends on addresses */
        int *ord = (int *) calloc (n + 1, sizeof (int));
        for (int i = 0; i < n; i++)
          ord[i] = i;
        for (int i = 1; i < n; i++)
          for (int j = i; j > 0 && strcmp (p->function_table[ord[j - 1]].name, p->function_table[ord[j]].name) > 0; j--)
            {
              int t = ord[j];
              ord[j] = ord[j - 1];
              ord[j - 1] = t;
            }
        for (int k = 0; k < n; k++)
          {
            int i = ord[k];
            if (p->function_table[i].address < p->program_size)
              vh_out ("D %s lf %s %s", tag, p->function_table[i].name,
                      get_line_number (p->program + p->function_table[i].address, p));
          }
        free (ord);
      }
    }
  else
    vh_out ("D %s li none", tag);
  /* code: string switch tables dumped entry by entry, then masked out of the hash */
  {
    int s = pslot (p->name, 0);
    if (s >= 0 && !P[s].known && P[s].from_binary)
      {
        /* loaded from its binary: take the patch list from the binary, like the driver does */
        static unsigned short tmp[256];
        int np = patches_from_binary (p->name, tmp, 256);
        if (np >= 0 && (s = pslot (p->name, 1)) >= 0)
          {
            P[s].npatch = np;
            P[s].known = 1;
            memcpy (P[s].patch, tmp, np * 2);
          }
      }
    unsigned char *code = (unsigned char *) malloc (p->program_size + 16);
    memcpy (code, p->program, p->program_size);
    if (s >= 0 && P[s].known)
      {
        for (int k = 0; k < P[s].npatch; k++)
          {
            int at = P[s].patch[k];
            unsigned short start, end, dflt;
            if (at + 8 > p->program_size)
              {
                vh_out ("D %s sw %d outside", tag, at);
                continue;
              }
            memcpy (&start, p->program + at + 2, 2);
            memcpy (&end, p->program + at + 4, 2);
            memcpy (&dflt, p->program + at + 6, 2);
            int ne = (end - start) / SWITCH_CASE_SIZE;
            if (start > end || end > p->program_size || ne > 2000)
              {
                vh_out ("D %s sw %d badtable", tag, at);
                continue;
              }
            uintptr_t *ptrs = (uintptr_t *) calloc (ne + 1, sizeof (uintptr_t));
            for (int e = 0; e < ne; e++)
              memcpy (&ptrs[e], p->program + start + e * SWITCH_CASE_SIZE, sizeof (char *));
            uintptr_t *sorted = (uintptr_t *) calloc (ne + 1, sizeof (uintptr_t));
            memcpy (sorted, ptrs, ne * sizeof (uintptr_t));
            qsort (sorted, ne, sizeof (uintptr_t), cmp_ptr);
            o = 0;
            buf[0] = 0;
            for (int e = 0; e < ne; e++)
              {
                unsigned short addr;
                int idx = -2;
                memcpy (&addr, p->program + start + e * SWITCH_CASE_SIZE + sizeof (char *), 2);
                if (!ptrs[e])
                  idx = -1;
                else
                  for (int q = 0; q < p->num_strings; q++)
                    if ((uintptr_t) p->strings[q] == ptrs[e])
                      {
                        idx = q;
                        break;
                      }
                o += snprintf (buf + o, sizeof buf - o, "%s%d:%d:%d", e ? "," : "", idx, addr, rank_of (sorted, ne, ptrs[e]));
              }
            vh_out ("D %s sw %d %d %d %d %d %s", tag, at, (unsigned char) p->program[at + 1], start, end, dflt, ne ? buf : "-");
            memset (code + start, 0, end - start);
            free (ptrs);
            free (sorted);
          }
        vh_out ("D %s co %016llx", tag, (unsigned long long) fnv (code, p->program_size));
      }
    else
      vh_out ("D %s co unknown-patches", tag);
    free (code);
  }
}

/* ---- system-style commands ---------------------------------------------------- */
#define MAXCALL 400
static char *calls[MAXCALL];
static int ncalls = 0;
static int reload_no = 0;
static int cleaned = 0;		/* a case must start from an empty directory: replays are self-contained */

static object_t *safe_load (const char *name)
{
  error_context_t econ;
  object_t *volatile ob = 0;
  save_context (&econ);
  if (!setjmp (econ.context))
    {
      eval_cost = CONFIG_INT (__MAX_EVAL_COST__);
      ob = load_object (name, 0);
      pop_context (&econ);
    }
  else
    {
      restore_context (&econ);
      pop_context (&econ);
      ob = 0;
    }
  return ob;
}

static void safe_destruct (const char *name)
{
  error_context_t econ;
  object_t *ob = find_object_by_name (name);
  if (!ob)
    return;
  save_context (&econ);
  if (!setjmp (econ.context))
    {
      destruct_object (ob);
      pop_context (&econ);
    }
  else
    {
      restore_context (&econ);
      pop_context (&econ);
      vh_out ("destruct-error %s", name);
    }
}

#define MAXINT 400
static char *pending[MAXINT];
static int npending = 0;
static char *held[MAXINT];
static int nheld = 0;

/* everything of the family is gone: release the old interned strings and create the pending ones in order */
static void reintern (void)
{
  static char s[4096];
  clear_apply_cache ();
  for (int i = 0; i < nheld; i++)
    free_string (held[i]);
  nheld = 0;
  for (int i = 0; i < npending; i++)
    {
      unhex (pending[i], s, sizeof s);
      held[nheld++] = make_shared_string (s);
    }
}

static int sys_cmd (char *line)
{
  static char *copy = 0;
  char *tok[420];
  int n;
  free (copy);
  copy = strdup (line);
  n = vh_split (copy, tok, 420);
  if (!n)
    return 1;
  if (!strcmp (tok[0], "clean") && n == 2)
    {
      /* clean <dir>: remove the case's source directory and its binaries */
      const char *d = rel (tok[1]);
      char bp[600];
      if (!d || strncmp (d, "c17/w/", 6))
        return 0;
      rm_rf (d);
      bin_path (bp, sizeof bp, "x");
      bp[strlen (bp) - 1] = 0;	/* "<bindir>/" */
      strncat (bp, d, sizeof bp - strlen (bp) - 1);
      rm_rf (bp);
      /* and the markers with which an earlier case of this name made the master refuse saves */
      snprintf (bp, sizeof bp, "c17/nosave/%s", d);
      rm_rf (bp);
      cleaned = 1;
      return 1;
    }
  if (!strcmp (tok[0], "file") && n == 3)
    {
      /* file <path> <hex content>: (re)write a source or include file; mtime must be set by `mtime` */
      const char *pth = rel (tok[1]);
      char *content = (char *) malloc (strlen (tok[2]) / 2 + 2);
      if (!pth)
        return 0;
      int len = unhex (tok[2], content, strlen (tok[2]) / 2 + 2);
      mkdirs_for (pth);
      FILE *f = fopen (pth, "wb");
      if (!f)
        {
          vh_out ("file-error %s", pth);
          return 1;
        }
      fwrite (content, 1, len, f);
      fclose (f);
      free (content);
      return 1;
    }
  if (!strcmp (tok[0], "mtime") && n == 3)
    {
      const char *pth = rel (tok[1]);
      if (!pth || set_vmtime (pth, atol (tok[2])) == -1)
        vh_out ("mtime-error %s", tok[1]);
      return 1;
    }
  if (!strcmp (tok[0], "now") && n == 2)
    {
      vnow = atol (tok[1]);
      if (VH_T0 + vnow > current_time)
        current_time = VH_T0 + vnow;	/* objects loaded from now on have this load time */
      return 1;
    }
  if (!strcmp (tok[0], "intern"))
    {
      /* intern <hex>...: shared strings to create, in this order, inside the next reload (after the family was
         destructed and the previous interned strings were released), so that the addresses the (re)loaded program
         sees are permuted */
      for (int i = 0; i < npending; i++)
        free (pending[i]);
      npending = 0;
      for (int i = 1; i < n && npending < MAXINT; i++)
        pending[npending++] = strdup (tok[i]);
      return 1;
    }
  if (!strcmp (tok[0], "restart"))
    {
      /* restart <family>...: a driver restart as far as binaries are concerned: nothing of the family stays loaded
         and init_binaries() samples the simul_efun file again */
      for (int i = 1; i < n; i++)
        safe_destruct (tok[i]);
      remove_destructed_objects ();
      init_binaries ();
      vh_out ("restarted %llu", (unsigned long long) (config_id >= VH_T0 && config_id < REAL_T ? config_id - VH_T0 : config_id));
      return 1;
    }
  if (!strcmp (tok[0], "corrupt") && n >= 4)
    {
      /* corrupt <prog.c> trunc <permille> | flip <permille> <xor byte>: damage the saved binary, keep its mtime
         (exploration of robustness: not part of the modelled histories) */
      char path[512];
      struct stat st;
      bin_path (path, sizeof path, tok[1]);
      if (stat (path, &st) == 0 && st.st_size > 0)
        {
          long size = (long) st.st_size, at = size * atol (tok[3]) / 1000;
          unsigned char *data = (unsigned char *) malloc (size);
          FILE *f = fopen (path, "rb");
          if (f && fread (data, 1, size, f) == (size_t) size)
            {
              fclose (f);
              if (at >= size)
                at = size - 1;
              if (!strcmp (tok[2], "trunc"))
                size = at;
              else if (n >= 5)
                data[at] ^= (unsigned char) (atoi (tok[4]) ? atoi (tok[4]) : 1);
              f = fopen (path, "wb");
              fwrite (data, 1, size, f);
              fclose (f);
              set_mtime (path, (long) st.st_mtime);
              vh_out ("corrupted %s", tok[1]);
            }
          else if (f)
            fclose (f);
          free (data);
        }
      else
        vh_out ("corrupt-nofile %s", tok[1]);
      return 1;
    }
  if ((!strcmp (tok[0], "foreign") || !strcmp (tok[0], "copybin")) && n == 3)
    {
      /* foreign <prog.c> magic|driver|config: the binary as another driver build / configuration would have written it
         (header field changed, checksum correct, mtime kept);  copybin <from.c> <to.c>: a binary moved to another name */
      char path[512], path2[512];
      struct stat st;
      int copy = tok[0][0] == 'c';
      bin_path (path, sizeof path, tok[1]);
      if (copy)
        bin_path (path2, sizeof path2, tok[2]);
      if (stat (path, &st) == 0 && st.st_size > 20)
        {
          long size = (long) st.st_size;
          unsigned char *data = (unsigned char *) malloc (size);
          FILE *f = fopen (path, "rb");
          if (f && fread (data, 1, size, f) == (size_t) size)
            {
              uint32_t h = 2166136261u;
              fclose (f);
              if (!copy)
                {
                  if (!strcmp (tok[2], "magic"))
                    data[0] ^= 1;
                  else if (!strcmp (tok[2], "driver"))
                    data[4] ^= 1;
                  else
                    data[8] ^= 1;
                  for (long k = 0; k < size - 4; k++)
                    {
                      h ^= data[k];
                      h *= 16777619u;
                    }
                  memcpy (data + size - 4, &h, 4);
                }
              mkdirs_for (copy ? path2 : path);
              f = fopen (copy ? path2 : path, "wb");
              fwrite (data, 1, size, f);
              fclose (f);
              set_mtime (copy ? path2 : path, (long) st.st_mtime);
              vh_out ("%s %s %s", tok[0], tok[1], tok[2]);
            }
          else if (f)
            fclose (f);
          free (data);
        }
      else
        vh_out ("%s-nofile %s", tok[0], tok[1]);
      return 1;
    }
  if (!strcmp (tok[0], "bindump") && n == 2)
    {
      /* bindump <object>: the bytes of the saved binary of a loaded program (in pieces: vh_out lines are short), then
         what the file must hold according to the program in memory.  The model decodes the bytes with its own reader
         (NV/C17/BinFile.lean) and must arrive at the same summary. */
      object_t *ob = find_object_by_name (tok[1]);
      char path[512], pn[300];
      static unsigned char data[200000];
      static char hex[6100];
      FILE *f;
      size_t size;
      snprintf (pn, sizeof pn, "%s.c", tok[1]);
      bin_path (path, sizeof path, pn);
      f = fopen (path, "rb");
      if (!ob || !ob->prog || !f)
        {
          vh_out ("bindump %s unavailable", tok[1]);
          if (f)
            fclose (f);
          return 1;
        }
      size = fread (data, 1, sizeof data, f);
      fclose (f);
      for (size_t at = 0; at < size; at += 3000)
        {
          size_t o = 0;
          for (size_t k2 = at; k2 < size && k2 < at + 3000; k2++)
            o += snprintf (hex + o, sizeof hex - o, "%02x", data[k2]);
          vh_out ("bin %s %s", tok[1], hex);
        }
      {
        program_t *p = ob->prog;
        char nm[700], inh[3000];
        uint64_t hs = 0, hv = 0, hf = 0;
        size_t o = 0;
        hexs (nm, sizeof nm, p->name);
        inh[0] = 0;
        for (int i = 0; i < (int) p->num_inherited; i++)
          {
            char one[700];
            hexs (one, sizeof one, p->inherit[i].prog->name);
            o += snprintf (inh + o, sizeof inh - o, "%s%s", i ? "," : "", one);
          }
        /* order-independent: the names may have been sorted again since the file was written */
        for (int i = 0; i < (int) p->num_strings; i++)
          hs += fnv ((unsigned char *) p->strings[i], strlen (p->strings[i]));
        for (int i = 0; i < (int) p->num_variables_defined; i++)
          hv += fnv ((unsigned char *) p->variable_table[i], strlen (p->variable_table[i]));
        for (int i = 0; i < (int) p->num_functions_defined; i++)
          hf += fnv ((unsigned char *) p->function_table[i].name, strlen (p->function_table[i].name));
        vh_out ("binsum %s size=%lu drv=%u cfg=%llu name=%s total=%d inh=%s str=%d:%llu var=%d:%llu fun=%d:%llu line=%d",
                tok[1], (unsigned long) size, driver_id, (unsigned long long) config_id, nm, p->total_size,
                p->num_inherited ? inh : "-", p->num_strings, (unsigned long long) hs, p->num_variables_defined,
                (unsigned long long) hv, p->num_functions_defined, (unsigned long long) hf,
                p->line_info ? (int) p->file_info[0] : 0);
      }
      return 1;
    }
  if (!strcmp (tok[0], "badload") && n == 2)
    {
      /* load something that does not compile (the master reports the error), then go on in the same process */
      object_t *ob = safe_load (tok[1]);
      vh_out ("badload %s %s", tok[1], ob ? "loaded" : "failed");
      return 1;
    }
  if (!strcmp (tok[0], "calls"))
    {
      /* calls <fn>[:arg[:arg]]...  functions applied on the top object after every reload */
      for (int i = 0; i < ncalls; i++)
        free (calls[i]);
      ncalls = 0;
      for (int i = 1; i < n && ncalls < MAXCALL; i++)
        calls[ncalls++] = strdup (tok[i]);
      return 1;
    }
  if ((!strcmp (tok[0], "reload") || !strcmp (tok[0], "reloadp") || !strcmp (tok[0], "reloadf")) && n >= 2)
    {
      /* reloadf: the reference - what the CURRENT sources compile to: the same reload in a process of its own with
         binaries neither read nor written; nothing of it comes back but its output */
      int reference = tok[0][6] == 'f';
      int fresh_process = tok[0][6] == 'p' || reference;
      int report_fd = -1;
      /* reload <top> <family>...: destruct the whole family, load <top>, dump every loaded family member, run calls */
      object_t *top;
      if (!cleaned)
        {
          vh_out ("badcase reload-before-clean");
          return 1;
        }
      reload_no++;
      if (fresh_process)
        {
          /* reloadp: the whole reload runs in a process forked from this one, which never loaded or interned anything
             of the family: a new driver process as far as string addresses and loaded programs are concerned.  Only
             the files it wrote and the virtual clock come back. */
          int pfd[2];
          pid_t pid;
          fflush (stderr);
          if (pipe (pfd) == -1 || (pid = fork ()) == -1)
            {
              vh_out ("fork-failed");
              return 1;
            }
          if (pid != 0)
            {
              int status = 0;
              long v = vnow;
              close (pfd[1]);
              if (read (pfd[0], &v, sizeof v) == (ssize_t) sizeof v)
                vnow = v;
              close (pfd[0]);
              waitpid (pid, &status, 0);
              if (WIFSIGNALED (status))
                vh_out ("crash signal %d in reload process", WTERMSIG (status));
              else if (WIFEXITED (status) && WEXITSTATUS (status) != 0)
                {
                  /* let the case end like a crash of the driver: the sanitizer report is already in the log */
                  fflush (stderr);
                  _exit (WEXITSTATUS (status));
                }
              return 1;
            }
          close (pfd[0]);
          report_fd = pfd[1];
          no_binaries = reference;
        }
      vh_out ("begin %d", reload_no);
      /* the programs named after a `|` stay loaded as they are (they are only dumped) */
      for (int i = 1; i < n && strcmp (tok[i], "|"); i++)
        safe_destruct (tok[i]);
      remove_destructed_objects ();
      reintern ();
      top = safe_load (tok[1]);
      if (!top)
        vh_out ("loadfail %s", tok[1]);
      for (int i = 1; i < n; i++)
        {
          object_t *ob = strcmp (tok[i], "|") ? find_object_by_name (tok[i]) : 0;
          if (ob && ob->prog)
            dump_prog (tok[i], ob->prog);
        }
      if (top && !(top->flags & O_DESTRUCTED))
        for (int i = 0; i < ncalls; i++)
          {
            char c[1400], res[4096];
            char *a[8];
            int na = 0;
            snprintf (c, sizeof c, "%s", calls[i]);
            char *fn = c;
            for (char *q = c; *q; q++)
              if (*q == ':' && na < 8)
                {
                  *q = 0;
                  a[na++] = q + 1;
                }
            static char dec[8][600];
            for (int k = 0; k < na; k++)
              if (a[k][0] == '%')	/* %<hex>: an argument with spaces or colons */
                {
                  unhex (a[k] + 1, dec[k], sizeof dec[k]);
                  a[k] = dec[k];
                }
            int rc = vh_apply_str (top, fn, na, a, res, sizeof res);
            vh_out ("R %s %s", calls[i], rc == 1 ? "!err" : rc == 2 ? "!nofn" : res);
            if (top->flags & O_DESTRUCTED)
              break;
          }
      vh_out ("end %d", reload_no);
      if (fresh_process)
        {
          long v = vnow;
          fflush (stderr);
          if (write (report_fd, &v, sizeof v) != (ssize_t) sizeof v)
            _exit (3);
          _exit (0);
        }
      return 1;
    }
  return 0;
}

/* ---- unit-style commands ------------------------------------------------------- */
static int csv_ints (const char *s, long long *out, int max)
{
  int n = 0;
  if (!strcmp (s, "-") || !*s)
    return 0;
  while (*s && n < max)
    {
      char *e;
      out[n++] = strtoll (s, &e, 0);
      s = e;
      if (*s == ',')
        s++;
      else
        break;
    }
  return n;
}

static const char *kv (char **tok, int n, const char *key)
{
  size_t l = strlen (key);
  for (int i = 1; i < n; i++)
    if (!strncmp (tok[i], key, l) && tok[i][l] == '=')
      return tok[i] + l + 1;
  return "-";
}

#define UMAX 600
static int uq_m;
static const char *uq_c;
static int uq_compar (void *x, void *y)
{
  int a, b;
  char r;
  memcpy (&a, x, 4);
  memcpy (&b, y, 4);
  r = uq_c[a * uq_m + b];
  return r == '-' ? -1 : r == '+' ? 1 : 0;
}

static int unit_cmd (char *line)
{
  static char copy[70000];
  char *tok[40];
  int n;
  if (strlen (line) >= sizeof copy)
    return 0;
  strcpy (copy, line);
  n = vh_split (copy, tok, 40);
  if (!n)
    return 1;
  if (!strcmp (tok[0], "usort"))
    {
      /* usort k=<name keys> h=<index of the '#' function|-1> fl=<flags per runtime index> of=<f_index per slot>
         fd= fo= nc= nd= ix=<index bytes> ts=<type_start|-> : the real sort_function_table on a synthetic program */
      static long long k[UMAX], fl[UMAX], of[UMAX], ix[UMAX], ts[UMAX];
      int nk = csv_ints (kv (tok, n, "k"), k, UMAX), nfl = csv_ints (kv (tok, n, "fl"), fl, UMAX);
      int nof = csv_ints (kv (tok, n, "of"), of, UMAX), nix = csv_ints (kv (tok, n, "ix"), ix, UMAX);
      int nts = csv_ints (kv (tok, n, "ts"), ts, UMAX);
      int h = atoi (kv (tok, n, "h"));
      long long maxk = 0;
      char out[8000];
      size_t o;
      program_t *p = (program_t *) calloc (1, sizeof (program_t));
      for (int i = 0; i < nk; i++)
        if (k[i] > maxk)
          maxk = k[i];
      char *arena = (char *) calloc (maxk + 2, 1);
      p->num_functions_defined = nk;
      p->num_functions_total = nfl;
      p->function_table = (compiler_function_t *) calloc (nk + 1, sizeof (compiler_function_t));
      p->function_flags = (unsigned short *) calloc (nfl + 1, sizeof (short));
      p->function_offsets = (runtime_function_u *) calloc (nof + 1, sizeof (runtime_function_u));
      p->function_compressed = (compressed_offset_table_t *) calloc (1, sizeof (compressed_offset_table_t) + nix + 1);
      for (int i = 0; i < nk; i++)
        {
          arena[k[i]] = (i == h) ? '#' : 'f';
          p->function_table[i].name = arena + k[i];
          p->function_table[i].address = i;	/* identity tag of the entry */
          p->function_table[i].runtime_index = i;
        }
      for (int i = 0; i < nfl; i++)
        p->function_flags[i] = (unsigned short) fl[i];
      for (int i = 0; i < nof; i++)
        p->function_offsets[i].def.f_index = (unsigned short) of[i];
      p->function_compressed->first_defined = atoi (kv (tok, n, "fd"));
      p->function_compressed->first_overload = atoi (kv (tok, n, "fo"));
      p->function_compressed->num_compressed = atoi (kv (tok, n, "nc"));
      p->function_compressed->num_deleted = atoi (kv (tok, n, "nd"));
      for (int i = 0; i < nix; i++)
        p->function_compressed->index[i] = (unsigned char) ix[i];
      if (nts)
        {
          p->type_start = (unsigned short *) calloc (nts + 1, sizeof (short));
          for (int i = 0; i < nts; i++)
            p->type_start[i] = (unsigned short) ts[i];
        }
      sort_function_table (p);
      o = 0;
      out[0] = 0;
      for (int i = 0; i < nk; i++)
        o += snprintf (out + o, sizeof out - o, "%s%d", i ? "," : "", p->function_table[i].address);
      vh_out ("ft %s", nk ? out : "-");
      o = 0;
      out[0] = 0;
      for (int i = 0; i < nof; i++)
        o += snprintf (out + o, sizeof out - o, "%s%d", i ? "," : "", p->function_offsets[i].def.f_index);
      vh_out ("of %s", nof ? out : "-");
      o = 0;
      out[0] = 0;
      for (int i = 0; i < nts; i++)
        o += snprintf (out + o, sizeof out - o, "%s%d", i ? "," : "", p->type_start[i]);
      vh_out ("ts %s", nts ? out : "-");
      return 1;
    }
  if (!strcmp (tok[0], "ureloc"))
    {
      /* ureloc size=<bytes> f=<13 field offsets, 0 = NULL pointer>: locate_out at one address, copy, locate_in at
         another; prints the field offsets relative to the new block (null for NULL) */
      long long f[16];
      int nf = csv_ints (kv (tok, n, "f"), f, 16);
      int size = atoi (kv (tok, n, "size"));
      if (nf != 13 || size < (int) sizeof (program_t))
        return 0;
      char *b1 = (char *) calloc (size, 1), *b2 = (char *) calloc (size, 1);
      program_t *p = (program_t *) b1, *q = (program_t *) b2;
      char **fld1[13] = { (char **) &p->program, (char **) &p->function_table, (char **) &p->function_flags,
        (char **) &p->function_offsets, (char **) &p->function_compressed, (char **) &p->strings,
        (char **) &p->variable_table, (char **) &p->variable_types, (char **) &p->inherit, (char **) &p->classes,
        (char **) &p->class_members, (char **) &p->argument_types, (char **) &p->type_start
      };
      char **fld2[13] = { (char **) &q->program, (char **) &q->function_table, (char **) &q->function_flags,
        (char **) &q->function_offsets, (char **) &q->function_compressed, (char **) &q->strings,
        (char **) &q->variable_table, (char **) &q->variable_types, (char **) &q->inherit, (char **) &q->classes,
        (char **) &q->class_members, (char **) &q->argument_types, (char **) &q->type_start
      };
      char out[1024];
      size_t o = 0;
      for (int i = 0; i < 13; i++)
        *fld1[i] = f[i] ? b1 + f[i] : 0;
      locate_out (p);
      memcpy (b2, b1, size);
      locate_in (p);
      for (int i = 0; i < 13; i++)
        if (*fld1[i] != (f[i] ? b1 + f[i] : 0))
          vh_out ("reloc-not-restored %d", i);
      locate_in (q);
      for (int i = 0; i < 13; i++)
        {
          if (!*fld2[i])
            o += snprintf (out + o, sizeof out - o, "%snull", i ? "," : "");
          else if (*fld2[i] < b2 || *fld2[i] >= b2 + size)
            o += snprintf (out + o, sizeof out - o, "%swild", i ? "," : "");	/* not inside the loaded block */
          else
            o += snprintf (out + o, sizeof out - o, "%s%lld", i ? "," : "", (long long) (*fld2[i] - b2));
        }
      vh_out ("reloc %s", out);
      return 1;
    }
  if (!strcmp (tok[0], "upatch"))
    {
      /* upatch pad=<bytes before the first switch> sp=<fake string pointers> sw=<idx:addr,...>;<idx:addr,...>...
         a synthetic program whose string switch tables hold string-table indices (as written by patch_out); runs the
         real patch_in and prints every table afterwards as idx:addr in table order */
      static long long sp[UMAX];
      int nsp = csv_ints (kv (tok, n, "sp"), sp, UMAX);
      int pad = atoi (kv (tok, n, "pad"));
      char swspec[60000];
      snprintf (swspec, sizeof swspec, "%s", kv (tok, n, "sw"));
      /* parse tables */
      static long long ent[20][UMAX][2];
      int nent[20], nsw = 0;
      for (char *t = strtok (swspec, ";"); t && nsw < 20; t = strtok (0, ";"))
        {
          int c = 0;
          char *s = t;
          while (*s && c < UMAX && strcmp (t, "-"))
            {
              char *e;
              ent[nsw][c][0] = strtoll (s, &e, 0);
              s = e + 1;
              ent[nsw][c][1] = strtoll (s, &e, 0);
              c++;
              s = e;
              if (*s == ',')
                s++;
              else
                break;
            }
          nent[nsw++] = c;
        }
      int size = pad + nsw * 8 + 1;
      int tstart[20];
      for (int k2 = 0; k2 < nsw; k2++)
        {
          tstart[k2] = size;
          size += nent[k2] * SWITCH_CASE_SIZE;
        }
      if (size > 65535)
        return 0;
      program_t *p = (program_t *) calloc (1, sizeof (program_t));
      p->program = (char *) calloc (size + 1, 1);
      p->program_size = size;
      p->num_strings = nsp;
      p->strings = (char **) calloc (nsp + 1, sizeof (char *));
      for (int i = 0; i < nsp; i++)
        p->strings[i] = (char *) (uintptr_t) sp[i];
      short *patches = (short *) calloc (nsw + 1, sizeof (short));
      for (int k2 = 0; k2 < nsw; k2++)
        {
          int at = pad + k2 * 8;
          unsigned short st = tstart[k2], en = tstart[k2] + nent[k2] * SWITCH_CASE_SIZE, df = 0;
          int pw = 0;
          while ((2 << pw) <= nent[k2])
            pw++;
          p->program[at] = F_SWITCH;
          p->program[at + 1] = (char) (pw * 0x10 + 0x0f);
          memcpy (p->program + at + 2, &st, 2);
          memcpy (p->program + at + 4, &en, 2);
          memcpy (p->program + at + 6, &df, 2);
          for (int e = 0; e < nent[k2]; e++)
            {
              intptr_t v = (intptr_t) ent[k2][e][0];
              unsigned short a = (unsigned short) ent[k2][e][1];
              memcpy (p->program + st + e * SWITCH_CASE_SIZE, &v, sizeof v);
              memcpy (p->program + st + e * SWITCH_CASE_SIZE + sizeof v, &a, 2);
            }
          patches[k2] = (short) at;
        }
      patch_in (p, patches, nsw);
      for (int k2 = 0; k2 < nsw; k2++)
        {
          char out[30000];
          size_t o = 0;
          out[0] = 0;
          for (int e = 0; e < nent[k2]; e++)
            {
              uintptr_t v;
              unsigned short a;
              long long idx = -2;
              memcpy (&v, p->program + tstart[k2] + e * SWITCH_CASE_SIZE, sizeof v);
              memcpy (&a, p->program + tstart[k2] + e * SWITCH_CASE_SIZE + sizeof v, 2);
              if (!v)
                idx = -1;
              else
                for (int q = 0; q < nsp; q++)
                  if ((uintptr_t) sp[q] == v)
                    {
                      idx = q;
                      break;
                    }
              if (idx == -2)
                idx = (long long) v;	/* still an index: the table was not patched */
              o += snprintf (out + o, sizeof out - o, "%s%lld:%d", e ? "," : "", idx, a);
            }
          vh_out ("sw %d %s", k2, nent[k2] ? out : "-");
        }
      return 1;
    }
  if (!strcmp (tok[0], "uqsort"))
    {
      /* uqsort sz=<4|8|10> m=<domain> v=<values in 0..m-1> c=<m*m characters - 0 +, row major: compar (x, y)>
         the real quickSort (lib/misc/qsort.c) on elements of sz bytes: an int value followed by sz-4 bytes that all
         hold the element's original position; the comparison function is the table (it need not be an order) */
      static long long v[UMAX];
      int nv = csv_ints (kv (tok, n, "v"), v, UMAX);
      int sz = atoi (kv (tok, n, "sz")), m = atoi (kv (tok, n, "m"));
      const char *c = kv (tok, n, "c");
      char out[8000];
      size_t o = 0;
      if ((sz != 4 && sz != 8 && sz != 10) || m < 1 || m > 30 || (int) strlen (c) != m * m || nv > 250)
        return 0;
      for (int i = 0; i < nv; i++)
        if (v[i] < 0 || v[i] >= m)
          return 0;
      uq_m = m;
      uq_c = c;
      /* the block is exactly nv * sz bytes: ASan reports any access outside it */
      unsigned char *blk = (unsigned char *) malloc (nv * sz ? nv * sz : 1);
      for (int i = 0; i < nv; i++)
        {
          int val = (int) v[i];
          memcpy (blk + i * sz, &val, 4);
          memset (blk + i * sz + 4, i, sz - 4);
        }
      quickSort (blk, nv, sz, uq_compar);
      out[0] = 0;
      for (int i = 0; i < nv; i++)
        {
          int val, torn = 0;
          memcpy (&val, blk + i * sz, 4);
          for (int k2 = 5; k2 < sz; k2++)
            if (blk[i * sz + k2] != blk[i * sz + 4])
              torn = 1;
          if (torn)
            o += snprintf (out + o, sizeof out - o, "%storn", i ? "," : "");
          else if (sz > 4)
            o += snprintf (out + o, sizeof out - o, "%s%d:%d", i ? "," : "", val, blk[i * sz + 4]);
          else
            o += snprintf (out + o, sizeof out - o, "%s%d", i ? "," : "", val);
        }
      vh_out ("qs %s", nv ? out : "-");
      free (blk);
      return 1;
    }
  if (!strcmp (tok[0], "utimes") && n == 4)
    {
      /* utimes <binary mtime> <file mtime|none> <path>: the real check_times against a real file */
      const char *pth = rel (tok[3]);
      if (!pth)
        return 0;
      unlink (pth);
      if (strcmp (tok[2], "none"))
        {
          mkdirs_for (pth);
          FILE *f = fopen (pth, "w");
          if (f)
            fclose (f);
          set_mtime (pth, atol (tok[2]));
        }
      vh_out ("times %d", check_times ((time_t) atol (tok[1]), pth));
      unlink (pth);
      return 1;
    }
  return 0;
}

static int c17_cmd (char *line)
{
  if (line[0] == 'u')
    return unit_cmd (line);
  if (!strncmp (line, "prog ", 5) || !strncmp (line, "expect ", 7) || !strncmp (line, "incsearch ", 10))
    return 1;			/* dependency declaration: used by the model and the judge only */
  return sys_cmd (line);
}

int main (int argc, char **argv)
{
  return vh_main (argc, argv, c17_cmd);
}
