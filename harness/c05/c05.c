/* C05 harness: fault injection at every instruction of an evaluation (hook H2) and register snapshots.
 *
 * commands (besides the generic ones of vh.c):
 *   src <path> <hex>            write an LPC source file below the (scratch) mudlib
 *   user <oid>                  make the object interactive (create_test_interactive) - needed by input_to
 *   maxdepth <n>                MaxCallDepth = n for this case (4..50)
 *   setcg <oid|0>               command_giver = object (harness level, persists)
 *   snap                        print the register snapshot
 *   probe                       run the fixed probe evaluation (apply "probe" in object `probe`)
 *   input <oid> <text>          what the backend does with a pending input_to: call_function_interactive()
 *                               inside a driver-level error context
 *   injectsafe <oid> <fn> <n>   like inject, but the evaluation is the driver's safe_apply(fn, ob, n) with n pushed numbers
 *   injectbe cmd|hb|reset|cleanup
 *                               like inject, but the evaluation is ONE CYCLE OF THE REAL backend() (src/backend.c): a command
 *                               line of user u1 taken by process_user_command() (-> u1::process_input -> t::run), the
 *                               heart_beat() of object t run by call_heart_beat(), or reset() / clean_up() of t run by
 *                               look_for_objects_to_swap().  do_comm_polling() is wrapped at link level: each call is the poll
 *                               point of a cycle, where the scripted event happens and the registers are snapshotted; the
 *                               recovery is the backend's own setjmp/restore_context (cmd, hb) or the sweep's (reset, cleanup).
 *   inject <oid> <fn> [<reg> <oid>]
 *        N = number of instructions of the fault-free evaluation  <oid>-><fn>()  (preceded by <oid>->prep()).
 *        Then for every k in 1..N: prep, snapshot, evaluation with the fault raised at instruction k inside a
 *        harness-level error context (exactly the save_context/setjmp/restore_context/pop_context sequence
 *        the driver uses), snapshot, probe.  With `<reg> <oid>` the register (co|po) is changed between
 *        save_context and the apply (a "setReg" site).
 *        Output:  base <snapshot>            registers before the first evaluation
 *                 free <outcome>             the fault-free evaluation
 *                 outcome <outcome>          one line per DISTINCT outcome over all k (sorted)
 *                 shape <frames>|<ctx>       one line per DISTINCT control-stack shape at the fault (sorted)
 *                 info ...                   not canonical (instruction count, first k of every outcome)
 *        outcome = VL lines of the LPC code ; result ; after=<snapshot> ; probe=<VL lines of the probe>
 */
#include "vh.h"
#include <unistd.h>
#include <fcntl.h>
#include <sys/stat.h>
#include "src/interpret.h"
#include "lib/efuns/call_out.h"
#include "lpc/functional.h"
#include "simul_efun.h"
#include "src/main.h"
#include "src/backend.h"
#include "rc.h"

extern long verif_fault_countdown;
extern unsigned long verif_instruction_count;
extern void (*verif_fault_hook) (void);
extern error_context_t *verif_error_context_head (void);
extern int verif_error_context_depth (void);
extern interactive_t *create_test_interactive (object_t * ob);
extern int call_function_interactive (interactive_t * i, char *str);
extern void remove_destructed_objects (void);
extern int verif_load_object_depth (void);
extern object_t *verif_restrict_destruct (void);
extern int verif_command_giver_stack_depth (void);
extern int num_varargs;
extern void reset_load_object_limits (void);
extern void reset_destruct_object_limits (void);

extern int (*verif_backend_cycle_hook) (void);

/* virtual clock: call_heart_beat() does `time (&current_time)`.  The clock only moves when a backend case asks for it
   (reset / clean_up sweeps are due every 15 minutes of driver time). */
static long clock_advance = 0;
time_t time (time_t * t)
{
  time_t v = current_time + clock_advance;
  clock_advance = 0;
  if (t)
    *t = v;
  return v;
}

static const char *be_kind = 0;	/* non-null: the evaluation is one cycle of the real backend() */
static long c05_maxk = 0;	/* 0 = all k */
static funptr_t *safe_fp = 0;	/* non-null: the evaluation is safe_call_function_pointer() */
static int safe_nargs = -1;	/* >= 0: the evaluation is safe_apply() from driver level with that many arguments */

static const char *oname (object_t * ob)
{
  const char *s;
  if (!ob)
    return "0";
  if (ob == master_ob)
    return "master";
  s = vh_oid_of (ob);
  if (s[0] == '?')
    return (ob->flags & O_DESTRUCTED) ? "dested" : "other";
  return s;
}

/* names of the two vital objects: "ok" = the name it had when the case started, "blank" = the empty string */
static char *vital_name0[2];
static const char *vital_name (object_t * ob, int which)
{
  if (!ob || !ob->name)
    return "none";
  if (!vital_name0[which])
    vital_name0[which] = strdup (ob->name);
  if (!ob->name[0])
    return "blank";
  return strcmp (ob->name, vital_name0[which]) ? "other" : "ok";
}

static void snapshot (char *buf, size_t n)
{
  snprintf (buf, n, "sp=%ld csp=%ld cg=%s co=%s po=%s prog=%s ct=%d fp=%ld pc=%s fio=%d vio=%d ctx=%d ld=%d rd=%s cgs=%d qv=%s nva=%d mn=%s sn=%s",
            (long) (sp - start_of_stack), (long) (csp - control_stack), oname (command_giver), oname (current_object),
            oname (previous_ob), current_prog ? current_prog->name : "0", caller_type,
            fp ? (long) (fp - start_of_stack) : -1L, pc ? "set" : "null", function_index_offset, variable_index_offset,
            verif_error_context_depth (), verif_load_object_depth (), oname (verif_restrict_destruct ()),
            verif_command_giver_stack_depth (), last_verb ? "set" : "0", num_varargs, vital_name (master_ob, 0), vital_name (simul_efun_ob, 1));
}

/* ---- capture of the VL lines written to stderr (a regular file in the case child) ---------------- */
static int rfd = -1;
static off_t mark_off;

static void cap_begin (void)
{
  fflush (stderr);
  if (rfd < 0)
    rfd = open ("/proc/self/fd/2", O_RDONLY);
  mark_off = lseek (2, 0, SEEK_END);
}

/* appends the VL lines written since cap_begin to out, separated by " ; "; removes them from the file */
static void cap_end (char *out, size_t n)
{
  static char buf[262144];
  ssize_t got;
  size_t len = strlen (out);
  fflush (stderr);
  got = pread (rfd, buf, sizeof buf - 1, mark_off);
  if (got < 0)
    got = 0;
  buf[got] = 0;
  for (char *line = buf; line && *line;)
    {
      char *nl = strchr (line, '\n');
      if (nl)
        *nl = 0;
      if (!strncmp (line, "VL ", 3))
        {
          char *e = line + strlen (line);
          while (e > line + 3 && e[-1] == ' ')
            *--e = 0;
          len += snprintf (out + len, len < n ? n - len : 0, "%s%s", len ? " ; " : "", line + 3);
          if (len >= n)
            len = n - 1;
        }
      line = nl ? nl + 1 : 0;
    }
  if (ftruncate (2, mark_off) == 0)
    lseek (2, mark_off, SEEK_SET);
}

/* ---- shape of the control stack at the fault --------------------------------------------------- */
static char shape_now[1024];
static int base_ctx;

static void fault_hook (void)
{
  size_t len = 0;
  shape_now[0] = 0;
  for (control_stack_t * c = control_stack; c <= csp && len < sizeof shape_now - 8; c++)
    {
      static const char k[] = "FPCK";
      shape_now[len++] = k[c->framekind & FRAME_MASK];
    }
  /* (a backend case runs below a harness-level context, which is not part of the evaluation) */
  snprintf (shape_now + len, sizeof shape_now - len, "|%d", verif_error_context_depth () - base_ctx - (be_kind ? 1 : 0));
}

/* ---- string sets ----------------------------------------------------------------------------- */
typedef struct { char **v; long *first; int n, cap; } sset_t;

static void sset_add (sset_t * s, const char *x, long k)
{
  for (int i = 0; i < s->n; i++)
    if (!strcmp (s->v[i], x))
      return;
  if (s->n == s->cap)
    {
      s->cap = s->cap ? s->cap * 2 : 16;
      s->v = (char **) realloc (s->v, sizeof (char *) * s->cap);
      s->first = (long *) realloc (s->first, sizeof (long) * s->cap);
    }
  s->first[s->n] = k;
  s->v[s->n++] = strdup (x);
}

static void sset_print (sset_t * s, const char *tag)
{
  /* insertion sort by string, carrying first-k */
  for (int i = 1; i < s->n; i++)
    for (int j = i; j > 0 && strcmp (s->v[j - 1], s->v[j]) > 0; j--)
      {
        char *t = s->v[j];
        long f = s->first[j];
        s->v[j] = s->v[j - 1];
        s->first[j] = s->first[j - 1];
        s->v[j - 1] = t;
        s->first[j - 1] = f;
      }
  for (int i = 0; i < s->n; i++)
    vh_out ("%s %s", tag, s->v[i]);
  for (int i = 0; i < s->n; i++)
    vh_out ("info first-k %s#%d %ld", tag, i, s->first[i]);
}

/* ---- probe ------------------------------------------------------------------------------------- */
static void run_probe (char *out, size_t n)
{
  object_t *p = vh_obj ("probe");
  out[0] = 0;
  if (!p || (p->flags & O_DESTRUCTED))
    {
      snprintf (out, n, "noprobe");
      return;
    }
  cap_begin ();
  int rc = vh_apply_str (p, "probe", 0, 0, 0, 0);
  cap_end (out, n);
  if (rc)
    {
      size_t len = strlen (out);
      snprintf (out + len, n - len, "%s!probe-rc%d", len ? " ; " : "", rc);
    }
}

/* put the machine back to the base state when an evaluation left it changed, so that the next k starts clean */
static svalue_t *base_sp;
static control_stack_t *base_csp;
static object_t *base_cg, *base_co, *base_po;
static program_t *base_prog;
static error_context_t *base_head;

static void remember_base (void)
{
  base_sp = sp;
  base_csp = csp;
  base_cg = command_giver;
  base_co = current_object;
  base_po = previous_ob;
  base_prog = current_prog;
  base_head = verif_error_context_head ();
  base_ctx = verif_error_context_depth ();
}

static int renormalise (void)
{
  int changed = 0;
  if (sp != base_sp || csp != base_csp || command_giver != base_cg || current_object != base_co
      || previous_ob != base_po || current_prog != base_prog)
    changed = 1;
  while (sp > base_sp)
    pop_stack ();
  sp = base_sp;
  csp = base_csp;
  command_giver = base_cg;
  current_object = base_co;
  previous_ob = base_po;
  current_prog = base_prog;
  num_varargs = 0;		/* (interpreter scratch state, printed by the snapshot taken just before) */
  return changed;
}

/* side state installed by earlier evaluations of the same case is removed before the next k */
static void reset_side (void)
{
  if (all_users)
    for (int i = 0; i < max_users; i++)
      if (all_users[i] && all_users[i]->input_to)
        {
          free_sentence (all_users[i]->input_to);
          all_users[i]->input_to = 0;
          all_users[i]->iflags &= ~(NOECHO | NOESC | SINGLE_CHAR);
        }
}

/* ---- one cycle of the real backend() ------------------------------------------------------------ */
static int be_polls;		/* poll points seen in this backend() run */
static int be_completed;	/* the scripted cycle reached its end (the cycle hook ran) */
static long be_k;
static volatile unsigned long be_count;
static char be_loop_snap[512];

/* the snapshot at the poll point of the cycle AFTER the scripted one, i.e. inside the loop, after the backend's own
   recovery: the chain holds the harness context and the backend's context, which are taken off the printed depth */
static void be_snapshot (void)
{
  char raw[512], *c;
  snapshot (raw, sizeof raw);
  c = strstr (raw, " ctx=");
  if (c)
    {
      int d = atoi (c + 5);
      char tail[256];
      char *sp2 = strchr (c + 1, ' ');
      snprintf (tail, sizeof tail, "%s", sp2 ? sp2 : "");
      snprintf (c, sizeof raw - (c - raw), " ctx=%d%s", d - 2, tail);
    }
  snprintf (be_loop_snap, sizeof be_loop_snap, "%s", raw);
}

int __wrap_do_comm_polling (struct timeval *timeout)
{
  object_t *t = vh_obj ("t"), *u = vh_obj ("u1");
  (void) timeout;
  be_polls++;
  if (be_polls == 1 && be_kind)
    {
      /* the scripted event of this cycle */
      if (!strcmp (be_kind, "cmd") && u && u->interactive)
        {
          interactive_t *ip = u->interactive;
          memcpy (ip->text, "go", 3);
          ip->text_start = 0;
          ip->text_end = 3;
          ip->iflags |= CMD_IN_BUF | HAS_CMD_TURN | HAS_PROCESS_INPUT;
          if (!ip->prompt)
            ip->prompt = "";
        }
      else
        {
          /* timer tick, exactly what heartbeat_timer_callback() does */
          heart_beat_flag = 1;
          MAIN_OPTION (timer_flags) = !strcmp (be_kind, "hb") ? TIMER_FLAG_HEARTBEAT : TIMER_FLAG_RESET;
          if (t && !strcmp (be_kind, "reset"))
            {
              t->next_reset = current_time - 1;
              t->flags |= O_WILL_RESET;
              t->flags &= ~(O_RESET_STATE | O_WILL_CLEAN_UP);
            }
          else if (t && !strcmp (be_kind, "cleanup"))
            {
              t->time_of_ref = current_time - CONFIG_INT (__TIME_TO_CLEAN_UP__) - 10;
              t->flags |= O_WILL_CLEAN_UP | O_RESET_STATE;
              /* (a failing clean_up() leaves O_RESET_STATE cleared, and the restarted sweep would call a reset() that is
                 due by then: only clean_up() is the evaluation under test here) */
              t->flags &= ~O_WILL_RESET;
            }
        }
      eval_cost = CONFIG_INT (__MAX_EVAL_COST__);
      verif_instruction_count = 0;
      verif_fault_countdown = be_k;
    }
  else if (be_polls == 2)
    {
      verif_fault_countdown = 0;
      be_count = verif_instruction_count;
      be_snapshot ();
    }
  return 0;
}

static int be_cycle_hook (void)
{
  if (be_polls == 1)
    be_completed = 1;
  return be_polls >= 2;
}

static void run_backend_cycle (long k)
{
  object_t *t = vh_obj ("t");
  be_polls = 0;
  be_completed = 0;
  be_k = k;
  be_count = 0;
  be_loop_snap[0] = 0;
  external_port[0].port = 0;	/* no listening socket */
  MAIN_OPTION (console_mode) = 0;
  MAIN_OPTION (timer_flags) = 0;	/* no timer thread; the start-up call_heart_beat() only reads the clock */
  heart_beat_flag = 0;
  if (t)
    t->flags |= O_RESET_STATE;
  /* the sweep of look_for_objects_to_swap() is due every 15 minutes of driver time */
  clock_advance = (!strcmp (be_kind, "reset") || !strcmp (be_kind, "cleanup")) ? 1000 : 0;
  verif_backend_cycle_hook = be_cycle_hook;
  backend ();
  verif_backend_cycle_hook = 0;
  MAIN_OPTION (timer_flags) = 0;
}

/* one evaluation of ob->fn() with the fault at instruction k (0 = none); outcome text into out */
static unsigned long evaluate_k (object_t * ob, const char *fn, long k, const char *reg, object_t * regval, char *out,
                                 size_t n)
{
  error_context_t econ;
  char snap[512], probe[4096], res[1024], val[128];
  volatile unsigned long count = 0;
  char *shared = make_shared_string (fn);
  svalue_t *ret;

  vh_apply_str (ob, "prep", 0, 0, 0, 0);
  remove_destructed_objects ();
  if (k >= 0)
    reset_side ();
  out[0] = 0;
  shape_now[0] = 0;
  cap_begin ();
  if (!save_context (&econ))
    snprintf (res, sizeof res, "too-deep");
  else
    {
      if (reg && !strcmp (reg, "co"))
        current_object = regval;
      else if (reg && !strcmp (reg, "po"))
        previous_ob = regval;
      if (!setjmp (econ.context))
        {
          eval_cost = CONFIG_INT (__MAX_EVAL_COST__);
          verif_instruction_count = 0;
          verif_fault_countdown = k;
          if (be_kind)
            {
              /* one cycle of the real backend(): its own save_context / setjmp / restore_context / pop_context */
              run_backend_cycle (k);
              verif_fault_countdown = 0;
              count = be_count;
              snprintf (res, sizeof res, "%s ; loop %s", be_completed ? "done be" : "fault-top", be_loop_snap);
            }
          else if (safe_nargs >= 0 && safe_fp)
            {
              /* the driver's other safe entry (socket callbacks): safe_call_function_pointer() */
              for (int i = 0; i < safe_nargs; i++)
                push_number (i + 1);
              (void) safe_call_function_pointer (safe_fp, safe_nargs);
              verif_fault_countdown = 0;
              count = verif_instruction_count;
              snprintf (res, sizeof res, "done co");
            }
          else if (safe_nargs >= 0)
            {
              /* what the driver's C callers do (window_size, resolve callbacks, ed, master applies): push the
                 arguments, safe_apply(); the value it returns is not used */
              for (int i = 0; i < safe_nargs; i++)
                push_number (i + 1);
              (void) safe_apply (shared, ob, safe_nargs, ORIGIN_DRIVER);
              verif_fault_countdown = 0;
              count = verif_instruction_count;
              snprintf (res, sizeof res, "done co");
            }
          else if (!strcmp (fn, "<call_out>"))
            {
              /* the backend's timer tick: the real call_out() of lib/efuns/call_out.c with its own recovery point */
              current_time += 2;
              call_out ();
              verif_fault_countdown = 0;
              count = verif_instruction_count;
              snprintf (res, sizeof res, "done co");
            }
          else
            {
              ret = apply (shared, ob, 0, ORIGIN_DRIVER);
              verif_fault_countdown = 0;
              count = verif_instruction_count;
              if (ret)
                vh_sv (val, sizeof val, ret);
              else
                snprintf (val, sizeof val, "!nofn");
              snprintf (res, sizeof res, "done %s", val);
            }
          pop_context (&econ);
        }
      else
        {
          verif_fault_countdown = 0;
          count = verif_instruction_count;
          restore_context (&econ);
          pop_context (&econ);
          snprintf (res, sizeof res, "fault-top");
        }
    }
  cap_end (out, n);
  free_string (shared);
  snapshot (snap, sizeof snap);
  int same_head = verif_error_context_head () == base_head;
  int changed = renormalise ();
  run_probe (probe, sizeof probe);
  reset_load_object_limits ();
  reset_destruct_object_limits ();
  size_t len = strlen (out);
  snprintf (out + len, len < n ? n - len : 0, "%s%s ; after=%s%s%s ; probe=%s", len ? " ; " : "", res, snap,
            same_head ? "" : " head-differs", changed ? "" : "", probe);
  return count;
}

static int hexval (int c)
{
  if (c >= '0' && c <= '9')
    return c - '0';
  if (c >= 'a' && c <= 'f')
    return c - 'a' + 10;
  if (c >= 'A' && c <= 'F')
    return c - 'A' + 10;
  return -1;
}

static int c05_cmd (char *line)
{
  char copy[8192];
  char *tok[16];
  int n;
  static int file_checked = 0;

  if (!file_checked)
    {
      /* an earlier case of this run broke the master FILE on purpose and did not get to put it back (it crashed) */
      file_checked = 1;
      if (access ("c05/master.good", F_OK) == 0)
        (void) rename ("c05/master.good", "c05/master.c");
    }

  if (!strncmp (line, "src ", 4))
    {
      /* src <path> <hex> : path relative to the mudlib (cwd) */
      char *p = line + 4, *sp2 = strchr (p, ' ');
      char path[512], dir[512];
      if (!sp2)
        return 0;
      snprintf (path, sizeof path, "%.*s", (int) (sp2 - p), p[0] == '/' ? p + 1 : p);
      if (p[0] == '/')
        path[sp2 - p - 1] = 0;
      snprintf (dir, sizeof dir, "%s", path);
      for (char *q = dir + 1; *q; q++)
        if (*q == '/')
          {
            *q = 0;
            mkdir (dir, 0755);
            *q = '/';
          }
      FILE *f = fopen (path, "w");
      if (!f)
        {
          vh_out ("src-fail %s", path);
          return 1;
        }
      for (char *h = sp2 + 1; h[0] && h[1]; h += 2)
        fputc (hexval (h[0]) * 16 + hexval (h[1]), f);
      fclose (f);
      return 1;
    }
  snprintf (copy, sizeof copy, "%s", line);
  n = vh_split (copy, tok, 16);
  if (n == 0)
    return 0;
  if (!strcmp (tok[0], "maxdepth") && n == 2)
    {
      /* MaxCallDepth for this case (the control stack was allocated with the configured, larger value) */
      int v = atoi (tok[1]);
      if (v >= 4 && v <= 50)
        CONFIG_INT (__MAX_CALL_DEPTH__) = v;
      return 1;
    }
  if (!strcmp (tok[0], "maxk") && n == 2)
    {
      c05_maxk = atol (tok[1]);
      return 1;
    }
  if (!strcmp (tok[0], "user") && n == 2)
    {
      object_t *ob = vh_obj (tok[1]);
      if (ob && !ob->interactive)
        {
          interactive_t *ip = create_test_interactive (ob);
          if (!ip)
            vh_out ("user %s fail", tok[1]);
        }
      return 1;
    }
  if (!strcmp (tok[0], "setcg") && n == 2)
    {
      command_giver = strcmp (tok[1], "0") ? vh_obj (tok[1]) : 0;
      return 1;
    }
  if (!strcmp (tok[0], "snap"))
    {
      char s[512];
      snapshot (s, sizeof s);
      vh_out ("snap %s", s);
      return 1;
    }
  if (!strcmp (tok[0], "probe"))
    {
      char p[4096];
      remember_base ();
      run_probe (p, sizeof p);
      vh_out ("probe %s", p);
      return 1;
    }
  if (!strcmp (tok[0], "input") && n >= 2)
    {
      object_t *ob = vh_obj (tok[1]);
      error_context_t econ;
      char out[4096] = "", s[512];
      const char *text = n >= 3 ? tok[2] : "";
      if (!ob || !ob->interactive)
        {
          vh_out ("input %s !not-interactive", tok[1]);
          return 1;
        }
      cap_begin ();
      save_context (&econ);
      if (!setjmp (econ.context))
        {
          object_t *save_cg = command_giver;
          int r;
          command_giver = ob;
          eval_cost = CONFIG_INT (__MAX_EVAL_COST__);
          r = call_function_interactive (ob->interactive, (char *) text);
          command_giver = save_cg;
          pop_context (&econ);
          snprintf (s, sizeof s, "called=%d", r);
        }
      else
        {
          restore_context (&econ);
          pop_context (&econ);
          snprintf (s, sizeof s, "error");
        }
      cap_end (out, sizeof out);
      vh_out ("input %s %s%s%s", tok[1], s, out[0] ? " ; " : "", out);
      return 1;
    }
  if (!strcmp (tok[0], "run") && n == 3)
    {
      static char out[16384];
      object_t *ob = vh_obj (tok[1]);
      if (!ob || (ob->flags & O_DESTRUCTED))
        {
          vh_out ("run %s !noobj", tok[1]);
          return 1;
        }
      if (!base_sp)
        {
          /* the first evaluation of the case: print the reference snapshot and probe, as `inject` does */
          char s0[512];
          remember_base ();
          snapshot (s0, sizeof s0);
          vh_out ("base %s", s0);
          run_probe (out, sizeof out);
          vh_out ("probe0 %s", out);
        }
      evaluate_k (ob, tok[2], 0, 0, 0, out, sizeof out);
      vh_out ("run %s", out);
      return 1;
    }
  safe_nargs = -1;
  safe_fp = 0;
  if (!strcmp (tok[0], "injectsafefp") && n == 4)
    {
      /* <oid>-><fn>() returns the function pointer to call */
      static char *ij = "inject";
      object_t *ob = vh_obj (tok[1]);
      error_context_t econ;
      svalue_t *ret = 0;
      char *shared = make_shared_string (tok[2]);
      if (ob && save_context (&econ))
        {
          if (!setjmp (econ.context))
            ret = apply (shared, ob, 0, ORIGIN_DRIVER);
          else
            restore_context (&econ);
          pop_context (&econ);
        }
      free_string (shared);
      if (!ret || ret->type != T_FUNCTION)
        {
          vh_out ("injectsafefp %s !nofp", tok[1]);
          return 1;
        }
      safe_fp = ret->u.fp;
      safe_fp->hdr.ref++;
      safe_nargs = atoi (tok[3]);
      tok[0] = ij;
      n = 3;
    }
  if (!strcmp (tok[0], "injectsafe") && n == 4)
    {
      static char *ij = "inject";
      safe_nargs = atoi (tok[3]);
      tok[0] = ij;
      n = 3;
    }
  be_kind = 0;
  if (!strcmp (tok[0], "injectbe") && n == 2)
    {
      static char *be[3] = { "inject", "t", "<backend>" };
      static char kind[16];
      object_t *t = vh_obj ("t");
      snprintf (kind, sizeof kind, "%s", tok[1]);
      be_kind = kind;
      tok[0] = be[0];
      tok[1] = be[1];
      tok[2] = be[2];
      n = 3;
      /* the side state the probe prints (heart beat of t) is the one prep() sets up */
      if (t)
        vh_apply_str (t, "prep", 0, 0, 0, 0);
      command_giver = 0;	/* (prep may enable commands in t; backend() starts from clear_state() anyway) */
    }
  if (!strcmp (tok[0], "injectco") && n == 1)
    {
      /* same as `inject t <call_out>`: prep() of object t schedules the callbacks */
      static char *co[3] = { "inject", "t", "<call_out>" };
      tok[0] = co[0];
      tok[1] = co[1];
      tok[2] = co[2];
      n = 3;
    }
  if (!strcmp (tok[0], "inject") && (n == 3 || n == 5))
    {
      static char out[16384];
      object_t *ob = vh_obj (tok[1]);
      const char *reg = n == 5 ? tok[3] : 0;
      object_t *regval = n == 5 ? vh_obj (tok[4]) : 0;
      sset_t outcomes = { 0 }, shapes = { 0 };
      char s[512];
      unsigned long N;
      if (!ob || (ob->flags & O_DESTRUCTED))
        {
          vh_out ("inject %s !noobj", tok[1]);
          return 1;
        }
      verif_fault_hook = fault_hook;
      remember_base ();
      snapshot (s, sizeof s);
      vh_out ("base %s", s);
      run_probe (out, sizeof out);
      vh_out ("probe0 %s", out);
      N = evaluate_k (ob, tok[2], 0, reg, regval, out, sizeof out);
      vh_out ("free %s", out);
      vh_out ("info instructions %lu", N);
      long step = 1;
      if (c05_maxk > 0 && (long) N > c05_maxk)
        step = ((long) N + c05_maxk - 1) / c05_maxk;
      for (long k = 1; k <= (long) N; k += step)
        {
          evaluate_k (ob, tok[2], k, reg, regval, out, sizeof out);
          sset_add (&outcomes, out, k);
          if (shape_now[0])
            sset_add (&shapes, shape_now, k);
        }
      sset_print (&outcomes, "outcome");
      sset_print (&shapes, "shape");
      return 1;
    }
  return 0;
}

int main (int argc, char **argv)
{
  return vh_main (argc, argv, c05_cmd);
}
