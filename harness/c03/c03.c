/* C03 harness (system style): every case is one generated LPC program.
 *
 *   L <text>     append <text> + newline to the program source (LPC text produced by the generator)
 *   sx <sexpr>   the same program as an S-expression - read by nvdrive only, ignored here
 *   run <n>      write the accumulated source to /c03/prog.c of the run's mudlib copy and load it (the real lexer,
 *                preprocessor, grammar, code generator), then apply t0 .. t<n-1> in the real interpreter and
 *                print   r <i> <canonical value>   |   r <i> !err   |   r <i> !nofn
 *
 * Canonical values:  int decimal | f:<16 hex digits of the IEEE double> | "escaped bytes" | ({a,b}) |
 *                    ([k:v,...]) sorted by the text of the entry | b:<hex bytes> | other types <tN>
 */
#include "vh.h"
#include "lpc/buffer.h"

static char *src = 0;
static size_t src_len = 0, src_cap = 0;

static void src_add (const char *s)
{
  size_t n = strlen (s);
  if (src_len + n + 2 > src_cap)
    {
      src_cap = (src_len + n + 2) * 2 + 1024;
      src = (char *) realloc (src, src_cap);
    }
  memcpy (src + src_len, s, n);
  src_len += n;
  src[src_len++] = '\n';
  src[src_len] = 0;
}

typedef struct { char *p; size_t len, cap; } sb_t;

static void sb_put (sb_t * b, const char *s)
{
  size_t n = strlen (s);
  if (b->len + n + 1 > b->cap)
    {
      b->cap = (b->len + n + 1) * 2 + 256;
      b->p = (char *) realloc (b->p, b->cap);
    }
  memcpy (b->p + b->len, s, n + 1);
  b->len += n;
}

static int cmp_str (const void *a, const void *b)
{
  return strcmp (*(char *const *) a, *(char *const *) b);
}

static void canon (sb_t * b, svalue_t * sv, int depth)
{
  char tmp[64];
  if (depth > 12)
    {
      sb_put (b, "...");
      return;
    }
  switch (sv->type)
    {
    case T_NUMBER:
      snprintf (tmp, sizeof tmp, "%lld", (long long) sv->u.number);
      sb_put (b, tmp);
      break;
    case T_REAL:
      {
        unsigned long long bits;
        double d = sv->u.real;
        if (d != d)
          {
            sb_put (b, "f:nan");
            break;
          }
        memcpy (&bits, &d, 8);
        snprintf (tmp, sizeof tmp, "f:%016llx", bits);
        sb_put (b, tmp);
        break;
      }
    case T_STRING:
      sb_put (b, "\"");
      for (const char *p = sv->u.string; *p; p++)
        {
          unsigned char c = (unsigned char) *p;
          if (c < 32 || c == '"' || c == '\\' || c >= 127)
            snprintf (tmp, sizeof tmp, "\\x%02x", c);
          else
            {
              tmp[0] = c;
              tmp[1] = 0;
            }
          sb_put (b, tmp);
        }
      sb_put (b, "\"");
      break;
    case T_ARRAY:
      sb_put (b, "({");
      for (int i = 0; i < sv->u.arr->size; i++)
        {
          if (i)
            sb_put (b, ",");
          canon (b, &sv->u.arr->item[i], depth + 1);
        }
      sb_put (b, "})");
      break;
    case T_MAPPING:
      {
        mapping_t *m = sv->u.map;
        int cnt = 0, cap = 16;
        char **items = (char **) malloc (sizeof (char *) * cap);
        for (int i = 0; i <= (int) m->table_size; i++)
          for (mapping_node_t * n = m->table[i]; n; n = n->next)
            {
              sb_t e = { 0, 0, 0 };
              sb_put (&e, "");
              canon (&e, &n->values[0], depth + 1);
              sb_put (&e, ":");
              canon (&e, &n->values[1], depth + 1);
              if (cnt == cap)
                items = (char **) realloc (items, sizeof (char *) * (cap *= 2));
              items[cnt++] = e.p;
            }
        qsort (items, cnt, sizeof (char *), cmp_str);
        sb_put (b, "([");
        for (int i = 0; i < cnt; i++)
          {
            if (i)
              sb_put (b, ",");
            sb_put (b, items[i]);
            free (items[i]);
          }
        free (items);
        sb_put (b, "])");
        break;
      }
    case T_BUFFER:
      sb_put (b, "b:");
      for (unsigned int i = 0; i < sv->u.buf->size; i++)
        {
          snprintf (tmp, sizeof tmp, "%02x", sv->u.buf->item[i]);
          sb_put (b, tmp);
        }
      break;
    default:
      snprintf (tmp, sizeof tmp, "<t%d>", sv->type);
      sb_put (b, tmp);
    }
}

static void run_prog (int nfn)
{
  error_context_t econ;
  object_t *volatile ob = 0;
  save_context (&econ);
  if (!setjmp (econ.context))
    {
      eval_cost = CONFIG_INT (__MAX_EVAL_COST__);
      /* the inherited program must be loaded first: load_object retries without pre_text after loading an
         inherit, which would look for a source file */
      if (!find_object_by_name ("c03/base"))
        load_object ("/c03/base.c", 0);
      {
        /* the program is written into the run's private mudlib copy (cwd) and compiled from the file: no limit
           on the size of the text (pre_text is limited) */
        FILE *pf = fopen ("c03/prog.c", "w");
        if (pf)
          {
            /* the lexer limits a source line to MAXLINE (1024) characters: break long lines at a blank outside
               string literals */
            int col = 0, inq = 0;
            for (const char *q = src ? src : ""; *q; q++)
              {
                char ch = *q;
                if (inq)
                  {
                    if (ch == '\\' && q[1])
                      {
                        fputc (ch, pf);
                        ch = *++q;
                        col++;
                      }
                    else if (ch == '"')
                      inq = 0;
                  }
                else if (ch == '"')
                  inq = 1;
                if (ch == '\n')
                  col = 0, inq = 0;
                else
                  col++;
                if (!inq && ch == ' ' && col > 700 && q[1] != '\n' && src[0])
                  {
                    /* never inside a preprocessor line */
                    const char *ls = q;
                    while (ls > src && ls[-1] != '\n')
                      ls--;
                    if (*ls != '#')
                      {
                        fputc ('\n', pf);
                        col = 0;
                        continue;
                      }
                  }
                fputc (ch, pf);
              }
            fclose (pf);
          }
      }
      ob = load_object ("/c03/prog.c", 0);
      pop_context (&econ);
    }
  else
    {
      restore_context (&econ);
      pop_context (&econ);
      ob = 0;
    }
  if (!ob)
    {
      vh_out ("compile-fail");
      return;
    }
  add_ref (ob, "c03");
  for (int i = 0; i < nfn; i++)
    {
      char fn[32];
      volatile int rc = 0;
      sb_t out = { 0, 0, 0 };
      snprintf (fn, sizeof fn, "t%d", i);
      char *shared = make_shared_string (fn);
      sb_put (&out, "");
      if (ob->flags & O_DESTRUCTED)
        {
          vh_out ("r %d !destructed", i);
          continue;
        }
      save_context (&econ);
      if (!setjmp (econ.context))
        {
          svalue_t *ret;
          eval_cost = CONFIG_INT (__MAX_EVAL_COST__);
          ret = apply (shared, ob, 0, ORIGIN_DRIVER);
          if (!ret)
            rc = 2;
          else
            canon (&out, ret, 0);
          pop_context (&econ);
        }
      else
        {
          restore_context (&econ);
          pop_context (&econ);
          rc = 1;
        }
      free_string (shared);
      if (rc == 1)
        vh_out ("r %d !err", i);
      else if (rc == 2)
        vh_out ("r %d !nofn", i);
      else
        {
          /* vh_out has a fixed buffer: long values are printed in full through stderr directly */
          fprintf (stderr, "VL r %d %s\n", i, out.p);
          fflush (stderr);
        }
      free (out.p);
    }
}

/* ---- maptrace: unit-style access to the mapping hash table (lib/lpc/mapping.c) --------------------------------
 *   maptrace <tok> <tok> ...    two mappings A and B with integer keys and values
 *     ai:<k>:<v> / bi:<k>:<v>   m[k] = v   (find_for_insert + assignment)
 *     ad:<k> / bd:<k>           map_delete (m, k)
 *     an:<n> / bn:<n>           m = allocate_mapping (n)
 *     abs                       A += B     (absorb_mapping -> add_to_mapping)
 *     plus                      C = A + B  (add_mapping); C is dumped and dropped
 *   after every token the table of the mapping it touched is dumped:
 *     T <tok> size=<buckets> unfilled=<n> count=<n> <bucket>:[k,k,..] ...     (chains from the head)
 */
static void map_dump (const char *tok, mapping_t * m)
{
  sb_t b = { 0, 0, 0 };
  char tmp[64];
  sb_put (&b, "");
  for (int i = 0; i <= (int) m->table_size; i++)
    {
      if (!m->table[i])
        continue;
      snprintf (tmp, sizeof tmp, " %d:[", i);
      sb_put (&b, tmp);
      for (mapping_node_t * n = m->table[i]; n; n = n->next)
        {
          snprintf (tmp, sizeof tmp, "%s%lld", n == m->table[i] ? "" : ",", (long long) n->values[0].u.number);
          sb_put (&b, tmp);
        }
      sb_put (&b, "]");
    }
  fprintf (stderr, "VL T %s size=%d unfilled=%d count=%d%s\n", tok, (int) m->table_size + 1, (int) m->unfilled, (int) m->count, b.p);
  fflush (stderr);
  free (b.p);
}

static void maptrace (char *line)
{
  mapping_t *A = allocate_mapping (0), *B = allocate_mapping (0);
  char *save = 0;
  for (char *tok = strtok_r (line, " ", &save); tok; tok = strtok_r (0, " ", &save))
    {
      error_context_t econ;
      char name[64];
      snprintf (name, sizeof name, "%s", tok);
      save_context (&econ);
      if (setjmp (econ.context))
        {
          restore_context (&econ);
          pop_context (&econ);
          vh_out ("T %s !err", name);
          continue;
        }
      mapping_t **mp = tok[0] == 'b' ? &B : &A;
      if (!strcmp (tok, "abs"))
        {
          absorb_mapping (A, B);
          map_dump (name, A);
        }
      else if (!strcmp (tok, "plus"))
        {
          mapping_t *C = add_mapping (A, B);
          map_dump (name, C);
          free_mapping (C);
        }
      else if (tok[1] == 'i')
        {
          svalue_t key, *dst;
          long long k = 0, v = 0;
          sscanf (tok + 3, "%lld:%lld", &k, &v);
          key.type = T_NUMBER;
          key.subtype = 0;
          key.u.number = k;
          dst = find_for_insert (*mp, &key, 1);
          dst->type = T_NUMBER;
          dst->subtype = 0;
          dst->u.number = v;
          map_dump (name, *mp);
        }
      else if (tok[1] == 'd')
        {
          svalue_t key;
          key.type = T_NUMBER;
          key.subtype = 0;
          key.u.number = atoll (tok + 3);
          mapping_delete (*mp, &key);
          map_dump (name, *mp);
        }
      else if (tok[1] == 'n')
        {
          free_mapping (*mp);
          *mp = allocate_mapping ((size_t) atoll (tok + 3));
          map_dump (name, *mp);
        }
      else
        vh_out ("T %s !badtoken", name);
      pop_context (&econ);
    }
}

/* ---- arrtrace: unit-style access to add_array (lib/lpc/array.c) with chosen reference counts ------------------------
 *   arrtrace <same> <psize> <pextra> <rsize> <rextra>
 * p holds 1..psize, r holds 101..100+rsize (same = 1: r is p).  Each operand slot of the call owns one reference, pextra /
 * rextra further references are held by "somebody else" (this harness).  After add_array (p, r) one line is printed:
 *   A <args> res=<V|E|P|R> ref=<n> items=[..] p=<ref>:[..] r=<ref>:[..]      (p= / r= only while this harness still holds them)
 * `nvdrive C03 model` prints the same line from NV.C03.Heap.addArray. */
static void arr_print (char *out, size_t cap, array_t *a)
{
  size_t n = 0;
  n += snprintf (out + n, cap - n, "[");
  for (int i = 0; i < a->size && n + 32 < cap; i++)
    {
      if (a->item[i].type == T_NUMBER)
        n += snprintf (out + n, cap - n, "%s%lld", i ? "," : "", (long long) a->item[i].u.number);
      else
        n += snprintf (out + n, cap - n, "%s?%d", i ? "," : "", (int) a->item[i].type);
    }
  snprintf (out + n, cap - n, "]");
}

static array_t *arr_make (int size, int base)
{
  array_t *a = allocate_empty_array (size);
  for (int i = 0; i < size; i++)
    {
      a->item[i].type = T_NUMBER;
      a->item[i].subtype = 0;
      a->item[i].u.number = base + i + 1;
    }
  return a;
}

static void arrtrace (char *line)
{
  int same = 0, psize = 0, pextra = 0, rsize = 0, rextra = 0;
  char bp[512], br[512], bd[1024], tail[1100];
  error_context_t econ;
  if (sscanf (line, "%d %d %d %d %d", &same, &psize, &pextra, &rsize, &rextra) != 5)
    {
      vh_out ("A %s !badargs", line);
      return;
    }
  save_context (&econ);
  if (setjmp (econ.context))
    {
      restore_context (&econ);
      pop_context (&econ);
      vh_out ("A %d %d %d %d %d !err", same, psize, pextra, rsize, rextra);
      return;
    }
  array_t *p = arr_make (psize, 0);
  array_t *r = same ? p : arr_make (rsize, 100);
  if (same)
    p->ref++;                   /* the second operand slot */
  p->ref += pextra;
  if (!same)
    r->ref += rextra;
  array_t *d = add_array (p, r);
  arr_print (bd, sizeof bd, d);
  tail[0] = 0;
  if (pextra > 0)
    {
      arr_print (bp, sizeof bp, p);
      if (p->size == 0)         /* the shared null array: its count says nothing */
        snprintf (tail + strlen (tail), sizeof tail - strlen (tail), " p=*:%s", bp);
      else
        snprintf (tail + strlen (tail), sizeof tail - strlen (tail), " p=%d:%s", (int) p->ref, bp);
    }
  if (!same && rextra > 0)
    {
      arr_print (br, sizeof br, r);
      if (r->size == 0)
        snprintf (tail + strlen (tail), sizeof tail - strlen (tail), " r=*:%s", br);
      else
        snprintf (tail + strlen (tail), sizeof tail - strlen (tail), " r=%d:%s", (int) r->ref, br);
    }
  if (d->size == 0)
    vh_out ("A %d %d %d %d %d res=E ref=* items=%s%s", same, psize, pextra, rsize, rextra, bd, tail);
  else
    /* the address of the result means something only while somebody else holds the operand (RESIZE_ARRAY may move a block) */
    vh_out ("A %d %d %d %d %d res=%s ref=%d items=%s%s", same, psize, pextra, rsize, rextra,
            (pextra > 0 && d == p) ? "P" : ((!same && rextra > 0 && d == r) ? "R" : "V"), (int) d->ref, bd, tail);
  pop_context (&econ);
}

static int c03_cmd (char *line)
{
  if (!strncmp (line, "arrtrace ", 9))
    {
      arrtrace (line + 9);
      return 1;
    }
  if (!strncmp (line, "maptrace ", 9))
    {
      maptrace (line + 9);
      return 1;
    }
  if (!strncmp (line, "L ", 2) || !strcmp (line, "L"))
    {
      src_add (line[1] ? line + 2 : "");
      return 1;
    }
  if (!strncmp (line, "sx ", 3) || !strncmp (line, "same ", 5))
    return 1;
  if (!strncmp (line, "run ", 4))
    {
      run_prog (atoi (line + 4));
      return 1;
    }
  return 0;
}

int main (int argc, char **argv)
{
  return vh_main (argc, argv, c03_cmd);
}
