/* C03 unit-style harness for the preprocessor: this translation unit #includes lib/lpc/lex.c so that the static
 * functions handle_define () / lookup_define () are reachable; the archive member lex.c.o is then not linked.
 *
 *   mdef <text after "#define ">     run the real handle_define () on the text and dump what it stored:
 *        D <name> nargs=<n> exps=<hex bytes of defn_t.exps>        (markers: MARKS, MARKS + 1 + parameter number)
 */
#include "vh.h"
#include "lib/lpc/lex.c"

static int lex_cmd (char *line)
{
  if (!strncmp (line, "mdef ", 5))
    {
      static char buf[MAXLINE + 64];
      char name[NSIZE], *p, *q;
      defn_t *d;
      error_context_t econ;
      snprintf (buf, MAXLINE, "%s", line + 5);
      for (p = buf, q = name; isalunum (*p) && q < name + NSIZE - 1;)
        *q++ = *p++;
      *q = 0;
      save_context (&econ);
      if (setjmp (econ.context))
        {
          restore_context (&econ);
          pop_context (&econ);
          vh_out ("D %s !err", name);
          return 1;
        }
      handle_define (buf);
      pop_context (&econ);
      d = lookup_define (name);
      if (!d)
        vh_out ("D %s !undefined", name);
      else
        {
          char hex[2 * MLEN + 8], *o = hex;
          for (const unsigned char *e = (const unsigned char *) d->exps; *e && o < hex + sizeof hex - 4; e++)
            o += sprintf (o, "%02x", *e);
          *o = 0;
          vh_out ("D %s nargs=%d exps=%s", name, d->nargs, hex);
        }
      return 1;
    }
  return 0;
}

int main (int argc, char **argv)
{
  return vh_main (argc, argv, lex_cmd);
}
