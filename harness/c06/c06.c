/* C06 harness: reference counting primitives.
 *
 * One operation language (see lean/NV/C06/Drive.lean), two ways of executing it on the real driver:
 *
 *   mode unit   every operation is a direct C call of the real primitive (assign_svalue, free_svalue,
 *               assign_svalue_no_free, push_* / pop_stack, allocate_array / dealloc via free_svalue,
 *               find_for_insert / mapping_delete, make_shared_string, make_lfun_funp_by_name, new_call_out /
 *               remove_call_out_by_handle / call_out, add_action / remove_action (free_sentence),
 *               clone_object / destruct_object / remove_destructed_objects) on a pool of svalue_t slots;
 *   mode lpc    the same line is executed by LPC code (harness/mudlib/c06/main.c) through the real interpreter
 *               and efuns; the slots are the elements of an LPC array.
 *
 * After every operation: `ok r:<ref of every tracked value, x = its memory has been freed> st:<statistics
 * counters of the driver, relative to the start of the case>`.  Whether a tracked value has been freed is asked
 * from AddressSanitizer (__asan_address_is_poisoned), never by touching it.
 */
#include "vh.h"
#include <sanitizer/asan_interface.h>
#include "lib/efuns/call_out.h"
#include "lpc/buffer.h"
#include "lpc/class.h"
#include "lpc/functional.h"
#include "lpc/program.h"
#include "src/interpret.h"
#include "lpc/lex.h"

#define NSLOT 10
#define NOBJ 4
#define NVAR 4
#define NCALL 4
#define NSENT 4
#define CLS_SIZE 3

enum { K_ARR, K_MAP, K_CLS, K_BUF, K_FN, K_STR, K_OBJ, K_PROG };

static int lpc_mode = 0, started = 0, halted = 0;
static object_t *main_ob = 0;
static svalue_t uslots[NSLOT];
static object_t *uhandle[NOBJ];
static int exist_used[NOBJ];
static object_t *existp[NOBJ];	/* the object while it is on the object list or waiting for destruct2 */
static int call_used[NCALL], call_handle[NCALL], call_owner[NCALL], call_st[NCALL];
static object_t *call_ownerp[NCALL];
extern void remove_all_call_out (object_t *);
static int sent_used[NSENT], sent_owner[NSENT];
static object_t *sent_ownerp[NSENT];
static object_t *user_ob = 0;	/* the interactive user input_to() waits for */
static int input_pending = 0;
extern interactive_t *create_test_interactive (object_t * ob);
extern int call_function_interactive (interactive_t * i, char *str);
static int depth = 0;
static int applied = 0;	/* an apply() happened: allocd_strings is no longer compared (apply cache) */

static struct { void *p; int kind; } cells[8192];
static int ncells = 0;

static long base[7];
static int dangling (svalue_t * sv);
static char *fn_names[8];		/* shared strings "cb", "cbs0".."cbs3", "act" of the uobj program */
static long fn_base = 0;
static long fn_refs (void)
{
  long n = 0;
  for (int i = 0; i < 8; i++)
    if (fn_names[i])
      n += COUNTED_REF (fn_names[i]);
  return n;
}
static program_t *uobj_prog = 0;	/* program of /c06/uobj: its ref is printed as p:<uobj>/<base> */
static program_t *base_prog = 0;	/* program of /c06/base, inherited by /c06/uobj */
#define NLAY 4
static const char *lay_name[NLAY] = { "11", "12", "21", "31" };
static program_t *lay_prog[NLAY][3];	/* replace_program() family: programs ra<L>, rb<L>, rc<L> */
static int lay_tracked[NLAY];
static int objkind[NOBJ];		/* 0 = /c06/uobj, 1 + L = /c06/rc<L> */
static int objrepl[NOBJ];		/* replace_program() done */
extern void replace_programs (void);
extern int reclaim_objects (void);
static int unloaded[2];		/* blueprint object of uobj / base destructed by `unload` */
static long fault_first = 0;	/* fault-injection sweep: first instruction index after which the state differed */
extern long verif_fault_countdown;	/* hook H2 (src/interpret.c): error raised at the k-th dispatched instruction */
static object_t **anon = 0;		/* clones made by `clones n` */
static int nanon = 0, capanon = 0;

extern void clear_apply_cache (void);

/* Freed memory must stay recognisable (poisoned, not handed out again) for the whole case: the 65 537-clone case
 * frees about 30 MB. */
const char *__asan_default_options (void)
{
  return "quarantine_size_mb=1024";
}

static void snapshot (long *o)
{
  /* The apply cache (src/apply.c) keeps a string reference on the function name of every entry, also of
   * "no such function" entries ("create" of an object without create()), and evicts entries by a slot index
   * computed from POINTER values: which strings it holds depends on the address-space layout of the run.
   * Empty it before every measurement so that the string counters only see real holders.
   * (C06_NOCLEAR=1 restores the old behaviour, C06_EVICT=<n> then empties the cache once, before the n-th
   * measurement, like a slot collision would: used to demonstrate the sensitivity, see notes/C06.md.) */
  {
    static int nth = 0;
    const char *nc = getenv ("C06_NOCLEAR"), *ev = getenv ("C06_EVICT");
    nth++;
    if (!nc || (ev && atoi (ev) == nth))
      clear_apply_cache ();
  }
  o[0] = num_arrays;
  o[1] = (long) total_array_size;
  o[2] = num_mappings;
  o[3] = total_mapping_nodes;
  o[4] = num_distinct_strings;
  o[5] = allocd_strings;
  o[6] = (long) tot_alloc_object;
}

static svalue_t *slot (int i)
{
  if (lpc_mode)
    return &main_ob->variables[0].u.arr->item[i];
  return &uslots[i];
}

static object_t *hobj (int o)
{
  if (lpc_mode)
    {
      svalue_t *sv = &main_ob->variables[1].u.arr->item[o];
      return sv->type == T_OBJECT ? sv->u.ob : 0;
    }
  return uhandle[o];
}

static int objok (int o)
{
  object_t *ob;
  if (o < 0 || o >= NOBJ)
    return 0;
  ob = hobj (o);
  if (!ob || __asan_address_is_poisoned (ob))
    return 0;
  return !(ob->flags & O_DESTRUCTED);
}

static int poisoned (void *p)
{
  return __asan_address_is_poisoned (p);
}

static int tracked (void *p)
{
  for (int i = 0; i < ncells; i++)
    if (cells[i].p == p && !poisoned (p))
      return 1;
  return 0;
}

static void track (void *p, int kind)
{
  if (ncells < 8192)
    {
      cells[ncells].p = p;
      cells[ncells].kind = kind;
      ncells++;
    }
}

/* after a range assignment: the slot holds a new array / buffer only when the length changed */
static void track_slot_if_new (int d)
{
  svalue_t *sv = slot (d);
  void *p = sv->type == T_ARRAY ? (void *) sv->u.arr : sv->type == T_BUFFER ? (void *) sv->u.buf : 0;
  if (p && !tracked (p))
    track (p, sv->type == T_ARRAY ? K_ARR : K_BUF);
}

static void track_slot (int d)
{
  svalue_t *sv = slot (d);
  switch (sv->type)
    {
    case T_ARRAY: track (sv->u.arr, K_ARR); break;
    case T_MAPPING: track (sv->u.map, K_MAP); break;
    case T_CLASS: track (sv->u.arr, K_CLS); break;
    case T_BUFFER: track (sv->u.buf, K_BUF); break;
    case T_FUNCTION: track (sv->u.fp, K_FN); break;
    case T_STRING:
      if (!tracked (sv->u.string))
        track (sv->u.string, K_STR);
      break;
    default: break;
    }
}

/* counter of tracked value i; ~0 = its memory has been freed */
static unsigned long cell_ref (int i)
{
  void *p = cells[i].p;
  if (poisoned (p))
    return ~0UL;
  switch (cells[i].kind)
    {
    case K_ARR: case K_CLS: return ((array_t *) p)->ref;
    case K_MAP: return ((mapping_t *) p)->ref;
    case K_BUF: return ((buffer_t *) p)->ref;
    case K_FN: return ((funptr_t *) p)->hdr.ref;
    case K_OBJ: return ((object_t *) p)->ref;
    case K_PROG: return ((program_t *) p)->ref;
    case K_STR: return MSTR_REF ((char *) p);
    }
  return 0;
}

/* development aid (tools: notes/C06-coverage.md, "opcodes never executed"): C06_OPHIST=<dir> makes every case leave
 * the per-opcode execution counts of hook verif_op_hist in <dir>/<pid> */
extern unsigned long verif_op_hist[256];
static void dump_ophist (void)
{
  const char *d = getenv ("C06_OPHIST");
  char fn[512];
  FILE *f;
  if (!d)
    return;
  snprintf (fn, sizeof fn, "%s/%d", d, (int) getpid ());
  if (!(f = fopen (fn, "w")))
    return;
  for (int i = 0; i < 256; i++)
    if (verif_op_hist[i])
      fprintf (f, "%d %s %lu\n", i, instrs[i].name ? instrs[i].name : "?", verif_op_hist[i]);
  fclose (f);
}

static void print_state (const char *status)
{
  dump_ophist ();
  static char buf[400000];
  char *o = buf;
  long now[7];
  o += sprintf (o, "%s r:", status);
  for (int i = 0; i < ncells; i++)
    {
      void *p = cells[i].p;
      if (i)
        *o++ = ',';
      if (poisoned (p))
        {
          *o++ = 'x';
          continue;
        }
      unsigned long r = cell_ref (i);
      o += sprintf (o, "%lu", r);
      if (o - buf > (long) sizeof buf - 64)
        break;
    }
  snapshot (now);
  *o = 0;
  /* value-level observation: the text every slot sees */
  static char tx[4096];
  {
    char *q = tx;
    for (int i = 0; i < NSLOT; i++)
      {
        svalue_t *sv = slot (i);
        if (i)
          *q++ = ',';
        if (sv->type == T_STRING && (sv->subtype & STRING_COUNTED) && !dangling (sv) && strlen (sv->u.string) < 300)
          q += sprintf (q, "%s", sv->u.string);
        else
          *q++ = '-';
      }
    *q = 0;
  }
  char pf[128], pa[56], pb[56];
  /* <ref>.<func_ref> of both programs */
  if (!uobj_prog || poisoned (uobj_prog))
    snprintf (pa, sizeof pa, "x.x");
  else
    snprintf (pa, sizeof pa, "%lu.%lu", (unsigned long) uobj_prog->ref, (unsigned long) uobj_prog->func_ref);
  if (!base_prog || poisoned (base_prog))
    snprintf (pb, sizeof pb, "x.x");
  else
    snprintf (pb, sizeof pb, "%lu.%lu", (unsigned long) base_prog->ref, (unsigned long) base_prog->func_ref);
  snprintf (pf, sizeof pf, "%s/%s", pa, pb);
  if (fault_first)
    {
      /* only when a fault-injection sweep found a difference: the judge reports it with the verdict */
      size_t l = strlen (tx);
      snprintf (tx + l, sizeof tx - l, " k:%ld", fault_first);
      fault_first = 0;
    }
  if (pf[0] == 'x')
    vh_out ("%s st:%ld,%ld,%ld,%ld,-,-,%ld p:%s f:- t:%s", buf, now[0] - base[0], now[1] - base[1], now[2] - base[2],
            now[3] - base[3], now[6] - base[6], pf, tx);
  else if (lpc_mode || applied)
    vh_out ("%s st:%ld,%ld,%ld,%ld,%ld,-,%ld p:%s f:%ld t:%s", buf, now[0] - base[0], now[1] - base[1], now[2] - base[2],
            now[3] - base[3], now[4] - base[4], now[6] - base[6], pf, fn_refs () - fn_base, tx);
  else
    vh_out ("%s st:%ld,%ld,%ld,%ld,%ld,%ld,%ld p:%s f:%ld t:%s", buf, now[0] - base[0], now[1] - base[1], now[2] - base[2],
            now[3] - base[3], now[4] - base[4], now[5] - base[5], now[6] - base[6], pf, fn_refs () - fn_base, tx);
}

/* value of a slot points to freed memory? (the model's explicit use-after-free outcome) */
static int dangling (svalue_t * sv)
{
  if (sv->type == T_STRING)
    return (sv->subtype & STRING_COUNTED) && poisoned (sv->u.string);
  if (sv->type & T_REFED)
    return poisoned (sv->u.refed);
  return 0;
}

static void put_slot (int d, svalue_t v)
{
  free_svalue (slot (d), "c06");
  *slot (d) = v;
}

static const char *clone_name = "/c06/uobj";
static object_t *clone_uobj (void)
{
  error_context_t econ;
  object_t *volatile ob = 0;
  save_context (&econ);
  if (!setjmp (econ.context))
    {
      object_t *save = current_object;
      eval_cost = CONFIG_INT (__MAX_EVAL_COST__);
      current_object = master_ob;
      ob = clone_object (clone_name, 0);
      current_object = save;
      pop_context (&econ);
    }
  else
    {
      restore_context (&econ);
      pop_context (&econ);
      ob = 0;
    }
  return ob;
}

static int is_refkey (svalue_t * sv)
{
  return sv->type == T_NUMBER || ((sv->type & T_REFED) != 0);
}

/* ---- unit mode: the real primitives ------------------------------------------------------------ */
static int unit_op (int n, char **t, int *a)
{
  svalue_t v;
  memset (&v, 0, sizeof v);
  if (!strcmp (t[0], "newarr"))
    {
      v.type = T_ARRAY;
      v.u.arr = allocate_array (a[2]);
      put_slot (a[1], v);
    }
  else if (!strcmp (t[0], "newmap"))
    {
      v.type = T_MAPPING;
      v.u.map = allocate_mapping (0);
      put_slot (a[1], v);
    }
  else if (!strcmp (t[0], "newcls"))
    {
      v.type = T_CLASS;
      v.u.arr = allocate_class_by_size (CLS_SIZE);
      put_slot (a[1], v);
    }
  else if (!strcmp (t[0], "newbuf"))
    {
      v.type = T_BUFFER;
      v.u.buf = allocate_buffer (a[2]);
      put_slot (a[1], v);
    }
  else if (!strcmp (t[0], "newstr"))
    {
      v.type = T_STRING;
      v.subtype = STRING_SHARED;
      v.u.string = make_shared_string (t[2]);
      put_slot (a[1], v);
    }
  else if (!strcmp (t[0], "newmstr"))
    {
      v.type = T_STRING;
      v.subtype = STRING_MALLOC;
      v.u.string = string_copy (t[2], "c06");
      put_slot (a[1], v);
    }
  else if (!strcmp (t[0], "newfun"))
    {
      svalue_t argsv;
      array_t *arr = allocate_array (1);
      object_t *save = current_object;
      assign_svalue_no_free (&arr->item[0], slot (a[3]));
      argsv.type = T_ARRAY;
      argsv.subtype = 0;
      argsv.u.arr = arr;
      current_object = hobj (a[2]);
      v.type = T_FUNCTION;
      v.u.fp = make_lfun_funp_by_name ("cb", &argsv);
      current_object = save;
      free_array (arr);
      if (!v.u.fp)
        {
          vh_out ("harness-error newfun");
          return 0;
        }
      put_slot (a[1], v);
    }
  else if (!strcmp (t[0], "fill"))
    {
      array_t *arr = allocate_array (a[2]);
      for (int i = 0; i < a[2]; i++)
        assign_svalue_no_free (&arr->item[i], slot (a[3]));
      v.type = T_ARRAY;
      v.u.arr = arr;
      put_slot (a[1], v);
    }
  else if (!strcmp (t[0], "assign"))
    assign_svalue (slot (a[1]), slot (a[2]));
  else if (!strcmp (t[0], "free"))
    {
      free_svalue (slot (a[1]), "c06");
      *slot (a[1]) = const0;
    }
  else if (!strcmp (t[0], "aset"))
    assign_svalue (&slot (a[1])->u.arr->item[a[2]], slot (a[3]));
  else if (!strcmp (t[0], "aget"))
    assign_svalue (slot (a[1]), &slot (a[2])->u.arr->item[a[3]]);
  else if (!strcmp (t[0], "mset"))
    {
      svalue_t *lv = find_for_insert (slot (a[1])->u.map, slot (a[2]), 1);
      assign_svalue_no_free (lv, slot (a[3]));
    }
  else if (!strcmp (t[0], "mdel"))
    mapping_delete (slot (a[1])->u.map, slot (a[2]));
  else if (!strcmp (t[0], "push"))
    {
      svalue_t *s = slot (a[1]);
      switch (s->type)
        {
        case T_ARRAY: push_array (s->u.arr); break;
        case T_MAPPING: push_mapping (s->u.map); break;
        case T_CLASS: push_class (s->u.arr); break;
        case T_BUFFER: push_buffer (s->u.buf); break;
        case T_FUNCTION: push_funp (s->u.fp); break;
        case T_OBJECT: push_object (s->u.ob); break;
        case T_STRING:
          if (s->subtype == STRING_SHARED)
            push_shared_string (s->u.string);
          else
            push_svalue (s);
          break;
        default: push_svalue (s); break;
        }
      depth++;
    }
  else if (!strcmp (t[0], "pushr"))
    {
      svalue_t *s = slot (a[1]);
      switch (s->type)
        {
        case T_ARRAY: push_refed_array (s->u.arr); break;
        case T_MAPPING: push_refed_mapping (s->u.map); break;
        case T_CLASS: push_refed_class (s->u.arr); break;
        case T_BUFFER: push_refed_buffer (s->u.buf); break;
        case T_FUNCTION: push_refed_funp (s->u.fp); break;
        default: *++sp = *s; break;
        }
      *s = const0;
      depth++;
    }
  else if (!strcmp (t[0], "pop"))
    {
      pop_stack ();
      depth--;
    }
  else if (!strcmp (t[0], "popto"))
    {
      free_svalue (slot (a[1]), "c06");
      *slot (a[1]) = *sp--;
      depth--;
    }
  else if (!strcmp (t[0], "newobj"))
    {
      object_t *ob = clone_uobj ();
      if (!ob)
        {
          vh_out ("harness-error clone");
          return 0;
        }
      add_ref (ob, "c06 handle");
      uhandle[a[1]] = ob;
    }
  else if (!strcmp (t[0], "newobjr"))
    {
      char nm[32];
      object_t *ob;
      snprintf (nm, sizeof nm, "/c06/rc%s", lay_name[a[2]]);
      clone_name = nm;
      ob = clone_uobj ();
      clone_name = "/c06/uobj";
      if (!ob)
        {
          vh_out ("harness-error clone");
          return 0;
        }
      add_ref (ob, "c06 handle");
      uhandle[a[1]] = ob;
    }
  else if (!strcmp (t[0], "reclaimu"))
    reclaim_objects ();
  else if (!strcmp (t[0], "setvar"))
    assign_svalue (&hobj (a[1])->variables[a[2]], slot (a[3]));
  else if (!strcmp (t[0], "getvar"))
    assign_svalue (slot (a[1]), &hobj (a[2])->variables[a[3]]);
  else if (!strcmp (t[0], "oref"))
    {
      v.type = T_OBJECT;
      v.u.ob = hobj (a[2]);
      assign_svalue (slot (a[1]), &v);
    }
  else if (!strcmp (t[0], "dest"))
    destruct_object (hobj (a[1]));
  else if (!strcmp (t[0], "drop"))
    {
      object_t *ob = uhandle[a[1]];
      uhandle[a[1]] = 0;
      free_object (ob, "c06 handle");
    }
  else if (!strcmp (t[0], "call"))
    {
      svalue_t fun, args[2];
      char name[16];
      if (a[3] == 1)
        snprintf (name, sizeof name, "cbs%d", a[1]);
      else
        snprintf (name, sizeof name, "%s", a[3] == 2 ? "cbe" : a[3] == 3 ? "cbd" : "cb");
      fun.type = T_STRING;
      fun.subtype = STRING_CONSTANT;
      fun.u.string = name;
      assign_svalue_no_free (&args[0], slot (a[4]));
      assign_svalue_no_free (&args[1], slot (a[5]));
      call_handle[a[1]] = new_call_out (hobj (a[2]), &fun, 1, 2, args);
    }
  else if (!strcmp (t[0], "rmcall"))
    remove_call_out_by_handle (call_handle[a[1]]);
  else if (!strcmp (t[0], "rmcalln"))
    {
      char name[16];
      snprintf (name, sizeof name, "cbs%d", a[1]);
      remove_call_out (call_ownerp[a[1]], name);
    }
  else if (!strcmp (t[0], "rmall"))
    remove_all_call_out (hobj (a[1]));
  else if (!strcmp (t[0], "sappend"))
    {
      /* v[d] += <number>: f_add_eq with a number on the right */
      EXTEND_SVALUE_STRING (slot (a[1]), t[2], "c06");
    }
  else if (!strcmp (t[0], "sjoin"))
    {
      /* v[d] += v[t]: f_add_eq with a string on the right (a pushed copy, consumed by the macro) */
      push_svalue (slot (a[2]));
      SVALUE_STRING_JOIN (slot (a[1]), sp, "c06");
      sp--;
    }
  else if (!strcmp (t[0], "sadd"))
    {
      /* v[d] = v[s] + <number>: f_add on a pushed copy, result assigned */
      push_svalue (slot (a[2]));
      EXTEND_SVALUE_STRING (sp, t[3], "c06");
      free_svalue (slot (a[1]), "c06");
      *slot (a[1]) = *sp--;
    }
  else if (!strcmp (t[0], "saddl"))
    {
      /* v[d] = <number> + v[s]: f_add with a number on the left */
      push_number (0);		/* the slot of the left (number) operand: the macro stores the result there */
      push_svalue (slot (a[2]));
      {
        char *y = t[3];
        SVALUE_STRING_ADD_LEFT (y, "c06");
      }
      free_svalue (slot (a[1]), "c06");
      *slot (a[1]) = *sp--;
    }
  else if (!strcmp (t[0], "sadd2"))
    {
      /* v[d] = v[s] + v[t]: f_add with two strings, both pushed */
      push_svalue (slot (a[2]));
      push_svalue (slot (a[3]));
      SVALUE_STRING_JOIN (sp - 1, sp, "c06");
      sp--;
      free_svalue (slot (a[1]), "c06");
      *slot (a[1]) = *sp--;
    }
  else if (!strcmp (t[0], "schar"))
    {
      /* v[d][i] = c: push_indexed_lvalue unlinks the string, then the byte is stored */
      unlink_string_svalue (slot (a[1]));
      slot (a[1])->u.string[a[2]] = t[3][0];
    }
  else if (!strcmp (t[0], "inp") || !strcmp (t[0], "inpr"))
    {
      svalue_t fun, args[2];
      object_t *save_co = current_object, *save_cg = command_giver;
      fun.type = T_STRING;
      fun.subtype = STRING_CONSTANT;
      fun.u.string = t[0][3] == 'r' ? "icb2" : "icb";
      args[0] = *slot (a[2]);
      args[1] = *slot (a[3]);
      current_object = hobj (a[1]);
      command_giver = user_ob;
      /* odd slot sum: get_char() - the same bookkeeping in a second copy of the code */
      if (!((((a[2] + a[3]) & 1) && t[0][3] != 'r') ? get_char (&fun, 0, 2, args) : input_to (&fun, 0, 2, args)))
        {
          if (!input_pending)
            vh_out ("harness-error input_to refused");
        }
      current_object = save_co;
      command_giver = save_cg;
    }
  else if (!strcmp (t[0], "sent") || !strcmp (t[0], "rmsent"))
    {
      svalue_t fun, args[2];
      char verb[16];
      object_t *save_co = current_object, *save_cg = command_giver;
      int owner = t[0][0] == 's' ? a[2] : sent_owner[a[1]];
      snprintf (verb, sizeof verb, "verb%d", a[1]);
      current_object = command_giver = hobj (owner);
      if (t[0][0] == 's')
        {
          fun.type = T_STRING;
          fun.subtype = STRING_CONSTANT;
          fun.u.string = "act";
          args[0] = *slot (a[3]);
          args[1] = *slot (a[4]);
          add_action (&fun, verb, 0, 2, args);
        }
      else
        remove_action ("act", verb);
      current_object = save_co;
      command_giver = save_cg;
    }
  else
    return 0;
  return 1;
}

/* 1 = the operation is applicable in the current state (mirrors `compile` of the model) */
static int applicable (int n, char **t, int *a)
{
#define SL(i) ((i) >= 0 && (i) < NSLOT)
  const char *op = t[0];
  if (!strcmp (op, "newarr") || !strcmp (op, "newbuf"))
    return n == 3 && SL (a[1]) && a[2] > 0;
  if (!strcmp (op, "newmap") || !strcmp (op, "newcls") || !strcmp (op, "free"))
    return n == 2 && SL (a[1]);
  if (!strcmp (op, "newstr"))
    return n == 3 && SL (a[1]) && !lpc_mode;
  if (!strcmp (op, "newmstr"))
    return n == 3 && SL (a[1]);
  if (!strcmp (op, "newfun"))
    return n == 4 && SL (a[1]) && SL (a[3]) && objok (a[2]) && !objkind[a[2]];
  if (!strcmp (op, "newffun"))
    return n == 4 && lpc_mode && SL (a[1]) && objok (a[2]) && !objkind[a[2]] && a[3] >= 0 && a[3] < 6;
  if (!strcmp (op, "newobjr"))
    return n == 3 && a[1] >= 0 && a[1] < NOBJ && a[2] >= 0 && a[2] < NLAY && !hobj (a[1]) && !exist_used[a[1]];
  if (!strcmp (op, "replace"))
    return n == 3 && objok (a[1]) && objkind[a[1]] && !objrepl[a[1]] && a[2] >= 0 && a[2] < 2;
  if (!strcmp (op, "fill"))
    return n == 4 && SL (a[1]) && SL (a[3]) && a[2] > 0;
  if (!strcmp (op, "assign"))
    return n == 3 && SL (a[1]) && SL (a[2]) && a[1] != a[2];
  if (!strcmp (op, "aset") || !strcmp (op, "aget"))
    {
      int cont = op[1] == 's' ? a[1] : a[2], idx = op[1] == 's' ? a[2] : a[3], other = op[1] == 's' ? a[3] : a[1];
      if (n != 4 || !SL (cont) || !SL (other) || idx < 0)
        return 0;
      if (op[1] == 'g' && a[1] == a[2])
        return 0;
      svalue_t *c = slot (cont);
      if (c->type != T_ARRAY && c->type != T_CLASS)
        return 0;
      if (poisoned (c->u.arr))
        return 1;		/* the operation itself reports the use-after-free */
      return idx < c->u.arr->size;
    }
  if (!strcmp (op, "mset") || !strcmp (op, "mdel"))
    {
      if (n < 3 || !SL (a[1]) || !SL (a[2]) || (op[1] == 's' && (n != 4 || !SL (a[3]))))
        return 0;
      return slot (a[1])->type == T_MAPPING && is_refkey (slot (a[2]));
    }
  if (!strcmp (op, "push") || !strcmp (op, "pushr"))
    return n == 2 && SL (a[1]) && !lpc_mode;
  if (!strcmp (op, "pop"))
    return depth > 0 && !lpc_mode;
  if (!strcmp (op, "popto"))
    return n == 2 && SL (a[1]) && depth > 0 && !lpc_mode;
  if (!strcmp (op, "newobj"))
    return n == 2 && a[1] >= 0 && a[1] < NOBJ && !hobj (a[1]) && !exist_used[a[1]] && !unloaded[0];
  if (!strcmp (op, "setvar"))
    return n == 4 && objok (a[1]) && a[2] >= 0 && a[2] < NVAR && a[2] < (int) hobj (a[1])->prog->num_variables_total && SL (a[3]);
  if (!strcmp (op, "getvar"))
    return n == 4 && objok (a[2]) && a[3] >= 0 && a[3] < NVAR && a[3] < (int) hobj (a[2])->prog->num_variables_total && SL (a[1]);
  if (!strcmp (op, "oref"))
    return n == 3 && objok (a[2]) && SL (a[1]) && !lpc_mode;
  if (!strcmp (op, "dest"))
    return n == 2 && objok (a[1]);
  if (!strcmp (op, "cleanup") || !strcmp (op, "sweep"))
    return 1;
  if (!strcmp (op, "drop"))
    return n == 2 && a[1] >= 0 && a[1] < NOBJ && hobj (a[1]) != 0;
  if (!strcmp (op, "call"))
    return n == 6 && a[1] >= 0 && a[1] < NCALL && objok (a[2]) && !objkind[a[2]] && a[3] >= 0 && a[3] <= 3 && SL (a[4]) && SL (a[5]) && !call_used[a[1]];
  if (!strcmp (op, "rmcall"))
    return n == 2 && a[1] >= 0 && a[1] < NCALL && call_used[a[1]];
  if (!strcmp (op, "rmcalln"))
    return n == 2 && a[1] >= 0 && a[1] < NCALL && call_used[a[1]] && call_st[a[1]] && objok (call_owner[a[1]])
      && hobj (call_owner[a[1]]) == call_ownerp[a[1]];
  if (!strcmp (op, "rmall"))
    return n == 2 && objok (a[1]) && !objkind[a[1]];
  if (!strcmp (op, "sent"))
    return n == 5 && a[1] >= 0 && a[1] < NSENT && objok (a[2]) && !objkind[a[2]] && SL (a[3]) && SL (a[4]) && !sent_used[a[1]];
  if (!strcmp (op, "rmsent"))
    return n == 2 && a[1] >= 0 && a[1] < NSENT && sent_used[a[1]] && objok (sent_owner[a[1]])
      && hobj (sent_owner[a[1]]) == sent_ownerp[a[1]];
  if (!strcmp (op, "sappend") || !strcmp (op, "sjoin") || !strcmp (op, "sadd") || !strcmp (op, "schar")
      || !strcmp (op, "srange") || !strcmp (op, "saddl") || !strcmp (op, "sadd2"))
    {
      int src = (!strcmp (op, "sadd") || !strcmp (op, "saddl") || !strcmp (op, "sadd2")) ? a[2] : a[1];
      svalue_t *sv;
      if (!SL (a[1]) || !SL (src))
        return 0;
      sv = slot (src);
      if (sv->type != T_STRING || !(sv->subtype & STRING_COUNTED))
        return 0;
      if (dangling (sv))
        return 1;
      if (!strcmp (op, "sappend"))
        return n == 3;
      if (!strcmp (op, "sadd") || !strcmp (op, "saddl"))
        return n == 4;
      if (!strcmp (op, "sadd2"))
        return n == 4 && SL (a[3]) && slot (a[3])->type == T_STRING && (slot (a[3])->subtype & STRING_COUNTED) && !dangling (slot (a[3]));
      if (!strcmp (op, "sjoin"))
        return n == 3 && SL (a[2]) && slot (a[2])->type == T_STRING && (slot (a[2])->subtype & STRING_COUNTED);
      if (!strcmp (op, "schar"))
        return n == 4 && a[2] >= 0 && (size_t) a[2] < SVALUE_STRLEN (sv) && strlen (t[3]) == 1;
      return n == 5 && lpc_mode && a[2] >= 0 && a[2] <= a[3] && (size_t) a[3] < SVALUE_STRLEN (sv) && strlen (t[4]) > 0;
    }
  if (!strcmp (op, "inp") || !strcmp (op, "inpr"))
    return n == 4 && objok (a[1]) && !objkind[a[1]] && SL (a[2]) && SL (a[3]) && user_ob;	/* while one is pending: refused */
  if (!strcmp (op, "input"))
    return input_pending;
  if (!strcmp (op, "clones"))
    return n == 2 && !lpc_mode && a[1] > 0 && !unloaded[0];
  if (!strcmp (op, "unload"))
    {
      if (n != 2 || lpc_mode || a[1] < 0 || a[1] > 1 || unloaded[a[1]])
        return 0;
      for (int o = 0; o < NOBJ; o++)
        if (exist_used[o] == 2)
          return 0;
      return 1;
    }
  if (!strcmp (op, "arange") || !strcmp (op, "arangev") || !strcmp (op, "brange"))
    {
      /* v[d][i .. i+len-1] = rhs: arange d i len n t f | arangev d i len t f | brange d i len n */
      svalue_t *dv;
      if (!lpc_mode || !SL (a[1]) || a[2] < 0 || a[3] < 0)
        return 0;
      dv = slot (a[1]);
      if (op[0] == 'b')
        return n == 5 && dv->type == T_BUFFER && !dangling (dv) && a[2] + a[3] <= (int) dv->u.buf->size && a[4] > 0;
      if (dv->type != T_ARRAY || dangling (dv) || a[2] + a[3] > dv->u.arr->size)
        return 0;
      if (op[6] == 'v')
        return n == 6 && SL (a[4]) && a[4] != a[1] && slot (a[4])->type == T_ARRAY && !dangling (slot (a[4])) && a[5] >= 0 && a[5] < 2;
      return n == 7 && a[4] > 0 && SL (a[5]) && a[6] >= 0 && a[6] < 2;
    }
  if (!strcmp (op, "reclaim"))
    return n == 1 && lpc_mode;
  if (!strcmp (op, "reclaimu"))
    return n == 1 && !lpc_mode;
  if (!strcmp (op, "fefun"))
    return n == 5 && lpc_mode && SL (a[2]) && SL (a[3]) && a[4] >= 0;
  if (!strcmp (op, "frest"))
    return n == 3 && lpc_mode && a[2] >= 0;
  if (!strcmp (op, "unclone"))
    {
      if (n != 2 || lpc_mode || nanon < a[1])
        return 0;
      for (int o = 0; o < NOBJ; o++)
        if (exist_used[o] == 2)
          return 0;
      return 1;
    }
  if (!strcmp (op, "rest") || !strcmp (op, "resto"))
    return n == 2 && lpc_mode;
  if (!strcmp (op, "err"))
    return n == 3 && lpc_mode && SL (a[1]) && SL (a[2]);
  if (!strcmp (op, "efun"))
    return n == 4 && lpc_mode && SL (a[2]) && SL (a[3]);
  return -1;
}

static int c06_cmd (char *line)
{
  char copy[512];
  char *t[8];
  int a[8], n;
  if (!strncmp (line, "mode ", 5))
    {
      lpc_mode = !strcmp (line + 5, "lpc");
      started = 1;
      for (int i = 0; i < NSLOT; i++)
        uslots[i] = const0;
      if (lpc_mode)
        {
          error_context_t econ;
          save_context (&econ);
          if (!setjmp (econ.context))
            {
              object_t *save = current_object;
              current_object = master_ob;
              main_ob = clone_object ("/c06/main", 0);
              current_object = save;
              pop_context (&econ);
            }
          else
            {
              restore_context (&econ);
              pop_context (&econ);
              main_ob = 0;
            }
          if (!main_ob)
            {
              vh_out ("harness-error main object");
              halted = 1;
              return 1;
            }
          add_ref (main_ob, "c06");
          /* warm-up: one no-op round trip through the interpreter, one object load */
          {
            char *w[1] = { "free 0" };
            char *w2[1] = { "rest ({1,\"s\",([\"k\":2,]),})" };
            char *w3[1] = { "resto ({1,})" };
            vh_apply_str (main_ob, "do_op", 1, w, 0, 0);
            vh_apply_str (main_ob, "do_op", 1, w2, 0, 0);
            vh_apply_str (main_ob, "do_op", 1, w3, 0, 0);
          }
        }
      {
        /* the interactive user (before the baseline) */
        error_context_t econ;
        save_context (&econ);
        if (!setjmp (econ.context))
          {
            object_t *save = current_object;
            current_object = master_ob;
            user_ob = clone_object ("/c06/user", 0);
            current_object = save;
            pop_context (&econ);
          }
        else
          {
            restore_context (&econ);
            pop_context (&econ);
            user_ob = 0;
          }
        if (user_ob)
          create_test_interactive (user_ob);
      }
      {
        object_t *tmp = clone_uobj ();	/* loads the program before the baseline is taken */
        if (tmp)
          {
            uobj_prog = tmp->prog;
            base_prog = uobj_prog->num_inherited ? uobj_prog->inherit[0].prog : 0;
            destruct_object (tmp);
            remove_destructed_objects ();
          }
      }
      /* the programs of the replace_program() family are loaded before the baseline, too */
      for (int L = 0; L < NLAY; L++)
        {
          char nm[32];
          object_t *tmp;
          snprintf (nm, sizeof nm, "/c06/rc%s", lay_name[L]);
          clone_name = nm;
          tmp = clone_uobj ();
          clone_name = "/c06/uobj";
          if (!tmp || tmp->prog->num_inherited != 2)
            {
              vh_out ("harness-error layout %s", lay_name[L]);
              halted = 1;
              return 1;
            }
          lay_prog[L][2] = tmp->prog;
          lay_prog[L][0] = tmp->prog->inherit[0].prog;
          lay_prog[L][1] = tmp->prog->inherit[1].prog;
          destruct_object (tmp);
          remove_destructed_objects ();
        }
      snapshot (base);
      {
        static const char *nm[8] = { "cb", "cbs0", "cbs1", "cbs2", "cbs3", "act", "cbe", "cbd" };
        for (int i = 0; i < 8; i++)
          fn_names[i] = findstring (nm[i]);
        fn_base = fn_refs ();
      }
      return 1;
    }
  if (!started)
    {
      char m[] = "mode unit";	/* a case without a mode line runs in unit mode */
      c06_cmd (m);
    }
  if (halted)
    return 1;
  snprintf (copy, sizeof copy, "%s", line);
  n = vh_split (copy, t, 8);
  if (n == 0)
    return 1;
  for (int i = 0; i < 8; i++)
    a[i] = i < n ? atoi (t[i]) : 0;
  int ap = applicable (n, t, a);
  if (ap < 0)
    return 0;
  if (!ap)
    {
      vh_out ("skip");
      return 1;
    }
  /* explicit use-after-free outcome: a slot used by the operation points to freed memory */
  {
    static const struct { const char *op; int pos[3]; } uses[] = {
      {"newarr", {1, 0, 0}}, {"newmap", {1, 0, 0}}, {"newcls", {1, 0, 0}}, {"newbuf", {1, 0, 0}},
      {"newstr", {1, 0, 0}}, {"newmstr", {1, 0, 0}}, {"newffun", {1, 0, 0}}, {"free", {1, 0, 0}}, {"newfun", {1, 3, 0}},
      {"fill", {1, 3, 0}}, {"assign", {1, 2, 0}}, {"aset", {1, 3, 0}}, {"aget", {1, 2, 0}},
      {"mset", {1, 2, 3}}, {"mdel", {1, 2, 0}}, {"push", {1, 0, 0}}, {"popto", {1, 0, 0}},
      {"setvar", {3, 0, 0}}, {"getvar", {1, 0, 0}}, {"oref", {1, 0, 0}}, {"call", {4, 5, 0}},
      {"sent", {3, 4, 0}}, {"inp", {2, 3, 0}}, {"inpr", {2, 3, 0}}, {"arange", {1, 5, 0}}, {"arangev", {1, 4, 0}}, {"brange", {1, 0, 0}}, {"sappend", {1, 0, 0}}, {"sjoin", {1, 2, 0}}, {"sadd", {1, 2, 0}}, {"saddl", {1, 2, 0}}, {"sadd2", {1, 2, 3}},
      {"schar", {1, 0, 0}}, {"srange", {1, 0, 0}}, {"err", {1, 2, 0}}, {"efun", {2, 3, 0}}, {"fefun", {2, 3, 0}},
      {0, {0, 0, 0}}
    };
    for (int u = 0; uses[u].op; u++)
      if (!strcmp (uses[u].op, t[0]))
        for (int j = 0; j < 3 && uses[u].pos[j]; j++)
          if (dangling (slot (a[uses[u].pos[j]])))
            {
              vh_out ("uaf");
              halted = 1;
              return 1;
            }
  }

  const char *status = "ok";
  error_context_t econ;
  volatile int failed = 0;
  if (!strcmp (t[0], "clones") || !strcmp (t[0], "unclone"))
    {
      /* program counter probe: n further clones of /c06/uobj, or n of them destructed + cleaned up one by one */
      for (int i = 0; i < a[1]; i++)
        {
          if (!uobj_prog || poisoned (uobj_prog))
            {
              vh_out ("uaf");
              halted = 1;
              return 1;
            }
          if (t[0][0] == 'c')
            {
              object_t *ob = clone_uobj ();
              if (!ob)
                {
                  vh_out ("harness-error clone");
                  halted = 1;
                  return 1;
                }
              if (nanon == capanon)
                anon = (object_t **) realloc (anon, sizeof (object_t *) * (capanon = capanon ? capanon * 2 : 1024));
              anon[nanon++] = ob;
            }
          else
            {
              destruct_object (anon[--nanon]);
              remove_destructed_objects ();
            }
        }
      if (t[0][0] == 'c')
        applied = 1;
    }
  else if (!strcmp (t[0], "unload"))
    {
      /* the blueprint object is destructed and cleaned up: dealloc_object -> free_prog (ob->prog) */
      object_t *bp = lookup_object_hash (a[1] ? "c06/base" : "c06/uobj");
      if (!bp)
        {
          vh_out ("harness-error unload: no blueprint");
          halted = 1;
          return 1;
        }
      save_context (&econ);
      if (!setjmp (econ.context))
        {
          destruct_object (bp);
          remove_destructed_objects ();
          pop_context (&econ);
        }
      else
        {
          restore_context (&econ);
          pop_context (&econ);
          status = "drivererr";
        }
      unloaded[a[1]] = 1;
    }
  else if (!strcmp (t[0], "replace"))
    {
      /* the object calls replace_program() on itself (deferred), then the backend's replace_programs() */
      char arg[2] = { (char) ('0' + a[2]), 0 };
      char *w[1] = { arg };
      if (vh_apply_str (hobj (a[1]), "shrink", 1, w, 0, 0) != 0)
        status = "lpcerr";
      replace_programs ();
      objrepl[a[1]] = 1;
      applied = 1;
    }
  else if (!strcmp (t[0], "fefun") || !strcmp (t[0], "frest"))
    {
      /* error paths, systematically: the no-effect operation `efun f s t` / `rest w` is run with an error injected
       * at the k-th dispatched instruction (hook H2: the place where the evaluation-cost error is raised too);
       * k = 0: for k = 1, 2, ... until the operation completes without reaching k.  After every run the
       * (s)printf buffers are flushed and pending call_outs of the main object removed ("flush"), then all counters
       * must be where they were. */
      char buf[600], fl[] = "flush";
      char *w[1] = { buf }, *wf[1] = { fl };
      int isrest = t[0][1] == 'r';
      long kk = isrest ? a[2] : a[4], k0 = kk ? kk : 1, k1 = kk ? kk : 4000;
      long before[7], now[7];
      unsigned long refs0[256];
      int nc0 = ncells < 256 ? ncells : 256;
      if (isrest)
        snprintf (buf, sizeof buf, "rest %s", t[1]);
      else
        snprintf (buf, sizeof buf, "efun %d %d %d", a[1], a[2], a[3]);
      snapshot (before);
      for (int i = 0; i < nc0; i++)
        refs0[i] = cell_ref (i);
      for (long k = k0; k <= k1; k++)
        {
          int fired, diff = 0;
          verif_fault_countdown = k;
          vh_apply_str (main_ob, "do_op", 1, w, 0, 0);
          fired = verif_fault_countdown == 0;
          verif_fault_countdown = 0;
          vh_apply_str (main_ob, "do_op", 1, wf, 0, 0);
          snapshot (now);
          for (int i = 0; i < 7; i++)
            if (i != 5 && now[i] != before[i])
              diff = 1;
          for (int i = 0; i < nc0 && !diff; i++)
            {
              if (cell_ref (i) != refs0[i])
                diff = 1;
            }
          if (diff)
            {
              if (!kk)
                fault_first = k;
              break;
            }
          if (!fired)
            {
              if (getenv ("C06_FAULTLOG"))
                vh_out ("note c06: %s: the error was injected at every instruction 1..%ld", buf, k - 1);
              break;
            }
        }
    }
  else if (!strcmp (t[0], "cleanup"))
    {
      remove_destructed_objects ();
      for (int o = 0; o < NOBJ; o++)
        if (exist_used[o] == 2)
          exist_used[o] = 0;
    }
  else if (!strcmp (t[0], "input"))
    {
      /* what the backend does with a line typed by the user while an input_to is pending */
      save_context (&econ);
      if (!setjmp (econ.context))
        {
          object_t *save_cg = command_giver;
          command_giver = user_ob;
          eval_cost = CONFIG_INT (__MAX_EVAL_COST__);
          call_function_interactive (user_ob->interactive, "x");
          command_giver = save_cg;
          pop_context (&econ);
        }
      else
        {
          restore_context (&econ);
          pop_context (&econ);
          command_giver = 0;
        }
      /* the callback may have installed a new input_to (icb2) */
      input_pending = user_ob && user_ob->interactive && user_ob->interactive->input_to != 0;
      applied = 1;
    }
  else if (!strcmp (t[0], "sweep"))
    {
      current_time += 2;
      eval_cost = CONFIG_INT (__MAX_EVAL_COST__);
      call_out ();
      applied = 1;
      for (int k = 0; k < NCALL; k++)
        call_used[k] = 0;
      /* objects destructed by their own callback (cbd) */
      for (int o = 0; o < NOBJ; o++)
        if (exist_used[o] == 1 && existp[o] && !poisoned (existp[o]) && (existp[o]->flags & O_DESTRUCTED))
          {
            exist_used[o] = 2;
            for (int k = 0; k < NSENT; k++)
              if (sent_used[k] && sent_owner[k] == o)
                sent_used[k] = 0;
          }
    }
  else if (lpc_mode)
    {
      char buf[600];
      char *w[1] = { buf };
      object_t *cg = 0;
      int rc;
      snprintf (buf, sizeof buf, "%s", line);
      if (!strcmp (t[0], "rmsent"))
        {
          snprintf (buf, sizeof buf, "rmsent %d %d", a[1], sent_owner[a[1]]);
          cg = hobj (sent_owner[a[1]]);
        }
      else if (!strcmp (t[0], "sent"))
        cg = hobj (a[2]);
      else if (!strcmp (t[0], "rmcalln"))
        snprintf (buf, sizeof buf, "rmcalln %d %d", a[1], call_owner[a[1]]);
      else if (!strcmp (t[0], "inp") || !strcmp (t[0], "inpr"))
        cg = user_ob;
      command_giver = cg;
      rc = vh_apply_str (main_ob, "do_op", 1, w, 0, 0);
      command_giver = 0;
      if ((rc == 1) != (!strcmp (t[0], "err")) || rc == 2)
        status = "lpcerr";
    }
  else
    {
      save_context (&econ);
      if (!setjmp (econ.context))
        {
          eval_cost = CONFIG_INT (__MAX_EVAL_COST__);
          if (!unit_op (n, t, a))
            failed = 1;
          pop_context (&econ);
        }
      else
        {
          restore_context (&econ);
          pop_context (&econ);
          status = "drivererr";
        }
    }
  if (failed)
    {
      halted = 1;
      return 1;
    }
  /* bookkeeping shared by both modes */
  if (!strcmp (t[0], "newarr") || !strcmp (t[0], "newmap") || !strcmp (t[0], "newcls") || !strcmp (t[0], "newbuf")
      || !strcmp (t[0], "newstr") || !strcmp (t[0], "newmstr") || !strcmp (t[0], "newfun") || !strcmp (t[0], "fill")
      || !strcmp (t[0], "newffun")
      || !strcmp (t[0], "sappend") || !strcmp (t[0], "sjoin") || !strcmp (t[0], "sadd") || !strcmp (t[0], "schar")
      || !strcmp (t[0], "saddl") || !strcmp (t[0], "sadd2")
      || !strcmp (t[0], "srange"))
    track_slot (a[1]);
  else if (!strcmp (t[0], "arange") || !strcmp (t[0], "arangev") || !strcmp (t[0], "brange"))
    track_slot_if_new (a[1]);
  else if (!strcmp (t[0], "newobj") || !strcmp (t[0], "newobjr"))
    {
      objkind[a[1]] = t[0][6] == 'r' ? 1 + a[2] : 0;
      objrepl[a[1]] = 0;
      if (t[0][6] == 'r' && !lay_tracked[a[2]])
        {
          lay_tracked[a[2]] = 1;
          for (int j = 0; j < 3; j++)
            track (lay_prog[a[2]][j], K_PROG);
        }
      if (hobj (a[1]))
        track (hobj (a[1]), K_OBJ);
      exist_used[a[1]] = 1;
      existp[a[1]] = hobj (a[1]);
      applied = 1;
    }
  else if (!strcmp (t[0], "dest"))
    {
      exist_used[a[1]] = 2;
      for (int k = 0; k < NSENT; k++)
        if (sent_used[k] && sent_owner[k] == a[1])
          sent_used[k] = 0;
    }
  else if (!strcmp (t[0], "inp") || !strcmp (t[0], "inpr"))
    input_pending = 1;
  else if (!strcmp (t[0], "call"))
    {
      call_used[a[1]] = 1;
      call_owner[a[1]] = a[2];
      call_ownerp[a[1]] = hobj (a[2]);
      call_st[a[1]] = a[3] == 1;
    }
  else if (!strcmp (t[0], "rmcall") || !strcmp (t[0], "rmcalln"))
    call_used[a[1]] = 0;
  else if (!strcmp (t[0], "rmall"))
    {
      for (int k = 0; k < NCALL; k++)
        if (call_used[k] && (call_ownerp[k] == hobj (a[1]) || (call_ownerp[k]->flags & O_DESTRUCTED)))
          call_used[k] = 0;
    }
  else if (!strcmp (t[0], "sent"))
    {
      sent_used[a[1]] = 1;
      sent_owner[a[1]] = a[2];
      sent_ownerp[a[1]] = hobj (a[2]);
    }
  else if (!strcmp (t[0], "rmsent"))
    sent_used[a[1]] = 0;
  print_state (status);
  return 1;
}

int main (int argc, char **argv)
{
  return vh_main (argc, argv, c06_cmd);
}
