/* C16 harness: save_variable / restore_variable / save_object / restore_object of the real driver.
 *
 * value syntax (no blanks):  i<int64> | f<16 hex digits: IEEE-754 bits> | s<hex bytes> | a[v,v,..] | m{k:v,k:v,..} |
 *                            c(v,v,..) (class instance) | o (object reference)
 *
 * commands
 *   rt <val>             save_variable(val) through /c16/obj->sv, then restore_variable of that text through ->rv
 *                          save <hex of the saved text, mapping entries sorted>   |  saveerr
 *                          rest <value>                                            |  resterr
 *   rtl <fn> <val>*      like rt, the value being the result of calling obj-><fn>(vals) (values built by LPC code)
 *   rv <hex>             restore_variable(text):  rest <value> | resterr
 *   rx <val> <hex>       the same; <hex> is a valid save text of <val> made by the generator (the oracle expects <val>)
 *   set <i> <a> <b> <s> <c>   obj->setv(...)  (vi, va, vb, vs+vis (static), vc; vo = the object itself)
 *   so <zeros>           save_object("/c16/data/sav", zeros):   so <ret> / file <hex, canonical> (or file none)
 *   use obj|many         the object the following commands work on (/c16/obj: 7 variables, /c16/many: 24)
 *   useg <path>          load a generated program (written by the plugin from the `prog` lines of the case), work on
 *                        its variables by slot;  prints  tree <the real program tree, see dump_prog>
 *   setm a[v0,..]        many->setall(array) / assignment to the slots of a generated program
 *   son <hexname> <zeros> <hexpath>   save_object(name, zeros); prints  so <ret> made=<does <path> exist now>
 *   wf <hex>             write the save file directly
 *   rm                   remove the save file
 *   ro <noclear>         restore_object:  ro <ret> | roerr ;  vars <value of getv()>
 *   cp <zeros>           crash-point enumeration of save_object (the save file must exist = old contents):
 *                          cp n=<N> then for k=0..N:  cp <k> <old|new|other|none> tmp=<0|1>
 *   cf <zeros>           failure injection: the k-th stdio/fs call of the save fails:
 *                          cf <k> ret=<r> <old|new|other|none> tmp=<0|1>
 *
 * fopen/fprintf/fclose/rename/unlink are interposed in this executable (definitions below; the real ones through
 * dlsym(RTLD_NEXT)); they only count / act while a save is armed.
 */
#include "vh.h"
#include <dlfcn.h>
#include <unistd.h>
#include <sys/wait.h>
#include <sys/stat.h>
#include <stdint.h>
#include "lpc/class.h"
#include "lpc/program.h"

#define SAVE_LPC "/c16/data/sav"
#define SAVE_FILE "c16/data/sav.o"
#define SAVE_TMP "c16/data/sav.o.tmp"

/* ---- interposition ---------------------------------------------------- */
static int ip_armed = 0;	/* 1 while a save_object under observation runs */
static int ip_count = 0;	/* calls seen so far */
static int ip_exit_at = -1;	/* _exit(0) right before call number k */
static int ip_fail_at = -1;	/* call number k fails */
static FILE *ip_file = 0;
static char ip_lastpath[1024];	/* path of the last armed fopen(.., "w") */

static void *real (const char *name)
{
  void *p = dlsym (RTLD_NEXT, name);
  if (!p)
    _exit (97);
  return p;
}

/* returns 1 when this call must fail */
static int ip_boundary (void)
{
  int k = ip_count++;
  if (k == ip_exit_at)
    _exit (0);
  return k == ip_fail_at;
}

FILE *fopen (const char *path, const char *mode)
{
  static FILE *(*r) (const char *, const char *);
  if (!r)
    r = (FILE * (*)(const char *, const char *)) real ("fopen");
  if (ip_armed && !ip_file && mode[0] == 'w')
    {
      if (ip_boundary ())
        {
          errno = EACCES;
          return 0;
        }
      snprintf (ip_lastpath, sizeof ip_lastpath, "%s", path);
      ip_file = r (path, mode);
      return ip_file;
    }
  return r (path, mode);
}

int fprintf (FILE * f, const char *fmt, ...)
{
  va_list ap;
  int n;
  if (ip_armed && f == ip_file && ip_boundary ())
    {
      errno = ENOSPC;
      return -1;
    }
  va_start (ap, fmt);
  n = vfprintf (f, fmt, ap);
  va_end (ap);
  return n;
}

int fclose (FILE * f)
{
  static int (*r) (FILE *);
  if (!r)
    r = (int (*)(FILE *)) real ("fclose");
  if (ip_armed && f == ip_file)
    {
      int fail = ip_boundary ();
      ip_file = 0;
      if (fail)
        {
          /* the data may or may not have reached the disk: keep what is there, report failure */
          r (f);
          errno = ENOSPC;
          return EOF;
        }
    }
  return r (f);
}

int rename (const char *a, const char *b)
{
  static int (*r) (const char *, const char *);
  if (!r)
    r = (int (*)(const char *, const char *)) real ("rename");
  if (ip_armed && ip_boundary ())
    {
      errno = EXDEV;
      return -1;
    }
  return r (a, b);
}

int unlink (const char *a)
{
  static int (*r) (const char *);
  if (!r)
    r = (int (*)(const char *)) real ("unlink");
  if (ip_armed)
    ip_boundary ();		/* a failing unlink changes nothing we observe */
  return r (a);
}

/* ---- values ----------------------------------------------------------- */
static object_t *c16_ob = 0;

static int hexv (int c)
{
  if (c >= '0' && c <= '9')
    return c - '0';
  if (c >= 'a' && c <= 'f')
    return c - 'a' + 10;
  if (c >= 'A' && c <= 'F')
    return c - 'A' + 10;
  return -1;
}

/* parse one value at *p into *out (a fresh reference); returns 0 on syntax error */
static int parse_val (char **p, svalue_t * out)
{
  char c = *(*p)++;
  switch (c)
    {
    case 'i':
      {
        char *e;
        errno = 0;
        long long v = strtoll (*p, &e, 10);
        if (e == *p)
          return 0;
        *p = e;
        out->type = T_NUMBER;
        out->subtype = 0;
        out->u.number = v;
        return 1;
      }
    case 'f':
      {
        uint64_t bits = 0;
        int n = 0, h;
        while (n < 16 && (h = hexv (**p)) >= 0)
          {
            bits = (bits << 4) | (uint64_t) h;
            (*p)++;
            n++;
          }
        if (n != 16)
          return 0;
        out->type = T_REAL;
        memcpy (&out->u.real, &bits, 8);
        return 1;
      }
    case 's':
      {
        char *q = *p;
        int n = 0;
        while (hexv (q[0]) >= 0 && hexv (q[1]) >= 0)
          q += 2, n++;
        char *s = new_string (n, "c16 parse_val");
        for (int i = 0; i < n; i++)
          s[i] = (char) (hexv ((*p)[2 * i]) * 16 + hexv ((*p)[2 * i + 1]));
        s[n] = 0;
        *p = q;
        out->type = T_STRING;
        out->subtype = STRING_MALLOC;
        out->u.string = s;
        return 1;
      }
    case 'o':
      out->type = T_OBJECT;
      out->u.ob = c16_ob;
      add_ref (c16_ob, "c16 parse_val");
      return 1;
    case 'a':
    case 'c':
      {
        char close = c == 'a' ? ']' : ')';
        svalue_t items[256];
        int n = 0;
        if (*(*p)++ != (c == 'a' ? '[' : '('))
          return 0;
        while (**p != close)
          {
            if (n >= 256 || !parse_val (p, &items[n]))
              return 0;
            n++;
            if (**p == ',')
              (*p)++;
            else if (**p != close)
              return 0;
          }
        (*p)++;
        array_t *v = c == 'a' ? allocate_empty_array (n) : allocate_class_by_size (n);
        for (int i = 0; i < n; i++)
          v->item[i] = items[i];
        out->type = c == 'a' ? T_ARRAY : T_CLASS;
        out->u.arr = v;
        return 1;
      }
    case 'm':
      {
        if (*(*p)++ != '{')
          return 0;
        mapping_t *m = allocate_mapping (0);
        while (**p != '}')
          {
            svalue_t k, v, *slot;
            if (!parse_val (p, &k))
              return 0;
            if (*(*p)++ != ':')
              return 0;
            if (!parse_val (p, &v))
              return 0;
            slot = find_for_insert (m, &k, 1);
            assign_svalue (slot, &v);
            free_svalue (&k, "c16");
            free_svalue (&v, "c16");
            if (**p == ',')
              (*p)++;
            else if (**p != '}')
              return 0;
          }
        (*p)++;
        out->type = T_MAPPING;
        out->u.map = m;
        return 1;
      }
    }
  return 0;
}

/* growable buffer */
typedef struct { char *b; size_t n, cap; } sb_t;
static void sb_put (sb_t * s, const char *p, size_t n)
{
  if (s->n + n + 1 > s->cap)
    {
      s->cap = (s->n + n + 1) * 2 + 64;
      s->b = (char *) realloc (s->b, s->cap);
    }
  memcpy (s->b + s->n, p, n);
  s->n += n;
  s->b[s->n] = 0;
}
static void sb_puts (sb_t * s, const char *p) { sb_put (s, p, strlen (p)); }

static int cmp_sb (const void *a, const void *b)
{
  const sb_t *x = (const sb_t *) a, *y = (const sb_t *) b;
  size_t n = x->n < y->n ? x->n : y->n;
  int r = memcmp (x->b, y->b, n);
  if (r)
    return r;
  return x->n < y->n ? -1 : x->n > y->n;
}

mapping_node_t *node_find_in_mapping (mapping_t * m, svalue_t * lv);
int svalue_to_int (svalue_t * v);

/* canonical text of a value, same syntax as the input; mapping entries sorted bytewise.
 * Every mapping entry is also looked up through its key: an entry no lookup finds is reported as a line
 * `lookup-miss <key> ..` in front of the line that prints the value. */
static void pv (sb_t * o, svalue_t * sv, int depth)
{
  char tmp[64];
  if (depth > 64)
    {
      sb_puts (o, "...");
      return;
    }
  switch (sv->type)
    {
    case T_NUMBER:
      snprintf (tmp, sizeof tmp, "i%lld", (long long) sv->u.number);
      sb_puts (o, tmp);
      break;
    case T_REAL:
      {
        uint64_t bits;
        memcpy (&bits, &sv->u.real, 8);
        if (sv->u.real != sv->u.real)
          bits = 0x7ff8000000000000ULL;	/* every NaN prints alike: sign and payload of a computed NaN are the FPU's business */
        snprintf (tmp, sizeof tmp, "f%016llx", (unsigned long long) bits);
        sb_puts (o, tmp);
        break;
      }
    case T_STRING:
      sb_puts (o, "s");
      for (const unsigned char *p = (const unsigned char *) sv->u.string; *p; p++)
        {
          snprintf (tmp, sizeof tmp, "%02x", *p);
          sb_puts (o, tmp);
        }
      break;
    case T_OBJECT:
      sb_puts (o, (sv->u.ob->flags & O_DESTRUCTED) ? "i0" : "o");
      break;
    case T_ARRAY:
    case T_CLASS:
      sb_puts (o, sv->type == T_ARRAY ? "a[" : "c(");
      for (int i = 0; i < sv->u.arr->size; i++)
        {
          if (i)
            sb_puts (o, ",");
          pv (o, &sv->u.arr->item[i], depth + 1);
        }
      sb_puts (o, sv->type == T_ARRAY ? "]" : ")");
      break;
    case T_MAPPING:
      {
        mapping_t *m = sv->u.map;
        int cnt = 0, cap = 16;
        sb_t *items = (sb_t *) calloc (cap, sizeof (sb_t));
        for (int i = 0; i <= (int) m->table_size; i++)
          for (mapping_node_t * n = m->table[i]; n; n = n->next)
            {
              if (cnt == cap)
                {
                  items = (sb_t *) realloc (items, sizeof (sb_t) * cap * 2);
                  memset (items + cap, 0, sizeof (sb_t) * cap);
                  cap *= 2;
                }
              pv (&items[cnt], &n->values[0], depth + 1);
              sb_puts (&items[cnt], ":");
              pv (&items[cnt], &n->values[1], depth + 1);
              /* the entry must also be FOUND through its key (m[key]): a node linked into the wrong bucket is listed
                 by keys() / values() / a re-save, but no lookup reaches it */
              /* (a NaN key equals nothing, itself included: no mapping ever finds it; its bucket is still checked) */
              if ((node_find_in_mapping (m, &n->values[0]) != n
                   && !(n->values[0].type == T_REAL && n->values[0].u.real != n->values[0].u.real))
                  || i != (svalue_to_int (&n->values[0]) & (int) m->table_size))
                {
                  sb_t k = { 0, 0, 0 };
                  sb_puts (&k, "");
                  pv (&k, &n->values[0], depth + 1);
                  fprintf (stderr, "VL lookup-miss %s bucket=%d hash=%d size=%d\n", k.b, i,
                           svalue_to_int (&n->values[0]) & 0xffff, (int) m->table_size + 1);
                  fflush (stderr);
                  free (k.b);
                }
              cnt++;
            }
        /* sizeof(m) is m->count: it must be the number of entries the table holds */
        if ((int) m->count != cnt)
          {
            fprintf (stderr, "VL lookup-miss sizeof=%d entries=%d\n", (int) m->count, cnt);
            fflush (stderr);
          }
        qsort (items, cnt, sizeof (sb_t), cmp_sb);
        sb_puts (o, "m{");
        for (int i = 0; i < cnt; i++)
          {
            if (i)
              sb_puts (o, ",");
            sb_put (o, items[i].b, items[i].n);
            free (items[i].b);
          }
        free (items);
        sb_puts (o, "}");
        break;
      }
    default:
      snprintf (tmp, sizeof tmp, "<t%d>", sv->type);
      sb_puts (o, tmp);
    }
}

/* ---- canonical form of a (well-formed) save text: mapping entries sorted bytewise ------------------------ */
/* parses one element starting at *p (stops before the delimiter); returns 0 when the text is not what save_svalue
 * writes (then the raw text is used) */
static int canon_elem (const char **p, sb_t * o)
{
  const char *s = *p;
  if (*s == '"')
    {
      const char *q = s + 1;
      while (*q && *q != '"')
        {
          if (*q == '\\')
            {
              q++;
              if (!*q)
                return 0;
            }
          q++;
        }
      if (!*q)
        return 0;
      q++;
      sb_put (o, s, q - s);
      *p = q;
      return 1;
    }
  if (s[0] == '(' && (s[1] == '{' || s[1] == '/'))
    {
      char cl = s[1] == '{' ? '}' : '/';
      sb_put (o, s, 2);
      s += 2;
      while (!(s[0] == cl && s[1] == ')'))
        {
          if (!*s || !canon_elem (&s, o) || *s != ',')
            return 0;
          sb_puts (o, ",");
          s++;
        }
      sb_put (o, s, 2);
      *p = s + 2;
      return 1;
    }
  if (s[0] == '(' && s[1] == '[')
    {
      int cnt = 0, cap = 16, ok = 1;
      sb_t *items = (sb_t *) calloc (cap, sizeof (sb_t));
      s += 2;
      while (!(s[0] == ']' && s[1] == ')'))
        {
          if (cnt == cap)
            {
              items = (sb_t *) realloc (items, sizeof (sb_t) * cap * 2);
              memset (items + cap, 0, sizeof (sb_t) * cap);
              cap *= 2;
            }
          sb_puts (&items[cnt], "");
          cnt++;
          if (!*s || !canon_elem (&s, &items[cnt - 1]) || *s != ':')
            {
              ok = 0;
              break;
            }
          sb_puts (&items[cnt - 1], ":");
          s++;
          if (!canon_elem (&s, &items[cnt - 1]) || *s != ',')
            {
              ok = 0;
              break;
            }
          s++;
        }
      if (ok)
        {
          qsort (items, cnt, sizeof (sb_t), cmp_sb);
          sb_puts (o, "([");
          for (int i = 0; i < cnt; i++)
            {
              sb_put (o, items[i].b, items[i].n);
              sb_puts (o, ",");
            }
          sb_puts (o, "])");
          *p = s + 2;
        }
      for (int i = 0; i < cnt; i++)
        free (items[i].b);
      free (items);
      return ok;
    }
  /* number / float / nothing: up to the next delimiter or closer */
  {
    const char *q = s;
    while (*q && *q != ',' && *q != ':' && *q != '}' && *q != ']' && *q != '/' && *q != '"' && *q != '(')
      q++;
    sb_put (o, s, q - s);
    *p = q;
    return 1;
  }
}

static void canon_text (const char *text, sb_t * o)
{
  const char *p = text;
  sb_t t = { 0, 0, 0 };
  sb_puts (&t, "");
  if (canon_elem (&p, &t) && !*p)
    sb_put (o, t.b, t.n);
  else
    sb_puts (o, text);
  free (t.b);
}

static void out_hex (const char *tag, const char *data, size_t n)
{
  char *h = (char *) malloc (n * 2 + 1);
  for (size_t i = 0; i < n; i++)
    sprintf (h + 2 * i, "%02x", (unsigned char) data[i]);
  h[2 * n] = 0;
  /* vh_out has a fixed buffer; write long lines directly in its format */
  fprintf (stderr, "VL %s %s\n", tag, h);
  fflush (stderr);
  free (h);
}

/* ---- calling into the helper object ------------------------------------ */
/* returns 0 ok (ret = fresh reference), 1 LPC error, 2 no function */
static int c16_apply (const char *fn, int nargs, svalue_t * args, svalue_t * ret)
{
  error_context_t econ;
  volatile int rc = 0;
  char *shared = make_shared_string (fn);
  ret->type = T_NUMBER;
  ret->u.number = 0;
  if (!save_context (&econ))
    return 1;
  if (!setjmp (econ.context))
    {
      svalue_t *r;
      for (int i = 0; i < nargs; i++)
        push_svalue (&args[i]);
      eval_cost = CONFIG_INT (__MAX_EVAL_COST__);
      r = apply (shared, c16_ob, nargs, ORIGIN_DRIVER);
      if (!r)
        rc = 2;
      else
        assign_svalue_no_free (ret, r);
      pop_context (&econ);
    }
  else
    {
      restore_context (&econ);
      pop_context (&econ);
      rc = 1;
    }
  free_string (shared);
  return rc;
}

static const char *c16_objpath = "/c16/obj";

static int c16_generic = 0;	/* the object under test is a generated program: variables are set / read by slot */

/* the REAL program tree of an object, one line:
 *   P(<name>;<num_variables_defined>;<num_variables_total>;V[<name>:<type flags>,..];I[<type_mod>:<variable_index_offset>:P(..),..]) */
static void dump_prog (sb_t * o, program_t * pr)
{
  char tmp[64];
  sb_puts (o, "P(");
  sb_puts (o, pr->name);
  snprintf (tmp, sizeof tmp, ";%d;%d;V[", (int) pr->num_variables_defined, (int) pr->num_variables_total);
  sb_puts (o, tmp);
  for (int i = 0; i < pr->num_variables_defined; i++)
    {
      if (i)
        sb_puts (o, ",");
      sb_puts (o, pr->variable_table[i]);
      snprintf (tmp, sizeof tmp, ":%d", (int) pr->variable_types[i]);
      sb_puts (o, tmp);
    }
  sb_puts (o, "];I[");
  for (int i = 0; i < pr->num_inherited; i++)
    {
      if (i)
        sb_puts (o, ",");
      snprintf (tmp, sizeof tmp, "%d:%d:", (int) pr->inherit[i].type_mod, (int) pr->inherit[i].variable_index_offset);
      sb_puts (o, tmp);
      dump_prog (o, pr->inherit[i].prog);
    }
  sb_puts (o, "])");
}

static void ensure_obj (void)
{
  if (c16_ob)
    return;
  error_context_t econ;
  save_context (&econ);
  if (!setjmp (econ.context))
    {
      c16_ob = load_object (c16_objpath, 0);
      pop_context (&econ);
    }
  else
    {
      restore_context (&econ);
      pop_context (&econ);
    }
  if (!c16_ob)
    {
      vh_out ("noobj");
      _exit (0);
    }
  add_ref (c16_ob, "c16");
}

/* the hash table of a restored mapping whose keys are all integers (their hash is the number itself, shifted):
 *   tbl size=<buckets> unfilled=<m->unfilled> count=<m->count> <bucket>:<key>,<key>..  (non-empty buckets, chains head first) */
static void dump_tbl (svalue_t * sv)
{
  if (sv->type != T_MAPPING)
    return;
  mapping_t *m = sv->u.map;
  for (int i = 0; i <= (int) m->table_size; i++)
    for (mapping_node_t * n = m->table[i]; n; n = n->next)
      if (n->values[0].type != T_NUMBER)
        return;
  sb_t o = { 0, 0, 0 };
  char tmp[64];
  snprintf (tmp, sizeof tmp, "size=%d unfilled=%d count=%d", (int) m->table_size + 1, (int) m->unfilled, (int) m->count);
  sb_puts (&o, tmp);
  for (int i = 0; i <= (int) m->table_size; i++)
    if (m->table[i])
      {
        snprintf (tmp, sizeof tmp, " %d:", i);
        sb_puts (&o, tmp);
        for (mapping_node_t * n = m->table[i]; n; n = n->next)
          {
            snprintf (tmp, sizeof tmp, "%s%lld", n == m->table[i] ? "" : ",", (long long) n->values[0].u.number);
            sb_puts (&o, tmp);
          }
      }
  fprintf (stderr, "VL tbl %s\n", o.b);
  fflush (stderr);
  free (o.b);
}

static int restore_dump_tbl = 0;	/* rv / rx: print the table of a restored integer-key mapping */

static void do_restore_text (char *text)
{
  svalue_t arg, ret;
  arg.type = T_STRING;
  arg.subtype = STRING_MALLOC;
  arg.u.string = string_copy (text, "c16 rv");
  int rc = c16_apply ("rv", 1, &arg, &ret);
  free_svalue (&arg, "c16");
  if (rc)
    vh_out ("resterr");
  else
    {
      sb_t o = { 0, 0, 0 };
      sb_puts (&o, "");
      pv (&o, &ret, 0);
      fprintf (stderr, "VL rest %s\n", o.b);
      fflush (stderr);
      free (o.b);
      if (restore_dump_tbl)
        dump_tbl (&ret);
      free_svalue (&ret, "c16");
    }
}

static void do_roundtrip (svalue_t * val)
{
  svalue_t saved;
  int rc = c16_apply ("sv", 1, val, &saved);
  if (rc || saved.type != T_STRING)
    {
      vh_out ("saveerr");
      return;
    }
  sb_t c = { 0, 0, 0 };
  sb_puts (&c, "");
  canon_text (saved.u.string, &c);
  out_hex ("save", c.b, c.n);
  free (c.b);
  char *copy = strdup (saved.u.string);
  free_svalue (&saved, "c16");
  do_restore_text (copy);
  free (copy);
}

static char *read_file (const char *path, size_t * n)
{
  FILE *f = fopen (path, "r");
  if (!f)
    return 0;
  sb_t s = { 0, 0, 0 };
  char buf[4096];
  size_t k;
  sb_puts (&s, "");
  while ((k = fread (buf, 1, sizeof buf, f)) > 0)
    sb_put (&s, buf, k);
  fclose (f);
  *n = s.n;
  return s.b;
}

static void write_file (const char *path, const char *data, size_t n)
{
  FILE *f = fopen (path, "w");
  if (!f)
    return;
  fwrite (data, 1, n, f);
  fclose (f);
}

/* canonical print of the save file: every line `name value` with the value canonicalised */
static void out_file (void)
{
  size_t n;
  char *d = read_file (SAVE_FILE, &n);
  if (!d)
    {
      vh_out ("file none");
      return;
    }
  sb_t o = { 0, 0, 0 };
  sb_puts (&o, "");
  char *p = d;
  while (*p)
    {
      char *nl = strchr (p, '\n');
      if (nl)
        *nl = 0;
      char *sp = (*p == '#') ? 0 : strchr (p, ' ');
      if (sp)
        {
          sb_put (&o, p, sp + 1 - p);
          canon_text (sp + 1, &o);
        }
      else
        sb_puts (&o, p);
      if (nl)
        {
          sb_puts (&o, "\n");
          p = nl + 1;
        }
      else
        break;
    }
  out_hex ("file", o.b, o.n);
  free (o.b);
  free (d);
}

static const char *c16_savename = SAVE_LPC;

static int call_so (int zeros)
{
  svalue_t a[2], ret;
  a[0].type = T_STRING;
  a[0].subtype = STRING_MALLOC;
  a[0].u.string = string_copy (c16_savename, "c16");
  a[1].type = T_NUMBER;
  a[1].u.number = zeros;
  int rc = c16_apply ("so", 2, a, &ret);
  free_svalue (&a[0], "c16");
  if (rc)
    return -1;
  return (int) ret.u.number;
}

static const char *classify (const char *old, size_t on, const char *nw, size_t nn)
{
  size_t n;
  char *d = read_file (SAVE_FILE, &n);
  const char *r;
  if (!d)
    r = "none";
  else if (old && nw && n == on && n == nn && !memcmp (d, old, n) && !memcmp (d, nw, n))
    r = "both";			/* the save would not change the file: old and new contents coincide */
  else if (old && n == on && !memcmp (d, old, n))
    r = "old";
  else if (nw && n == nn && !memcmp (d, nw, n))
    r = "new";
  else
    r = "other";
  free (d);
  return r;
}

static void reset_files (const char *old, size_t on)
{
  static int (*ru) (const char *);
  if (!ru)
    ru = (int (*)(const char *)) real ("unlink");
  ru (SAVE_TMP);
  if (old)
    write_file (SAVE_FILE, old, on);
  else
    ru (SAVE_FILE);
}

static void crash_points (int zeros, int failmode)
{
  size_t on = 0, nn = 0;
  char *old = read_file (SAVE_FILE, &on);
  int pfd[2];
  int total = -1;
  /* counting run in a child (so that every run starts from the same process state) */
  if (pipe (pfd))
    return;
  fflush (stderr);
  pid_t pid = fork ();
  if (pid == 0)
    {
      ip_armed = 1;
      ip_count = 0;
      call_so (zeros);
      ip_armed = 0;
      int c = ip_count;
      if (write (pfd[1], &c, sizeof c) != sizeof c)
        _exit (3);
      _exit (0);
    }
  close (pfd[1]);
  if (read (pfd[0], &total, sizeof total) != sizeof total)
    total = -1;
  close (pfd[0]);
  waitpid (pid, 0, 0);
  char *nw = read_file (SAVE_FILE, &nn);
  vh_out ("%s n=%d", failmode ? "cf" : "cp", total);
  for (int k = 0; k <= total && total >= 0; k++)
    {
      int status = 0, ret = -2;
      reset_files (old, on);
      if (pipe (pfd))
        break;
      fflush (stderr);
      pid = fork ();
      if (pid == 0)
        {
          ip_armed = 1;
          ip_count = 0;
          if (failmode)
            ip_fail_at = k;
          else
            ip_exit_at = k;
          int r = call_so (zeros);
          ip_armed = 0;
          if (write (pfd[1], &r, sizeof r) != sizeof r)
            _exit (3);
          _exit (0);
        }
      close (pfd[1]);
      if (read (pfd[0], &ret, sizeof ret) != sizeof ret)
        ret = -2;		/* the child left at the crash point */
      close (pfd[0]);
      waitpid (pid, &status, 0);
      struct stat st;
      int tmp = stat (SAVE_TMP, &st) == 0;
      const char *cls = classify (old, on, nw, nn);
      if (WIFSIGNALED (status) || (WIFEXITED (status) && WEXITSTATUS (status)))
        vh_out ("%s %d childcrash", failmode ? "cf" : "cp", k);
      else if (failmode)
        vh_out ("cf %d ret=%d %s tmp=%d", k, ret, cls, tmp);
      else
        vh_out ("cp %d %s tmp=%d", k, cls, tmp);
    }
  reset_files (old, on);
  free (old);
  free (nw);
}

/* `cl <zeros>`: the save hits a file-size limit of L bytes (setrlimit RLIMIT_FSIZE in a forked child): stdio's flush
 * writes the block PARTIALLY, then fails (SIGXFSZ ignored:  cl <L> ret=<r> <state> tmp=<0|1>) or the process is killed
 * in the middle of the block (SIGXFSZ default:  ck <L> killed|ret=<r> <state> tmp=<0|1>).  L runs over
 * 0, 1, n/2, n-1, n, n+1 and the stdio block boundaries 4095, 4096, 4097, 8192 below n (n = length of the new file). */
#include <sys/resource.h>
#include <fcntl.h>
#include <signal.h>
static void size_limits (int zeros)
{
  size_t on = 0, nn = 0;
  char *old = read_file (SAVE_FILE, &on);
  fflush (stderr);
  pid_t pid = fork ();
  if (pid == 0)
    {
      call_so (zeros);
      _exit (0);
    }
  waitpid (pid, 0, 0);
  char *nw = read_file (SAVE_FILE, &nn);
  long cand[10] = { 0, 1, (long) nn / 2, (long) nn - 1, (long) nn, (long) nn + 1, 4095, 4096, 4097, 8192 };
  vh_out ("cl n=%ld", (long) nn);
  for (int i = 0; i < 10 && nw; i++)
    {
      long L = cand[i];
      int dup = 0;
      for (int j = 0; j < i; j++)
        dup |= cand[j] == L;
      if (dup || L < 0 || (i >= 6 && L >= (long) nn))
        continue;
      for (int kill = 0; kill < 2; kill++)
        {
          int pfd[2], status = 0, ret = -2;
          reset_files (old, on);
          if (pipe (pfd))
            break;
          fflush (stderr);
          pid = fork ();
          if (pid == 0)
            {
              struct rlimit rl;
              /* the trace goes to a regular file through stderr: keep the limit (and SIGXFSZ) away from it */
              int nul = open ("/dev/null", O_WRONLY);
              if (nul >= 0)
                dup2 (nul, 2);
              rl.rlim_cur = rl.rlim_max = (rlim_t) L;
              signal (SIGXFSZ, kill ? SIG_DFL : SIG_IGN);
              if (setrlimit (RLIMIT_FSIZE, &rl))
                _exit (4);
              int r = call_so (zeros);
              if (write (pfd[1], &r, sizeof r) != sizeof r)
                _exit (3);
              _exit (0);
            }
          close (pfd[1]);
          if (read (pfd[0], &ret, sizeof ret) != sizeof ret)
            ret = -2;
          close (pfd[0]);
          waitpid (pid, &status, 0);
          struct stat st;
          int tmp = stat (SAVE_TMP, &st) == 0;
          const char *cls = classify (old, on, nw, nn);
          if (WIFSIGNALED (status) && WTERMSIG (status) == SIGXFSZ)
            vh_out ("%s %ld killed %s tmp=%d", kill ? "ck" : "cl", L, cls, tmp);
          else if (WIFSIGNALED (status) || (WIFEXITED (status) && WEXITSTATUS (status)))
            vh_out ("%s %ld childcrash", kill ? "ck" : "cl", L);
          else
            vh_out ("%s %ld ret=%d %s tmp=%d", kill ? "ck" : "cl", L, ret, cls, tmp);
        }
    }
  reset_files (old, on);
  free (old);
  free (nw);
}

static int c16_cmd (char *line)
{
  static char *copy = 0;
  static int started = 0;
  char *tok[16];
  if (!started)
    {
      /* every case runs in its own child: start it without a save file / temporary left by an earlier case, so that
         a case (and a shrunk replay) means the same whatever ran before it */
      started = 1;
      unlink (SAVE_FILE);
      unlink (SAVE_TMP);
    }
  free (copy);
  copy = strdup (line);
  int n = vh_split (copy, tok, 16);
  if (!n)
    return 1;
  if (!strcmp (tok[0], "rt") && n == 2)
    {
      svalue_t v;
      char *p = tok[1];
      ensure_obj ();
      if (!parse_val (&p, &v) || *p)
        {
          vh_out ("badval");
          return 1;
        }
      do_roundtrip (&v);
      free_svalue (&v, "c16");
      return 1;
    }
  if (!strcmp (tok[0], "rtl") && n >= 2)
    {
      svalue_t a[8], r;
      int na = 0;
      ensure_obj ();
      for (int i = 2; i < n && na < 8; i++)
        {
          char *p = tok[i];
          if (!parse_val (&p, &a[na]) || *p)
            {
              vh_out ("badval");
              return 1;
            }
          na++;
        }
      if (c16_apply (tok[1], na, a, &r))
        {
          vh_out ("lpcerr");
          return 1;
        }
      do_roundtrip (&r);
      return 1;
    }
  if ((!strcmp (tok[0], "rv") && (n == 2 || n == 1)) || (!strcmp (tok[0], "rx") && n == 3))
    {
      ensure_obj ();
      char *h = tok[0][1] == 'x' ? tok[2] : n == 2 ? tok[1] : (char *) "";
      size_t len = strlen (h) / 2;
      char *t = (char *) malloc (len + 1);
      for (size_t i = 0; i < len; i++)
        t[i] = (char) (hexv (h[2 * i]) * 16 + hexv (h[2 * i + 1]));
      t[len] = 0;
      restore_dump_tbl = 1;
      do_restore_text (t);
      restore_dump_tbl = 0;
      free (t);
      return 1;
    }
  if (!strcmp (tok[0], "set") && n == 6)
    {
      svalue_t a[5], r;
      ensure_obj ();
      for (int i = 0; i < 5; i++)
        {
          char *p = tok[i + 1];
          if (!parse_val (&p, &a[i]) || *p)
            {
              vh_out ("badval");
              return 1;
            }
        }
      if (c16_apply ("setv", 5, a, &r))
        vh_out ("seterr");
      return 1;
    }
  if (!strcmp (tok[0], "poison") && n == 2)
    {
      /* poison <d>: the state an LPC error raised in the middle of an earlier save / restore leaves behind: the
         container counter save_svalue_depth stays at <d> (the size table is whatever it was: NULL or allocated).
         Every entry point must start from it as from a fresh driver. */
      save_svalue_depth = atoi (tok[1]);
      return 1;
    }
  if (!strcmp (tok[0], "cl") && n == 2)
    {
      ensure_obj ();
      size_limits (atoi (tok[1]));
      return 1;
    }
  if (!strcmp (tok[0], "mkd") && n == 2)
    {
      /* mkd <hex path>: mkdir -p below the mudlib (for long save paths) */
      char d[1200];
      size_t k = strlen (tok[1]) / 2;
      if (k >= sizeof d)
        return 0;
      for (size_t i = 0; i < k; i++)
        d[i] = (char) (hexv (tok[1][2 * i]) * 16 + hexv (tok[1][2 * i + 1]));
      d[k] = 0;
      for (char *q = d + 1; ; q++)
        if (*q == '/' || !*q)
          {
            char c = *q;
            *q = 0;
            mkdir (d, 0755);
            *q = c;
            if (!c)
              break;
          }
      return 1;
    }
  if (!strcmp (tok[0], "use") && n == 2)
    {
      /* use obj | many : the object the following commands work on */
      c16_objpath = !strcmp (tok[1], "many") ? "/c16/many" : "/c16/obj";
      c16_ob = 0;
      c16_generic = 0;
      ensure_obj ();
      return 1;
    }
  if (!strcmp (tok[0], "useg") && n == 2)
    {
      /* useg <path>: load a generated program, work on it by slot, dump its real program tree */
      static char path[512];
      snprintf (path, sizeof path, "%s", tok[1]);
      c16_objpath = path;
      c16_ob = 0;
      c16_generic = 1;
      ensure_obj ();
      sb_t o = { 0, 0, 0 };
      sb_puts (&o, "");
      dump_prog (&o, c16_ob->prog);
      fprintf (stderr, "VL tree %s\n", o.b);
      fflush (stderr);
      free (o.b);
      return 1;
    }
  if (!strcmp (tok[0], "setm") && n == 2)
    {
      svalue_t a, r;
      char *p = tok[1];
      ensure_obj ();
      if (!parse_val (&p, &a) || *p)
        {
          vh_out ("badval");
          return 1;
        }
      if (c16_generic)
        {
          /* assign the variable slots of the object directly */
          if (a.type != T_ARRAY || a.u.arr->size != c16_ob->prog->num_variables_total)
            vh_out ("seterr");
          else
            for (int i = 0; i < a.u.arr->size; i++)
              assign_svalue (&c16_ob->variables[i], &a.u.arr->item[i]);
          free_svalue (&a, "c16");
          return 1;
        }
      if (c16_apply ("setall", 1, &a, &r))
        vh_out ("seterr");
      return 1;
    }
  if ((!strcmp (tok[0], "son") || !strcmp (tok[0], "sond")) && n == 4)
    {
      /* sond: the same where <path> is an existing DIRECTORY (made by `mkd`): rename(tmp, path) fails for real */
      /* son <hex file name given to save_object> <zeros> <hex path (relative to the mudlib) the save must create> */
      static char name[1200], path[1200];
      size_t ln = strlen (tok[1]) / 2, lp = strlen (tok[3]) / 2;
      static int (*ru) (const char *);
      if (!ru)
        ru = (int (*)(const char *)) real ("unlink");
      ensure_obj ();
      if (ln >= sizeof name || lp >= sizeof path || !lp)
        return 0;
      for (size_t i = 0; i < ln; i++)
        name[i] = (char) (hexv (tok[1][2 * i]) * 16 + hexv (tok[1][2 * i + 1]));
      name[ln] = 0;
      for (size_t i = 0; i < lp; i++)
        path[i] = (char) (hexv (tok[3][2 * i]) * 16 + hexv (tok[3][2 * i + 1]));
      path[lp] = 0;
      ru (path);
      c16_savename = name;
      ip_lastpath[0] = 0;
      ip_armed = 1;
      ip_count = 0;
      ip_exit_at = ip_fail_at = -1;
      int r = call_so (atoi (tok[2]));
      ip_armed = 0;
      ip_file = 0;
      c16_savename = SAVE_LPC;
      struct stat st;
      {
        /* the name of the temporary the save wrote to, and whether it is gone afterwards */
        char hex[2100];
        size_t k = strlen (ip_lastpath);
        for (size_t i = 0; i < k; i++)
          sprintf (hex + 2 * i, "%02x", (unsigned char) ip_lastpath[i]);
        hex[2 * k] = 0;
        vh_out ("so %d made=%d tmp=%s left=%d", r, stat (path, &st) == 0, hex, k && stat (ip_lastpath, &st) == 0);
      }
      ru (path);
      if (tok[0][3] == 'd')
        rmdir (path);
      return 1;
    }
  if (!strcmp (tok[0], "so") && n == 2)
    {
      ensure_obj ();
      {
        size_t bn = 0, an = 0;
        char *before = read_file (SAVE_FILE, &bn);
        int r = call_so (atoi (tok[1]));
        vh_out ("so %d", r);
        if (r < 0)
          {
            /* the save ended with an LPC error: the save file must be what it was */
            char *after = read_file (SAVE_FILE, &an);
            int same = (!before && !after) || (before && after && bn == an && !memcmp (before, after, bn));
            vh_out (same ? "file unchanged" : "file changed");
            free (after);
          }
        else
          out_file ();
        free (before);
      }
      {
        struct stat st;
        if (!strcmp (c16_savename, SAVE_LPC) && stat (SAVE_TMP, &st) == 0)
          {
            static int (*ru) (const char *);
            if (!ru)
              ru = (int (*)(const char *)) real ("unlink");
            vh_out ("tmp-left-behind");	/* the save ended (LPC error) with its temporary still there */
            ru (SAVE_TMP);
          }
      }
      return 1;
    }
  if (!strcmp (tok[0], "wf") && (n == 2 || n == 1))
    {
      char *h = n == 2 ? tok[1] : (char *) "";
      size_t len = strlen (h) / 2;
      char *t = (char *) malloc (len + 1);
      for (size_t i = 0; i < len; i++)
        t[i] = (char) (hexv (h[2 * i]) * 16 + hexv (h[2 * i + 1]));
      write_file (SAVE_FILE, t, len);
      free (t);
      return 1;
    }
  if (!strcmp (tok[0], "rm") && n == 1)
    {
      reset_files (0, 0);
      return 1;
    }
  if ((!strcmp (tok[0], "ro") && n == 2) || (!strcmp (tok[0], "rox") && n == 3))	/* rox <noclear> <expected vars>: for the oracle */
    {
      svalue_t a[2], r;
      ensure_obj ();
      a[0].type = T_STRING;
      a[0].subtype = STRING_MALLOC;
      a[0].u.string = string_copy (SAVE_LPC, "c16");
      a[1].type = T_NUMBER;
      a[1].u.number = atoi (tok[1]);
      if (c16_apply ("ro", 2, a, &r))
        vh_out ("roerr");
      else
        vh_out ("ro %d", (int) r.u.number);
      if (c16_generic)
        {
          sb_t o = { 0, 0, 0 };
          sb_puts (&o, "a[");
          for (int i = 0; i < c16_ob->prog->num_variables_total; i++)
            {
              if (i)
                sb_puts (&o, ",");
              pv (&o, &c16_ob->variables[i], 1);
            }
          sb_puts (&o, "]");
          fprintf (stderr, "VL vars %s\n", o.b);
          fflush (stderr);
          free (o.b);
        }
      else if (!c16_apply ("getv", 0, 0, &r))
        {
          sb_t o = { 0, 0, 0 };
          sb_puts (&o, "");
          pv (&o, &r, 0);
          fprintf (stderr, "VL vars %s\n", o.b);
          fflush (stderr);
          free (o.b);
          free_svalue (&r, "c16");
        }
      return 1;
    }
  if ((!strcmp (tok[0], "cp") || !strcmp (tok[0], "cf")) && n == 2)
    {
      ensure_obj ();
      crash_points (atoi (tok[1]), tok[0][1] == 'f');
      return 1;
    }
  return 0;
}

int main (int argc, char **argv)
{
  return vh_main (argc, argv, c16_cmd);
}
