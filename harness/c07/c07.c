/* C07 harness (system style): loads generated inheritance graphs, DUMPS the real program tables
 * (function table in table order with the rank of the name pointer, per-slot flags and decompressed
 * runtime entries, inherit list with offsets, the call operands compiled into every function body),
 * and performs calls by name from different origins through the real apply()/call_other/call_out code.
 *
 *   names <n>...                 intern the names (shared strings, kept for the whole case)
 *   ld <oid> <path>              load_object
 *   dump <oid>...                print `nm`/`tbl`/`obj` lines for the programs of these objects (recursively)
 *   call <origin> <oid> <fn>     origin: co  = call_other from /c07/caller, name is the shared string
 *                                        com = call_other, name is a malloc'ed copy (other pointer, same text)
 *                                        drv = apply (.., ORIGIN_DRIVER)
 *                                        cot = apply (.., ORIGIN_CALL_OUT)
 *                                        rco = real call_out: new_call_out + current_time++ + call_out()
 *                                        hb  = heart_beat origin: set_heart_beat + one backend tick (fn is ignored)
 *                                prints `call ...`, the `run ...` lines of the LPC bodies, `ret <v>|!no|!err`,
 *                                then `vars <oid> v0 v1 ...`
 *   cold                         clear_apply_cache()
 *   evict <oid> <fn>             apply (ORIGIN_DRIVER) a fresh non-existent name whose shared-string pointer
 *                                hashes to the same cache slot as (<oid>'s program, <fn>)   [forced collision]
 */
#include "vh.h"
#include "lib/efuns/call_out.h"
#include "lpc/program.h"
#include "lpc/program/disassemble.h"
#include "lpc/include/function.h"
#include "efuns_opcode.h"
#include "src/interpret.h"
#include "src/backend.h"
void verif_tick (void);
extern int verif_binaries_loaded;	/* hook in lib/lpc/program/binaries.c */
static int binloads_base = 0;

/* virtual clock: backend.c:call_heart_beat() does `time (&current_time)`; interposed at link level so that a backend
 * tick keeps the harness' clock (current_time) instead of jumping to the wall clock */
time_t time (time_t * t)
{
  time_t v = current_time ? current_time : (time_t) VH_T0;
  if (t)
    *t = v;
  return v;
}

#define MAXN 4096
static char *names[MAXN];
static int nnames = 0;

static char *intern (const char *s)
{
  for (int i = 0; i < nnames; i++)
    if (!strcmp (names[i], s))
      return names[i];
  if (nnames == MAXN)
    return make_shared_string (s);
  return names[nnames++] = make_shared_string (s);
}

/* ---- program collection ------------------------------------------------ */
#define MAXP 64
static program_t *progs[MAXP];
static int nprogs = 0;

static void collect (program_t * p)
{
  for (int i = 0; i < nprogs; i++)
    if (progs[i] == p)
      return;
  for (int i = 0; i < p->num_inherited; i++)
    collect (p->inherit[i].prog);
  if (nprogs < MAXP)
    progs[nprogs++] = p;
}

static int cmp_ptr (const void *a, const void *b)
{
  const char *x = *(char *const *) a, *y = *(char *const *) b;
  return x < y ? -1 : x > y;
}

static char *allp[MAXN + MAXP * 64];
static int nall = 0;

static int key_of (const char *p)
{
  for (int i = 0; i < nall; i++)
    if (allp[i] == p)
      return (i + 1) * 3;	/* spaced ranks: the order is what matters */
  return 0;
}

/* call operands compiled into the body of table entry k of program p */
static void body_ops (program_t * p, int k, char *out, size_t n)
{
  compiler_function_t *f = &p->function_table[k];
  int start = f->address, end = p->program_size;
  char *buf = 0;
  size_t len = 0;
  *out = 0;
  for (int j = 0; j < p->num_functions_defined; j++)
    {
      int a = p->function_table[j].address;
      int fl = p->function_flags[p->function_table[j].runtime_index];
      if (!(fl & (NAME_INHERITED | NAME_NO_CODE)) && a > start && a < end)
        end = a;
    }
  FILE *m = open_memstream (&buf, &len);
  /* start == 0 makes disassemble() print function headers as well; harmless */
  disassemble (m, p->program, start, end, p);
  fclose (m);
  char *save = 0;
  for (char *line = strtok_r (buf, "\n", &save); line; line = strtok_r (0, "\n", &save))
    {
      unsigned addr;
      char tmp[64];
      if (strlen (line) < 6 || line[4] != ':' || sscanf (line, "%4x:", &addr) != 1)
        continue;
      if ((int) addr < start || (int) addr >= end)
        continue;
      unsigned char *c = (unsigned char *) p->program + addr;
      unsigned short s;
      tmp[0] = 0;
      if (c[0] == F_CALL_FUNCTION_BY_ADDRESS)
        {
          memcpy (&s, c + 1, 2);
          snprintf (tmp, sizeof tmp, "L%d", (int) s);
        }
      else if (c[0] == F_CALL_INHERITED)
        {
          memcpy (&s, c + 2, 2);
          snprintf (tmp, sizeof tmp, "S%d.%d", (int) c[1], (int) s);
        }
      else if (c[0] == F_FUNCTION_CONSTRUCTOR && (c[1] & ~FP_NOT_BINDABLE) == FP_LOCAL)
        {
          memcpy (&s, c + 2, 2);
          snprintf (tmp, sizeof tmp, "F%d", (int) s);
        }
      if (tmp[0])
        {
          if (*out)
            strncat (out, "+", n - strlen (out) - 1);
          strncat (out, tmp, n - strlen (out) - 1);
        }
    }
  free (buf);
  if (!*out)
    snprintf (out, n, "-");
}

static const char *pname (program_t * p)
{
  /* "c07/g/<case>/p3.c" -> "p3" */
  static char b[8][64];
  static int r = 0;
  char *o = b[r = (r + 1) & 7];
  const char *s = strrchr (p->name, '/');
  snprintf (o, 64, "%s", s ? s + 1 : p->name);
  char *dot = strrchr (o, '.');
  if (dot)
    *dot = 0;
  return o;
}

/* long canonical lines (a table with hundreds of slots does not fit vh_out's buffer) */
static void out_long (const char *line)
{
  fprintf (stderr, "VL %s\n", line);
  fflush (stderr);
}

#define DUMPSZ (1 << 20)
static void dump_cmp (program_t * p);

static void dump_prog (program_t * p)
{
  static char line[DUMPSZ];
  char *o = line;
  size_t left = sizeof line;
#define EMIT(...) do { int _n = snprintf (o, left, __VA_ARGS__); if (_n > 0 && (size_t) _n < left) { o += _n; left -= _n; } } while (0)
  EMIT ("tbl %s id=%d nvt=%d nvd=%d ft=", pname (p), p->id_number, p->num_variables_total, p->num_variables_defined);
  if (!p->num_functions_defined)
    EMIT ("-");
  for (int k = 0; k < p->num_functions_defined; k++)
    {
      char ops[1024];
      compiler_function_t *f = &p->function_table[k];
      int fl = p->function_flags[f->runtime_index];
      if (fl & (NAME_INHERITED | NAME_NO_CODE))
        snprintf (ops, sizeof ops, "-");
      else
        body_ops (p, k, ops, sizeof ops);
      EMIT ("%s%s:%d:%d:%s", k ? "," : "", f->name, key_of (f->name), (int) f->runtime_index, ops);
    }
  EMIT (" fl=");
  if (!p->num_functions_total)
    EMIT ("-");
  for (int i = 0; i < p->num_functions_total; i++)
    {
      runtime_function_u *e = FIND_FUNC_ENTRY (p, i);
      int fl = p->function_flags[i];
      if (fl & NAME_INHERITED)
        EMIT ("%s%d:I:%d:%d", i ? "," : "", fl, (int) e->inh.offset, (int) e->inh.index);
      else
        EMIT ("%s%d:D:%d:%d", i ? "," : "", fl, (int) e->def.f_index, (int) e->def.num_arg);
    }
  EMIT (" hb=%d inh=", (int) p->heart_beat);
  if (!p->num_inherited)
    EMIT ("-");
  for (int i = 0; i < p->num_inherited; i++)
    EMIT ("%s%s:%d:%d:%d", i ? "," : "", pname (p->inherit[i].prog), (int) p->inherit[i].function_index_offset,
          (int) p->inherit[i].variable_index_offset, (int) p->inherit[i].type_mod);
  out_long (line);
  dump_cmp (p);
}

/* the COMPRESSED table as it is stored: the fields of compressed_offset_table_t, the index bytes, and the stored
 * runtime entries read directly from function_offsets[] (NOT through FIND_FUNC_ENTRY); the union member printed is
 * the one the flags of the owning slot announce */
static void dump_cmp (program_t * p)
{
  static char line[DUMPSZ];
  char *o = line;
  size_t left = sizeof line;
  compressed_offset_table_t *c = p->function_compressed;
  int f_ov = c->first_overload, f_def = c->first_defined;
  int n_ov = f_def - c->num_compressed;
  int j = f_def - c->num_deleted;
  int nstored = p->num_functions_total - c->num_deleted;
  EMIT ("cmp %s fdef=%d fov=%d ncomp=%d ndel=%d ix=", pname (p), f_def, f_ov, (int) c->num_compressed, (int) c->num_deleted);
  if (n_ov <= 0)
    EMIT ("-");
  for (int i = 0; i < n_ov; i++)
    EMIT ("%s%d", i ? "," : "", (int) c->index[i]);
  EMIT (" st=");
  if (nstored <= 0)
    EMIT ("-");
  for (int k = 0; k < nstored; k++)
    {
      int owner = -1;
      runtime_function_u *e = p->function_offsets + k;
      if (k < j)
        {
          for (int i = 0; i < n_ov; i++)
            if (c->index[i] == k && c->index[i] != 255)
              owner = f_ov + i;
        }
      else
        owner = f_def + (k - j);
      if (owner < 0 || owner >= p->num_functions_total)
        EMIT ("%s?", k ? "," : "");
      else if (p->function_flags[owner] & NAME_INHERITED)
        EMIT ("%sI:%d:%d", k ? "," : "", (int) e->inh.offset, (int) e->inh.index);
      else
        EMIT ("%sD:%d:%d", k ? "," : "", (int) e->def.f_index, (int) e->def.num_arg);
    }
  out_long (line);
}

static void cmd_dump (int n, char **tok)
{
  nprogs = 0;
  for (int i = 1; i < n; i++)
    {
      object_t *ob = vh_obj (tok[i]);
      if (ob && !(ob->flags & O_DESTRUCTED))
        collect (ob->prog);
    }
  nall = 0;
  for (int i = 0; i < nnames; i++)
    allp[nall++] = names[i];
  for (int i = 0; i < nprogs; i++)
    for (int k = 0; k < progs[i]->num_functions_defined && nall < (int) (sizeof allp / sizeof *allp); k++)
      {
        char *nm = progs[i]->function_table[k].name;
        int seen = 0;
        for (int j = 0; j < nall; j++)
          if (allp[j] == nm)
            seen = 1;
        if (!seen)
          allp[nall++] = nm;
      }
  qsort (allp, nall, sizeof *allp, cmp_ptr);
  /* names in text order so the line is canonical up to the ranks */
  for (int i = 0; i < nall; i++)
    vh_out ("nm %s %d", allp[i], (i + 1) * 3);
  for (int i = 0; i < nprogs; i++)
    dump_prog (progs[i]);
  for (int i = 1; i < n; i++)
    {
      object_t *ob = vh_obj (tok[i]);
      if (ob && !(ob->flags & O_DESTRUCTED))
        vh_out ("obj %s %s", tok[i], pname (ob->prog));
    }
  /* how many programs came from saved binaries since the start of the case / the last `reload` */
  vh_out ("binloads %d", verif_binaries_loaded - binloads_base);
}

/* reload <name>...   everything compiled for this case is thrown away so that it is loaded again (from the saved
 * binaries, if the case's programs have #pragma save_binary) in a state where the shared strings of the function names
 * live at OTHER addresses: every object under /c07/g/ is destructed and really freed (programs and their name strings
 * go), the apply cache is cleared (its entries hold name references), the harness' own references are dropped, and the
 * names are interned again in the order given (best effort: ascending addresses in that order; the following `dump`
 * shows the order actually reached).  Names the driver itself keeps alive (create, heart_beat) stay where they are. */
static object_t *held[256];
static int nheld = 0;

static void cmd_reload (int n, char **tok)
{
  object_t *victims[512];
  int nv = 0;
  for (object_t * ob = obj_list; ob && nv < 512; ob = ob->next_all)
    if (!(ob->flags & O_DESTRUCTED) && ob->name && !strncmp (ob->name, "c07/g/", 6))
      victims[nv++] = ob;
  for (int i = 0; i < nv; i++)
    {
      error_context_t econ;
      save_context (&econ);
      if (!setjmp (econ.context))
        {
          destruct_object (victims[i]);
          pop_context (&econ);
        }
      else
        {
          restore_context (&econ);
          pop_context (&econ);
        }
    }
  /* labels of destructed objects must not dangle; give back the references the label table holds */
  for (int i = 0; i < nv; i++)
    {
      const char *oid;
      while (strcmp (oid = vh_oid_of (victims[i]), "?"))
        vh_setobj (oid, 0);
    }
  remove_destructed_objects ();
  for (int i = 0; i < nheld; i++)
    free_object (held[i], "c07 reload");
  nheld = 0;
  clear_apply_cache ();
  for (int i = 0; i < nnames; i++)
    free_string (names[i]);
  nnames = 0;
  static char *got[MAXN];
  int made = 0;
  for (int attempt = 0; attempt < 40; attempt++)
    {
      static int dummy_no = 0;
      int ok = 1;
      char *prev = 0;
      made = 0;
      for (int i = 1; i < n && made < MAXN; i++)
        {
          char *p;
          if (findstring (tok[i]))
            continue;		/* kept alive by the driver (or named twice): cannot move */
          p = make_shared_string (tok[i]);
          if (prev && p <= prev)
            ok = 0;
          prev = p;
          got[made++] = p;
        }
      if (ok || attempt == 39)
        break;
      for (int i = 0; i < made; i++)
        free_string (got[i]);
      /* take some chunks of the same size class out of the allocator's free list and try again */
      for (int i = 0; i < 64; i++)
        {
          char d[32];
          snprintf (d, sizeof d, "zz_pad_%d", dummy_no++);
          make_shared_string (d);
        }
    }
  /* the harness' table owns one reference per name: the one made above, or a new one for a name that could not move */
  for (int i = 1; i < n && nnames < MAXN; i++)
    {
      char *p = findstring (tok[i]);
      int seen = 0, mine = 0;
      for (int k = 0; k < nnames; k++)
        if (names[k] == p)
          seen = 1;
      if (seen)
        continue;
      for (int k = 0; k < made; k++)
        if (got[k] == p)
          mine = 1;
      names[nnames++] = mine ? p : make_shared_string (tok[i]);
    }
  binloads_base = verif_binaries_loaded;
  vh_out ("reload done");
}

/* ---- calls --------------------------------------------------------------- */
static void print_vars (const char *oid, object_t * ob)
{
  char line[4000], *o = line;
  size_t left = sizeof line;
  if (ob->flags & O_DESTRUCTED)
    return;
  EMIT ("vars %s", oid);
  for (int i = 0; i < ob->prog->num_variables_total; i++)
    {
      char v[256];
      vh_sv (v, sizeof v, &ob->variables[i]);
      EMIT (" %s", v);
    }
  vh_out ("%s", line);
}

static object_t *caller_ob (void)
{
  object_t *c = vh_obj ("@caller");
  if (!c)
    {
      error_context_t econ;
      save_context (&econ);
      if (!setjmp (econ.context))
        {
          c = load_object ("/c07/caller", 0);
          pop_context (&econ);
        }
      else
        {
          restore_context (&econ);
          pop_context (&econ);
          c = 0;
        }
      if (c)
        vh_setobj ("@caller", c);
    }
  return c;
}

static void cmd_call (const char *origin, const char *oid, const char *fn, const char *argstr)
{
  long args[16];
  int nargs = 0;
  if (argstr)
    for (const char *p = argstr; *p && nargs < 16;)
      {
        args[nargs++] = strtol (p, (char **) &p, 10);
        if (*p == ',')
          p++;
        else
          break;
      }
  object_t *ob = vh_obj (oid);
  char res[1024] = "";
  volatile int rc = 0;		/* 0 value, 1 error, 2 refused / not there */
  error_context_t econ;
  char *sfn = intern (fn);
  vh_out ("call %s %s %s", origin, oid, fn);
  if (!ob || (ob->flags & O_DESTRUCTED))
    {
      vh_out ("ret !noobj");
      return;
    }
  if (!save_context (&econ))
    {
      vh_out ("ret !err");
      return;
    }
  if (!setjmp (econ.context))
    {
      svalue_t *ret = 0;
      eval_cost = CONFIG_INT (__MAX_EVAL_COST__);
      if (!strcmp (origin, "co") || !strcmp (origin, "com"))
        {
          object_t *c = caller_ob ();
          if (!c)
            error ("no caller object");
          push_object (ob);
          if (origin[2])
            copy_and_push_string (fn);	/* malloc'ed copy: other pointer, same text */
          else
            share_and_push_string (sfn);	/* the shared string itself */
          for (int i = 0; i < nargs; i++)
            push_number (args[i]);
          ret = apply (intern ("do_call"), c, 2 + nargs, ORIGIN_DRIVER);
          if (!ret || (ret->type == T_NUMBER && ret->u.number == 0))
            rc = 2;
          else
            vh_sv (res, sizeof res, ret);
        }
      else if (!strcmp (origin, "drv") || !strcmp (origin, "cot"))
        {
          for (int i = 0; i < nargs; i++)
            push_number (args[i]);
          ret = apply (sfn, ob, nargs, origin[0] == 'd' ? ORIGIN_DRIVER : ORIGIN_CALL_OUT);
          if (!ret)
            rc = 2;
          else
            vh_sv (res, sizeof res, ret);
        }
      else if (!strcmp (origin, "hb"))
        {
          /* the heart_beat origin: backend.c:call_heart_beat -> call_function (prog, prog->heart_beat) */
          set_heart_beat (ob, 1);
          verif_tick ();
          set_heart_beat (ob, 0);
          snprintf (res, sizeof res, "ticked");
        }
      else if (!strcmp (origin, "rco"))
        {
          svalue_t f;
          f.type = T_STRING;
          f.subtype = STRING_SHARED;
          f.u.string = sfn;
          new_call_out (ob, &f, 1, 0, 0);
          current_time += 1;
          call_out ();
          snprintf (res, sizeof res, "swept");
        }
      else
        snprintf (res, sizeof res, "!badorigin");
      pop_context (&econ);
    }
  else
    {
      restore_context (&econ);
      pop_context (&econ);
      rc = 1;
      if (!strcmp (origin, "hb"))
        {
          /* the backend recovers from an error in a heart beat and goes on; so does the tick here */
          if (!(ob->flags & O_DESTRUCTED))
            set_heart_beat (ob, 0);
          rc = 0;
          snprintf (res, sizeof res, "ticked");
        }
    }
  if (rc == 1)
    vh_out ("ret !err");
  else if (rc == 2)
    vh_out ("ret !no");
  else
    vh_out ("ret %s", res);
  print_vars (oid, ob);
}

/* call_other with the other target kinds of f_call_other():
 *   call coa <elem>,<elem>,... <fn>   array target (call_all_other); elem = oid | =<path> (string element) | 0 (int)
 *   call cos =<path> <fn>             string target: the named object, loaded by the call if need be
 * prints `call ...`, the run lines, `ret <value>|!err`, then `vars <elem>` for every element that is a live object */
static void label_of (const char *elem, char *out, size_t n)
{
  if (elem[0] == '=')
    {
      const char *sl = strrchr (elem, '/');
      snprintf (out, n, "=%s", sl ? sl + 1 : elem + 1);
    }
  else
    snprintf (out, n, "%s", elem);
}

static void cmd_call_targets (const char *origin, char *targets, const char *fn)
{
  char *elem[32];
  int ne = 0;
  char res[2048] = "";
  char shown[1024] = "";
  volatile int rc = 0;
  error_context_t econ;
  char *sfn = intern (fn);
  for (char *p = strtok (targets, ","); p && ne < 32; p = strtok (0, ","))
    elem[ne++] = p;
  for (int i = 0; i < ne; i++)
    {
      char lab[128];
      label_of (elem[i], lab, sizeof lab);
      snprintf (shown + strlen (shown), sizeof shown - strlen (shown), "%s%s", i ? "," : "", lab);
    }
  vh_out ("call %s %s %s", origin, shown, fn);
  if (!save_context (&econ))
    {
      vh_out ("ret !err");
      return;
    }
  if (!setjmp (econ.context))
    {
      svalue_t *ret = 0;
      object_t *c = caller_ob ();
      eval_cost = CONFIG_INT (__MAX_EVAL_COST__);
      if (!c)
        error ("no caller object");
      if (!strcmp (origin, "coa"))
        {
          array_t *a = allocate_empty_array (ne);
          for (int i = 0; i < ne; i++)
            {
              object_t *o;
              if (elem[i][0] == '=')
                {
                  a->item[i].type = T_STRING;
                  a->item[i].subtype = STRING_MALLOC;
                  a->item[i].u.string = string_copy (elem[i] + 1, "c07 coa");
                }
              else if ((o = vh_obj (elem[i])) && !(o->flags & O_DESTRUCTED))
                {
                  a->item[i].type = T_OBJECT;
                  a->item[i].u.ob = o;
                  add_ref (o, "c07 coa");
                }
              else
                a->item[i] = const0;
            }
          push_refed_array (a);
          share_and_push_string (sfn);
          ret = apply (intern ("do_call"), c, 2, ORIGIN_DRIVER);
        }
      else
        {
          copy_and_push_string (elem[0][0] == '=' ? elem[0] + 1 : elem[0]);
          share_and_push_string (sfn);
          ret = apply (intern ("do_call"), c, 2, ORIGIN_DRIVER);
        }
      if (!ret)
        rc = 2;
      else
        vh_sv (res, sizeof res, ret);
      pop_context (&econ);
    }
  else
    {
      restore_context (&econ);
      pop_context (&econ);
      rc = 1;
    }
  if (rc == 1)
    vh_out ("ret !err");
  else if (rc == 2)
    vh_out ("ret !no");
  else
    vh_out ("ret %s", res);
  for (int i = 0; i < ne; i++)
    {
      object_t *o = elem[i][0] == '=' ? find_object_by_name (elem[i] + 1) : vh_obj (elem[i]);
      char lab[128];
      if (!o || (o->flags & O_DESTRUCTED))
        continue;
      label_of (elem[i], lab, sizeof lab);
      print_vars (lab, o);
    }
}

static void cmd_evict (const char *oid, const char *fn)
{
  object_t *ob = vh_obj (oid);
  if (!ob || (ob->flags & O_DESTRUCTED))
    return;
  char *sfn = intern (fn);
  int mask = APPLY_CACHE_SIZE - 1;
  int id = ob->prog->id_number;
  int want = (id ^ (intptr_t) sfn ^ ((intptr_t) sfn >> APPLY_CACHE_BITS)) & mask;
  for (int k = 0; k < 200000; k++)
    {
      char nm[64];
      snprintf (nm, sizeof nm, "zz_evict_%d", k);
      char *p = make_shared_string (nm);
      int ix = (id ^ (intptr_t) p ^ ((intptr_t) p >> APPLY_CACHE_BITS)) & mask;
      if (ix == want)
        {
          error_context_t econ;
          save_context (&econ);
          if (!setjmp (econ.context))
            {
              apply (p, ob, 0, ORIGIN_DRIVER);
              pop_context (&econ);
            }
          else
            {
              restore_context (&econ);
              pop_context (&econ);
            }
          vh_out ("evict %s %s done", oid, fn);
          return;
        }
      /* keep the string allocated so the next one gets another address */
    }
  vh_out ("evict %s %s nocollision", oid, fn);
}

static int c07_cmd (char *line)
{
  static char copy[1 << 17], *tok[4200];
  snprintf (copy, sizeof copy, "%s", line);
  int n = vh_split (copy, tok, 4200);
  if (n == 0)
    return 0;
  if (!strcmp (tok[0], "names"))
    {
      for (int i = 1; i < n; i++)
        intern (tok[i]);
      /* bodies hand function pointers to /c07/caller: it must exist before they run (the generated objects have no
       * euid and could not load it) */
      caller_ob ();
      return 1;
    }
  if (!strcmp (tok[0], "ld") && n == 3)
    {
      error_context_t econ;
      object_t *volatile ob = 0;
      save_context (&econ);
      if (!setjmp (econ.context))
        {
          eval_cost = CONFIG_INT (__MAX_EVAL_COST__);
          ob = find_or_load_object (tok[2]);	/* the named object, as every efun gets it */
          pop_context (&econ);
        }
      else
        {
          restore_context (&econ);
          pop_context (&econ);
          ob = 0;
        }
      if (ob)
        {
          /* vh_setobj takes a reference when it creates the label (not when it re-points it): remember which objects
           * carry one, `reload` has to give it back or the program (and its name strings) would stay alive */
          int before = ob->ref;
          vh_setobj (tok[1], ob);
          if (ob->ref > before && nheld < 256)
            held[nheld++] = ob;
        }
      else
        vh_out ("ld %s !fail", tok[1]);
      return 1;
    }
  if (!strcmp (tok[0], "dump"))
    {
      cmd_dump (n, tok);
      return 1;
    }
  if (!strcmp (tok[0], "reload"))
    {
      cmd_reload (n, tok);
      return 1;
    }
  if (!strcmp (tok[0], "savebin") && n == 1)
    return 1;			/* consumed by the plugin (#pragma save_binary in the generated sources) */
  if (!strcmp (tok[0], "call") && n == 4 && (!strcmp (tok[1], "coa") || !strcmp (tok[1], "cos")))
    {
      cmd_call_targets (tok[1], tok[2], tok[3]);
      return 1;
    }
  if (!strcmp (tok[0], "call") && (n == 4 || n == 5))
    {
      cmd_call (tok[1], tok[2], tok[3], n == 5 ? tok[4] : 0);
      return 1;
    }
  if (!strcmp (tok[0], "cold") && n == 1)
    {
      clear_apply_cache ();
      return 1;
    }
  if (!strcmp (tok[0], "evict") && n == 3)
    {
      cmd_evict (tok[1], tok[2]);
      return 1;
    }
  if (!strcmp (tok[0], "dir"))
    return 1;			/* consumed by the plugin (where the LPC files of the case live) */
  return 0;
}

int main (int argc, char **argv)
{
  return vh_main (argc, argv, c07_cmd);
}
