/* C14 harness: output ring buffer of src/comm.c (add_message / add_vmessage / flush_message).
 *
 * Unit style: src/comm.c is #included so that the static functions (setup_accepted_connection,
 * get_user_command, ...) are reachable; the executable is linked without comm.c.o.
 *
 * One real interactive user is created per case through the REAL setup_accepted_connection()
 * on one end of an AF_UNIX socketpair.  libc send() and epoll_ctl() are interposed:
 *   send()      on the user fd consumes a scripted result (sendres) and logs the offered chunk;
 *   epoll_ctl() records whether write interest (EPOLLOUT) is registered for the user fd.
 *
 * Commands: sendres / write / vwrite / flush / cycle / wready / close / peerclose / peerfin / dump
 * (see props/c14.py for the trace format).
 */
#include "vh.h"
#include <errno.h>
#include <fcntl.h>
#include <unistd.h>
#include <sys/types.h>
#include <sys/socket.h>
#include <sys/syscall.h>
#include <sys/epoll.h>
#include <netinet/in.h>

#include "src/comm.c"

/* ---- unlimited-length canonical output --------------------------------- */

static void out (const char *fmt, ...)
{
  va_list ap;
  fputs ("VL ", stderr);
  va_start (ap, fmt);
  vfprintf (stderr, fmt, ap);
  va_end (ap);
  fputc ('\n', stderr);
  fflush (stderr);
}

/* malloc'ed lowercase hex of n bytes, "-" when n == 0 */
static char *hexof (const unsigned char *p, size_t n)
{
  static const char dig[] = "0123456789abcdef";
  char *s = (char *) malloc (n * 2 + 2), *o = s;
  if (n == 0)
    {
      strcpy (s, "-");
      return s;
    }
  for (size_t i = 0; i < n; i++)
    {
      *o++ = dig[p[i] >> 4];
      *o++ = dig[p[i] & 15];
    }
  *o = 0;
  return s;
}

static int hexval (int c)
{
  if (c >= '0' && c <= '9')
    return c - '0';
  if (c >= 'a' && c <= 'f')
    return c - 'a' + 10;
  if (c >= 'A' && c <= 'F')
    return c - 'A' + 10;
  return -1;
}

/* decode hex argument into a malloc'ed NUL terminated string ("-" = empty); returns 0 on syntax error */
static char *unhex (const char *s)
{
  size_t n = strlen (s);
  char *b;
  if (!strcmp (s, "-"))
    return strdup ("");
  if (n % 2)
    return 0;
  b = (char *) malloc (n / 2 + 1);
  for (size_t i = 0; i < n / 2; i++)
    {
      int h = hexval (s[2 * i]), l = hexval (s[2 * i + 1]);
      if (h < 0 || l < 0)
        {
          free (b);
          return 0;
        }
      b[i] = (char) (h * 16 + l);
    }
  b[n / 2] = 0;
  return b;
}

/* ---- state -------------------------------------------------------------- */

static int c14_ready = 0;
static int c14_fd[2] = { -1, -1 };
static int c14_userfd = -1;	/* fd watched by the interposers (stays set after close) */
static int c14_peer_open = 0;
static object_t *uob = 0;
static int c14_want = 0;

enum { R_ACCEPT, R_ERR };
typedef struct { int kind; long n; int err; char tok[24]; } sendres_t;
static sendres_t *c14_q = 0;
static int c14_qhead = 0, c14_qlen = 0, c14_qcap = 0;

static void q_push (sendres_t r)
{
  if (c14_qlen == c14_qcap)
    c14_q = (sendres_t *) realloc (c14_q, sizeof (sendres_t) * (c14_qcap = c14_qcap ? c14_qcap * 2 : 64));
  c14_q[c14_qlen++] = r;
}

/* ---- libc interposition ------------------------------------------------- */

static int c14_console = 0;	/* the user is the console user (all_users[0]): output goes through write(1, ..) */

/* consume the next scripted result for a chunk of `len` bytes offered by flush_message */
static ssize_t scripted_io (const void *buf, size_t len)
{
  sendres_t r;
  if (c14_qhead < c14_qlen)
    r = c14_q[c14_qhead++];
  else
    {
      r.kind = R_ACCEPT;
      r.n = (long) len;
    }
  if (r.kind == R_ACCEPT)
    {
      size_t k = (size_t) r.n < len ? (size_t) r.n : len;
      char *h = hexof ((const unsigned char *) buf, k);
      out ("send %lu a %s", (unsigned long) len, h);
      free (h);
      return (ssize_t) k;
    }
  out ("send %lu %s -", (unsigned long) len, r.tok);
  errno = r.err;
  return -1;
}

ssize_t send (int fd, const void *buf, size_t len, int flags)
{
  if (fd >= 0 && fd == c14_userfd)
    return scripted_io (buf, len);
  return (ssize_t) syscall (SYS_sendto, fd, buf, len, flags, NULL, 0);
}

/* the console user's flush_message uses FILE_WRITE (STDOUT_FILENO, ..) = write(2) */
ssize_t write (int fd, const void *buf, size_t len)
{
  if (c14_console && fd == STDOUT_FILENO)
    return scripted_io (buf, len);
  return (ssize_t) syscall (SYS_write, fd, buf, len);
}

int epoll_ctl (int epfd, int op, int fd, struct epoll_event *ev)
{
  if (fd >= 0 && fd == c14_userfd && ev && (op == EPOLL_CTL_ADD || op == EPOLL_CTL_MOD))
    c14_want = (ev->events & EPOLLOUT) != 0;
  return (int) syscall (SYS_epoll_ctl, epfd, op, fd, ev);
}

/* ---- set-up -------------------------------------------------------------- */

static int nonblock (int fd)
{
  int fl = fcntl (fd, F_GETFL, 0);
  return fl < 0 ? -1 : fcntl (fd, F_SETFL, fl | O_NONBLOCK);
}

static void c14_setup (int kind)	/* 0 ascii, 1 telnet, 2 console */
{
  error_context_t econ;
  port_def_t port;
  struct sockaddr_in addr;

  if (c14_ready)
    return;
  c14_ready = 1;
  g_runtime = async_runtime_init ();
  if (!g_runtime)
    {
      out ("setupfail runtime");
      _exit (0);
    }
  eval_cost = CONFIG_INT (__MAX_EVAL_COST__);
  if (kind == 2)
    {
      /* the real console-mode connect: new_interactive (STDIN_FILENO) -> slot 0, master connect(), logon() */
      VH_TRY (econ)
        init_console_user (0);
      VH_CATCH (econ)
        out ("setupfail error");
        _exit (0);
      VH_END
      if (!all_users || !all_users[0] || !all_users[0]->ob)
        {
          out ("setupfail noconsole");
          _exit (0);
        }
      uob = all_users[0]->ob;
      add_ref (uob, "c14 harness");
      c14_console = 1;
      c14_userfd = -1;
      return;
    }
  if (socketpair (AF_UNIX, SOCK_STREAM, 0, c14_fd) < 0 || nonblock (c14_fd[0]) < 0 || nonblock (c14_fd[1]) < 0)
    {
      out ("setupfail socketpair");
      _exit (0);
    }
  c14_userfd = c14_fd[0];
  c14_peer_open = 1;
  memset (&addr, 0, sizeof addr);
  addr.sin_family = AF_INET;
  port.kind = kind == 1 ? PORT_TELNET : PORT_ASCII;
  port.port = 4000;
  port.fd = INVALID_SOCKET_FD;
  if (kind == 1)
    {
      /* setup_accepted_connection add_message()s these itself and then flushes; none of them can trigger a send
       * (12 bytes into an empty ring), so the write markers can be printed up front */
      char *neg[] = { telnet_no_echo, telnet_do_ttype, telnet_do_naws, telnet_do_linemode };
      for (int i = 0; i < 4; i++)
        {
          char *h = hexof ((unsigned char *) neg[i], strlen (neg[i]));
          out ("wbeg m %s", h);
          out ("wend");
          free (h);
        }
    }
  VH_TRY (econ)
    setup_accepted_connection (&port, c14_fd[0], &addr);
  VH_CATCH (econ)
    out ("setupfail error");
    _exit (0);
  VH_END
  if (!all_users || max_users < 2 || !all_users[1] || !all_users[1]->ob || all_users[0])
    {
      out ("setupfail nouser");
      _exit (0);
    }
  uob = all_users[1]->ob;
  add_ref (uob, "c14 harness");
  if (uob->interactive != all_users[1])
    {
      out ("setupfail interactive");
      _exit (0);
    }
}

/* ---- commands ------------------------------------------------------------ */

static void st_line (int existed)
{
  interactive_t *ip = uob->interactive;
  if (existed && !ip)
    out ("close");
  if (!ip)
    {
      c14_userfd = -1;		/* the fd number is closed and may be reused */
      out ("st closed");
    }
  else
    out ("st %d %d %d %d %d", c14_want || c14_console, ip->message_producer, ip->message_consumer, ip->message_length,
         (ip->iflags & NET_DEAD) ? 1 : 0);
}

static void poll_and_process (void)
{
  error_context_t econ;
  struct timeval tv = { 0, 0 };
  eval_cost = CONFIG_INT (__MAX_EVAL_COST__);
  VH_TRY (econ)
    if (c14_console)
      {
        /* no fd of the console user is polled: the pass of process_io() that any event causes flushes it */
        g_num_io_events = 0;
        process_io ();
      }
    else if (do_comm_polling (&tv) > 0)
      process_io ();
  VH_CATCH (econ)
    out ("lpcerr");
  VH_END
}

static int c14_sendres (const char *arg)
{
  char *copy = strdup (arg), *save = 0;
  for (char *t = strtok_r (copy, ",", &save); t; t = strtok_r (0, ",", &save))
    {
      sendres_t r;
      memset (&r, 0, sizeof r);
      while (*t == ' ')
        t++;
      snprintf (r.tok, sizeof r.tok, "%s", t);
      if (!strcmp (t, "W"))
        r.kind = R_ERR, r.err = EWOULDBLOCK;
      else if (!strcmp (t, "I"))
        r.kind = R_ERR, r.err = EINTR;
      else if (!strcmp (t, "P"))
        r.kind = R_ERR, r.err = EPIPE;
      else if (t[0] == 'E' && t[1] >= '0' && t[1] <= '9')
        {
          r.kind = R_ERR;
          r.err = atoi (t + 1);
          snprintf (r.tok, sizeof r.tok, "E%d", r.err);
          if (r.err <= 0)
            continue;
        }
      else if (t[0] >= '0' && t[0] <= '9')
        {
          r.kind = R_ACCEPT;
          r.n = atol (t);
          if (r.n < 1)
            continue;		/* 0 would make flush_message spin for ever */
        }
      else
        continue;
      q_push (r);
    }
  free (copy);
  return 1;
}

static int c14_cmd (char *line)
{
  error_context_t econ;
  char *arg = strchr (line, ' ');
  size_t clen = arg ? (size_t) (arg - line) : strlen (line);
  int existed;
#define IS(s) (clen == strlen (s) && !strncmp (line, s, clen))
  if (IS ("connect"))
    {
      while (arg && *arg == ' ')
        arg++;
      int kind = arg && !strcmp (arg, "telnet") ? 1 : arg && !strcmp (arg, "console") ? 2 : 0;
      if (c14_ready)
        {
          out ("badcmd connect after the first operation");
          return 1;
        }
      c14_setup (kind);
      if (kind == 1)
        st_line (0);
      return 1;
    }
  if (!(IS ("sendres") || IS ("write") || IS ("vwrite") || IS ("flush") || IS ("cycle") || IS ("wready") || IS ("close")
        || IS ("peerclose") || IS ("peerfin") || IS ("dump")))
    return 0;
  while (arg && *arg == ' ')
    arg++;
  if (IS ("sendres"))
    return c14_sendres (arg ? arg : "");
  c14_setup (0);

  if (IS ("dump"))
    {
      interactive_t *ip = uob->interactive;
      if (!ip || ip->message_length <= 0)
        out ("dump -");
      else
        {
          int n = ip->message_length;
          unsigned char *b = (unsigned char *) malloc (n);
          for (int i = 0; i < n; i++)
            b[i] = (unsigned char) ip->message_buf[(ip->message_consumer + i) % MESSAGE_BUF_SIZE];
          char *h = hexof (b, n);
          out ("dump %s", h);
          free (h);
          free (b);
        }
      return 1;
    }

  existed = uob->interactive != 0;
  eval_cost = CONFIG_INT (__MAX_EVAL_COST__);

  if (IS ("write") || IS ("vwrite"))
    {
      int v = line[0] == 'v';
      char *bytes = unhex (arg ? arg : "-");
      if (!bytes)
        return 0;
      {
        char *h = hexof ((unsigned char *) bytes, strlen (bytes));
        out ("wbeg %c %s", v ? 'v' : 'm', h);
        free (h);
      }
      VH_TRY (econ)
        if (v)
          add_vmessage (uob, "%s", bytes);
        else
          add_message (uob, bytes);
      VH_CATCH (econ)
        out ("lpcerr");
      VH_END
      out ("wend");
      free (bytes);
    }
  else if (IS ("flush"))
    {
      if (uob->interactive)
        {
          VH_TRY (econ)
            flush_message (uob->interactive);
          VH_CATCH (econ)
            out ("lpcerr");
          VH_END
        }
    }
  else if (IS ("cycle"))
    {
      VH_TRY (econ)
        char *cmd = get_user_command ();
        if (cmd)
          out ("usercmd");
      VH_CATCH (econ)
        out ("lpcerr");
      VH_END
    }
  else if (IS ("wready"))
    poll_and_process ();
  else if (IS ("close"))
    {
      if (uob->interactive)
        {
          VH_TRY (econ)
            remove_interactive (uob, 0);
          VH_CATCH (econ)
            out ("lpcerr");
          VH_END
        }
    }
  else if (IS ("peerclose"))
    {
      if (c14_peer_open)
        {
          close (c14_fd[1]);
          c14_peer_open = 0;
        }
      poll_and_process ();
    }
  else if (IS ("peerfin"))
    {
      if (c14_peer_open)
        shutdown (c14_fd[1], SHUT_WR);
      poll_and_process ();
    }
  st_line (existed);
  return 1;
#undef IS
}

int main (int argc, char **argv)
{
  return vh_main (argc, argv, c14_cmd);
}
