/* C14 harness: output ring buffer of src/comm.c (add_message / add_vmessage / flush_message).
 *
 * Unit style: src/comm.c is #included so that the static functions (setup_accepted_connection,
 * get_user_command, ...) are reachable; the executable is linked without comm.c.o.
 *
 * Up to 4 real interactive users per case (`@k <command>`, default user 1), each created through the REAL
 * setup_accepted_connection() on one end of an AF_UNIX socketpair (PORT_ASCII / PORT_TELNET) or, for the console user,
 * through the real init_console_user().  libc send(), write() and epoll_ctl() are interposed:
 *   send() / write(1,..)  consume the scripted results of that user (sendres) and log the offered chunk;
 *   epoll_ctl()           records whether write interest (EPOLLOUT) is registered for the user's fd.
 * Every output line is tagged `u<k>`.
 *
 * wbeg / wend lines come from the add_message hook of src/comm.c (NEOLITH_VERIF): every call is seen, also the ones
 * made by the driver itself (telnet negotiation) and by LPC code (receive / tell_object from a snooper's receive_snoop).
 * The `close` line is printed by the interposed close() when remove_interactive closes the user's descriptor.
 *
 * Per-user commands: connect / sendres / write / vwrite / flush / eflush / close / dump / snoop <j> / unsnoop /
 *   react <tok>,<tok>..  (scripted reactions of this user's receive_snoop, one per call: e = echo the text to itself,
 *   t<j> = tell user j, d<j> = destruct user j, x = raise an error, n = nothing)
 * Commands that make the driver visit every user: cycle / wready / flushall / peerclose / peerfin
 * (see props/c14.py for the trace format).
 */
#include "vh.h"
#include <errno.h>
#include <fcntl.h>
#include <unistd.h>
#include <sys/types.h>
#include <sys/socket.h>
#include <sys/syscall.h>
#include <sys/epoll.h>
#include <netinet/in.h>

#include "src/comm.c"

/* ---- unlimited-length canonical output --------------------------------- */

static int c14_cur = 1;		/* user whose lines are being printed */

static void out (const char *fmt, ...)
{
  va_list ap;
  fprintf (stderr, "VL u%d ", c14_cur);
  va_start (ap, fmt);
  vfprintf (stderr, fmt, ap);
  va_end (ap);
  fputc ('\n', stderr);
  fflush (stderr);
}

/* malloc'ed lowercase hex of n bytes, "-" when n == 0 */
static char *hexof (const unsigned char *p, size_t n)
{
  static const char dig[] = "0123456789abcdef";
  char *s = (char *) malloc (n * 2 + 2), *o = s;
  if (n == 0)
    {
      strcpy (s, "-");
      return s;
    }
  for (size_t i = 0; i < n; i++)
    {
      *o++ = dig[p[i] >> 4];
      *o++ = dig[p[i] & 15];
    }
  *o = 0;
  return s;
}

static int hexval (int c)
{
  if (c >= '0' && c <= '9')
    return c - '0';
  if (c >= 'a' && c <= 'f')
    return c - 'a' + 10;
  if (c >= 'A' && c <= 'F')
    return c - 'A' + 10;
  return -1;
}

/* decode hex argument into a malloc'ed NUL terminated string ("-" = empty); returns 0 on syntax error */
static char *unhex (const char *s)
{
  size_t n = strlen (s);
  char *b;
  if (!strcmp (s, "-"))
    return strdup ("");
  if (n % 2)
    return 0;
  b = (char *) malloc (n / 2 + 1);
  for (size_t i = 0; i < n / 2; i++)
    {
      int h = hexval (s[2 * i]), l = hexval (s[2 * i + 1]);
      if (h < 0 || l < 0)
        {
          free (b);
          return 0;
        }
      b[i] = (char) (h * 16 + l);
    }
  b[n / 2] = 0;
  return b;
}

/* ---- state -------------------------------------------------------------- */

#define MAXU 4
enum { R_ACCEPT, R_ERR };
typedef struct { int kind; long n; int err; char tok[24]; } sendres_t;
typedef struct
{
  int created, console, telnet;
  object_t *ob;
  int fd[2];
  int userfd;			/* fd watched by the interposers; -1 once the connection is gone */
  int peer_open;
  int want;
  sendres_t *q;
  int qhead, qlen, qcap;
} user_t;
static user_t U[MAXU + 1];
static int c14_console_user = 0;	/* number of the console user, 0 = none */
static int c14_reactive = 0;	/* a `react` command was given: a write can reach every user, all states are shown after it */

static void q_push (user_t * u, sendres_t r)
{
  if (u->qlen == u->qcap)
    u->q = (sendres_t *) realloc (u->q, sizeof (sendres_t) * (u->qcap = u->qcap ? u->qcap * 2 : 64));
  u->q[u->qlen++] = r;
}

static int user_of_fd (int fd)
{
  if (fd < 0)
    return 0;
  for (int k = 1; k <= MAXU; k++)
    if (U[k].created && U[k].userfd == fd)
      return k;
  return 0;
}

/* ---- libc interposition ------------------------------------------------- */

/* consume the next scripted result of user k for a chunk of `len` bytes offered by flush_message */
static ssize_t scripted_io (int k, const void *buf, size_t len)
{
  user_t *u = &U[k];
  sendres_t r;
  int save = c14_cur;
  ssize_t rc;
  static long calls = 0, volume = 0;
  c14_cur = k;
  volume += (long) len;
  if (++calls > 20000 || volume > (4L << 20))
    {
      /* a broken send loop (e.g. message_length gone negative or never decreasing) would fill the disk - and the memory of
       * the check that reads the trace - before the case alarm fires: no legitimate case offers more than 4 MiB */
      out ("crash send-loop: more than 20000 send calls or 4 MiB offered in one case");
      _exit (0);
    }
  if (u->qhead < u->qlen)
    r = u->q[u->qhead++];
  else
    {
      r.kind = R_ACCEPT;
      r.n = (long) len;
    }
  if (r.kind == R_ACCEPT)
    {
      size_t n = (size_t) r.n < len ? (size_t) r.n : len;
      char *h = hexof ((const unsigned char *) buf, n);
      out ("send %lu a %s", (unsigned long) len, h);
      free (h);
      rc = (ssize_t) n;
    }
  else
    {
      out ("send %lu %s -", (unsigned long) len, r.tok);
      errno = r.err;
      rc = -1;
    }
  c14_cur = save;
  return rc;
}

ssize_t send (int fd, const void *buf, size_t len, int flags)
{
  int k = user_of_fd (fd);
  if (k)
    return scripted_io (k, buf, len);
  return (ssize_t) syscall (SYS_sendto, fd, buf, len, flags, NULL, 0);
}

/* the console user's flush_message uses FILE_WRITE (STDOUT_FILENO, ..) = write(2) */
ssize_t write (int fd, const void *buf, size_t len)
{
  if (c14_console_user && fd == STDOUT_FILENO)
    return scripted_io (c14_console_user, buf, len);
  return (ssize_t) syscall (SYS_write, fd, buf, len);
}

int epoll_ctl (int epfd, int op, int fd, struct epoll_event *ev)
{
  int k = user_of_fd (fd);
  if (k && ev && (op == EPOLL_CTL_ADD || op == EPOLL_CTL_MOD))
    U[k].want = (ev->events & EPOLLOUT) != 0;
  return (int) syscall (SYS_epoll_ctl, epfd, op, fd, ev);
}

/* remove_interactive() closes the user's descriptor: the `close` line of the trace */
int close (int fd)
{
  int k = user_of_fd (fd);
  if (!k && c14_console_user && fd == STDIN_FILENO && all_users && all_users[0] && (all_users[0]->iflags & CLOSING)
      && U[c14_console_user].ob == all_users[0]->ob)
    k = c14_console_user;
  if (k)
    {
      int save = c14_cur;
      c14_cur = k;
      out ("close");
      c14_cur = save;
      U[k].userfd = -1;		/* the fd number may be reused */
    }
  return (int) syscall (SYS_close, fd);
}

/* ---- add_message hook ---------------------------------------------------- */

static int c14_connecting = 0;	/* user whose connect is running (its object is not known yet) */

static void c14_am_hook (object_t * who, const char *text, int vmessage, int phase)
{
  int k = 0, save = c14_cur;
  if (!who)
    return;
  for (int i = 1; i <= MAXU; i++)
    if (U[i].created && U[i].ob == who)
      k = i;
  if (!k && c14_connecting && who->interactive
      && (U[c14_connecting].console ? (all_users && who->interactive == all_users[0]) : who->interactive->fd == U[c14_connecting].userfd))
    k = c14_connecting;
  if (!k)
    return;
  c14_cur = k;
  if (phase == 0)
    {
      char *h = hexof ((const unsigned char *) text, strlen (text));
      out ("wbeg %c %s", vmessage ? 'v' : 'm', h);
      free (h);
    }
  else
    out ("wend");
  c14_cur = save;
}

/* ---- set-up -------------------------------------------------------------- */

static int nonblock (int fd)
{
  int fl = fcntl (fd, F_GETFL, 0);
  return fl < 0 ? -1 : fcntl (fd, F_SETFL, fl | O_NONBLOCK);
}

static void fail (const char *what)
{
  out ("setupfail %s", what);
  _exit (0);
}

static void c14_setup (int k, int kind)	/* 0 ascii, 1 telnet, 2 console */
{
  error_context_t econ;
  port_def_t port;
  struct sockaddr_in addr;
  user_t *u = &U[k];
  char num[8], *a[1];

  if (u->created)
    return;
  if (!g_runtime)
    g_runtime = async_runtime_init ();
  if (!g_runtime)
    fail ("runtime");
  verif_add_message_hook = c14_am_hook;
  eval_cost = CONFIG_INT (__MAX_EVAL_COST__);
  u->userfd = -1;
  c14_connecting = k;
  if (kind == 2)
    {
      if (c14_console_user)
        fail ("second console");
      u->console = 1;
      u->created = 1;
      c14_console_user = k;	/* write(1, ..) is this user's socket from now on */
      /* the real console-mode connect: new_interactive (STDIN_FILENO) -> slot 0, master connect(), logon() */
      VH_TRY (econ)
        init_console_user (0);
      VH_CATCH (econ)
        fail ("error");
      VH_END
      if (!all_users || !all_users[0] || !all_users[0]->ob)
        fail ("noconsole");
      u->ob = all_users[0]->ob;
      u->console = 1;
      c14_console_user = k;
    }
  else
    {
      interactive_t *ip = 0;
      /* removing the console user closes fd 0; a new socket must not get that number (new_interactive() takes
       * STDIN_FILENO for the console) */
      if (fcntl (STDIN_FILENO, F_GETFD) < 0)
        open ("/dev/null", O_RDONLY);
      if (socketpair (AF_UNIX, SOCK_STREAM, 0, u->fd) < 0 || nonblock (u->fd[0]) < 0 || nonblock (u->fd[1]) < 0)
        fail ("socketpair");
      u->userfd = u->fd[0];
      u->peer_open = 1;
      u->created = 1;		/* the interposers must know the fd during the connect */
      memset (&addr, 0, sizeof addr);
      addr.sin_family = AF_INET;
      port.kind = kind == 1 ? PORT_TELNET : PORT_ASCII;
      u->telnet = kind == 1;
      port.port = 4000;
      port.fd = INVALID_SOCKET_FD;
      VH_TRY (econ)
        setup_accepted_connection (&port, u->fd[0], &addr);
      VH_CATCH (econ)
        fail ("error");
      VH_END
      for (int i = 1; all_users && i < max_users; i++)
        if (all_users[i] && all_users[i]->fd == u->fd[0])
          ip = all_users[i];
      if (!ip || !ip->ob || ip->ob->interactive != ip)
        fail ("nouser");
      u->ob = ip->ob;
    }
  u->created = 1;
  c14_connecting = 0;
  add_ref (u->ob, "c14 harness");
  snprintf (num, sizeof num, "%d", k);
  a[0] = num;
  vh_apply_str (u->ob, "set_oid", 1, a, 0, 0);
}

/* ---- commands ------------------------------------------------------------ */

static void st_line (int k, int existed)
{
  user_t *u = &U[k];
  interactive_t *ip = u->ob->interactive;
  int save = c14_cur;
  c14_cur = k;
  (void) existed;
  if (!ip)
    {
      u->userfd = -1;		/* the fd number is closed and may be reused */
      out ("st closed");
    }
  else
    out ("st %d %d %d %d %d", u->want || u->console, ip->message_producer, ip->message_consumer, ip->message_length,
         (ip->iflags & NET_DEAD) ? 1 : 0);
  c14_cur = save;
}

/* one pass of the event loop's I/O part: poll, then process_io() (which also flushes the console user) */
static void poll_and_process (void)
{
  error_context_t econ;
  struct timeval tv = { 0, 0 };
  eval_cost = CONFIG_INT (__MAX_EVAL_COST__);
  VH_TRY (econ)
    int n = do_comm_polling (&tv);
    if (n > 0 || c14_console_user)
      {
        if (n <= 0)
          g_num_io_events = 0;	/* no fd of the console user is polled: any event causes the pass that flushes it */
        process_io ();
      }
  VH_CATCH (econ)
    out ("lpcerr");
  VH_END
}

static int c14_sendres (user_t * u, const char *arg)
{
  char *copy = strdup (arg), *save = 0;
  for (char *t = strtok_r (copy, ",", &save); t; t = strtok_r (0, ",", &save))
    {
      sendres_t r;
      memset (&r, 0, sizeof r);
      while (*t == ' ')
        t++;
      snprintf (r.tok, sizeof r.tok, "%s", t);
      if (!strcmp (t, "W"))
        r.kind = R_ERR, r.err = EWOULDBLOCK;
      else if (!strcmp (t, "I"))
        r.kind = R_ERR, r.err = EINTR;
      else if (!strcmp (t, "P"))
        r.kind = R_ERR, r.err = EPIPE;
      else if (t[0] == 'E' && t[1] >= '0' && t[1] <= '9')
        {
          r.kind = R_ERR;
          r.err = atoi (t + 1);
          snprintf (r.tok, sizeof r.tok, "E%d", r.err);
          if (r.err <= 0)
            continue;
        }
      else if (t[0] >= '0' && t[0] <= '9')
        {
          r.kind = R_ACCEPT;
          r.n = atol (t);
          if (r.n < 1)
            continue;		/* 0 would make flush_message spin for ever */
        }
      else
        continue;
      q_push (u, r);
    }
  free (copy);
  return 1;
}

static int c14_cmd (char *line)
{
  error_context_t econ;
  int k = 1;
  char *arg;
  size_t clen;
  int existed[MAXU + 1];
  int global = 0;

  if (line[0] == '@')
    {
      k = atoi (line + 1);
      line = strchr (line, ' ');
      if (!line || k < 1 || k > MAXU)
        return 0;
      while (*line == ' ')
        line++;
    }
  arg = strchr (line, ' ');
  clen = arg ? (size_t) (arg - line) : strlen (line);
#define IS(s) (clen == strlen (s) && !strncmp (line, s, clen))
  if (!(IS ("connect") || IS ("sendres") || IS ("write") || IS ("vwrite") || IS ("vwrite2") || IS ("flush") || IS ("eflush") || IS ("cycle")
        || IS ("wready") || IS ("flushall") || IS ("close") || IS ("peerclose") || IS ("peerfin") || IS ("dump")
        || IS ("snoop") || IS ("unsnoop") || IS ("react") || IS ("input")))
    return 0;
  while (arg && *arg == ' ')
    arg++;
  c14_cur = k;
  user_t *u = &U[k];

  if (IS ("sendres"))
    return c14_sendres (u, arg ? arg : "");
  if (IS ("connect"))
    {
      int kind = arg && !strcmp (arg, "telnet") ? 1 : arg && !strcmp (arg, "console") ? 2 : 0;
      if (u->created)
        {
          out ("badcmd connect after the first operation");
          return 1;
        }
      c14_setup (k, kind);
      if (kind == 1)
        st_line (k, 0);
      return 1;
    }
  c14_setup (k, 0);

  if (IS ("react"))
    {
      char *a[1] = { arg ? arg : "" };
      c14_reactive = 1;
      if (!(u->ob->flags & O_DESTRUCTED) && vh_apply_str (u->ob, "add_react", 1, a, 0, 0))
        out ("lpcerr");
      return 1;
    }
  if (IS ("dump"))
    {
      interactive_t *ip = u->ob->interactive;
      if (!ip || ip->message_length <= 0)
        out ("dump -");
      else
        {
          int n = ip->message_length;
          unsigned char *b = (unsigned char *) malloc (n);
          for (int i = 0; i < n; i++)
            b[i] = (unsigned char) ip->message_buf[(ip->message_consumer + i) % MESSAGE_BUF_SIZE];
          char *h = hexof (b, n);
          out ("dump %s", h);
          free (h);
          free (b);
        }
      return 1;
    }
  if (IS ("snoop") || IS ("unsnoop"))
    {
      int j = IS ("snoop") && arg ? atoi (arg) : 0;
      if (IS ("snoop") && (j < 1 || j > MAXU))
        return 0;
      if (j)
        c14_setup (j, 0);
      c14_cur = k;
      /* new_set_snoop() raises an LPC error when one of them is no longer interactive: nothing changes then */
      if (u->ob->interactive && (!j || U[j].ob->interactive))
        {
          VH_TRY (econ)
            new_set_snoop (u->ob, j ? U[j].ob : 0);
          VH_CATCH (econ)
            out ("lpcerr");
          VH_END
        }
      return 1;
    }

  for (int i = 1; i <= MAXU; i++)
    existed[i] = U[i].created && U[i].ob->interactive != 0;
  eval_cost = CONFIG_INT (__MAX_EVAL_COST__);

  if (IS ("vwrite2"))
    {
      /* add_vmessage (ob, "%s%s", a, b): the formatting step has to join two pieces */
      char *copy = strdup (arg ? arg : ""), *sp = strchr (copy, ' ');
      char *a, *b;
      if (!sp)
        return 0;
      *sp++ = 0;
      while (*sp == ' ')
        sp++;
      a = unhex (copy);
      b = unhex (sp);
      free (copy);
      if (!a || !b)
        return 0;
      {
        size_t la = strlen (a), lb = strlen (b);
        unsigned char *j = (unsigned char *) malloc (la + lb + 1);
        char *h;
        memcpy (j, a, la);
        memcpy (j + la, b, lb);
        h = hexof (j, la + lb);
        out ("vreq %s", h);
        free (h);
        free (j);
      }
      global = c14_reactive;
      VH_TRY (econ)
        add_vmessage (u->ob, "%s%s", a, b);
      VH_CATCH (econ)
        c14_cur = k;
        out ("lpcerr");
      VH_END
      c14_cur = k;
      free (a);
      free (b);
    }
  else if (IS ("write") || IS ("vwrite"))
    {
      int v = line[0] == 'v';
      char *bytes = unhex (arg ? arg : "-");
      if (!bytes)
        return 0;
      if (v)
        {
          /* what add_vmessage is asked to format; the hook's `wbeg v` shows what the formatting step produced */
          char *h = hexof ((unsigned char *) bytes, strlen (bytes));
          out ("vreq %s", h);
          free (h);
        }
      global = c14_reactive;
      VH_TRY (econ)
        if (v)
          add_vmessage (u->ob, "%s", bytes);
        else
          add_message (u->ob, bytes);
      VH_CATCH (econ)
        c14_cur = k;
        out ("lpcerr");
      VH_END
      c14_cur = k;
      free (bytes);
    }
  else if (IS ("flush"))
    {
      if (u->ob->interactive)
        {
          VH_TRY (econ)
            flush_message (u->ob->interactive);
          VH_CATCH (econ)
            out ("lpcerr");
          VH_END
        }
    }
  else if (IS ("eflush") || IS ("flushall"))
    {
      /* the flush_messages() efun, called from LPC: with the user object / without argument (every user) */
      char *a[1] = { IS ("flushall") ? "all" : "me" };
      object_t *caller = u->ob;
      global = IS ("flushall");
      /* a user object destructed by a scripted reaction cannot run LPC code (this_object() is 0 there): flush_messages()
       * without argument is then called from another user's object; with argument there is nothing to flush */
      if (caller->flags & O_DESTRUCTED)
        {
          caller = 0;
          for (int i = 1; global && i <= MAXU; i++)
            if (!caller && U[i].created && !(U[i].ob->flags & O_DESTRUCTED))
              caller = U[i].ob;
        }
      if (caller && vh_apply_str (caller, "do_flush", 1, a, 0, 0))
        out ("lpcerr");
    }
  else if (IS ("cycle"))
    {
      global = 1;
      VH_TRY (econ)
        char *cmd = get_user_command ();
        if (cmd)
          out ("usercmd");
      VH_CATCH (econ)
        out ("lpcerr");
      VH_END
    }
  else if (IS ("wready"))
    {
      global = 1;
      poll_and_process ();
    }
  else if (IS ("close"))
    {
      if (u->ob->interactive)
        {
          VH_TRY (econ)
            remove_interactive (u->ob, 0);
          VH_CATCH (econ)
            out ("lpcerr");
          VH_END
        }
    }
  else if (IS ("input"))
    {
      /* the peer of a telnet user sends bytes: one poll + process_io pass (get_user_data -> copy_chars -> replies).
       * Input framing is C13's business: what copy_chars stored into the command buffer is discarded afterwards. */
      global = 1;
      if (u->telnet && u->ob->interactive && u->peer_open && !c14_reactive)
        {
          size_t n = 0;
          unsigned char *bytes = 0;
          const char *h = arg ? arg : "-";
          if (strcmp (h, "-"))
            {
              n = strlen (h) / 2;
              bytes = (unsigned char *) malloc (n + 1);
              for (size_t i = 0; i < n; i++)
                bytes[i] = (unsigned char) (hexval (h[2 * i]) * 16 + hexval (h[2 * i + 1]));
            }
          if (n)
            (void) !syscall (SYS_write, u->fd[1], bytes, n);
          free (bytes);
        }
      poll_and_process ();
      if (u->ob->interactive)
        {
          u->ob->interactive->text_start = u->ob->interactive->text_end = 0;
          u->ob->interactive->iflags &= ~CMD_IN_BUF;
        }
    }
  else if (IS ("peerclose") || IS ("peerfin"))
    {
      global = 1;		/* the pass of process_io() also serves the write-ready events of the other users */
      if (u->peer_open)
        {
          if (IS ("peerclose"))
            {
              close (u->fd[1]);
              u->peer_open = 0;
            }
          else
            shutdown (u->fd[1], SHUT_WR);
        }
      poll_and_process ();
    }
  if (global)
    {
      for (int i = 1; i <= MAXU; i++)
        if (U[i].created)
          st_line (i, existed[i]);
    }
  else
    st_line (k, existed[k]);
  return 1;
#undef IS
}

int main (int argc, char **argv)
{
  return vh_main (argc, argv, c14_cmd);
}
