/* C20 harness (system style): the real driver with the verification master /c20/master.c.
 *
 *   pol cf <dir> <spec>            master policy: creator_file answer for objects under /c20/<dir>/
 *   pol vs <oid> <uid> <spec>      master policy: valid_seteuid answer for (object, uid); `*` wildcards, `-` = ""
 *   pol root <name> | pol bb <name> master policy: get_root_uid() / get_bb_uid() answer this from now on (master reload)
 *   script <name> <op>;<op>..|-    ops run by create() of the object with that file name (`<path>` blueprint,
 *                                  `<path>#` its clones); `-` removes the script
 *   cfg [nobb] [noroot] [simul]    first line of a case: master without get_bb_uid() / get_root_uid(), simul_efun object
 *                                  /c20/simul registered as actor `se` (the plugin runs the case with the matching conf)
 *   do m connect,<newoid>,<path>   the driver's mudlib_connect(): master connect() clones the user object
 *   do m preload,<path>            the driver's preload_objects(): master epilog() names the file, master preload() loads it
 *   do <oid> later,<op> | hb,<op>  the op is scheduled with call_out / runs in the object's next heart_beat; one backend tick
 *   do <oid> <op>                  run one op (see harness/mudlib/c20/body.h) in the object registered as <oid>
 *                                  (`m` = the master object), then log getuid/geteuid of every registered object
 *
 * All canonical output is produced by LPC (`VL ...`): `do`, `vs`, `cf`, `new`, `r`, `q` lines.
 */
#include "vh.h"
#include <time.h>
#include "src/main.h"

/* verification hook of src/backend.c: exactly one timer tick (call_heart_beat: heart beats, then call_out()) */
extern void verif_tick (void);

/* virtual clock: call_heart_beat() does `time (&current_time)` */
time_t time (time_t * t)
{
  if (t)
    *t = current_time;
  return current_time;
}

/* `do <oid> later,<op>` / `do <oid> hb,<op>`: the op was only scheduled (call_out / heart_beat of that object); one
 * tick of the backend's timer runs it - with that object as current_object, started by the driver, no caller */
static void c20_tick (void)
{
  error_context_t econ;
  save_context (&econ);
  if (!setjmp (econ.context))
    {
      MAIN_OPTION (timer_flags) = TIMER_FLAG_HEARTBEAT | TIMER_FLAG_CALLOUT;
      current_time += 2;
      eval_cost = CONFIG_INT (__MAX_EVAL_COST__);
      verif_tick ();
      pop_context (&econ);
    }
  else
    {
      restore_context (&econ);
      pop_context (&econ);
      vh_out ("r !tick");
    }
}

static int c20_ready = 0;

static void c20_init (void)
{
  char cmd[] = "load reg /c20/reg";
  if (c20_ready)
    return;
  c20_ready = 1;
  vh_generic (cmd);
}

static int c20_cmd (char *line)
{
  char copy[4096];
  char *tok[8];
  int n;
  if (!strncmp (line, "cfg ", 4) || !strcmp (line, "cfg"))
    return 1;                   /* configuration of the case: chosen by the plugin (which conf file), nothing to do here */
  if (strncmp (line, "do ", 3) && strncmp (line, "pol ", 4) && strncmp (line, "script ", 7))
    return 0;
  c20_init ();
  snprintf (copy, sizeof copy, "%s", line);
  n = vh_split (copy, tok, 8);
  if (!strcmp (tok[0], "do") && n == 3)
    {
      object_t *reg = vh_obj ("reg");
      if (!reg || vh_apply_str (reg, "act", 2, tok + 1, 0, 0))
        vh_out ("r !harness");
      else if (!strcmp (tok[1], "m") && !strncmp (tok[2], "connect,", 8))
        {
          /* the driver's connection handling up to the master apply: connect() creates the user object.  (No socket: the
             driver then treats the connection as rejected, the object stays an ordinary object.) */
          eval_cost = CONFIG_INT (__MAX_EVAL_COST__);
          (void) mudlib_connect (4000, "verif");
        }
      else if (!strcmp (tok[1], "m") && !strncmp (tok[2], "preload,", 8))
        {
          eval_cost = CONFIG_INT (__MAX_EVAL_COST__);
          preload_objects (0);      /* the driver's own preload loop: master epilog(), then master preload(file) */
        }
      else if (!strncmp (tok[2], "later,", 6) || !strncmp (tok[2], "hb,", 3))
        {
          c20_tick ();
          if (vh_apply_str (reg, "tick_done", 0, tok, 0, 0))
            vh_out ("r !harness");
        }
      return 1;
    }
  if (!strcmp (tok[0], "script") && n == 3)
    {
      object_t *reg = vh_obj ("reg");
      if (!reg || vh_apply_str (reg, "set_script", 2, tok + 1, 0, 0))
        vh_out ("r !harness");
      return 1;
    }
  if (!strcmp (tok[0], "pol") && n >= 3 && n <= 5)
    {
      char *args[4] = { tok[1], tok[2], n >= 4 ? tok[3] : (char *) "", n == 5 ? tok[4] : (char *) "" };
      if (vh_apply_str (master_ob, "set_pol", 4, args, 0, 0))
        vh_out ("r !harness");
      return 1;
    }
  return 0;
}

int main (int argc, char **argv)
{
  return vh_main (argc, argv, c20_cmd);
}
