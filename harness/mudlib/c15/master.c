// C15 verification master: switchable valid_read / valid_write policy, every consultation is logged
//   VL valid_read|valid_write [path] <caller> <operation> -> 0 | 1 | =[string]
#include "/include/vcommon.h"

string pol = "allow";   // deny | allow | echo | fixed | raise | raiseon | odd
string pstr = "";
int quiet = 0;

private object connect (int port) { return new ("/vuser.c"); }
string creator_file (string file) { return "Root"; }
string get_root_uid () { return "Root"; }
string get_bb_uid () { return "Backbone"; }
int valid_seteuid (object ob, string newuid) { return 1; }
int valid_save_binary (string file) { return 1; }
// ed: a file name that does not start with '/' is made absolute by the master
string make_path_absolute (string s) { return "/d/" + s; }
// ed: where the buffer of a user who went net-dead is saved (the harness sets the answer)
string dead_name = "";
void set_dead_name (string s) { dead_name = s; }
string get_save_file_name (string file) {
  VL ("ed_save_name [" + file + "] -> =[" + dead_name + "]");
  return dead_name;
}
int valid_link (string from, string to) { if (!quiet) VL ("valid_link [" + from + "] [" + to + "]"); return 1; }

void set_policy (string kind, string s, string q) { pol = kind; pstr = s; quiet = (q == "1"); }

// re-entrant master: before answering, valid_read / valid_write call a file efun themselves
private void nested_call (string g, string p) {
  switch (g) {
    case "read_file": read_file (p); break;
    case "file_size": file_size (p); break;
    case "write_file": write_file (p, "log\n"); break;
    case "tail": tail (p); break;
  }
}

private mixed verdict (string fn, string path, mixed who, string op) {
  mixed v;
  string w, shown, kind, kstr;
  string *parts;
  int boom = 0;
  kind = pol;
  kstr = pstr;
  if (who == this_object ()) {
    // the nested call of the re-entrant master asks about its own access: granted, no further nesting
    if (!quiet) VL (fn + " [" + path + "] " + file_name (who) + " " + op + " -> 1");
    return 1;
  }
  if (pol == "nested") {
    // pstr = "<efun>,<path>,<kind>[,<string>]"
    parts = explode (pstr, ",");
    if (sizeof (parts) >= 3) {
      if (!quiet) VL ("ncall " + parts[0] + " " + file_name (this_object ()) + " [" + parts[1] + "]");
      catch (nested_call (parts[0], parts[1]));
      if (!quiet) VL ("nend");
      kind = parts[2];
      kstr = sizeof (parts) > 3 ? parts[3] : "";
    } else kind = "allow";
  }
  switch (kind) {
    case "deny": v = 0; break;
    case "echo": v = path; break;
    case "fixed": v = kstr; break;
    case "ro": v = (fn == "valid_read"); break;
    case "wo": v = (fn == "valid_write"); break;
    case "ropath": v = !(fn == "valid_write" && path == kstr); break;
    case "raise": boom = 1; break;
    case "raiseon": if (path == kstr) boom = 1; else v = 1; break;
    case "odd":
      switch (kstr) {
        case "array": v = ({ 1 }); break;
        case "emptyarray": v = ({ }); break;
        case "float": v = 1.5; break;
        case "float0": v = 0.0; break;
        case "object": v = this_object (); break;
        case "neg": v = -1; break;
        default: v = 2;
      }
      break;
    default: v = 1;
  }
  if (boom) shown = "raise";
  else if (kind == "odd") shown = "odd:" + kstr;
  else shown = stringp (v) ? "=[" + v + "]" : "" + v;
  if (!quiet) {
    w = objectp (who) ? file_name (who) : "?";
    VL (fn + " [" + path + "] " + w + " " + op + " -> " + shown);
  }
  if (boom) error ("access violation: " + path + "\n");
  return v;
}

mixed valid_read (string path, mixed who, string fn) { return verdict ("valid_read", path, who, fn); }
mixed valid_write (string path, mixed who, string fn) { return verdict ("valid_write", path, who, fn); }

// errors are not part of the C15 traces
string error_handler (mapping m, int caught) { return ""; }
void log_error (string file, string msg) { }
