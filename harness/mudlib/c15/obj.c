// C15: calls one file efun; errors are swallowed (the trace of interest is master calls + libc calls)
#include "/include/vcommon.h"

int v1 = 7;
string v2 = "s";

void create () { seteuid (getuid ()); }
void set_oid (string s) { "/vreg"->reg (s, this_object ()); }

void run1 (string e, string a, string b) {
  switch (e) {
    case "read_file": read_file (a); break;
    case "write_file": write_file (a, "w\n"); break;
    case "rm": rm (a); break;
    case "mkdir": mkdir (a); break;
    case "rmdir": rmdir (a); break;
    case "file_size": file_size (a); break;
    case "file_length": file_length (a); break;
    case "tail": tail (a); break;
    case "read_bytes": read_bytes (a, 0, 2); break;
    case "read_buffer": read_buffer (a, 0, 2); break;
    case "write_bytes": write_bytes (a, 0, "x"); break;
    case "write_buffer": write_buffer (a, 0, "x"); break;
    case "stat": stat (a); break;
    case "get_dir": get_dir (a); break;
    case "get_dir1": get_dir (a, -1); break;
    case "stat1": stat (a, -1); break;
    case "rename": rename (a, b); break;
    case "link": link (a, b); break;
    case "cp": cp (a, b); break;
    case "save_object": save_object (a); break;
    case "restore_object": restore_object (a); break;
    case "dumpallobj": dumpallobj (a); break;
    case "ed": ed (a); break;
    case "dump_prog": dump_prog (this_object (), 0, a); break;
    default: VL ("badefun " + e);
  }
}

int do_efun (string e, string a, string b) {
  catch (run1 (e, a, b));
  return 0;
}
