// C18 verification simul_efun object: c18_via() puts a simul_efun frame between a caller and a call_other
int vsimul_marker () { return 42; }
mixed c18_via (mixed ob, string fn, int k) {
  return call_other(ob, fn, k);
}
