// C18 verification simul_efun object: c18_via() puts a simul_efun frame between a caller and a call_other
int vsimul_marker () { return 42; }
mixed c18_via (mixed ob, string fn, int k) {
  return call_other(ob, fn, k);
}

// logs what the efun call_stack() returned in the caller's frame (function names, programs, objects; innermost first)
private string c18_join (mixed *a) {
  int i;
  string s;
  s = "";
  if (!arrayp(a) || !sizeof(a)) return "-";
  for (i = 0; i < sizeof(a); i++)
    s += (i ? "," : "") + (objectp(a[i]) ? file_name(a[i]) : (stringp(a[i]) ? a[i] : "0"));
  return s;
}
int c18_cs (mixed *fns, mixed *progs, mixed *obs) {
  debug_message("VL cst fns=" + c18_join(fns) + " progs=" + c18_join(progs) + " obs=" + c18_join(obs));
  return 10;
}
