// C18 verification master: permissive policies; error_handler logs the complete error mapping canonically
#include "/include/vcommon.h"

private object connect (int port) { return new ("/vuser.c"); }
string creator_file (string file) { return "Root"; }
string get_root_uid () { return "Root"; }
string get_bb_uid () { return "Backbone"; }
int valid_seteuid (object ob, string newuid) { return 1; }
int valid_read (string path, mixed who, string fn) { return 1; }
int valid_write (string path, mixed who, string fn) { return 1; }
int valid_save_binary (string file) { return 1; }

private string canon (mixed e) {
  int i;
  if (!stringp(e)) return "?";
  if (strlen(e) && e[0] == '*') e = e[1..];
  i = strsrch(e, "\n");
  if (i >= 0) e = e[0..i-1];
  return replace_string(replace_string(e, " ", "_"), "\t", "_");
}

private string oname (mixed ob) { return objectp(ob) ? file_name(ob) : "0"; }

// compile-time errors and warnings as the compiler reports them: ce <file>_line_<n>:_<text>
void log_error (string file, string msg) {
  VL("ce " + canon(msg));
}

// eh caught=<0|1> error=<text> file=<f> line=<l> program=<p> object=<o> trace=<fn>@<prog>@<obj>@<file>@<line>|...
string error_handler (mapping m, int caught) {
  string s;
  mixed *tr;
  int i;
  s = "eh caught=" + caught + " error=" + canon(m["error"]) + " file=" + m["file"] + " line=" + m["line"]
    + " program=" + m["program"] + " object=" + oname(m["object"]) + " trace=";
  tr = m["trace"];
  if (!arrayp(tr) || !sizeof(tr)) s += "-";
  else for (i = 0; i < sizeof(tr); i++)
    s += (i ? "|" : "") + tr[i]["function"] + "@" + tr[i]["program"] + "@" + oname(tr[i]["object"]) + "@"
       + tr[i]["file"] + "@" + tr[i]["line"];
  VL(s);
  // errors raised inside the error handler itself (the driver's in_mudlib_error_handler paths)
  if (stringp(m["error"]) && strsrch(m["error"], "c18_eh_fail") >= 0) error("c18 error inside the error handler");
  return "";
}
