// C18 global include file (GlobalInclude option): three lines in front of every compilation unit
#define C18_GLOBAL 1
// end of the global include
