// C10 scripted object: call_out / remove_call_out / find_call_out driven by op strings
#include "/include/vcommon.h"

string oid = "?";
mapping handles = ([]);

// create() runs again after reload_object(): the oid is recovered from the registry, `handles` stays reset
void create () { seteuid (getuid ()); oid = "/vreg"->oid_of (this_object ()); }
void set_oid (string s) { oid = s; "/vreg"->reg (s, this_object ()); }
void set_script (string key, string ops) { "/c10/reg"->set_script (oid, key, ops); }

mixed do_op (string s);

// decimal -> 64-bit LPC int (to_int() goes through atoi and would cut the delay to 32 bits)
int parse_int (string s) {
  int i, v = 0, neg = 0;
  if (strlen (s) && s[0] == '-') { neg = 1; i = 1; }
  for (; i < strlen (s); i++) v = v * 10 + (s[i] - '0');
  return neg ? -v : v;
}

// this_player() as an oid ("-" = 0 or destructed)
string tp () { object p = this_player (); return objectp (p) ? "/vreg"->oid_of (p) : "-"; }

void run (string key) {
  string s = "/c10/reg"->get_script (oid, key);
  if (!stringp (s)) return;
  foreach (string op in explode (s, ";")) {
    do_op (op);
    if (!this_object ()) return;   // destructed itself: the script stops
  }
}

// `coa`/`coafp` call_outs (tags "A...") carry three more arguments that are a function of the tag: a string, an
// object (o2; 0 once it is destructed) and a number.  The callback checks number, order and values of what it
// receives and prints a line only when they are wrong (any such line is an `unexpected-line` verdict of the oracle).
object peer () { return "/vreg"->get ("o2"); }
void fired (int f, mixed tag, mixed a, mixed b, mixed c) {
  VL (VNOW + " fire " + oid + " " + f + " " + tag + " " + tp ());
  if (stringp (tag) && strlen (tag) && tag[0] == 'A') {
    if (!stringp (a) || a != "x" + tag || b != peer () || !intp (c) || c != 42 + strlen (tag))
      VL ("argmismatch " + oid + " " + tag);
  } else if (a || b || c)
    VL ("argmismatch " + oid + " " + tag);
  run ("co:" + tag);
}
void co0 (mixed tag, mixed a, mixed b, mixed c) { fired (0, tag, a, b, c); }
void co1 (mixed tag, mixed a, mixed b, mixed c) { fired (1, tag, a, b, c); }
void co2 (mixed tag, mixed a, mixed b, mixed c) { fired (2, tag, a, b, c); }
void co3 (mixed tag, mixed a, mixed b, mixed c) { fired (3, tag, a, b, c); }

int cmp_info (mixed *a, mixed *b) {
  if (a[0] != b[0]) return a[0] < b[0] ? -1 : 1;
  if (a[1] != b[1]) return a[1] < b[1] ? -1 : 1;
  if (a[2] != b[2]) return a[2] < b[2] ? -1 : 1;
  return 0;
}

mixed do_op (string s) {
  string *w = explode (s, ",");
  int r;
  switch (w[0]) {
  case "co":   // co <f> <delay> <tag>
    r = call_out ("co" + w[1], parse_int (w[2]), w[3]);
    handles[w[3]] = r;
    VL (VNOW + " r co " + oid + " " + w[1] + " " + w[2] + " " + w[3] + " " + r + " " + tp ());
    break;
  case "cofp": { // cofp <f> <delay> <tag>: function-pointer call_out (cop->ob == 0 in call_out.c)
    function *fps = ({ (: co0 :), (: co1 :), (: co2 :), (: co3 :) });
    r = call_out (fps[to_int (w[1])], parse_int (w[2]), w[3]);
    handles[w[3]] = r;
    VL (VNOW + " r cofp " + oid + " " + w[1] + " " + w[2] + " " + w[3] + " " + r + " " + tp ());
    break;
  }
  case "cofpb":  // cofpb <f> <delay> <tag>: function pointer with a bound argument, the tag comes through call_out
    r = call_out ((: fired, to_int (w[1]) :), parse_int (w[2]), w[3]);
    handles[w[3]] = r;
    VL (VNOW + " r cofp " + oid + " " + w[1] + " " + w[2] + " " + w[3] + " " + r + " " + tp ());
    break;
  case "coa":  // coa <f> <delay> <tag>: the same with three more arguments (see fired ())
    r = call_out ("co" + w[1], parse_int (w[2]), w[3], "x" + w[3], peer (), 42 + strlen (w[3]));
    handles[w[3]] = r;
    VL (VNOW + " r co " + oid + " " + w[1] + " " + w[2] + " " + w[3] + " " + r + " " + tp ());
    break;
  case "coafp": {
    function *fps = ({ (: co0 :), (: co1 :), (: co2 :), (: co3 :) });
    r = call_out (fps[to_int (w[1])], parse_int (w[2]), w[3], "x" + w[3], peer (), 42 + strlen (w[3]));
    handles[w[3]] = r;
    VL (VNOW + " r cofp " + oid + " " + w[1] + " " + w[2] + " " + w[3] + " " + r + " " + tp ());
    break;
  }
  case "rmh":  // remove by handle of tag
    r = remove_call_out (handles[w[1]]);
    VL (VNOW + " r rmh " + oid + " " + w[1] + " " + r);
    break;
  case "rmn":  // remove by function name
    r = remove_call_out ("co" + w[1]);
    VL (VNOW + " r rmn " + oid + " " + w[1] + " " + r);
    break;
  case "fh":
    r = find_call_out (handles[w[1]]);
    VL (VNOW + " r fh " + oid + " " + w[1] + " " + r);
    break;
  case "fn":
    r = find_call_out ("co" + w[1]);
    VL (VNOW + " r fn " + oid + " " + w[1] + " " + r);
    break;
  case "rmall":
    remove_call_out ();
    VL (VNOW + " r rmall " + oid);
    break;
  case "dest": { // dest <oid>
    object o = "/vreg"->get (w[1]);
    if (o) destruct (o);
    VL (VNOW + " r dest " + oid + " " + w[1]);
    break;
  }
  case "destco":  // destco <oid>: destruct itself, then try to schedule: f_call_out must refuse (returns 0)
    destruct (this_object ());
    r = call_out ("co0", 1, "Z");
    if (r) VL ("scheduled-by-destructed " + oid + " " + r);
    VL (VNOW + " r dest " + oid + " " + w[1]);
    break;
  case "reload":  // remove_all_call_out (this_object ()) + variable reset + create ()
    reload_object (this_object ());
    VL (VNOW + " r reload " + oid);
    break;
  case "usage": { // print_call_out_usage through mud_status(): allocated structures, current length
    string *t;
    foreach (string l in explode (mud_status (0), "\n")) {
      if (strsrch (l, "call out:") != 0) continue;
      t = filter (explode (replace_string (replace_string (l, "\t", " "), ")", ""), " "), (: $1 != "" :));
      VL (VNOW + " r usage " + t[2] + " " + t[6]);
    }
    break;
  }
  case "err":
    error ("boom " + oid + "\n");
    break;
  case "info": {
    mixed *inf = call_out_info ();
    mixed *rows = ({ });
    string t = "";
    // rows of function-pointer call_outs whose owner is destructed carry 0 as object: dropped here
    // an element that is not a 3-element row is printed as "?" (a malformed line for the oracle)
    int junk = 0;
    foreach (mixed e in inf) {
      if (!arrayp (e) || sizeof (e) != 3) { junk++; continue; }
      if (objectp (e[0])) rows += ({ ({ "/vreg"->oid_of (e[0]), e[1], e[2] }) });
    }
    rows = sort_array (rows, "cmp_info");
    foreach (mixed *e in rows) t += " " + e[0] + "/" + e[1] + "/" + e[2];
    while (junk-- > 0) t += " ?";
    VL (VNOW + " r info" + t);
    break;
  }
  default:
    VL ("badop " + s);
  }
  return 0;
}
