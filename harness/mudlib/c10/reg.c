// C10: callback scripts of the scripted objects, kept outside the objects so that they survive reload_object()
mapping sc = ([]);
void create () { }
void set_script (string oid, string key, string ops) { sc[oid + "|" + key] = ops; }
string get_script (string oid, string key) { return sc[oid + "|" + key]; }
