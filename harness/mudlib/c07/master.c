// C07 verification master: the base master plus valid_save_binary (programs with #pragma save_binary are saved and, after
// `reload`, loaded again from their binaries)
#include "/include/vcommon.h"

private object connect (int port) { return new ("/vuser.c"); }
string creator_file (string file) { return "Root"; }
string get_root_uid () { return "Root"; }
string get_bb_uid () { return "Backbone"; }
int valid_seteuid (object ob, string newuid) { return 1; }
int valid_read (string path, mixed who, string fn) { return 1; }
int valid_write (string path, mixed who, string fn) { return 1; }
int valid_save_binary (string file) { return 1; }

string error_handler (mapping m, int caught) {
  string e = m["error"];
  if (!stringp(e)) e = "?";
  VL((caught ? "caught " : "err ") + e);
  return "";
}
