// C07: the "other object" whose call_other is the ORIGIN_CALL_OTHER caller
mixed do_call (object ob, string fn) { return call_other (ob, fn); }
