// C07: the "other object" whose call_other is the ORIGIN_CALL_OTHER caller; the target may be an object, an array of
// objects / file names, or a file name (f_call_other's target kinds)
void create () { seteuid (getuid ()); }
// with arguments the ARRAY form of the function argument is used: call_other (target, ({ fn, a1, a2, ... }))
mixed do_call (mixed target, string fn, mixed *args...) {
  if (sizeof (args)) return call_other (target, ({ fn }) + args);
  return call_other (target, fn);
}
// function pointers made by the generated objects and evaluated HERE, by another object
mixed do_eval (function f) { return evaluate (f, 21, 22, 23); }
