// C07: the "other object" whose call_other is the ORIGIN_CALL_OTHER caller; the target may be an object, an array of
// objects / file names, or a file name (f_call_other's target kinds)
void create () { seteuid (getuid ()); }
// with arguments the ARRAY form of the function argument is used: call_other (target, ({ fn, a1, a2, ... }))
mixed do_call (mixed target, string fn, mixed *args...) {
  if (sizeof (args)) return call_other (target, ({ fn }) + args);
  return call_other (target, fn);
}
// function pointers made by the generated objects and evaluated HERE, by another object
mixed do_eval (function f) { return evaluate (f, 21, 22, 23); }
// a functional stored by a generated object; it is handed back to that object only (any of its functions, of any
// inherit level, may then evaluate it)
mixed stashed; object stash_owner;
void stash (function f) { stashed = f; stash_owner = previous_object (); }
mixed get_stash () {
  mixed f;
  if (!stash_owner || stash_owner != previous_object ()) return 0;
  f = stashed; stashed = 0; stash_owner = 0;     // fetched once
  return f;
}
// the same through efun callbacks running in THIS object
mixed do_map (function f) { return map_array (({ 1 }), f); }
mixed do_filter (function f) { return filter_array (({ 1 }), f); }
