#include "/include/vcommon.h"
string oid = "?";
void set_oid (string s) { oid = s; }
void logon () { VL("logon " + oid); }
string process_input (string s) { VL("input " + oid + " " + s); return s; }
void net_dead () { VL("net_dead " + oid); }
