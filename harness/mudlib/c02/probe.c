// C02 probe program: compiled before and after every fuzzed source; its structural dump must not change.
// It deliberately uses the features whose per-compile state could leak: efuns and simul efuns by name,
// locals in nested blocks, function literals, functionals, a class, #define/#if, #include, a text block.
#include "/include/vcommon.h"
#define PROBE_K 7
#if PROBE_K > 3
#define PROBE_S "k>3"
#else
#define PROBE_S "k<=3"
#endif

class pt { int x; int y; string tag; }

int counter;
string *names = ({ "a", "b", "c" });
mapping tab = ([ "one": 1, "two": 2 ]);

string banner() {
  return @END
probe text block
second line
END;
}

int add(int a, int b) { return a + b; }

varargs int sum(int *v, int scale) {
  int i, s;
  s = 0;
  for (i = 0; i < sizeof(v); i++) {
    int t;
    t = v[i] * (scale ? scale : 1);
    s += t;
  }
  return s;
}

mixed lit(int base) {
  function f, g;
  int q;
  q = base + PROBE_K;
  f = function(int a, int b) { int c; c = a * b + counter; return function(int z) { int c; c = z * 2; return z + c; }; };
  g = (: add($1, $2) + counter :);
  return ({ f, g, (: sizeof :), (: counter :) });
}

string classify(int n) {
  string r;
  switch (n) {
  case 0: r = "zero"; break;
  case 1..9: r = "small"; break;
  case 10: { int w; w = n * 2; r = "ten" + w; break; }
  default: r = PROBE_S;
  }
  return r;
}

class pt mk(int a, int b) {
  class pt p;
  p = new(class pt);
  p->x = a; p->y = b; p->tag = sprintf("%d,%d", a, b);
  return p;
}

void create() {
  object me;
  int now;
  string s;
  me = this_object();
  now = time();
  s = file_name(me) + ":" + now + ":" + random(1) + ":" + strlen(banner());
  counter = sizeof(names) + sizeof(keys(tab)) + to_int("3");
  if (catch(s = s + classify(counter)))
    s = "caught";
  foreach (string nm in names) counter += strlen(nm);
  write(s + member_array("b", names) + implode(names, ",") + lower_case("X") + typeof(tab));
  call_out("add", 1, 2, 3);
}
