// C12 verification master: every connection gets a scripted user object /c12/user, named u<k> in accept order
#include "/include/vcommon.h"

int nconn = 0;

private object connect (int port) {
  object ob = new ("/c12/user.c");
  nconn++;
  ob->set_oid ("u" + nconn);
  return ob;
}
string creator_file (string file) { return "Root"; }
string get_root_uid () { return "Root"; }
string get_bb_uid () { return "Backbone"; }
int valid_seteuid (object ob, string newuid) { return 1; }
int valid_read (string path, mixed who, string fn) { return 1; }
int valid_write (string path, mixed who, string fn) { return 1; }

string error_handler (mapping m, int caught) {
  string e = m["error"];
  if (!stringp(e)) e = "?";
  if (!caught && strsrch (e, "c12-throw") >= 0) return "";   // the scripted `err` op (already logged as `throw u<k>`)
  VL((caught ? "caught " : "err ") + e);
  return "";
}
