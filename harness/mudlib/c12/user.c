// C12 scripted interactive user.
//   every buffered command that the driver hands over is logged as   cmd <user> =<text>
//   (process_input for ordinary lines, the input_to/get_char callback otherwise);
//   commands executed through the command() efun are logged as       ecmd <user> =<text>
// After the log line the script registered for that text (if any) runs:
//   kick,<u> destruct(u)   drop,<u> remove_interactive(u)   ecmd,<u>,<text> u->force(text) (command() efun)
//   gc get_char()          it input_to()          itn input_to(.., I_NOECHO)      err error(): uncaught
//   exec  exec(new body, body of this user): replace_interactive
#include "/include/vcommon.h"

string oid = "?";
int in_force = 0;   // > 0 while a command() call of this object is running
int relaying = 0;   // > 0 while this body executes an op on behalf of a stale body of the same user (see do_op)

void create () { seteuid (getuid ()); }
void set_oid (string s) { oid = s; "/c12/reg"->reg (s, this_object ()); }
// a fresh body for the connection of user s (exec): same name, commands enabled, registered instead of the old body
void adopt (string s) { set_oid (s); enable_commands (); add_action ("do_cmd", "", 1); }
string query_oid () { return oid; }

// text -> token: [a-z0-9] literal, everything else %xx
string enc (string s) {
  string r = "=";
  int i, c;
  for (i = 0; i < strlen (s); i++) {
    c = s[i];
    if ((c >= 'a' && c <= 'z') || (c >= '0' && c <= '9')) r += s[i..i];
    else r += sprintf ("%%%02x", c);
  }
  return r;
}

void do_op (string s);

void run (string key) {
  string s = "/c12/reg"->get_script (oid + " " + key);
  if (!stringp (s)) return;
  foreach (string op in explode (s, ";")) {
    do_op (op);
    if (!this_object ()) return;   // destructed itself: the script stops
    if (!objectp ("/c12/reg"->get (oid))) return;   // the user (its current body) was destructed: the script stops
  }
}

void logon () {
  enable_commands ();
  add_action ("do_cmd", "", 1);
  VL ("logon " + oid);
}

// buffered line about to be parsed: this is the turn-limited path
mixed process_input (string s) {
  in_force = 0;   // an error thrown inside a command() call skipped the decrement in force()
  VL ("cmd " + oid + " " + enc (s));
  return 0;
}

// catch-all action: reached from process_command() for buffered lines and for command()
int do_cmd (string arg) {
  string v = query_verb ();
  string text;
  if (!stringp (v)) v = "";
  if (relaying > 0 && v == "zzop") { do_op (arg); return 1; }   // not a command of the case: no log line, no script
  text = v + (stringp (arg) && arg != "" ? " " + arg : "");
  if (in_force > 0) VL ("ecmd " + oid + " " + enc (text));
  run (enc (text));
  return 1;
}

void got_char (string s) {
  in_force = 0;
  VL ("cmd " + oid + " " + enc (s));
  run (enc (s));
}

void got_line (string s) {
  in_force = 0;
  VL ("cmd " + oid + " " + enc (s));
  run (enc (s));
}

void force (string text) { in_force++; command (text); in_force--; }
// input_to()/get_char() act on command_giver; command() makes this body the command giver
void relay (string op) { relaying++; command ("zzop " + op); relaying--; }

void net_dead () { }

void do_op (string s) {
  string *w = explode (s, ",");
  object o;
  int r;
  // a script may go on running in a body the connection has left (exec in a nested command() call): the driver's
  // command_giver is then that stale body; let the body that holds the connection now execute input_to / get_char
  o = "/c12/reg"->get (oid);
  if (o && o != this_object () && (w[0] == "gc" || w[0] == "it" || w[0] == "itn")) { o->relay (s); return; }
  switch (w[0]) {
  case "kick":
    o = "/c12/reg"->get (w[1]);
    VL ("kick " + oid + " " + w[1] + " " + (o ? 1 : 0));
    if (o) destruct (o);
    break;
  case "drop":
    o = "/c12/reg"->get (w[1]);
    r = (o && interactive (o)) ? 1 : 0;
    VL ("drop " + oid + " " + w[1] + " " + r);
    if (r) remove_interactive (o);
    break;
  case "ecmd":
    o = "/c12/reg"->get (w[1]);
    VL ("force " + oid + " " + w[1] + " =" + w[2] + " " + (o ? 1 : 0));
    if (o) o->force (w[2]);
    break;
  case "gc":
    r = get_char ("got_char");
    VL ("gc " + (this_player () ? this_player ()->query_oid () : "?") + " " + r);
    break;
  case "itn":   // input_to with I_NOECHO (password prompt)
    r = input_to ("got_line", 1);
    VL ("it " + (this_player () ? this_player ()->query_oid () : "?") + " " + r);
    break;
  case "it":
    r = input_to ("got_line");
    VL ("it " + (this_player () ? this_player ()->query_oid () : "?") + " " + r);
    break;
  case "exec":  // the connection of this user moves to a fresh body (exec efun); the old body stays behind, not interactive
    o = "/c12/reg"->get (oid);
    r = (o && interactive (o)) ? 1 : 0;
    VL ("exec " + oid + " " + r);
    if (r) {
      object nb = new ("/c12/user.c");
      nb->adopt (oid);
      exec (nb, o);
    }
    break;
  case "err":   // uncaught LPC error: longjmp to the top of backend(), the running cycle is aborted
    VL ("throw " + oid);
    error ("c12-throw\n");
    break;
  default:
    VL ("badop " + s);
  }
}
