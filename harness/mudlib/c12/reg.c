// C12 registry: user ids -> objects, (user id + " " + encoded text) -> script
mapping obs = ([]);
mapping scripts = ([]);
void reg (string oid, object ob) { obs[oid] = ob; }
object get (string oid) { return obs[oid]; }
void set_script (string user, string key, string ops) { scripts[user + " " + key] = ops; }
string get_script (string k) { return scripts[k]; }
