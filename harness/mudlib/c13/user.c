// C13 user object: the harness attaches a hand-built interactive_t to a clone of this object.
// What the driver would pass to process_input / terminal_type / window_size / telnet_suboption is
// logged on the C side (c13_apply), so nothing is needed here beyond existing.
#include "/include/vcommon.h"
string oid = "?";
void create () { seteuid (getuid ()); }
void set_oid (string s) { oid = s; }
void net_dead () { }
// target of get_char() / input_to() in the `getchar` / `inputto` / `serve` steps (the argument is logged on the C side as `cmd`)
void gc_cb (string s) { }
