// registry: harness-level object ids -> objects (so LPC ops can name other objects)
mapping obs = ([]);
void reg (string oid, object ob) { obs[oid] = ob; }
object get (string oid) { return obs[oid]; }
string oid_of (object ob) { foreach (string k, object o in obs) if (o == ob) return k; return "?"; }
