// C14 user object: receive_snoop logs (length, position-weighted checksum) of the text the driver forwards;
// do_flush calls the flush_messages() efun (with this object / without argument = every user)
#include "/include/vcommon.h"
string oid = "?";
void create () { seteuid (getuid ()); }
void set_oid (string s) { oid = s; }
void logon () { }
void net_dead () { }
void receive_snoop (string s) {
  int i, n, sum;
  n = strlen (s);
  sum = 0;
  for (i = 0; i < n; i++)
    sum = (sum + (i + 1) * (s[i] & 255)) % 65521;
  VL("u" + oid + " snoop " + n + " " + sum);
}
void do_flush (string all) {
  if (all == "all") flush_messages ();
  else flush_messages (this_object ());
}
