// C14 user object: receive_snoop logs (length, position-weighted checksum) of the text the driver forwards and then
// carries out the next scripted reaction (add_react), so that add_message() is re-entered from inside add_message():
//   e     echo the first 2000 bytes of the text to this user (receive)
//   t<j>  tell_object (user j, "[<me>><j>]\n")        (only if user j is still interactive)
//   d<j>  destruct (user j)                           (only if user j is still interactive; j may be this user)
//   x     error ()  (contained by the safe_apply in receive_snoop)   n (or anything else)  nothing
// do_flush calls the flush_messages() efun (with this object / without argument = every user)
#include "/include/vcommon.h"
string oid = "?";
string *react = ({ });
void create () { seteuid (getuid ()); }
void set_oid (string s) { oid = s; }
string query_oid () { return oid; }
void add_react (string s) { react += explode (s, ","); }
void logon () { }
void net_dead () { }
object find_user (string j) {
  object *us;
  int i;
  us = users ();
  for (i = 0; i < sizeof (us); i++)
    if ((string) us[i]->query_oid () == j) return us[i];
  return 0;
}
void receive_snoop (string s) {
  int i, n, sum;
  string tok;
  object ob;
  n = strlen (s);
  sum = 0;
  for (i = 0; i < n; i++)
    sum = (sum + (i + 1) * (s[i] & 255)) % 65521;
  VL("u" + oid + " snoop " + n + " " + sum);
  if (!sizeof (react)) return;
  tok = react[0];
  react = react[1..];
  if (tok == "e") {
    if (n > 2000) s = s[0..1999];
    receive (s);
  } else if (tok[0] == 't') {
    ob = find_user (tok[1..]);
    if (ob) tell_object (ob, "[" + oid + ">" + tok[1..] + "]\n");
  } else if (tok[0] == 'd') {
    ob = find_user (tok[1..]);
    if (ob) destruct (ob);
  } else if (tok == "x") {
    error ("react\n");
  }
}
void do_flush (string all) {
  if (all == "all") flush_messages ();
  else flush_messages (this_object ());
}
