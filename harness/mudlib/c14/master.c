// C14 master: like the base master, but connect() hands out /c14/user.c (logs snoop forwarding, calls flush_messages)
#include "/include/vcommon.h"

private object connect (int port) { return new ("/c14/user.c"); }
string creator_file (string file) { return "Root"; }
string get_root_uid () { return "Root"; }
string get_bb_uid () { return "Backbone"; }
int valid_seteuid (object ob, string newuid) { return 1; }
int valid_read (string path, mixed who, string fn) { return 1; }
int valid_write (string path, mixed who, string fn) { return 1; }
int valid_snoop (object snooper, object snoopee) { return 1; }

string error_handler (mapping m, int caught) {
  string e = m["error"];
  if (!stringp(e)) e = "?";
  VL((caught ? "caught " : "err ") + e);
  return "";
}
