// C04: one LPC function per value constructor; each returns sizeof / strlen of the value it built
// (the harness prints `sz ok <n>`, or `sz err` when an LPC error reached it).  Argument conventions are those of
// `szCmd` in lean/NV/C04/Drive.lean.
#include "/include/vcommon.h"
#define T10 1,2,3,4,5,6,7,8,9,10
#define T100 T10,T10,T10,T10,T10,T10,T10,T10,T10,T10
#define P(a) a:a
#define P4(a) P(a),P(a+1),P(a+2),P(a+3)
#define P12(a) P4(a),P4(a+4),P4(a+8)
#define P100(a) P12(a),P12(a+12),P12(a+24),P12(a+36),P12(a+48),P12(a+60),P12(a+72),P12(a+84),P4(a+96)

void create () { seteuid (getuid ()); }
void set_oid (string s) { }

string str (int n, string c) { return repeat_string (c, n); }
mapping mk (int from, int n) { mapping m = ([ ]); int i; for (i = 0; i < n; i++) m[from + i] = 1; return m; }
mapping mkid (int from, int n) { mapping m = ([ ]); int i; for (i = 0; i < n; i++) m[from + i] = from + i; return m; }

int sz_allocate (int n) { return sizeof (allocate (n)); }
int sz_aggregate (int n) {
  mixed *x;   // (sizeof of a literal is folded by the compiler: build the value first)
  switch (n) {
  case 0: x = ({ }); return sizeof (x);
  case 3: x = ({ 1, 2, 3 }); return sizeof (x);
  case 10: x = ({ T10 }); return sizeof (x);
  case 100: x = ({ T100 }); return sizeof (x);
  case 101: x = ({ T100, 101 }); return sizeof (x);
  case 210: x = ({ T100, T100, T10 }); return sizeof (x);
  }
  error ("sz_aggregate: unsupported size\n");
}
int sz_add_array (int a, int b) { mixed *x = allocate (a), *y = allocate (b); return sizeof (x + y); }
int sz_add_array_self (int a) { mixed *x = allocate (a); x += x; return sizeof (x); }
int sz_slice (int n, int lo, int hi) { mixed *x = allocate (n); return sizeof (x[lo..hi]); }
int sz_explode (int pieces) { string s = pieces <= 0 ? "" : str (pieces - 1, "a,") + "a"; return sizeof (explode (s, ",")); }
int sz_explode0 (int chars) { return sizeof (explode (str (chars, "a"), "")); }
int sz_allocate_buffer (int n) { return sizeof (allocate_buffer (n)); }
int sz_add_buffer (int a, int b) { buffer x = allocate_buffer (a), y = allocate_buffer (b); return sizeof (x + y); }
int sz_map_insert (int count, int isnew) { mapping m = mk (0, count); if (isnew) m[count] = 1; else if (count) m[0] = 2; return sizeof (m); }
int sz_map_aggregate (int n) {
  mapping m;
  switch (n) {
  case 0: m = ([ ]); return sizeof (m);
  case 3: m = ([ 1:1, 2:2, 3:3 ]); return sizeof (m);
  case 12: m = ([ P12(0) ]); return sizeof (m);
  case 100: m = ([ P100(0) ]); return sizeof (m);
  case 101: m = ([ P100(0), 100:100 ]); return sizeof (m);
  }
  error ("sz_map_aggregate: unsupported size\n");
}
int sz_map_add (int c1, int c2, int common) { mapping a = mk (0, c1), b = mk (c1 - common, c2); return sizeof (a + b); }
int sz_join (int a, int b) { string x = str (a, "x"), y = str (b, "y"); return strlen (x + y); }
int sz_join_eq (int a, int b) { string x = str (a, "x"), y = str (b, "y"); x += y; return strlen (x); }
int sz_join_self (int a, int k) { string x = str (a, "x"); int i; for (i = 0; i < k; i++) x += x; return strlen (x); }
int sz_join_num (int a, int n) { string x = str (a, "x"); return strlen (x + n); }
int sz_num_join (int n, int b) { string y = str (b, "y"); return strlen (n + y); }
int sz_repeat (int len, int count) { return strlen (repeat_string (str (len, "x"), count)); }
int sz_implode (int n, int m, int d) {
  string *a = allocate (n); string e = str (m, "x"), del = str (d, ","); int i;
  for (i = 0; i < n; i++) a[i] = e;
  return strlen (implode (a, del));
}
int sz_replace (int a, int b, int r) {
  string s = str (a, "c") + str (b, "ab"); mixed x = replace_string (s, "ab", str (r, "x"));
  return stringp (x) ? strlen (x) : -1;
}
int sz_sprintf (int a, int b) { string x = str (a, "x"), y = str (b, "y"); return strlen (sprintf ("%s%s", x, y)); }

// the budget as LPC code can set it: set_eval_limit (n) stores (int) n as MaxEvaluationCost (n other than 0, 1, -1)
int set_limit (int n) { set_eval_limit (n); return set_eval_limit (1); }

// copies and parts of operands
mixed *iota (int n) { mixed *a = allocate (n); int i, m = sizeof (a); for (i = 0; i < m; i++) a[i] = i; return a; }
int keep_lt (int v, int kept) { return v < kept; }
int g_groups = 0;
int group_of (int v) { return (g_groups > 0 ? v % g_groups : v) + 1; }   // (a result equal to the skip value 0 drops the element)
int ident (int v) { return v; }
int sz_copy_array (int n) { return sizeof (copy (allocate (n))); }
int sz_copy_mapping (int n) { return sizeof (copy (mk (0, n))); }
int sz_sort_array (int n) { return sizeof (sort_array (iota (n), -1)); }
int sz_map_array (int n) { return sizeof (map_array (iota (n), "ident", this_object ())); }
int sz_lower_case (int n) { return strlen (lower_case (str (n, "X"))); }
int sz_filter_array (int n, int kept) { return sizeof (filter_array (iota (n), "keep_lt", this_object (), kept)); }
int sz_unique_array (int n, int groups) { g_groups = groups; return sizeof (unique_array (iota (n), (: group_of :))); }
int sz_array_sub (int n, int k) { return sizeof (iota (n) - iota (k)); }
int sz_array_and (int n, int k) { return sizeof (iota (n) & iota (k)); }
int sz_keys (int n) { return sizeof (keys (mk (0, n))); }
int sz_values (int n) { return sizeof (values (mk (0, n))); }
int sz_allocate_mapping (int n) { return sizeof (allocate_mapping (n)); }
int sz_sprintf_pad (int w, int n) { return strlen (sprintf ("%*s", w, str (n, "x"))); }

// count bookkeeping across partially applied operations: a sequence of inserts and in-place `m += m2` on one
// mapping, every operation inside catch; returns "<k|e per op>:<sizeof (m)>/<nodes reached by iteration>"
// ops (comma separated):  i<key><n|o>   insert key (new / old)      a<from>:<n>:<new>   m += ([ from .. from+n-1 ])
//                         c<lo>:<n>:<kept>  m *= ([ lo .. lo+n-1 ])     cs:<kept>  m *= m     (values are the keys)
mapping gm;
string mapseq (string ops) {
  string res = ""; string op; int n = 0; mixed k, v;
  gm = ([ ]);
  foreach (op in explode (ops, ",")) {
    mixed e;
    if (op[0] == 'i') {
      int key = to_int (op[1..<2]);
      e = catch (gm[key] = key);
    } else if (op[0] == 'c') {
      // c<lo>:<n>:<kept>  gm *= ([ lo .. lo+n-1 ])     cs:<kept>  gm *= gm   (every value of gm is its key)
      string *w = explode (op[1..], ":");
      if (w[0] == "s") e = catch (gm *= gm);
      else { mapping m2 = mkid (to_int (w[0]), to_int (w[1])); e = catch (gm *= m2); }   // (identity values: the kept nodes keep value = key)
    } else {
      string *w = explode (op[1..], ":");
      mapping m2 = mkid (to_int (w[0]), to_int (w[1]));
      e = catch (gm += m2);
    }
    res += e ? "e" : "k";
  }
  foreach (k, v in gm) n++;
  return res + ":" + sizeof (gm) + "/" + n;
}
int keep_key_lt (int k, int v, int kept) { return k < kept; }
int ident2 (int k, int v) { return v; }
int sz_filter_mapping (int n, int kept) { return sizeof (filter_mapping (mk (0, n), "keep_key_lt", this_object (), kept)); }
int sz_map_mapping (int n) { return sizeof (map_mapping (mk (0, n), "ident2", this_object ())); }

// ---- round 4: the efuns that were on the NOT ANALYSED list, and mapping * mapping
// what sizeof () says against what an iteration finds (a `mismatch` line is a verdict of the oracle)
int cnt (mapping m) { int n = 0; mixed k, v; foreach (k, v in m) n++; return n; }
int chk (mapping m) {
  int n;
  if (catch (n = cnt (m))) return sizeof (m);   // (the iteration needs an array of the keys: not possible above MaxArraySize)
  if (n != sizeof (m)) VL ("mismatch sizeof=" + sizeof (m) + " nodes=" + n);
  return sizeof (m);
}
// a = ([ 0:0 .. c1-1:c1-1 ]), b has the keys c1-common .. c1-common+c2-1: a * b keeps the nodes of a whose VALUE is a key of b
int sz_map_compose (int c1, int c2, int common) { mapping a = mkid (0, c1), b = mk (c1 - common, c2); return chk (a * b); }
int sz_map_compose_eq (int c1, int c2, int common) { mapping a = mkid (0, c1), b = mk (c1 - common, c2); a *= b; return chk (a); }
// save_variable: the text of ({ 0, ... }) is "({" + "0," * n + "})"; of a string: quotes + one backslash per quote character
int sz_save_array (int n) { return strlen (save_variable (allocate (n))); }
int sz_save_string (int n, int esc) { return strlen (save_variable (str (n, esc ? "\"" : "x"))); }
int sz_save_mapping (int n) { return strlen (save_variable (mk (0, n < 10 ? n : 10))); }
// d arrays inside each other (svalue_save_size / save_svalue / copy () recurse once per level)
mixed nest (int d) { mixed a = ({ }); int i; for (i = 1; i < d; i++) a = ({ a }); return a; }
int sz_save_nested (int d) { return strlen (save_variable (nest (d))); }
int sz_copy_nested (int d) { mixed a = copy (nest (d)); int n = 1; while (sizeof (a)) { a = a[0]; n++; } return n; }
int sz_restore_nested (int d) { mixed a = restore_variable (str (d - 1, "({") + "({})" + str (d - 1, ",})")); int n = 1; while (sizeof (a)) { a = a[0]; n++; } return n; }
int sz_restore_array (int n) { return sizeof (restore_variable ("({" + str (n, "0,") + "})")); }
int sz_restore_mapping (int n) { string s = "(["; int i; for (i = 0; i < n; i++) s += i + ":1,"; return chk (restore_variable (s + "])")); }
int sz_regexp (int n, int matched, int flag) {
  string *a = allocate (n); int i, m = sizeof (a);
  for (i = 0; i < m; i++) a[i] = i < matched ? "a" : "b";
  return sizeof (regexp (a, "a", flag));
}
int sz_reg_assoc (int m) { mixed *r = reg_assoc (str (m, "a"), ({ "a" }), ({ 1 })); return sizeof (r[0]) == sizeof (r[1]) ? sizeof (r[0]) : -2; }
// replace_string with a one character pattern and a longer replacement (the `plen == 1` scan): "c" * a + "a" * b, "a" -> r characters
int sz_replace1 (int a, int b, int r) {
  string s = str (a, "c") + str (b, "a"); mixed x = replace_string (s, "a", str (r, "x"));
  return stringp (x) ? strlen (x) : -1;
}
// regexp backtracking: "(a|aa)*b" against "a" * n + "cb" visits about 1.6^n nodes; matching is charged against the evaluation cost
int rx (int n) { regexp (({ str (n, "a") + "cb" }), "(a|aa)*b"); return 0; }
// unique_mapping (array, f): one key per distinct result of f
int sz_unique_mapping (int n, int groups) { g_groups = groups; return chk (unique_mapping (iota (n), (: group_of :))); }
// d mappings inside each other (as values): svalue_save_size has its own depth test for mappings
mixed nestm (int d) { mixed m = ([ ]); int i; for (i = 1; i < d; i++) m = ([ 1 : m ]); return m; }
int sz_save_nested_map (int d) { return strlen (save_variable (nestm (d))); }
// how deep a value save_variable accepted was nested (arrays / mappings): judged against MAX_SAVE_SVALUE_DEPTH
int sz_save_depth (int d) { save_variable (nest (d)); return d < 1 ? 1 : d; }
int sz_save_depth_map (int d) { save_variable (nestm (d)); return d < 1 ? 1 : d; }
