#include "/include/vcommon.h"
void create () { seteuid (getuid ()); }
void set_oid (string s) { }
string kind (mixed e) {
  if (!stringp (e)) return "thrown";
  if (strsrch (e, "Too long evaluation") >= 0) return "cost";
  if (strsrch (e, "Too deep recursion.") >= 0 && strsrch (e, "catch") < 0) return "deep";
  if (strsrch (e, "Stack overflow") >= 0) return "stack";
  if (strsrch (e, "Can't catch eval cost") >= 0) return "cc-cost";
  if (strsrch (e, "Can't catch too deep") >= 0) return "cc-deep";
  return "plain";
}
int spin () { while (1) ; return 0; }
int rec () { return rec () + 1; }
int c1spin () { mixed e = catch (spin ()); VL ("after-catch " + kind (e)); return 1; }
int c2spin () { mixed e = catch (catch (spin ())); VL ("after-catch " + kind (e)); return 2; }
int c2rec () { mixed e = catch (catch (rec ())); VL ("after-catch " + kind (e)); return 2; }
int c1rec () { mixed e = catch (rec ()); VL ("after-catch " + kind (e)); return 2; }
int forever2 () { int n = 0; while (1) { catch (catch (spin ())); n++; VL ("round " + n); if (n > 3) return n; } }
int strdouble (int n) { string s = "x"; int i; for (i = 0; i < n; i++) s += s; return strlen (s); }
int stradd (int n) { string s = "x"; int i; for (i = 0; i < n; i++) s = s + s; return strlen (s); }
int rep (string s, int n) { return strlen (repeat_string (s, n)); }
int loopn (int n) { int i; for (i = 0; i < n; i++) ; return i; }
int imp (int n, int m) { string *a = allocate (n); int i; for (i = 0; i < n; i++) a[i] = repeat_string ("x", m); return strlen (implode (a, "")); }
int rpl (int a, int b, int r) { string s = repeat_string ("c", a) + repeat_string ("ab", b); mixed x = replace_string (s, "ab", repeat_string ("x", r)); return stringp (x) ? strlen (x) : -1; }
int pcto () { int i; for (i = 0; i < 100000; i++) sprintf ("%O", this_object ()); return i; }
int spf (int n) { string s = repeat_string ("x", n); return strlen (sprintf ("%s%s", s, s)); }
int crec () { mixed e = catch (crec ()); if (e) VL ("after-catch " + kind (e)); return 1; }
int c1rec2 () { return crec (); }
int bufsz (int n) { return sizeof (allocate_buffer (n)); }
// c01's observation: sort_array by function name hashes the name once per comparison and executes no instruction
int sortname (int n, int len) { mixed *a = allocate (n); string f = repeat_string ("f", len); int t = time_expression { sort_array (a, f, this_object ()); }; return t; }
// round 4 probes: values nested deeper than any C recursion limit
int deepfp (int n) { function f = (: spin :); int i; for (i = 0; i < n; i++) f = (: call_other, this_object (), "kind", f :); return strlen (sprintf ("%O", f)); }
int deeparr (int n) { mixed a = ({ }); int i; for (i = 0; i < n; i++) a = ({ a }); a = 0; return n; }
int deeparr_eq (int n) { mixed a = ({ }), b = ({ }); int i; for (i = 0; i < n; i++) { a = ({ a }); b = ({ b }); } return a == b; }
int rpl1 (int n, int r) { mixed x = replace_string (repeat_string ("a", n), "a", repeat_string ("x", r)); return stringp (x) ? strlen (x) : -1; }
int rpl0 (int n, int r) { mixed x = replace_string (repeat_string ("ab", n), "ab", repeat_string ("x", r)); return stringp (x) ? strlen (x) : -1; }
int rplmax (int n, int r, int first, int last) { mixed x = replace_string (repeat_string ("ab", n), "ab", repeat_string ("x", r), first, last); return stringp (x) ? strlen (x) : -1; }
int deepfp_nofmt (int n) { function f = (: spin :); int i; for (i = 0; i < n; i++) f = (: call_other, this_object (), "kind", f :); f = 0; return n; }
function gfp;
int deepfp_keep (int n) { function f = (: spin :); int i; for (i = 0; i < n; i++) f = (: call_other, this_object (), "kind", f :); gfp = f; return n; }
int fmt_kept () { return strlen (sprintf ("%O", gfp)); }
// round 5 probes: time of one efun call
int rx (int n, string pat) { string s = repeat_string ("a", n); int t = time_expression { regexp (({ s }), pat); }; return t; }
int rx2 (int n, string pat) { string s = repeat_string ("a", n) + "cb"; int t = time_expression { regexp (({ s }), pat); }; return t; }
int padt (int w) { int t = time_expression { catch (sprintf ("%*s", w, "x")); }; return t; }
int padt2 (int w) { int t = time_expression { catch (sprintf ("%-*s|", w, "x")); }; return t; }
int uniq (int n) { mixed *a = allocate (n); int i, t; for (i = 0; i < n; i++) a[i] = i; t = time_expression { unique_array (a, (: $1 :)); }; return t; }
int expl (int n) { string s = repeat_string ("a,", n); int t = time_expression { explode (s, ","); }; return t; }
