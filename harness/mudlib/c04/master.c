// C04 verification master: permissive; error_handler logs every error as a `#h` line (dropped from the compared
// trace, kept for debugging).  `set_handler_catches(1)` makes the handler itself execute a catch() that completes
// normally - a mudlib error handler that uses catch is ordinary LPC.
#include "/include/vcommon.h"

int handler_catches = 0;
int object_name_mode = 0;
void set_handler_catches (int v) { handler_catches = v; }
void set_object_name_mode (int v) { object_name_mode = v; }

private object connect (int port) { return new ("/vuser.c"); }
string creator_file (string file) { return "Root"; }
string get_root_uid () { return "Root"; }
string get_bb_uid () { return "Backbone"; }
int valid_seteuid (object ob, string newuid) { return 1; }
int valid_read (string path, mixed who, string fn) { return 1; }
int valid_write (string path, mixed who, string fn) { return 1; }
int valid_override (string file, string efun_name) { return 1; }

int hc_nop () { return 0; }

// sprintf ("%O", ob) applies this through safe_apply_master_ob: a generated program that defines safe_body ()
// gets it called here, i.e. inside a safe apply made by an efun
string object_name (object ob) {
  if (object_name_mode == 1) while (1) ;
  if (ob && function_exists ("safe_body", ob)) ob->safe_body ();
  return "obj";
}

string error_handler (mapping m, int caught) {
  string e = m["error"];
  if (handler_catches == 1 || handler_catches == 2) catch (hc_nop ());
  // mode 2: a handler that completes a catch () and then fails itself (a log file it cannot write ...); mode 3: fails at once
  if (handler_catches >= 2) error ("error_handler failed\n");
  if (!stringp (e)) e = "?";
  VL ("#h " + (caught ? "caught " : "err ") + e);
  return "";
}
